//! C01 — reliable ordered data channels: exactly once, in order.
//! (a) function level (hook H2): `build_gap_ack_blocks_from_map`, `apply_sack_to_sent_queue`,
//!     `InboundStream`, `send_data_raw` fragmentation, each against its Lean model;
//! (b) endpoint level (hook H1): two real `SctpTransport`s joined by the fault-script link; each
//!     endpoint's own trace is replayed through the Lean endpoint model (SACKs emitted, cumulative
//!     TSN, receive queue, channel events);
//! (c) the property's oracle on the implementation: on every ordered reliable channel the delivered
//!     sequence is a bytes-exact prefix of the submitted one, and complete once the script is exhausted.
pub mod link;

use crate::{Args, Rng, Run, hex};
use bytes::Bytes;
use link::*;
use rustrtc::transports::sctp::{DataChannelEvent, SctpState};
use rustrtc::verif_hooks::sctp as hook;
use std::time::Duration;

// ------------------------------------------------------------------------------------------
// canonical text shared with the Lean driver

pub fn fnv64(b: &[u8]) -> u64 {
    let mut h = 0xcbf29ce484222325u64;
    for x in b { h ^= *x as u64; h = h.wrapping_mul(0x100000001b3); }
    h
}
pub fn show_bytes(b: &[u8]) -> String { if b.len() <= 24 { hex(b) } else { format!("{}.{}", b.len(), fnv64(b)) } }
pub fn show_gaps(g: &[(u16, u16)]) -> String {
    if g.is_empty() { "-".into() } else { g.iter().map(|(a, b)| format!("{a}-{b}")).collect::<Vec<_>>().join(",") }
}
pub fn show_u32s(t: &[u32]) -> String {
    if t.is_empty() { "-".into() } else { t.iter().map(|x| x.to_string()).collect::<Vec<_>>().join(",") }
}

// ------------------------------------------------------------------------------------------
// (a) function level

fn gap_cases(run: &mut Run, rng: &mut Rng, thorough: bool) {
    // exhaustive: every subset of 6 TSNs around a base, every cumulative position near it
    for base in [100u32, 0xFFFF_FFFD, 0x7FFF_FFFE, 0] {
        for mask in 0u32..64 {
            let held: Vec<u32> = (0..6).filter(|i| mask >> i & 1 == 1).map(|i| base.wrapping_add(i)).collect();
            for dc in 0u32..8 {
                let cum = base.wrapping_add(dc).wrapping_sub(3);
                emit_gap(run, &held, cum);
            }
        }
    }
    run.count_n("gap_exhaustive", 4 * 64 * 8);
    let n = if thorough { 20_000 } else { 3_000 };
    for _ in 0..n {
        let r0 = rng.next() as u32;
        let base = *rng.pick(&[5u32, 0xFFFF_FF00, 0x7FFF_FF00, 0xFFFF_0000, r0]);
        let big = rng.chance(1, 10);
        let cnt = rng.range(0, if big { 80 } else { 12 }) as usize;
        let spread = *rng.pick(&[4u64, 16, 64, 70_000, 1 << 31]);
        let held: Vec<u32> = (0..cnt).map(|_| base.wrapping_add(rng.below(spread) as u32)).collect();
        let cum = base.wrapping_add(rng.below(8) as u32).wrapping_sub(4);
        emit_gap(run, &held, cum);
    }
    run.count_n("gap_random", n);
}
fn emit_gap(run: &mut Run, held: &[u32], cum: u32) {
    // the receive map has unique keys
    let mut held: Vec<u32> = held.to_vec();
    held.sort(); held.dedup();
    let held = &held[..];
    let out = hook::gap_blocks(held, cum);
    // oracle: a block only names TSNs that are held
    for (s, e) in &out {
        for o in *s..=*e {
            if !held.contains(&cum.wrapping_add(o as u32)) {
                run.fail("gap:block-names-tsn-not-held", &format!("gap {cum} {}", show_u32s(held)), &format!("offset {o}"));
            }
        }
    }
    run.case("gap", &format!("{cum} {}", show_u32s(held)), &show_gaps(&out), !out.is_empty());
}

fn rec_text(r: &hook::VRecord) -> String {
    format!("{},{},{},{},{},{},{},{},{},{},{}", r.tsn, r.len, r.sent_ms, r.transmit_count, r.missing_reports,
        r.abandoned as u8, r.fast_retransmit as u8, r.needs_retransmit as u8,
        r.fast_retransmit_ms.map(|v| v.to_string()).unwrap_or("-".into()), r.in_flight as u8, r.acked as u8)
}
fn mk_rec(tsn: u32, len: usize) -> hook::VRecord {
    hook::VRecord { tsn, len, sent_ms: 0, transmit_count: 1, missing_reports: 0, abandoned: false, fast_retransmit: false,
        needs_retransmit: false, fast_retransmit_ms: None, in_flight: true, acked: false, stream_id: 0, ssn: 0, flags: 3,
        max_retransmits: None, has_expiry: false }
}
fn emit_sack(run: &mut Run, recs: &[hook::VRecord], cum: u32, gaps: &[(u16, u16)], now: u64, count: bool, maxrtx: u32) {
    // the map keeps the last record per TSN, in numeric order
    let mut m = std::collections::BTreeMap::new();
    for r in recs { m.insert(r.tsn, r.clone()); }
    let q: Vec<hook::VRecord> = m.into_values().collect();
    let (after, o) = hook::apply_sack(&q, cum, gaps, now, count, maxrtx);
    let input = format!("{cum} {} {now} {} {maxrtx} {}", show_gaps(gaps), count as u8,
        q.iter().map(rec_text).collect::<Vec<_>>().join(" "));
    let rtt = if o.rtt_samples_us.is_empty() { "-".into() } else {
        o.rtt_samples_us.iter().map(|u| (u / 1000).to_string()).collect::<Vec<_>>().join(",") };
    let rx = if o.retransmit.is_empty() { "-".into() } else {
        o.retransmit.iter().map(|(t, l)| format!("{t}:{l}")).collect::<Vec<_>>().join(",") };
    let out = format!("fr={} bc={} bg={} rtt={rtt} rx={rx} hm={} mr={} | {}", o.flight_reduction, o.bytes_acked_by_cum_tsn,
        o.bytes_acked_by_gap, o.head_moved as u8, o.max_reported, after.iter().map(rec_text).collect::<Vec<_>>().join(" "));
    // oracle (sack_sound): a record leaves the queue / loses its payload only if the SACK covers its TSN
    let covered = |t: u32| -> bool {
        (t.wrapping_sub(cum) as i32) <= 0 || gaps.iter().any(|(s, e)| {
            let (s, e) = (cum.wrapping_add(*s as u32), cum.wrapping_add(*e as u32));
            if s <= e { s <= t && t <= e } else { t >= s || t <= e } })
    };
    for r in &q {
        let now_rec = after.iter().find(|x| x.tsn == r.tsn);
        let dropped = match now_rec { None => true, Some(x) => x.acked && !r.acked };
        if dropped && !covered(r.tsn) {
            run.fail("sack:record-dropped-without-covering-ack", &format!("sack {input}"), &format!("tsn {}", r.tsn));
        }
    }
    let nontrivial = after != q;
    if !o.retransmit.is_empty() { run.count("sack_fast_retransmit"); }
    if after.len() < q.len() { run.count("sack_cum_removed"); }
    if o.bytes_acked_by_gap > 0 { run.count("sack_gap_acked"); }
    if q.len() > 0 && after == q && o.max_reported == 0 && cum != 0 { run.count("sack_late_filtered"); }
    run.case("sack", &input, &out, nontrivial);
}
fn sack_cases(run: &mut Run, rng: &mut Rng, thorough: bool) {
    // exhaustive small: 4 consecutive TSNs in flight, every cum near them, every single gap block shape
    for base in [100u32, 0xFFFF_FFFE, 0x7FFF_FFFE, 0] {
        let q: Vec<hook::VRecord> = (0..4).map(|i| mk_rec(base.wrapping_add(i), 100 + i as usize)).collect();
        for dc in 0u32..8 {
            let cum = base.wrapping_add(dc).wrapping_sub(3);
            emit_sack(run, &q, cum, &[], 10, true, 8);
            for s in 0u16..6 { for e in 0u16..6 {
                emit_sack(run, &q, cum, &[(s, e)], 10, true, 8);
            } }
        }
    }
    run.count_n("sack_exhaustive", 4 * 8 * 37);
    let n = if thorough { 60_000 } else { 8_000 };
    for _ in 0..n {
        let r0 = rng.next() as u32;
        let base = *rng.pick(&[100u32, 0xFFFF_FFF8, 0x7FFF_FFF8, 0, r0]);
        let cnt = rng.range(0, 7) as usize;
        let mut recs = vec![];
        for _ in 0..cnt {
            let mut r = mk_rec(base.wrapping_add(rng.below(10) as u32), rng.range(0, 1200) as usize);
            r.sent_ms = rng.below(100);
            r.transmit_count = *rng.pick(&[1u32, 1, 1, 2, 3, 8, 9]);
            r.missing_reports = *rng.pick(&[0u8, 0, 1, 2, 2, 3, 254, 255]);
            r.abandoned = rng.chance(1, 8);
            r.fast_retransmit = rng.chance(1, 4);
            r.needs_retransmit = rng.chance(1, 6);
            r.fast_retransmit_ms = if rng.chance(1, 3) { Some(rng.below(200)) } else { None };
            r.in_flight = rng.chance(3, 4);
            r.acked = rng.chance(1, 5);
            if r.acked && rng.chance(1, 2) { r.len = 0; }
            recs.push(r);
        }
        let cum = base.wrapping_add(rng.below(14) as u32).wrapping_sub(3);
        let ng = *rng.pick(&[0usize, 0, 1, 1, 2, 3]);
        let gaps: Vec<(u16, u16)> = (0..ng).map(|_| {
            let s = rng.below(10) as u16;
            let e = if rng.chance(1, 10) { s.wrapping_sub(1) } else { s + rng.below(4) as u16 };
            if rng.chance(1, 30) { (65534, 65535) } else { (s, e) }
        }).collect();
        emit_sack(run, &recs, cum, &gaps, 100 + rng.below(150), rng.chance(4, 5), *rng.pick(&[8u32, 8, 2, 0]));
    }
    run.count_n("sack_random", n);
}

// histories of SACKs through the real `handle_sack` (hook: verif_handle_sack on a loaded sender)

fn rec_text_n(r: &hook::VRecord) -> String {
    let mut r = r.clone();
    if r.sent_ms >= 50_000 { r.sent_ms = 0; }
    r.fast_retransmit_ms = r.fast_retransmit_ms.map(|v| if v >= 50_000 { 0 } else { v });
    rec_text(&r)
}

pub struct HsackCase { pub pc: u32, pub last_sig: u64, pub maxrtx: u32, pub held: Vec<u32>, pub q: Vec<hook::VRecord>, pub sacks: Vec<(u32, u32, Vec<(u16, u16)>)> }

pub fn hsack_text(c: &HsackCase) -> String {
    format!("{} {} {} {} {} / {}", c.pc, c.last_sig, c.maxrtx, show_u32s(&c.held),
        if c.q.is_empty() { "-".to_string() } else { c.q.iter().map(rec_text).collect::<Vec<_>>().join(" ") },
        c.sacks.iter().map(|(c, a, g)| format!("{c};{a};{}", show_gaps(g))).collect::<Vec<_>>().join(" "))
}

pub fn hsack_parse(toks: &[&str]) -> Option<HsackCase> {
    if toks.len() < 6 { return None; }
    let held: Vec<u32> = if toks[3] == "-" { vec![] } else { toks[3].split(',').filter_map(|t| t.parse().ok()).collect() };
    let slash = toks.iter().position(|t| *t == "/")?;
    let q: Vec<hook::VRecord> = toks[4..slash].iter().filter(|t| **t != "-").filter_map(|t| { let f: Vec<&str> = t.split(',').collect(); if f.len() != 11 { return None; }
        let mut r = mk_rec(f[0].parse().ok()?, f[1].parse().ok()?); r.sent_ms = f[2].parse().ok()?; r.transmit_count = f[3].parse().ok()?; r.missing_reports = f[4].parse().ok()?;
        r.abandoned = f[5] == "1"; r.fast_retransmit = f[6] == "1"; r.needs_retransmit = f[7] == "1"; r.fast_retransmit_ms = f[8].parse().ok(); r.in_flight = f[9] == "1"; r.acked = f[10] == "1"; Some(r) }).collect();
    let sacks = toks[slash + 1..].iter().filter_map(|t| { let f: Vec<&str> = t.split(';').collect(); if f.len() != 3 { return None; }
        let gaps: Vec<(u16, u16)> = if f[2] == "-" { vec![] } else { f[2].split(',').filter_map(|g| { let (a, b) = g.split_once('-')?; Some((a.parse().ok()?, b.parse().ok()?)) }).collect() };
        Some((f[0].parse().ok()?, f[1].parse().ok()?, gaps)) }).collect();
    Some(HsackCase { pc: toks[0].parse().ok()?, last_sig: toks[1].parse().ok()?, maxrtx: toks[2].parse().ok()?, held, q, sacks })
}

/// run one history on the real sender; oracle: a record leaves the queue or loses its payload only if
/// the receiver (whose final holdings are `held`) has that TSN
pub async fn emit_hsack(run: &mut Run, ep: &mut Endpoint, c: &HsackCase, verbose: bool) {
    let input = hsack_text(c);
    let flight: usize = c.q.iter().filter(|r| r.in_flight).map(|r| r.len).sum();
    let next = c.q.iter().map(|r| r.tsn).max_by_key(|t| t.wrapping_sub(c.pc)).map(|t| t.wrapping_add(1)).unwrap_or(c.pc.wrapping_add(1));
    ep.sctp.verif_load_sender(&c.q, &[], 100_000, flight, 100_000, next, false);
    ep.sctp.verif_set_sack_history(c.pc, c.last_sig);
    while ep.out_rx.try_recv().is_ok() {}
    let mut outs = vec![];
    let mut freed_wrong: Vec<u32> = vec![];
    let mut best_cum = c.pc;
    let mut stale_window: Vec<u32> = vec![];
    for (cum, arwnd, gaps) in &c.sacks {
        let mut v = Vec::with_capacity(12 + 4 * gaps.len());
        v.extend_from_slice(&cum.to_be_bytes()); v.extend_from_slice(&arwnd.to_be_bytes());
        v.extend_from_slice(&(gaps.len() as u16).to_be_bytes()); v.extend_from_slice(&0u16.to_be_bytes());
        for (a, b) in gaps { v.extend_from_slice(&a.to_be_bytes()); v.extend_from_slice(&b.to_be_bytes()); }
        let _ = ep.sctp.verif_handle_sack(Bytes::from(v)).await;
        // retransmitted chunks leave as the (all-zero) loaded payloads: count their bytes
        let mut rexb = 0usize;
        while let Ok(p) = ep.out_rx.try_recv() { rexb += p.len().saturating_sub(12); }
        let after = ep.sctp.verif_sent_queue();
        let (rw, pc) = ep.sctp.verif_sack_view();
        // oracle (independent of the model): a SACK whose cumulative TSN is serially not behind the newest one seen
        // carries the current window; the sender must be using it afterwards
        let not_behind = (cum.wrapping_sub(best_cum) as i32) >= 0;
        if not_behind { best_cum = *cum; if rw != *arwnd && !stale_window.contains(cum) { stale_window.push(*cum); } }
        let fl = ep.sctp.verif_snapshot().flight_size;
        for r in &c.q {
            let freed = match after.iter().find(|x| x.tsn == r.tsn) { None => true, Some(x) => x.acked && !r.acked };
            if freed && !c.held.contains(&r.tsn) && !freed_wrong.contains(&r.tsn) { freed_wrong.push(r.tsn); }
        }
        outs.push(format!("rw={rw} pc={pc} fl={fl} rexb={rexb} q={}", after.iter().map(rec_text_n).collect::<Vec<_>>().join(" ")));
    }
    let out = outs.join(" | ");
    if verbose { println!("impl: {out}"); }
    for t in &freed_wrong {
        run.fail("sack:record-freed-but-receiver-does-not-hold-it", &format!("hsack {input}"), &format!("TSN {t} left the sent queue or lost its payload; the receiver holds {}", show_u32s(&c.held)));
        if verbose { println!("ORACLE-FAIL sack:record-freed-but-receiver-does-not-hold-it TSN {t}"); }
    }
    for t in &stale_window {
        run.fail("window:advertised-window-of-the-newest-sack-ignored", &format!("hsack {input}"), &format!("after the SACK with cumulative TSN {t} (serially the newest so far) the sender's peer_rwnd is not that SACK's a_rwnd"));
        if verbose { println!("ORACLE-FAIL window:advertised-window-of-the-newest-sack-ignored cum {t}"); }
    }
    run.case("hsack", &input, &out, true);
}

pub fn hsack_cases(run: &mut Run, rng: &mut Rng, thorough: bool) {
    let rt = tokio::runtime::Builder::new_current_thread().enable_all().build().unwrap();
    rt.block_on(async {
        let mut ep = Endpoint::new(57_900, 57_901, true, &EpCfg::default(), &[]).await;
        let n = if thorough { 12_000 } else { 2_500 };
        let (mut stale_gap, mut reordered) = (0u64, 0u64);
        for k in 0..n {
            let r0 = rng.next() as u32;
            let base = *rng.pick(&[100u32, 0xFFFF_FFFA, 0x7FFF_FFFC, 0, r0]);
            let nrec = rng.range(3, 10) as usize;
            let q: Vec<hook::VRecord> = (0..nrec).map(|i| mk_rec(base.wrapping_add(i as u32), 100 + 4 * i)).collect();
            // the receiver: which chunks arrive, in which order; a SACK after every arrival
            let mut order: Vec<usize> = (0..nrec).filter(|i| if *i == 0 { k % 3 != 0 && rng.chance(2, 3) } else { rng.chance(3, 4) }).collect();
            for i in (1..order.len()).rev() { let j = rng.below(i as u64 + 1) as usize; if rng.chance(1, 2) { order.swap(i, j); } }
            let mut cum = base.wrapping_sub(1);
            let mut held: Vec<u32> = vec![];
            let mut sacks = vec![];
            for i in &order {
                held.push(base.wrapping_add(*i as u32));
                while held.contains(&cum.wrapping_add(1)) { cum = cum.wrapping_add(1); }
                let above: Vec<u32> = held.iter().copied().filter(|t| (t.wrapping_sub(cum) as i32) > 0).collect();
                sacks.push((cum, 100_000 - 100 * above.len() as u32, hook::gap_blocks(&above, cum)));
            }
            // delivery to the sender: in order, or with SACKs overtaken by later ones, or duplicated late
            let mut del = sacks.clone();
            match k % 4 {
                0 => {}
                1 => { for _ in 0..rng.range(1, 3) { if del.len() >= 2 { let i = rng.below(del.len() as u64 - 1) as usize; let j = rng.range(i as u64 + 1, del.len() as u64 - 1) as usize; let s = del.remove(i); del.insert(j, s); } } }
                2 => { if del.len() >= 2 { let i = rng.below(del.len() as u64 - 1) as usize; let s = del[i].clone(); del.push(s); } }
                _ => { for i in (1..del.len()).rev() { let j = rng.below(i as u64 + 1) as usize; del.swap(i, j); } }
            }
            let mut best: Option<u32> = None;
            for (c, _, g) in &del { if let Some(b) = best { if (b.wrapping_sub(*c) as i32) > 0 { reordered += 1; if !g.is_empty() { stale_gap += 1; } } }
                if best.map_or(true, |b| (c.wrapping_sub(b) as i32) > 0) { best = Some(*c); } }
            let mut q = q; q.sort_by_key(|r| r.tsn); // the map's (numeric) key order
            let c = HsackCase { pc: base.wrapping_sub(1), last_sig: 0, maxrtx: 8, held, q, sacks: del };
            emit_hsack(run, &mut ep, &c, false).await;
        }
        run.count_n("hsack_histories", n as u64);
        run.count_n("hsack_overtaken_sacks", reordered);
        run.count_n("hsack_overtaken_sacks_with_gap_blocks", stale_gap);
        ep.shutdown();
    });
}

fn istream_cases(run: &mut Run, rng: &mut Rng, thorough: bool) {
    let n = if thorough { 20_000 } else { 3_000 };
    for k in 0..n {
        let mut s = hook::VInboundStream::new();
        let mut ops = vec![];
        let mut outs = vec![];
        let long = k % 50 == 0;
        let nops = if long { rng.range(130, 200) } else { rng.range(1, 14) } as usize;
        let mut next: u16 = 0;
        // a third of the sequences start just below the SSN wrap
        if k % 3 == 1 {
            for hop in [30_000u16, 60_000, 65_533] {
                s.advance_ssn_to(hop);
                ops.push(format!("a,{hop}"));
                outs.push(format!("[]{}/-", s.next_ssn()));
            }
            next = s.next_ssn();
        }
        let inorder_run = k % 10 == 7;
        let mut own_ssn: u16 = next; // the sender's view of the next SSN, independent of the implementation
        for _ in 0..nops {
            let r = if inorder_run { 0 } else { rng.below(100) };
            let (op, delivered): (String, Vec<Bytes>) = if inorder_run {
                // the property itself on the resequencer: the next expected SSN is delivered at once, alone
                let dl = rng.range(0, 3) as usize;
                let data = rng.bytes(dl);
                let ssn = own_ssn;
                own_ssn = own_ssn.wrapping_add(1);
                let d = s.enqueue(ssn, Bytes::from(data.clone()));
                if d.len() != 1 || d[0].as_ref() != data.as_slice() {
                    run.fail("istream:in-order-message-not-delivered-exactly-once", &format!("istream {} e,{ssn},{}", ops.join(" "), hex(&data)),
                        &format!("ssn {ssn}: {} messages came out", d.len()));
                }
                (format!("e,{ssn},{}", hex(&data)), d)
            } else if r < 70 {
                let ssn = if long { next.wrapping_add(1 + rng.below(190) as u16) }
                    else if rng.chance(1, 2) { next } else { next.wrapping_add(rng.below(5) as u16).wrapping_sub(1) };
                let dl = rng.below(4) as usize;
                let data = rng.bytes(dl);
                let d = s.enqueue(ssn, Bytes::from(data.clone()));
                (format!("e,{ssn},{}", hex(&data)), d)
            } else if r < 80 { ("d".into(), s.drain_ready()) }
            else { let ssn = next.wrapping_add(rng.below(6) as u16).wrapping_sub(2); s.advance_ssn_to(ssn); (format!("a,{ssn}"), vec![]) };
            next = s.next_ssn();
            let pend: Vec<u32> = s.pending().iter().map(|(k, _)| *k as u32).collect();
            outs.push(format!("[{}]{}/{}", delivered.iter().map(|b| show_bytes(b)).collect::<Vec<_>>().join(","), s.next_ssn(), show_u32s(&pend)));
            ops.push(op);
        }
        if s.pending().len() >= 128 { run.count("istream_at_cap"); }
        run.case("istream", &ops.join(" "), &outs.join(" "), s.next_ssn() != 0);
    }
    run.count_n("istream_sequences", n);
}

fn frag_cases(run: &mut Run, rt: &tokio::runtime::Runtime, rng: &mut Rng, thorough: bool) {
    let sizes: Vec<usize> = if thorough { vec![0, 1, 2, 1171, 1172, 1173, 1199, 1200, 1201, 2344, 2345, 5000, 70_000, 200_000] }
        else { vec![0, 1, 1171, 1172, 1173, 2344, 2345, 5000, 70_000] };
    let mps: [Option<usize>; 6] = [None, Some(1), Some(100), Some(1172), Some(1200), Some(5000)];
    let mut port = 60_000u16;
    let mut n = 0;
    let mut refused_ok = true;
    for &size in &sizes {
        for mp in mps {
            if mp == Some(1) && size > 3000 { continue; }
            for variant in 0..5 {
                // 0 ordered reliable, 1 unordered, 2 ordered rexmit, 3 unordered timed, 4 channel not registered
                let mut spec = ChanSpec::reliable(7);
                spec.max_payload = mp;
                match variant { 1 => spec.ordered = false, 2 => spec.max_retransmits = Some(3),
                    3 => { spec.ordered = false; spec.max_lifetime = Some(500); } _ => {} }
                let data = rng.bytes(size);
                let presend = (rng.below(3)) as u16; // messages sent before, so next_ssn varies
                let text = rng.chance(1, 4);
                let (cfgtxt, out) = rt.block_on(async {
                    let mut cfg = EpCfg::default();
                    cfg.max_buffered = 0;
                    let chans = if variant == 4 { vec![] } else { vec![spec.clone()] };
                    let ep = Endpoint::new(port, port + 1, true, &cfg, &chans).await;
                    // before the association is established user data is refused (3f613aa): nothing is queued
                    if ep.sctp.send_data(7, b"early").await.is_ok() { refused_ok = false; }
                    if !ep.sctp.verif_snapshot().outbound_queue.is_empty() { refused_ok = false; }
                    ep.sctp.verif_set_state(SctpState::Connected);
                    for d in &ep.dcs { d.state.store(1, std::sync::atomic::Ordering::SeqCst); }
                    for _ in 0..presend { let _ = ep.sctp.send_data(7, b"x").await; }
                    let before = ep.sctp.verif_snapshot().outbound_queue.len();
                    let next_before = ep.dcs.first().map(|d| d.next_ssn.load(std::sync::atomic::Ordering::SeqCst));
                    if text { let _ = ep.sctp.send_text(7, String::from_utf8_lossy(&data).as_ref()).await; }
                    else { let _ = ep.sctp.send_data(7, &data).await; }
                    let snap = ep.sctp.verif_snapshot();
                    let next_after = ep.dcs.first().map(|d| d.next_ssn.load(std::sync::atomic::Ordering::SeqCst));
                    let recs = ep.sctp.verif_snapshot().sent_queue; let _ = recs;
                    let q = &snap.outbound_queue[before..];
                    let out = format!("{} {}", next_after.map(|v| v.to_string()).unwrap_or("-".into()),
                        q.iter().map(|(_sid, ssn, fl, _ppid, p)| format!("{fl}:{ssn}:{}:{}:{}",
                            if variant == 2 { "3".to_string() } else { "-".into() }, (variant == 3) as u8, show_bytes(p))).collect::<Vec<_>>().join(" "));
                    let cfgtxt = format!("{},{},{},{},{},{}", (variant != 4) as u8, spec.ordered as u8, mp.unwrap_or(1200),
                        next_before.unwrap_or(0), if variant == 2 { "3" } else { "-" }, if variant == 3 { "500" } else { "-" });
                    ep.shutdown();
                    (cfgtxt, out)
                });
                port = if port >= 65_000 { 60_000 } else { port + 2 };
                // text payloads were made valid UTF-8 by from_utf8_lossy: recompute what was really submitted
                let sent: Vec<u8> = if text { String::from_utf8_lossy(&data).as_bytes().to_vec() } else { data.clone() };
                let ppid = if text { 51 } else { 53 };
                run.case("frag", &format!("{cfgtxt} {ppid} {}", hex(&sent)), &out, sent.len() > 1172);
                n += 1;
            }
        }
    }
    run.count_n("frag_cases", n);
    if !refused_ok { run.fail("send:accepted-before-the-association-is-established", "frag", "send_data returned Ok or queued chunks while the association state was New"); }
}

// ------------------------------------------------------------------------------------------
// (b)+(c) endpoint level

pub struct LinkCase {
    pub name: String,
    pub case: Case,
}

/// canonical, re-runnable description of a link case
pub fn case_text(c: &Case) -> String {
    let ch = |v: &Vec<ChanSpec>| if v.is_empty() { "-".to_string() } else { v.iter().map(|c| format!("{}:{}:{}:{}:{}", c.id, c.ordered as u8, c.negotiated as u8,
        c.max_retransmits.map(|v| v.to_string()).unwrap_or("-".into()), c.max_lifetime.map(|v| v.to_string()).unwrap_or("-".into()))).collect::<Vec<_>>().join(";") };
    let mt = |ph: u8| c.msgs.iter().filter(|m| m.phase == ph).map(|m| format!("{}{}:{}{}", if m.side == 0 { "A" } else { "B" }, m.chan, m.data.len(), if m.task != 0 { format!("@{}", m.task) } else { String::new() })).collect::<Vec<_>>().join(";");
    let ms = if c.msgs.is_empty() { "-".to_string() } else if c.msgs.iter().any(|m| m.phase == 1) { format!("{}|{}", mt(0), mt(1)) } else { mt(0) };
    let ep = |e: &EpCfg| format!("{}:{}:{}:{}:{}:{}:{}{}", e.rwnd, e.rto_initial_ms, e.max_burst, e.max_cwnd,
        e.seed_tsn.map(|v| v.to_string()).unwrap_or("-".into()), e.seed_tag.map(|v| v.to_string()).unwrap_or("-".into()), e.max_buffered,
        if e.heartbeat_ms != 15_000 { format!(":{}", e.heartbeat_ms) } else { String::new() });
    let cl = if c.closes.is_empty() { "-".to_string() } else { c.closes.iter().map(|(s, id)| format!("{}{}{id}", if *s >= 2 { "^" } else { "" }, ["A", "B"][*s % 2])).collect::<Vec<_>>().join(";") };
    format!("link epA={} epB={} chA={} chB={} msgs={} faults={} closes={cl} end={}{}", ep(&c.cfg[0]), ep(&c.cfg[1]), ch(&c.chans[0]), ch(&c.chans[1]), ms, faults_text(&c.faults), c.end.text(),
        if c.settle > Duration::from_millis(1000) { format!(" settle={}", c.settle.as_millis()) } else { String::new() })
}

/// payload of message `idx` on a channel: deterministic, distinct per (side, chan, idx), any size
pub fn payload(side: usize, chan: u16, idx: usize, len: usize) -> Vec<u8> {
    let mut r = Rng::new(((side as u64) << 40) ^ ((chan as u64) << 20) ^ idx as u64 ^ 0xC01);
    let mut v = r.bytes(len);
    if len >= 4 { v[0] = side as u8; v[1] = chan as u8; v[2] = (idx >> 8) as u8; v[3] = idx as u8; }
    v
}

pub fn parse_case(s: &str) -> Option<Case> {
    let mut kv = std::collections::HashMap::new();
    for t in s.split_whitespace().skip(1) { let (k, v) = t.split_once('=')?; kv.insert(k.to_string(), v.to_string()); }
    let ep = |t: &str| -> Option<EpCfg> {
        let f: Vec<&str> = t.split(':').collect();
        let mut e = EpCfg::default();
        e.rwnd = f.first()?.parse().ok()?; e.rto_initial_ms = f.get(1)?.parse().ok()?; e.rto_min_ms = e.rto_initial_ms / 2;
        e.rto_max_ms = e.rto_initial_ms * 4;
        e.max_burst = f.get(2)?.parse().ok()?; e.max_cwnd = f.get(3)?.parse().ok()?;
        e.seed_tsn = f.get(4)?.parse().ok(); e.seed_tag = f.get(5)?.parse().ok(); e.max_buffered = f.get(6)?.parse().ok()?;
        if let Some(h) = f.get(7) { e.heartbeat_ms = h.parse().ok()?; }
        Some(e)
    };
    let ch = |t: &str| -> Vec<ChanSpec> {
        if t == "-" { return vec![]; }
        t.split(';').filter_map(|c| { let f: Vec<&str> = c.split(':').collect();
            let mut s = ChanSpec::reliable(f.first()?.parse().ok()?); s.ordered = *f.get(1)? == "1"; s.negotiated = *f.get(2)? == "1";
            s.max_retransmits = f.get(3)?.parse().ok(); s.max_lifetime = f.get(4)?.parse().ok(); Some(s) }).collect()
    };
    let mut idx = std::collections::HashMap::new();
    let mut msgs = vec![];
    if kv.get("msgs")? != "-" {
        for (ph, part) in kv.get("msgs")?.split('|').enumerate() {
            for m in part.split(';').filter(|m| !m.is_empty()) {
                let (a, len) = m.split_once(':')?; let side = if a.starts_with('A') { 0 } else { 1 }; let chan: u16 = a[1..].parse().ok()?;
                let (len, task) = match len.split_once('@') { Some((l, t)) => (l, t.parse().ok()?), None => (len, 0u8) };
                let i = idx.entry((side, chan)).or_insert(0usize); let d = payload(side, chan, *i, len.parse().ok()?); *i += 1;
                msgs.push(Msg { side, chan, data: d, phase: ph as u8, task });
            }
        }
    }
    Some(Case { cfg: [ep(kv.get("epA")?)?, ep(kv.get("epB")?)?], chans: [ch(kv.get("chA")?), ch(kv.get("chB")?)], msgs,
        faults: faults_parse(kv.get("faults")?), deadline: Duration::from_secs(12),
        settle: Duration::from_millis(kv.get("settle").and_then(|t| t.parse().ok()).unwrap_or(60)),
        closes: match kv.get("closes") { Some(t) if t != "-" => t.split(';').filter_map(|x| { let (early, x) = match x.strip_prefix('^') { Some(r) => (2, r), None => (0, x) };
            Some((early + if x.starts_with('A') { 0 } else { 1 }, x[1..].parse().ok()?)) }).collect(), _ => vec![] },
        end: kv.get("end").map(|t| End::parse(t)).unwrap_or(End::None) })
}

fn mk_case(sizes: &[usize], faults: Vec<Fault>, tsn: Option<u32>) -> Case {
    let mut cfg = [EpCfg::default(), EpCfg::default()];
    cfg[0].seed_tsn = tsn; cfg[1].seed_tsn = tsn.map(|t| t ^ 0x5555);
    // the last message of a multi-message workload is submitted in phase 1: after the fault script is
    // exhausted and the link has gone quiet ("whenever the network subsequently delivers reliably")
    let n = sizes.len();
    let msgs = sizes.iter().enumerate().map(|(i, l)| Msg { side: 0, chan: 1, data: payload(0, 1, i, *l),
        phase: if n > 1 && i == n - 1 { 1 } else { 0 }, task: 0 }).collect();
    Case { cfg, chans: [vec![ChanSpec::reliable(1)], vec![ChanSpec::reliable(1)]], msgs, faults,
        deadline: Duration::from_secs(12), settle: Duration::from_millis(60), closes: vec![], end: End::None }
}

fn ev_text(e: &DataChannelEvent) -> String {
    match e { DataChannelEvent::Open => "O".into(), DataChannelEvent::Close => "C".into(), DataChannelEvent::Message(m) => format!("M{}", show_bytes(m)) }
}

/// ops line + implementation output line for one endpoint's trace
pub fn replay_lines(side: usize, c: &Case, o: &Outcome) -> (String, String, usize) {
    let mut toks = vec![format!("cfg,{}", c.cfg[side].rwnd)];
    let ou = |v: Option<u16>| v.map(|x| x.to_string()).unwrap_or("-".into());
    for ch in &c.chans[side] {
        if ch.negotiated { toks.push(format!("ch,{},{},1,0", ch.id, ch.ordered as u8)); }
        else { toks.push(format!("ch,{},{},0,0,{},{},{},{}", ch.id, ch.ordered as u8, ou(ch.max_retransmits), ou(ch.max_lifetime),
            hex(ch.label.as_bytes()), hex(ch.protocol.as_bytes()))); }
    }
    let mut sacks = vec![];
    let mut acts = vec![];
    let mut nrx = 0;
    let mut in_rx = false;
    for ev in &o.traces[side] {
        match ev {
            hook::Ev::Mark("loop", _) => { toks.push("L".into()); in_rx = false; }
            hook::Ev::Mark("tx_window", _) => toks.push("W".into()),
            hook::Ev::Mark("enqueue", v) => {
                if in_rx && v[1] == 50 { acts.push(if v[2] == 1 { format!("ack{}", v[0]) } else { format!("open{}", v[0]) }); }
            }
            hook::Ev::Mark("close_dc", v) if c.closes.iter().any(|(s2, id)| *s2 == side + 2 && *id as u64 == v[0]) => toks.push(format!("X,{}", v[0])),
            hook::Ev::Mark(_, _) => {}
            hook::Ev::Rx(p) => { toks.push(format!("R,{}", hex(p))); nrx += 1; in_rx = true; }
            hook::Ev::Tx(p) => {
                toks.push(format!("T,{}", hex(p)));
                for (t, _f, v) in chunks_of(p) {
                    if t == 3 && v.len() >= 12 {
                        let cum = u32::from_be_bytes([v[0], v[1], v[2], v[3]]);
                        let rw = u32::from_be_bytes([v[4], v[5], v[6], v[7]]);
                        let ng = u16::from_be_bytes([v[8], v[9]]) as usize;
                        let nd = u16::from_be_bytes([v[10], v[11]]) as usize;
                        let gaps: Vec<(u16, u16)> = (0..ng).map(|i| (u16::from_be_bytes([v[12 + 4 * i], v[13 + 4 * i]]), u16::from_be_bytes([v[14 + 4 * i], v[15 + 4 * i]]))).collect();
                        let dups: Vec<u32> = (0..nd).map(|i| { let k = 12 + 4 * ng + 4 * i; u32::from_be_bytes([v[k], v[k + 1], v[k + 2], v[k + 3]]) }).collect();
                        sacks.push(format!("S:{cum}:{rw}:{}:{}", show_gaps(&gaps), show_u32s(&dups)));
                    }
                }
            }
        }
    }
    let s = &o.snaps[side];
    let st = match s.state { SctpState::New => "new", SctpState::Connecting => "connecting", SctpState::Connected => "connected", SctpState::Closed => "closed" };
    // application calls made on a quiet link: their effect on the channel table does not depend on their
    // position among the trace events of the closing phase, so they are replayed first; then the teardown
    let quiet_at = toks.len();
    let _ = quiet_at;
    for (s2, id) in &c.closes { if *s2 == side { toks.push(format!("X,{id}")); } }   // early closes (side + 2): at their trace mark
    if o.ended { if let End::LocalClose(s2) = c.end { if s2 == side { toks.push("Z".into()); } } }
    toks.push("F".into());
    let chans = if o.chans_final[side].is_empty() { "-".to_string() } else { o.chans_final[side].iter().map(|cf| {
        let evs: Vec<String> = o.events[side].iter().filter(|(c, _)| *c == cf.id).map(|(_, e)| ev_text(e)).collect();
        let tail = if cf.negotiated { String::new() } else { format!(":o{}:r{}:t{}:{}:{}", cf.ordered as u8, ou(cf.max_retransmits), ou(cf.max_lifetime),
            hex(cf.label.as_bytes()), hex(cf.protocol.as_bytes())) };
        format!("ch{}:{}:{}{tail}", cf.id, cf.state, if evs.is_empty() { "-".to_string() } else { evs.join(",") }) }).collect::<Vec<_>>().join(" ") };
    let out = format!("{} | cum={} rq={} st={st} | {chans} | {}", if sacks.is_empty() { "-".to_string() } else { sacks.join(" ") },
        s.cumulative_tsn_ack, show_u32s(&s.received_queue), if acts.is_empty() { "-".to_string() } else { acts.join(",") });
    (toks.join(" "), out, nrx)
}

/// the property's oracle on the implementation; returns (kind, detail) per violation
pub fn oracle(c: &Case, o: &Outcome) -> Vec<(String, String)> {
    let mut fails = vec![];
    for side in 0..2 {
        let peer = 1 - side;
        for ch in &c.chans[side] {
            let rch = c.chans[peer].iter().find(|x| x.id == ch.id);
            let ordered_reliable = ch.ordered && ch.max_retransmits.is_none() && ch.max_lifetime.is_none();
            if !ordered_reliable || rch.is_none() { continue; }
            let submitted: Vec<&Vec<u8>> = c.msgs.iter().filter(|m| m.side == side && m.chan == ch.id).map(|m| &m.data).collect();
            let delivered: Vec<&Bytes> = o.events[peer].iter().filter(|(id, _)| *id == ch.id)
                .filter_map(|(_, e)| if let DataChannelEvent::Message(m) = e { Some(m) } else { None }).collect();
            // chunks injected by script 1 (End::Script): every one of them — queued beyond the receive queue's cap or not —
            // is delivered exactly once after the missing TSN arrives
            let delivered: Vec<&Bytes> = if c.end == End::Script(peer, 1) && ch.id == 1 && o.ended {
                let flood: std::collections::BTreeSet<&[u8]> = delivered.iter().filter(|d| d.starts_with(b"FLOOD")).map(|d| d.as_ref()).collect();
                let nflood = delivered.iter().filter(|d| d.starts_with(b"FLOOD")).count();
                if flood.len() != FLOOD_N + 1 || nflood != FLOOD_N + 1 {
                    fails.push(("rq:chunk-lost-at-the-receive-queue-cap".into(), format!("{} received {} chunks out of order and then the missing one: {} of {} delivered ({} distinct)",
                        ["A", "B"][peer], FLOOD_N, nflood, FLOOD_N + 1, flood.len())));
                }
                delivered.into_iter().filter(|d| !d.starts_with(b"FLOOD")).collect()
            } else { delivered };
            let mut kind = None;
            for (i, d) in delivered.iter().enumerate() {
                if i >= submitted.len() { kind = Some(("extra", format!("delivery #{i} beyond the {} submitted", submitted.len()))); break; }
                if d.as_ref() != submitted[i].as_slice() {
                    let k = if submitted.iter().take(i).any(|s| s.as_slice() == d.as_ref()) { "dup" }
                        else if submitted.iter().skip(i + 1).any(|s| s.as_slice() == d.as_ref()) { "skip" } else { "alter" };
                    kind = Some((k, format!("delivery #{i} ({} bytes) is not submitted message #{i} ({} bytes)", d.len(), submitted[i].len())));
                    break;
                }
            }
            if let Some((k, d)) = kind {
                fails.push((format!("prefix:{k}"), format!("{}→{} ch{}: {d}", ["A", "B"][side], ["A", "B"][peer], ch.id)));
            } else if delivered.len() < submitted.len() {
                // excused only by a close the case itself asked for (teardown / close_data_channel of this channel)
                let excused = c.closes.iter().any(|(_, id)| *id == ch.id);   // (a teardown only starts after everything was delivered)
                if !excused {
                    fails.push(("stall".into(), format!("{}→{} ch{}: {} of {} delivered after {} ms (script exhausted: {})",
                        ["A", "B"][side], ["A", "B"][peer], ch.id, delivered.len(), submitted.len(), o.elapsed_ms, o.faults_used.iter().all(|u| *u))));
                }
            }
        }
    }
    // nothing in these runs asks an association to close: a Closed side is a failure of its own
    for side in 0..2 {
        let s = &o.snaps[side];
        if (s.state == SctpState::Closed || s.close_reason.is_some()) && !c.end.closes_side(side) && !(0..2).any(|x| c.end.closes_side(x)) {
            fails.push(("close:association-closed-without-cause".into(), format!("{} is {:?} (reason {:?}) after {} ms", ["A", "B"][side], s.state, s.close_reason, o.elapsed_ms)));
        }
    }
    fails
}

/// class of a fault script: fault kinds on chunk types, ordinals and sides dropped (sorted)
pub fn script_class(fs: &[Fault]) -> String {
    let mut v: Vec<String> = fs.iter().map(|f| { let a = match f.action { Action::Drop => "drop", Action::Dup => "dup", Action::Delay(_) => "delay", Action::Late(_) => "late", Action::DropN(_) => "dropn" };
        format!("{a}({})", ct_name(f.ctype)) }).collect();
    v.sort(); v.dedup();
    if v.is_empty() { "none".into() } else { v.join("+") }
}

fn run_one(c: &Case, port: u16) -> Outcome {
    let rt = tokio::runtime::Builder::new_current_thread().enable_all().build().unwrap();
    rt.block_on(run_case(c, port))
}

/// shrink a failing script: drop faults while the same failure kind persists
fn minimise(c: &Case, kind: &str, port: u16) -> Vec<Fault> {
    let mut cur = c.faults.clone();
    let mut i = 0;
    while i < cur.len() && cur.len() > 1 {
        let mut t = cur.clone(); t.remove(i);
        let cc = Case { cfg: c.cfg.clone(), chans: c.chans.clone(), msgs: c.msgs.clone(), faults: t.clone(), deadline: c.deadline, settle: c.settle, closes: c.closes.clone(), end: c.end };
        let o = run_one(&cc, port);
        if oracle(&cc, &o).iter().any(|(k, _)| k == kind) { cur = t; } else { i += 1; }
    }
    cur
}

fn link_cases(args: &Args, rng: &mut Rng) -> Vec<LinkCase> {
    let mut v = vec![];
    let wl: Vec<Vec<usize>> = vec![vec![0], vec![1], vec![1172], vec![1173], vec![5000], vec![70_000], vec![3, 0, 2500, 1, 1172, 9]];
    // clean runs, every workload, ordinary and wrapping initial TSN
    for (i, w) in wl.iter().enumerate() {
        v.push(LinkCase { name: format!("clean{i}"), case: mk_case(w, vec![], None) });
        v.push(LinkCase { name: format!("clean{i}w"), case: mk_case(w, vec![], Some(0xFFFF_FFF0)) });
    }
    // every single fault on every setup chunk and on first / later DATA and SACK
    let targets: Vec<(usize, u8, u32)> = vec![(0, 1, 1), (1, 2, 1), (0, 10, 1), (1, 11, 1), (0, 0, 1), (0, 0, 2), (0, 0, 3), (1, 3, 1), (1, 3, 2)];
    let actions = [Action::Drop, Action::Dup, Action::Delay(2), Action::Late(3)];
    let wsel: Vec<usize> = if args.tier_thorough { (0..wl.len()).collect() } else { vec![1, 4, 6] };
    for &wi in &wsel {
        for (side, ct, ord) in &targets {
            for a in actions {
                let f = Fault { side: *side, ctype: *ct, ordinal: *ord, action: a };
                let tsn = if (wi + *ord as usize + *ct as usize) % 2 == 0 { None } else { Some(0xFFFF_FFFE) };
                let mut case = mk_case(&wl[wi], vec![f.clone()], tsn);
                // faults on setup chunks: the server sends too, and picks its own initial TSN (unseeded): what a duplicate or
                // late INIT / COOKIE-ECHO does to the *server's* sender state shows in the B→A delivery
                if [1u8, 2, 10, 11].contains(ct) {
                    case.cfg[1].seed_tsn = None;
                    case.msgs.push(Msg { side: 1, chan: 1, data: payload(1, 1, 0, 500), phase: 0, task: 0 });
                    case.msgs.push(Msg { side: 1, chan: 1, data: payload(1, 1, 1, 2500), phase: 1, task: 0 });
                }
                v.push(LinkCase { name: format!("single-{}", f.text()), case });
            }
        }
    }
    // a setup chunk that arrives again long after the association carried data (held until the link is quiet, i.e. after the
    // first messages were delivered, acknowledged and freed by the sender); the last message of the workload follows it.
    // A receiver that lets the stale INIT / INIT-ACK / COOKIE-ECHO re-base its cumulative TSN never delivers that message.
    for f in ["A.INIT.1.late400", "B.INITACK.1.late400", "A.COOKIEECHO.1.late400", "B.COOKIEACK.1.late400"] {
        for (k, tsn) in [None, Some(0xFFFF_FFFEu32)].into_iter().enumerate() {
            let mut case = mk_case(&wl[6], faults_parse(f), tsn);
            // the server sends too (own, unseeded initial TSN): its last message also follows the stale chunk
            case.cfg[1].seed_tsn = None;
            case.msgs.push(Msg { side: 1, chan: 1, data: payload(1, 1, 0, 500), phase: 0, task: 0 });
            case.msgs.push(Msg { side: 1, chan: 1, data: payload(1, 1, 1, 2500), phase: 1, task: 0 });
            v.push(LinkCase { name: format!("stale-setup-{f}-{k}"), case });
        }
    }
    // a duplicate of a chunk that is being held out of order; a retransmission racing its SACK
    for f in ["A.TSN.1.dropn1+A.DATA.3.dup", "A.TSN.0.dropn1+A.DATA.2.dup+A.DATA.4.late2", "A.TSN.2.dropn2+B.SACK.2.drop"] {
        v.push(LinkCase { name: format!("directed-{f}"), case: mk_case(&wl[4], faults_parse(f), None) });
        v.push(LinkCase { name: format!("directed-{f}-w"), case: mk_case(&wl[6], faults_parse(f), Some(0xFFFF_FFFD)) });
    }
    // a SACK with gap blocks overtaken by later SACKs × a second DATA loss further on (a sender that re-bases
    // the stale blocks on a newer cumulative TSN would mark chunks the receiver never got)
    let full = args.tier_thorough || std::env::var("VERIF_FULLGRID").is_ok();
    for d1 in [1u32, 2, 3] { for k in 2u32..6 { for hold in [1u32, 2, 3] { for d2 in 20u32..60 {
        if !full && !(d1 == 1 && k == 2 && d2 <= 40) { continue; }
        let f = format!("A.TSN.{d1}.dropn1+B.SACK.{k}.delay{hold}+A.TSN.{d2}.dropn1");
        let tsn = if (k + d2) % 2 == 0 { None } else { Some(0xFFFF_FFFBu32) };
        v.push(LinkCase { name: format!("stale-gap-sack-{f}"), case: mk_case(&[70_000], faults_parse(&f), tsn) });
    } } } }
    // an established association left idle for longer than the whole INIT / COOKIE-ECHO retransmission budget stays up
    // (a T1 timer that was never cancelled would close it with INIT_TIMEOUT), and still carries data afterwards
    {
        let mut c = mk_case(&[300, 5000], vec![], None);
        c.settle = Duration::from_millis(3800);
        v.push(LinkCase { name: "long-idle".into(), case: c });
        let mut c = mk_case(&[300, 5000], faults_parse("B.COOKIEACK.1.drop"), Some(0xFFFF_FFF0));
        c.settle = Duration::from_millis(3800);
        v.push(LinkCase { name: "long-idle-after-cookie-ack-loss".into(), case: c });
    }
    // the peer closes one channel (RE-CONFIG outgoing SSN reset for that stream) in the middle of the traffic:
    // the sibling channel keeps its sequence numbers and its order
    for (i, closer) in [3usize, 2].iter().enumerate() {
        let mut c = mk_case(&[10, 20, 3000, 30], vec![], if i == 0 { None } else { Some(0xFFFF_FFF9) });
        for side in 0..2 { c.chans[side].push(ChanSpec::reliable(2)); }
        c.msgs.insert(0, Msg { side: 0, chan: 2, data: payload(0, 2, 0, 40), phase: 0, task: 0 });
        c.msgs.push(Msg { side: 1, chan: 1, data: payload(1, 1, 0, 50), phase: 0, task: 0 });
        c.msgs.push(Msg { side: 1, chan: 1, data: payload(1, 1, 1, 60), phase: 1, task: 0 });
        c.msgs.push(Msg { side: 0, chan: 1, data: payload(0, 1, 4, 70), phase: 1, task: 0 });
        c.closes = vec![(*closer, 2)];
        v.push(LinkCase { name: format!("close-sibling-midway{i}"), case: c });
    }
    // flow control: a send buffer (sctp_max_buffered_amount) far smaller than the workload — send_data parks until SACKs
    // free credit and has to be woken by them; with and without loss
    for (i, f) in ["-", "A.DATA.3.drop+B.SACK.2.drop", "A.TSN.5.dropn2"].iter().enumerate() {
        let mut c = mk_case(&[5000, 5000, 5000, 5000, 5000, 5000, 300], faults_parse(f), if i == 1 { Some(0xFFFF_FFF6) } else { None });
        for e in c.cfg.iter_mut() { e.max_buffered = 6000; }
        c.msgs.push(Msg { side: 1, chan: 1, data: payload(1, 1, 0, 9000), phase: 0, task: 0 });
        c.msgs.push(Msg { side: 1, chan: 1, data: payload(1, 1, 1, 9000), phase: 0, task: 0 });
        v.push(LinkCase { name: format!("flow-control-small-buffer{i}"), case: c });
    }
    // more chunks queued out of order than the receive queue's cap (a foreign or fast peer may do it): none is dropped
    {
        let mut c = mk_case(&[300, 5000], vec![], None);
        c.end = End::Script(1, 1);
        v.push(LinkCase { name: "receive-queue-beyond-cap".into(), case: c });
    }
    // thorough: every pair of faults on the four setup chunks
    if args.tier_thorough {
        let setup: Vec<(usize, u8)> = vec![(0, 1), (1, 2), (0, 10), (1, 11)];
        let mut singles = vec![];
        for (side, ct) in &setup { for a in actions { singles.push(Fault { side: *side, ctype: *ct, ordinal: 1, action: a }); } }
        for i in 0..singles.len() { for j in (i + 1)..singles.len() {
            if singles[i].side == singles[j].side && singles[i].ctype == singles[j].ctype { continue; }
            v.push(LinkCase { name: format!("double-{}+{}", singles[i].text(), singles[j].text()),
                case: mk_case(&wl[6], vec![singles[i].clone(), singles[j].clone()], if (i + j) % 2 == 0 { None } else { Some(0xFFFF_FFFC) }) });
        } }
    }
    // the server as the sender: the directed / flow-control / stale-SACK / long-idle cases with the roles exchanged
    let mirrored: Vec<LinkCase> = v.iter().enumerate().filter(|(i, c)| (c.name.starts_with("directed") || c.name.starts_with("flow-control") || c.name.starts_with("long-idle")
            || c.name.starts_with("clean") || (c.name.starts_with("stale-gap") && (args.tier_thorough || i % 8 == 0))))
        .map(|(_, c)| LinkCase { name: format!("m-{}", c.name), case: mirror(&c.case) }).collect();
    v.extend(mirrored);
    // random multi-fault histories
    let nrand = if args.tier_thorough { 2000 } else { 40 };
    for k in 0..nrand {
        let w = wl[rng.below(wl.len() as u64) as usize].clone();
        let nf = rng.range(2, 5) as usize;
        let mut fs = vec![];
        for _ in 0..nf {
            let side = rng.below(2) as usize;
            let ct = if side == 0 { *rng.pick(&[1u8, 10, 0, 0, 0, 255]) } else { *rng.pick(&[2u8, 11, 3, 3, 3, 255]) };
            let ord = if ct == 0 || ct == 3 || ct == 255 { rng.range(1, 6) as u32 } else { 1 };
            let a = match rng.below(4) { 0 => Action::Drop, 1 => Action::Dup, 2 => Action::Delay(rng.range(1, 4) as u32), _ => Action::Late(rng.range(1, 5) as u32) };
            let f = Fault { side, ctype: ct, ordinal: ord, action: a };
            if !fs.iter().any(|g: &Fault| g.side == f.side && g.ctype == f.ctype && g.ordinal == f.ordinal) { fs.push(f); }
        }
        let tsn = *rng.pick(&[None, Some(0xFFFF_FFF8u32), Some(0x7FFF_FFFCu32)]);
        v.push(LinkCase { name: format!("rand{k}"), case: mk_case(&w, fs, tsn) });
    }
    v
}

pub fn run(args: &Args) {
    if let Some(case) = &args.replay {
        // function-level cases: `gap <cum> <tsns>`, `sack …`, `istream op…`
        let toks: Vec<&str> = case.split_whitespace().collect();
        match toks.first().copied() {
            Some("gap") if toks.len() == 3 => {
                let held: Vec<u32> = if toks[2] == "-" { vec![] } else { toks[2].split(',').filter_map(|t| t.parse().ok()).collect() };
                let mut run = Run::new("c01", &format!("{}/replay", args.out));
                emit_gap(&mut run, &held, toks[1].parse().unwrap_or(0));
                println!("impl: {}", show_gaps(&hook::gap_blocks(&held, toks[1].parse().unwrap_or(0))));
                for f in &run.fails { println!("ORACLE-FAIL {} {}", f.signature, f.detail); }
                return;
            }
            Some("istream") => {
                let mut s = hook::VInboundStream::new();
                let mut own: Option<u16> = None;
                for t in &toks[1..] {
                    let f: Vec<&str> = t.split(',').collect();
                    match f[0] {
                        "e" => { let ssn: u16 = f[1].parse().unwrap_or(0); let data = crate::unhex(f[2]);
                            let d = s.enqueue(ssn, Bytes::from(data.clone()));
                            println!("enqueue {ssn}: delivered {} next_ssn={}", d.len(), s.next_ssn());
                            if own == Some(ssn) && (d.len() != 1 || d[0].as_ref() != data.as_slice()) { println!("ORACLE-FAIL istream:in-order-message-not-delivered-exactly-once ssn {ssn}"); }
                            own = Some(ssn.wrapping_add(1)); }
                        "d" => { let d = s.drain_ready(); println!("drain: delivered {}", d.len()); }
                        "a" => { let ssn: u16 = f[1].parse().unwrap_or(0); s.advance_ssn_to(ssn); own = Some(ssn.wrapping_add(1)); println!("advance {ssn}: next_ssn={}", s.next_ssn()); }
                        _ => {}
                    }
                }
                return;
            }
            Some("hsack") => {
                let Some(c) = hsack_parse(&toks[1..]) else { println!("cannot parse case: {case}"); return; };
                let mut run = Run::new("c01", &format!("{}/replay", args.out));
                let rt = tokio::runtime::Builder::new_current_thread().enable_all().build().unwrap();
                rt.block_on(async { let mut ep = Endpoint::new(57_900, 57_901, true, &EpCfg::default(), &[]).await; emit_hsack(&mut run, &mut ep, &c, true).await; ep.shutdown(); });
                return;
            }
            Some("sack") if toks.len() >= 6 => {
                let gaps: Vec<(u16, u16)> = if toks[2] == "-" { vec![] } else { toks[2].split(',').filter_map(|g| { let (a, b) = g.split_once('-')?; Some((a.parse().ok()?, b.parse().ok()?)) }).collect() };
                let recs: Vec<hook::VRecord> = toks[6..].iter().filter_map(|t| { let f: Vec<&str> = t.split(',').collect(); if f.len() != 11 { return None; }
                    let mut r = mk_rec(f[0].parse().ok()?, f[1].parse().ok()?); r.sent_ms = f[2].parse().ok()?; r.transmit_count = f[3].parse().ok()?; r.missing_reports = f[4].parse().ok()?;
                    r.abandoned = f[5] == "1"; r.fast_retransmit = f[6] == "1"; r.needs_retransmit = f[7] == "1"; r.fast_retransmit_ms = f[8].parse().ok(); r.in_flight = f[9] == "1"; r.acked = f[10] == "1"; Some(r) }).collect();
                let mut run = Run::new("c01", &format!("{}/replay", args.out));
                emit_sack(&mut run, &recs, toks[1].parse().unwrap_or(0), &gaps, toks[3].parse().unwrap_or(0), toks[4] == "1", toks[5].parse().unwrap_or(8));
                for f in &run.fails { println!("ORACLE-FAIL {} {}", f.signature, f.detail); }
                println!("(see {}/replay/impl.txt for the implementation's output line)", args.out);
                return;
            }
            _ => {}
        }
        let Some(c) = parse_case(case) else { println!("cannot parse case: {case}"); return; };
        let o = run_one(&c, 40_000);
        println!("case: {}", case_text(&c));
        println!("connected={} elapsed={}ms faults_used={:?} send_errors={:?}", o.connected, o.elapsed_ms, o.faults_used, o.send_errors);
        for side in 0..2 { println!("impl[{}]: {}", ["A", "B"][side], replay_lines(side, &c, &o).1); }
        for side in 0..2 { let s = &o.snaps[side]; println!("snap[{}]: next_tsn={} adv={} flight={} cwnd={} rwnd={} outq={} sentq={:?}", ["A", "B"][side], s.next_tsn, s.advanced_peer_ack_tsn,
            s.flight_size, s.cwnd, s.peer_rwnd, s.outbound_queue.len(), s.sent_queue.iter().map(|r| (r.tsn, r.acked, r.abandoned, r.transmit_count)).collect::<Vec<_>>()); }
        for (k, d) in oracle(&c, &o) { println!("ORACLE-FAIL {k} {d}"); }
        return;
    }
    let mut run = Run::new("c01", &args.out);
    let mut rng = Rng::new(args.seed);
    let rt = tokio::runtime::Builder::new_current_thread().enable_all().build().unwrap();
    gap_cases(&mut run, &mut rng, args.tier_thorough);
    sack_cases(&mut run, &mut rng, args.tier_thorough);
    istream_cases(&mut run, &mut rng, args.tier_thorough);
    hsack_cases(&mut run, &mut rng, args.tier_thorough);
    frag_cases(&mut run, &rt, &mut rng, args.tier_thorough);
    drop(rt);

    let cases = link_cases(args, &mut rng);
    let nthreads = std::env::var("VERIF_THREADS").ok().and_then(|v| v.parse().ok()).unwrap_or(6usize);
    let next = std::sync::atomic::AtomicUsize::new(0);
    let results: Vec<parking_lot::Mutex<Option<Outcome>>> = cases.iter().map(|_| parking_lot::Mutex::new(None)).collect();
    std::thread::scope(|s| {
        for t in 0..nthreads {
            let (next, results, cases) = (&next, &results, &cases);
            s.spawn(move || loop {
                let i = next.fetch_add(1, std::sync::atomic::Ordering::SeqCst);
                if i >= cases.len() { break; }
                let o = run_one(&cases[i].case, 1000 + (t as u16) * 4);
                *results[i].lock() = Some(o);
            });
        }
    });
    for (i, lc) in cases.iter().enumerate() {
        let o = results[i].lock().take().unwrap();
        let c = &lc.case;
        let text = case_text(c);
        if !o.connected { run.count("link_not_connected"); }
        run.count(&format!("link_faults_{}", script_class(&c.faults)));
        for side in 0..2 {
            let (ops, out, nrx) = replay_lines(side, c, &o);
            run.count_n("link_packets_replayed", nrx as u64);
            run.case("rx", &ops, &out, nrx > 0);
        }
        let delivered = o.events[1].iter().filter(|(_, e)| matches!(e, DataChannelEvent::Message(_))).count();
        run.count_n("link_messages_delivered", delivered as u64);
        let retx: usize = o.traces[0].iter().filter(|e| matches!(e, hook::Ev::Mark("t3", _))).count();
        if retx > 0 { run.count("link_runs_with_t3"); }
        for (kind, detail) in oracle(c, &o) {
            let min = minimise(c, &kind, 2000);
            let sig = format!("hist:{}:{kind}", script_class(&min));
            let mc = Case { cfg: c.cfg.clone(), chans: c.chans.clone(), msgs: c.msgs.clone(), faults: min, deadline: c.deadline, settle: c.settle, closes: c.closes.clone(), end: c.end };
            run.fail(&sig, &case_text(&mc), &format!("{detail} [{}; from {text}]", lc.name));
        }
    }
    run.count_n("link_runs", cases.len() as u64);
    run.finish();
}
