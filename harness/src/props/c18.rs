//! C18 — RTP latching. Drives the real `IceConn::receive` + latch API, writes op lines for the
//! Lean model (`RtcModel.Latch`) and evaluates the property's own oracles on the implementation.
//!
//! Streams: `latch` (one bare `IceConn`, full state incl. the hidden probation table compared
//! after every op) and `pc` (a real `PeerConnection` in RTP mode: SDP-driven retargets, pair
//! monitors, STUN-driven pair rewrite and UDP packets through the real sockets; see `pc_stream`).
use crate::{Args, Rng, Run, hex};
use async_trait::async_trait;
use bytes::Bytes;
use parking_lot::Mutex;
use rustrtc::transports::PacketReceiver;
use rustrtc::transports::ice::IceSocketWrapper;
use rustrtc::transports::ice::conn::IceConn;
use rustrtc::verif_hooks::ice_conn as hook;
use std::net::{IpAddr, Ipv4Addr, Ipv6Addr, SocketAddr};
use std::sync::Arc;
use std::sync::atomic::Ordering;
use tokio::sync::watch;

#[derive(Clone, Debug, PartialEq)]
pub enum Op {
    Pkt(u8, u16, Vec<u8>),
    Enable,
    Reset,
    Sig(u8, u16),
    Pair(u8, u16),
    Ssrc(u32),
    Maxp(u8),
    RtcpAddr(Option<(u8, u16)>),
}

/// Address code → socket address. 0 = 0.0.0.0, 1..99 = 10.0.0.x, 100..199 = the IPv4-mapped IPv6
/// form of 10.0.0.(x-100), 200.. = fd00::(x-200). Distinct codes are distinct `SocketAddr`s, which is
/// all the model (addresses are opaque `(ip, port)` pairs) relies on.
fn sa(ip: u8, port: u16) -> SocketAddr {
    match ip {
        0 => SocketAddr::new(IpAddr::V4(Ipv4Addr::new(0, 0, 0, 0)), port),
        1..=99 => SocketAddr::new(IpAddr::V4(Ipv4Addr::new(10, 0, 0, ip)), port),
        100..=199 => SocketAddr::new(IpAddr::V6(Ipv4Addr::new(10, 0, 0, ip - 100).to_ipv6_mapped()), port),
        _ => SocketAddr::new(IpAddr::V6(Ipv6Addr::new(0xfd00, 0, 0, 0, 0, 0, 0, (ip - 200) as u16)), port),
    }
}
fn ip_of(a: SocketAddr) -> (u8, u16) {
    match a.ip() {
        IpAddr::V4(v) => (v.octets()[3], a.port()),
        IpAddr::V6(v) => match v.to_ipv4_mapped() {
            Some(m) => (100 + m.octets()[3], a.port()),
            None => (200 + v.segments()[7] as u8, a.port()),
        },
    }
}

pub fn op_text(op: &Op) -> String {
    match op {
        Op::Pkt(ip, port, b) => format!("p,{ip},{port},{}", hex(b)),
        Op::Enable => "en".into(),
        Op::Reset => "rs".into(),
        Op::Sig(ip, p) => format!("sg,{ip},{p}"),
        Op::Pair(ip, p) => format!("pr,{ip},{p}"),
        Op::Ssrc(v) => format!("ss,{v}"),
        Op::Maxp(v) => format!("mp,{v}"),
        Op::RtcpAddr(None) => "ra,-".into(),
        Op::RtcpAddr(Some((ip, p))) => format!("ra,{ip},{p}"),
    }
}

struct Rec(Mutex<Vec<&'static str>>, &'static str);
#[async_trait]
impl PacketReceiver for Rec {
    async fn receive(&self, _p: Bytes, _a: SocketAddr, _m: &mut Vec<u8>) { self.0.lock().push(self.1); }
}

/// One candidate row of the hidden probation table.
#[derive(Clone, Debug, PartialEq)]
pub struct CandObs { addr: (u8, u16), first_seq: u16, last_seq: u16, first_ts: u32, count: u8, consec: u8, marker: bool }
#[derive(Clone, Debug, PartialEq)]
pub struct ProbObs { total: u8, max: u8, cands: Vec<CandObs> }

#[derive(Clone, Debug, PartialEq)]
pub struct Obs {
    remote: (u8, u16), rtcp: Option<(u8, u16)>, latched: bool, rtcpl: bool, fwd: &'static str,
    on: bool, exp: u32, maxp: u8, prob: Option<ProbObs>,
}
fn prob_text(p: &Option<ProbObs>) -> String {
    match p {
        None => "-".into(),
        Some(p) => format!("T{}M{}[{}]", p.total, p.max, p.cands.iter().map(|c| format!("{}:{},{},{},{},{},{},{}",
            c.addr.0, c.addr.1, c.first_seq, c.last_seq, c.first_ts, c.count, c.consec, c.marker as u8)).collect::<Vec<_>>().join(";")),
    }
}
impl Obs {
    /// `prev` = probation text of the previous step; an unchanged table is printed as `=` (keeps
    /// the lines of 300-op sequences short; the Lean driver compresses the same way).
    fn text(&self, prev: Option<&str>) -> (String, String) {
        let pt = prob_text(&self.prob);
        let shown = if prev == Some(pt.as_str()) { "=".to_string() } else { pt.clone() };
        (format!("{}:{}/{}/{}/{}/{}/{}/{}/{}/{}", self.remote.0, self.remote.1,
            match self.rtcp { None => "-".to_string(), Some((i, p)) => format!("{i}:{p}") },
            self.latched as u8, self.rtcpl as u8, self.fwd, self.on as u8, self.exp, self.maxp, shown), pt)
    }
}
pub fn obs_line(obs: &[Obs]) -> String {
    let mut prev: Option<String> = None;
    let mut out = vec![];
    for o in obs { let (t, pt) = o.text(prev.as_deref()); out.push(t); prev = Some(pt); }
    out.join(" ")
}

pub struct Case { pub init: (u8, u16), pub maxp: u8, pub tcp: bool, pub ops: Vec<Op> }

fn observe(conn: &IceConn, fwd: &'static str) -> Obs {
    let (on, exp, maxp, prob) = conn.verif_latch_state();
    Obs {
        remote: ip_of(*conn.remote_addr.read()),
        rtcp: conn.remote_rtcp_addr.read().map(ip_of),
        latched: conn.rtp_latched.load(Ordering::Relaxed),
        rtcpl: conn.rtcp_latched.load(Ordering::Relaxed),
        fwd, on, exp, maxp,
        prob: prob.map(|(total, max, cs)| ProbObs { total, max, cands: cs.into_iter().map(|c| CandObs {
            addr: ip_of(c.0), first_seq: c.1, last_seq: c.2, first_ts: c.3, count: c.4, consec: c.5, marker: c.6 }).collect() }),
    }
}

/// Execute a case on the real IceConn; returns the observation after init and after every op.
pub fn exec(rt: &tokio::runtime::Runtime, c: &Case) -> Vec<Obs> {
    // tcp = the selected socket is an accepted TCP stream (a real loopback pair; only the variant matters)
    let sock: Option<IceSocketWrapper> = if c.tcp {
        Some(rt.block_on(async {
            let l = tokio::net::TcpListener::bind("127.0.0.1:0").await.unwrap();
            let a = l.local_addr().unwrap();
            let (c1, acc) = tokio::join!(tokio::net::TcpStream::connect(a), l.accept());
            let _keep = c1.unwrap();
            let (st, peer) = acc.unwrap();
            let (r, w) = st.into_split();
            IceSocketWrapper::TcpStream(Arc::new(tokio::sync::Mutex::new(r)), Arc::new(tokio::sync::Mutex::new(w)), peer)
        }))
    } else { None };
    let (_tx, rx) = watch::channel::<Option<IceSocketWrapper>>(sock);
    let conn: Arc<IceConn> = hook::new_with_rtcp(rx.clone(), rx, sa(c.init.0, c.init.1),
        if c.maxp == 0 { None } else { Some(c.maxp) });
    let log = Arc::new(Rec(Mutex::new(vec![]), "rtp"));
    let dlog = Arc::new(Rec(Mutex::new(vec![]), "dtls"));
    conn.set_rtp_receiver(log.clone());
    conn.set_dtls_receiver(dlog.clone());
    let mut out = vec![observe(&conn, "-")];
    let mut mb = Vec::new();
    for op in &c.ops {
        let mut fwd = "-";
        match op {
            Op::Pkt(ip, port, b) => {
                rt.block_on(conn.receive(Bytes::from(b.clone()), sa(*ip, *port), &mut mb));
                let a = log.0.lock().pop();
                let d = dlog.0.lock().pop();
                fwd = a.or(d).unwrap_or("none");
            }
            Op::Enable => conn.enable_latch_on_rtp(),
            Op::Reset => conn.reset_latch(),
            Op::Sig(ip, p) => hook::set_remote_addr_from_signaling(&conn, sa(*ip, *p)),
            Op::Pair(ip, p) => hook::set_remote_addr_from_selected_pair(&conn, sa(*ip, *p)),
            Op::Ssrc(v) => conn.set_expected_ssrc(*v),
            Op::Maxp(v) => conn.set_probation_max_packets(if *v == 0 { None } else { Some(*v) }),
            Op::RtcpAddr(a) => conn.set_remote_rtcp_addr(a.map(|(i, p)| sa(i, p))),
        }
        out.push(observe(&conn, fwd));
    }
    out
}

// ---------------------------------------------------------------------------------------------
// Property oracles evaluated directly on the implementation's *public* observations (remote
// address, RTCP address, the two latched flags). Written from the property text and the doc
// comment of `RtpCandidateState` (rules 1, 2, 3 "evaluated in order"), NOT from the body of
// `receive`: the rules are evaluated declaratively as *sets* of admissible winners (every tie the
// comment leaves open is admissible), so the oracle encodes neither the code's branch order nor
// `min_by_key` / `max_by` tie behaviour.

struct Src { addr: (u8, u16), seqs: Vec<u16>, marker: bool }
impl Src {
    /// "first_seq": lowest sequence number seen from the source
    fn first_seq(&self) -> u16 { *self.seqs.iter().min().unwrap() }
    /// run of `seq == last_seq + 1` steps at the tail of this source's packets
    fn run(&self) -> usize {
        let mut run = 0;
        for w in self.seqs.windows(2) { if w[1] == w[0].wrapping_add(1) { run += 1; } else { run = 0; } }
        run
    }
}

fn is_rtp(b: &[u8]) -> bool { !b.is_empty() && (128..192).contains(&b[0]) && !(b.len() >= 2 && (200..=211).contains(&b[1])) }
fn is_rtcp(b: &[u8]) -> bool { !b.is_empty() && (128..192).contains(&b[0]) && b.len() >= 2 && (200..=211).contains(&b[1]) }

/// The documented decision, as the set of admissible winners: rule 1 (marker, lowest first_seq),
/// else rule 2 (>= 3 packets observed and a source with two sequential steps), else rule 3 (window
/// exhausted: most packets, ties → lowest first_seq), else no decision.
fn documented_winners(srcs: &[Src], total: usize, max: usize) -> Vec<(u8, u16)> {
    let markers: Vec<&Src> = srcs.iter().filter(|s| s.marker).collect();
    if let Some(lo) = markers.iter().map(|s| s.first_seq()).min() {
        return markers.iter().filter(|s| s.first_seq() == lo).map(|s| s.addr).collect();
    }
    let runs: Vec<&Src> = srcs.iter().filter(|s| s.run() >= 2).collect();
    if total >= 3 && !runs.is_empty() { return runs.iter().map(|s| s.addr).collect(); }
    if total >= max {
        let hi = srcs.iter().map(|s| s.seqs.len()).max().unwrap_or(0);
        let top: Vec<&Src> = srcs.iter().filter(|s| s.seqs.len() == hi).collect();
        let lo = top.iter().map(|s| s.first_seq()).min().unwrap_or(0);
        return top.iter().filter(|s| s.first_seq() == lo).map(|s| s.addr).collect();
    }
    vec![]
}

/// "until signaling resets the latch" / "a signaling reset starts a fresh selection": after a reset or
/// retarget no packet seen before it may still vote — evaluated on the hook's dump of the hidden table.
fn fresh_window(fail: &mut impl FnMut(&str, String), what: &str, after: &Obs, window: Option<u8>) {
    match (&after.prob, window) {
        (Some(p), Some(m)) => if !p.cands.is_empty() || p.total != 0 || p.max != m {
            fail(&format!("window:{what}-kept-pre-reset-votes"), format!("{} candidates, total {}, max {} (configured {})", p.cands.len(), p.total, p.max, m)); },
        (Some(_), None) => fail(&format!("window:{what}-armed-a-window-although-none-configured"), String::new()),
        (None, Some(_)) => fail(&format!("window:{what}-did-not-arm-the-configured-window"), String::new()),
        (None, None) => {}
    }
}

/// Returns oracle failures (signature, detail) for a case and its observations.
pub fn oracles(c: &Case, obs: &[Obs]) -> Vec<(String, String)> {
    let mut fails: Vec<(String, String)> = vec![];
    let mut expected: u32 = 0;
    let mut latch_on = false;
    let mut maxp = c.maxp;
    let mut window: Option<u8> = None; // probation window in force (None = immediate-latch mode)
    let mut srcs: Vec<Src> = vec![];   // sources of expected-SSRC RTP since the window was (re)armed
    let mut total = 0usize;
    let mut rtcp_changes = 0;
    for (i, op) in c.ops.iter().enumerate() {
        let (before, after) = (&obs[i], &obs[i + 1]);
        let mut fail = |sig: &str, d: String| fails.push((sig.to_string(), format!("step {i} ({}): {d}", op_text(op))));
        let moved = after.remote != before.remote;
        match op {
            Op::Pkt(ip, port, b) => {
                let a = (*ip, *port);
                let legit = is_rtp(b) && b.len() >= 12 && {
                    let ssrc = u32::from_be_bytes([b[8], b[9], b[10], b[11]]);
                    expected == 0 || ssrc == expected };
                if after.rtcp != before.rtcp {
                    rtcp_changes += 1;
                    if !is_rtcp(b) { fail("rtcp:set-by-non-rtcp", String::new()); }
                    if after.rtcp != Some(a) { fail("rtcp:set-to-other-than-source", String::new()); }
                    if rtcp_changes > 1 { fail("rtcp:set-more-than-once", String::new()); }
                }
                if latch_on {
                    // clause 4: RTCP never touches the RTP destination — no exception for unset destinations
                    if is_rtcp(b) && moved { fail("rtcp:moved-rtp-destination", format!("{:?} -> {:?}", before.remote, after.remote)); }
                    // clause 3: committed ⇒ no packet of any kind moves the destination or clears the latch
                    if before.latched && moved { fail("sticky:pkt-moved-latched-destination", format!("{:?} -> {:?}", before.remote, after.remote)); }
                    if before.latched && !after.latched { fail("sticky:pkt-cleared-latch", String::new()); }
                    // clause 1: only expected-SSRC RTP moves the destination …
                    if moved && !legit && !is_rtcp(b) && !before.latched {
                        fail("move:by-packet-that-is-not-expected-ssrc-rtp", format!("{:?} -> {:?}", before.remote, after.remote)); }
                    if legit && !before.latched {
                        // … and only to a source of such RTP seen since the window was armed
                        let seq = u16::from_be_bytes([b[2], b[3]]);
                        let marker = b[1] & 0x80 != 0;
                        if let Some(m) = window {
                            total += 1;
                            if let Some(s) = srcs.iter_mut().find(|s| s.addr == a) { s.seqs.push(seq); s.marker |= marker; }
                            else { srcs.push(Src { addr: a, seqs: vec![seq], marker }); }
                            if moved && !srcs.iter().any(|s| s.addr == after.remote) {
                                fail("move:to-non-legit-source", format!("-> {:?}", after.remote)); }
                            let w = documented_winners(&srcs, total, m as usize);
                            match (w.is_empty(), after.latched) {
                                (false, true) => if !w.contains(&after.remote) {
                                    fail("winner:committed-destination-is-not-documented-rule-winner",
                                        format!("documented rules admit {:?}, destination {:?}", w, after.remote)); },
                                (false, false) => fail("commit:not-latched-when-rules-decide", format!("{w:?}")),
                                (true, true) => fail("commit:latched-without-rule", String::new()),
                                (true, false) => if after.remote != a { fail("probation:destination-does-not-follow-source", String::new()); },
                            }
                            if total >= m as usize && !after.latched { fail("commit:not-within-max-packets", String::new()); }
                            if after.latched { window = None; }
                        } else {
                            if !after.latched || after.remote != a { fail("commit:immediate-latch-missed", String::new()); }
                        }
                    } else if legit && moved { /* before.latched: reported above */ }
                    if !legit && !before.latched && after.latched { fail("commit:by-packet-that-is-not-expected-ssrc-rtp", String::new()); }
                }
            }
            Op::Enable => {
                latch_on = true;
                if maxp > 0 { if window.is_none() { window = Some(maxp); srcs.clear(); total = 0; } } else { window = None; }
                if moved || after.latched != before.latched { fail("api:enable-changed-destination-or-latch", String::new()); }
            }
            Op::Reset => {
                rtcp_changes = 0; srcs.clear(); total = 0; window = if latch_on && maxp > 0 { Some(maxp) } else { None };
                if moved { fail("api:reset-moved-destination", String::new()); }
                if after.latched { fail("api:reset-left-latch-set", String::new()); }
                if after.on { fresh_window(&mut fail, "reset", after, window); }
            }
            Op::Sig(ip, p) => {
                rtcp_changes = 0; srcs.clear(); total = 0; window = if latch_on && maxp > 0 { Some(maxp) } else { None };
                if after.remote != (*ip, *p) { fail("api:signaling-retarget-not-applied", String::new()); }
                if after.latched { fail("api:signaling-retarget-left-latch-set", String::new()); }
                if after.on { fresh_window(&mut fail, "signaling-retarget", after, window); }
            }
            Op::Pair(ip, p) => {
                if before.latched && latch_on {
                    if moved { fail("sticky:pair-update-moved-latched-destination", format!("{:?} -> {:?}", before.remote, after.remote)); }
                } else if after.remote != (*ip, *p) { fail("api:pair-update-not-applied", String::new()); }
                if after.latched != before.latched { fail("api:pair-update-changed-latch", String::new()); }
            }
            Op::Ssrc(v) => {
                // sources seen under another SSRC expectation did not send "RTP carrying the expected SSRC"
                if *v != expected { srcs.clear(); total = 0;
                    if let Some(p) = &after.prob { if !p.cands.is_empty() || p.total != 0 {
                        fail("window:ssrc-change-kept-votes-of-the-previous-expectation", format!("{} candidates, total {}", p.cands.len(), p.total)); } } }
                expected = *v;
                if moved || after.latched != before.latched { fail("api:ssrc-changed-destination-or-latch", String::new()); }
            }
            Op::Maxp(v) => { maxp = *v; if moved || after.latched != before.latched { fail("api:maxp-changed-destination-or-latch", String::new()); } }
            Op::RtcpAddr(_) => { rtcp_changes = 0; if moved || after.latched != before.latched { fail("api:rtcp-addr-changed-destination-or-latch", String::new()); } }
        }
    }
    fails
}

// ---------------------------------------------------------------------------------------------
// Generators

const SSRC: u32 = 0x1122_3344;
/// A and C share the IP, B and C share the port (the doc comment's scenario is "multiple source
/// ports" of one host): a lookup or guard comparing only `.ip()` or only `.port()` is visible.
const SRC: [(u8, u16); 3] = [(1, 5001), (2, 5002), (1, 5002)];
/// further sources for the random stream (same port other IP, v4-mapped IPv6 of A, plain IPv6)
const SRC_X: [(u8, u16); 4] = [(2, 5001), (101, 5001), (201, 5001), (1, 0)];
const SIG: (u8, u16) = (4, 5004);
const PAIR: (u8, u16) = (5, 5005);

fn rtp(marker: bool, seq: u16, ts: u32, ssrc: u32) -> Vec<u8> {
    let mut b = vec![0x80, if marker { 0x80 | 96 } else { 96 }];
    b.extend_from_slice(&seq.to_be_bytes());
    b.extend_from_slice(&ts.to_be_bytes());
    b.extend_from_slice(&ssrc.to_be_bytes());
    b
}
fn rtcp() -> Vec<u8> { vec![0x80, 201, 0, 1, 0, 0, 0, 1] }

/// The 21-symbol alphabet of the design; per-source sequence cursors make "+1" meaningful.
struct Alpha { last: [u16; 3] }
impl Alpha {
    fn new() -> Self { Alpha { last: [1000, 500, 65534] } }
    fn sym(&mut self, k: usize) -> Op {
        if k < 18 {
            let (s, v) = (k / 6, k % 6);
            let (ip, port) = SRC[s];
            match v {
                0..=3 => {
                    let marker = v & 1 == 1;
                    let seq = if v & 2 == 0 { self.last[s].wrapping_add(1) } else { self.last[s].wrapping_sub(3) };
                    self.last[s] = seq;
                    Op::Pkt(ip, port, rtp(marker, seq, 160u32.wrapping_mul(seq as u32), SSRC))
                }
                4 => Op::Pkt(ip, port, rtp(false, 7, 7, 0xdead_beef)),
                _ => Op::Pkt(ip, port, rtcp()),
            }
        } else {
            match k { 18 => Op::Reset, 19 => Op::Sig(SIG.0, SIG.1), _ => Op::Pair(PAIR.0, PAIR.1) }
        }
    }
}
pub const NSYM: usize = 21;

fn case_text(c: &Case) -> String {
    format!("init,{},{},{},{} {}", c.init.0, c.init.1, c.maxp, c.tcp as u8,
        c.ops.iter().map(op_text).collect::<Vec<_>>().join(" "))
}

fn emit(run: &mut Run, rt: &tokio::runtime::Runtime, c: &Case) {
    let obs = exec(rt, c);
    let input = case_text(c);
    let out = obs_line(&obs);
    let committed = obs.iter().any(|o| o.latched);
    let moved = obs.windows(2).any(|w| w[0].remote != w[1].remote);
    run.case("latch", &input, &out, committed || moved);
    if committed { run.count("cases_committed"); }
    if moved { run.count("cases_destination_moved"); }
    if obs.windows(2).any(|w| w[0].rtcp != w[1].rtcp) { run.count("cases_rtcp_learnt"); }
    if obs.iter().any(|o| o.prob.as_ref().map(|p| p.cands.len() >= 2).unwrap_or(false)) { run.count("cases_two_or_more_candidates"); }
    // API ops landing in the MIDDLE of an open, non-empty probation window (candidates observed, nothing committed)
    for (i, op) in c.ops.iter().enumerate() {
        let open = !obs[i].latched && obs[i].prob.as_ref().map(|p| !p.cands.is_empty()).unwrap_or(false);
        if !open { continue; }
        let key = match op {
            Op::Reset => "midwindow_reset", Op::Sig(..) => "midwindow_signaling_retarget", Op::Pair(..) => "midwindow_pair_update",
            Op::Ssrc(v) => if *v != obs[i].exp { "midwindow_ssrc_change" } else { "midwindow_ssrc_same" },
            Op::Maxp(_) => "midwindow_maxp", Op::Enable => "midwindow_enable", Op::RtcpAddr(_) => "midwindow_rtcp_addr", Op::Pkt(..) => continue };
        run.count(key);
        // … and followed by at least one more expected-SSRC packet, so stale state would have to show
        if c.ops[i + 1..].iter().any(|o| matches!(o, Op::Pkt(_, _, b) if is_rtp(b) && b.len() >= 12)) { run.count(&format!("{key}_then_rtp")); }
    }
    if obs.iter().any(|o| o.prob.as_ref().map(|p| p.cands.iter().any(|c| c.count == 255) || p.total == 255).unwrap_or(false)) { run.count("cases_counter_at_255"); }
    for (sig, detail) in oracles(c, &obs) {
        run.fail(&sig, &input, &detail);
    }
}

/// prefixes of the exhaustive part: (name, init address, ops before the enumerated symbols)
fn prefixes() -> Vec<(&'static str, (u8, u16), Vec<Op>)> {
    vec![
        ("ssrc+rtcpaddr+enable", (1, 5001), vec![Op::Ssrc(SSRC), Op::RtcpAddr(Some((1, 5101))), Op::Enable]),
        ("enable-only(no ssrc known, rtcp-mux)", (9, 5009), vec![Op::Enable]),
        ("unset-destination 0.0.0.0:0 + enable + ssrc", (0, 0), vec![Op::Enable, Op::Ssrc(SSRC), Op::RtcpAddr(Some((1, 5101)))]),
        ("latching off", (1, 5001), vec![Op::Ssrc(SSRC), Op::RtcpAddr(Some((1, 5101)))]),
    ]
}

pub fn run(args: &Args) {
    let rt = tokio::runtime::Builder::new_current_thread().enable_all().build().unwrap();
    if let Some(case) = &args.replay {
        if case.starts_with("pc ") { pc_stream::replay(&rt, case); return; }
        if case.starts_with("race ") { race::replay(case); return; }
        let c = parse_case(case);
        let obs = exec(&rt, &c);
        println!("impl: {}", obs_line(&obs));
        for (s, d) in oracles(&c, &obs) { println!("ORACLE-FAIL {s} {d}"); }
        return;
    }
    let mut run = Run::new("c18", &args.out);
    let thorough = args.tier_thorough;
    // (1) exhaustive: all sequences of length L over the 21-symbol alphabet
    let pre = prefixes();
    let mut plan: Vec<(usize, usize, u8)> = vec![]; // (prefix, len, maxp)
    if thorough {
        for m in [0u8, 1, 2, 3, 4, 6, 8] { plan.push((0, 4, m)); }
        plan.push((0, 5, 3)); plan.push((0, 5, 6));
        for p in 1..pre.len() { for m in [0u8, 3, 6] { plan.push((p, 4, m)); } }
    } else {
        for m in 0u8..=8 { plan.push((0, 3, m)); }
        plan.push((0, 4, 3));
        for p in 1..pre.len() { for m in [0u8, 2, 3, 6] { plan.push((p, 3, m)); } }
    }
    for &(pi, len, maxp) in &plan {
        let n = NSYM.pow(len as u32);
        for idx in 0..n {
            let mut al = Alpha::new();
            let mut ops = pre[pi].2.clone();
            let mut k = idx;
            for _ in 0..len { ops.push(al.sym(k % NSYM)); k /= NSYM; }
            emit(&mut run, &rt, &Case { init: pre[pi].1, maxp, tcp: false, ops });
        }
        run.count_n(&format!("exhaustive_prefix{pi}_len{len}_maxp{maxp}"), n as u64);
    }
    // (2) exhaustive rule-competition family: two sources sharing the IP, no markers, each packet
    // either continues the source's run (+1) or breaks it (-3); every sequence up to the length
    // at which the window must have closed. This is where rules 2 and 3 compete (total = max with a
    // run completed by the same packet).
    let comp: Vec<(u8, usize)> = if thorough { vec![(3, 4), (4, 5), (5, 6), (6, 7), (7, 8), (8, 9), (9, 10)] } else { vec![(3, 4), (4, 5), (5, 6), (6, 7), (7, 8)] };
    for &(maxp, len) in &comp {
        let n = 4usize.pow(len as u32);
        for idx in 0..n {
            let mut last = [1000u16, 20u16];
            let mut ops = vec![Op::Ssrc(SSRC), Op::Enable];
            let mut k = idx;
            for _ in 0..len {
                let (s, brk) = ((k & 1) as usize, k & 2 != 0); k >>= 2;
                let seq = if brk { last[s].wrapping_sub(3) } else { last[s].wrapping_add(1) };
                last[s] = seq;
                let (ip, port) = [SRC[0], SRC[2]][s];
                ops.push(Op::Pkt(ip, port, rtp(false, seq, seq as u32, SSRC)));
            }
            emit(&mut run, &rt, &Case { init: (9, 5009), maxp, tcp: false, ops });
        }
        run.count_n(&format!("rule_competition_maxp{maxp}_len{len}"), n as u64);
    }
    // (2b) exhaustive mid-window API family: two sources x {run +1, break -3} + every latch API op
    // (reset, signaling retarget, pair update, same SSRC, changed SSRC (toggles), window size, enable);
    // every sequence of the given length, so each op lands in every reachable open-window state and is
    // followed by packets that a stale table / stale total would mis-decide.
    let mid: Vec<(u8, usize)> = if thorough { vec![(2, 5), (3, 5), (4, 6), (6, 5)] } else { vec![(4, 5), (6, 5), (3, 4), (2, 4)] };
    for &(maxp, len) in &mid {
        let n = 11usize.pow(len as u32);
        for idx in 0..n {
            let mut last = [1000u16, 20u16];
            let mut cur_ssrc = SSRC;
            let mut ops = vec![Op::Ssrc(SSRC), Op::Enable];
            let mut k = idx;
            for _ in 0..len {
                let sym = k % 11; k /= 11;
                ops.push(match sym {
                    0..=3 => { let (s, brk) = (sym & 1, sym & 2 != 0);
                        let seq = if brk { last[s].wrapping_sub(3) } else { last[s].wrapping_add(1) }; last[s] = seq;
                        let (ip, port) = [SRC[0], SRC[2]][s];
                        Op::Pkt(ip, port, rtp(false, seq, seq as u32, SSRC)) }
                    4 => Op::Reset, 5 => Op::Sig(SIG.0, SIG.1), 6 => Op::Pair(PAIR.0, PAIR.1),
                    7 => Op::Ssrc(cur_ssrc),
                    8 => { cur_ssrc = if cur_ssrc == SSRC { 5 } else { SSRC }; Op::Ssrc(cur_ssrc) }
                    9 => Op::Maxp(2), _ => Op::Enable });
            }
            emit(&mut run, &rt, &Case { init: (9, 5009), maxp, tcp: false, ops });
        }
        run.count_n(&format!("midwindow_api_family_maxp{maxp}_len{len}"), n as u64);
    }
    // (2c) directed (coordinator's seed C18-b): window 4, the old source sends 3 packets, a reset / retarget with the
    // SAME expected SSRC lands in the open window, the new source sends one packet — nothing may be decided yet
    // and the old source must not come back
    for api in [vec![Op::Reset], vec![Op::Sig(SIG.0, SIG.1)], vec![Op::Reset, Op::Ssrc(SSRC)], vec![Op::Sig(SIG.0, SIG.1), Op::Ssrc(SSRC)]] {
        let (o, nw) = (SRC[1], SRC[0]);
        let mut ops = vec![Op::Ssrc(SSRC), Op::Enable, Op::Pkt(o.0, o.1, rtp(false, 10, 10, SSRC)), Op::Pkt(o.0, o.1, rtp(false, 20, 20, SSRC)), Op::Pkt(o.0, o.1, rtp(false, 30, 30, SSRC))];
        ops.extend(api);
        ops.extend([Op::Pkt(nw.0, nw.1, rtp(false, 500, 500, SSRC)), Op::Pkt(nw.0, nw.1, rtp(false, 600, 600, SSRC)), Op::Pkt(nw.0, nw.1, rtp(false, 700, 700, SSRC)), Op::Pkt(nw.0, nw.1, rtp(false, 800, 800, SSRC))]);
        emit(&mut run, &rt, &Case { init: (9, 5009), maxp: 4, tcp: false, ops });
        run.count("directed_reset_in_open_window");
    }
    // (3) directed: u8 counters at their ceiling (window 255, one source breaking its run each time,
    // a second source once): total and packet_count reach 255 exactly when rule 3 must fire
    for extra in [0usize, 1, 2] {
        let mut ops = vec![Op::Ssrc(SSRC), Op::Enable];
        let mut seq = 40000u16;
        for i in 0..(255 + extra) {
            seq = seq.wrapping_sub(3);
            let (ip, port) = if i == 100 && extra == 1 { SRC[1] } else { SRC[0] };
            ops.push(Op::Pkt(ip, port, rtp(false, seq, 0, SSRC)));
        }
        emit(&mut run, &rt, &Case { init: (9, 5009), maxp: 255, tcp: false, ops });
        run.count("directed_window255");
    }
    // (4) random longer sequences (wrap, unknown ssrc, unset destination, API ops, TCP socket, IPv6)
    let mut rng = Rng::new(args.seed);
    let nrand = if thorough { 200_000 } else { 20_000 };
    for _ in 0..nrand {
        let maxp = *rng.pick(&[0u8, 1, 2, 3, 4, 5, 6, 7, 8, 8, 20, 255]);
        let init = *rng.pick(&[(1u8, 5001u16), (9, 5009), (0, 0), (1, 0), (4, 5004)]);
        let mut ops = vec![];
        if rng.chance(3, 4) { ops.push(Op::Ssrc(SSRC)); }
        if rng.chance(1, 2) { ops.push(Op::RtcpAddr(Some((1, 5101)))); }
        if rng.chance(9, 10) { ops.push(Op::Enable); }
        let n = if rng.chance(1, 20) { rng.range(260, 300) } else { rng.range(1, 30) } as usize;
        let mut al = Alpha::new();
        for _ in 0..n {
            let r = rng.below(100);
            let op = if r < 66 { al.sym(rng.below(18) as usize) }
                else if r < 70 {
                    let (ip, port) = *rng.pick(&SRC_X);
                    Op::Pkt(ip, port, match rng.below(3) { 0 => rtcp(), 1 => rtp(false, 9, 9, 0xdead_beef),
                        _ => rtp(rng.chance(1, 4), rng.next() as u16, rng.next() as u32, SSRC) }) }
                else if r < 80 {
                    let (ip, port) = *rng.pick(&SRC);
                    let b = match rng.below(6) {
                        0 => vec![], 1 => vec![rng.next() as u8],
                        2 => { let mut b = rtp(false, 1, 1, SSRC); b.truncate(rng.below(12) as usize + 1); b }
                        3 => { let mut b = rng.bytes(13); b[0] = 22; b }
                        4 => rtp(rng.chance(1, 2), rng.next() as u16, rng.next() as u32, if rng.chance(1, 2) { SSRC } else { 0 }),
                        _ => { let n = rng.range(1, 20) as usize; rng.bytes(n) } };
                    Op::Pkt(ip, port, b) }
                else if r < 84 { Op::Reset }
                else if r < 88 { let (i, p) = *rng.pick(&[SIG, (4, 0), (1, 0), SRC[0], SRC[1], SRC[2], (9, 5009)]); Op::Sig(i, p) }
                else if r < 92 { let (i, p) = *rng.pick(&[PAIR, SRC[0], SRC[1], SRC[2], (5, 0)]); Op::Pair(i, p) }
                else if r < 94 { Op::Ssrc(*rng.pick(&[0u32, SSRC, 5])) }
                else if r < 96 { Op::Maxp(*rng.pick(&[0u8, 1, 3, 6])) }
                else if r < 98 { Op::Enable }
                else { Op::RtcpAddr(if rng.chance(1, 3) { None } else { Some((2, 5102)) }) };
            ops.push(op);
        }
        let tcp = rng.chance(1, 25);
        if tcp { run.count("random_tcp_socket_cases"); }
        if init.1 == 0 { run.count("random_unset_destination_cases"); }
        emit(&mut run, &rt, &Case { init, maxp, tcp, ops });
    }
    run.count_n("random_sequences", nrand);
    // (5) structural tie: every writer of `remote_addr` in the source tree is a modelled site
    writers::run(&mut run);
    // (6) the anchored callers: a real PeerConnection in RTP mode
    pc_stream::run(&mut run, &rt, args);
    // (7) API ops racing with receive(): schedules of the yield-point hook executed on the real code
    race::run(&mut run, args);
    run.exhaustive = true;
    run.notes.insert("exhaustive_scope".into(), serde_json::json!(format!(
        "all 21^L sequences over the 21-symbol alphabet: {:?} (prefix, L, window); prefixes {:?}; all 4^L rule-competition sequences {:?} (window, L)",
        plan, pre.iter().map(|p| p.0).collect::<Vec<_>>(), comp)));
    run.finish();
}

pub fn parse_case(s: &str) -> Case {
    let mut it = s.split_whitespace();
    let init: Vec<&str> = it.next().unwrap().split(',').collect();
    let mut ops = vec![];
    for t in it {
        let f: Vec<&str> = t.split(',').collect();
        let n = |i: usize| f[i].parse::<u64>().unwrap();
        ops.push(match f[0] {
            "p" => Op::Pkt(n(1) as u8, n(2) as u16, crate::unhex(f[3])),
            "en" => Op::Enable, "rs" => Op::Reset,
            "sg" => Op::Sig(n(1) as u8, n(2) as u16), "pr" => Op::Pair(n(1) as u8, n(2) as u16),
            "ss" => Op::Ssrc(n(1) as u32), "mp" => Op::Maxp(n(1) as u8),
            "ra" => Op::RtcpAddr(if f[1] == "-" { None } else { Some((n(1) as u8, n(2) as u16)) }),
            x => panic!("bad op {x}"),
        });
    }
    Case { init: (init[1].parse().unwrap(), init[2].parse().unwrap()), maxp: init[3].parse().unwrap(), tcp: init.get(4) == Some(&"1"), ops }
}

/// Structural tie for the anchored callers (`src/peer_connection.rs`, `src/transports/ice/mod.rs`, …):
/// the model accounts for a fixed set of `remote_addr.write()` sites, all in `conn.rs`; every other
/// file must reach the destination through `set_remote_addr_from_selected_pair` /
/// `set_remote_addr_from_signaling` (the `Pair` / `Sig` ops). The non-test part of every source
/// file is scanned on each run; the Lean side (`Latch.modelledWriters`) holds the expected counts.
mod writers {
    use super::*;
    pub fn repo() -> String {
        if let Ok(r) = std::env::var("VERIF_REPO") { return r; }
        let f = concat!(env!("CARGO_MANIFEST_DIR"), "/../.verif_repo");
        std::fs::read_to_string(f).map(|s| s.trim().to_string()).unwrap_or_else(|_| "/repo".into())
    }
    fn scan(dir: &std::path::Path, out: &mut Vec<std::path::PathBuf>) {
        let mut es: Vec<_> = std::fs::read_dir(dir).map(|d| d.flatten().map(|e| e.path()).collect()).unwrap_or_default();
        es.sort();
        for p in es { if p.is_dir() { scan(&p, out); } else if p.extension().map(|e| e == "rs").unwrap_or(false) { out.push(p); } }
    }
    /// `(file, line)` of every `remote_addr . write()` in non-test code (whitespace/newlines tolerated)
    pub fn sites() -> Vec<(String, usize)> {
        let root = repo();
        let mut files = vec![];
        scan(std::path::Path::new(&format!("{root}/src")), &mut files);
        let mut out = vec![];
        for f in files {
            let rel = f.strip_prefix(&root).unwrap().to_string_lossy().trim_start_matches('/').to_string();
            if rel.starts_with("src/verif_hooks") || rel.ends_with("tests.rs") { continue; }
            let txt = std::fs::read_to_string(&f).unwrap_or_default();
            let code = match txt.find("#[cfg(test)]") { Some(i) => &txt[..i], None => &txt[..] };
            let squeezed: String = code.chars().filter(|c| !c.is_whitespace() || *c == '\n').collect();
            let flat = squeezed.replace('\n', "\u{1}");
            let mut from = 0;
            // tolerate a line break between the field and the call
            // also the non-blocking and the fully qualified spellings
            let pats = ["remote_addr.write()", "remote_addr\u{1}.write()", "remote_addr.try_write()", "remote_addr\u{1}.try_write()",
                "write(&self.remote_addr)", "write(&conn.remote_addr)", "write(&ice_conn.remote_addr)", "remote_addr.get_mut()"];
            loop {
                let next = pats.iter().filter_map(|p| flat[from..].find(p).map(|i| i + from)).min();
                let Some(i) = next else { break };
                let line = flat[..i].matches('\u{1}').count() + 1;
                out.push((rel.clone(), line));
                from = i + 10;
            }
        }
        out
    }
    /// `IceConn` construction sites in non-test code: a NEW connection object is a new, unlatched latch
    pub fn creators() -> std::collections::BTreeMap<String, usize> {
        let root = repo();
        let mut files = vec![];
        scan(std::path::Path::new(&format!("{root}/src")), &mut files);
        let mut out = std::collections::BTreeMap::new();
        for f in files {
            let rel = f.strip_prefix(&root).unwrap().to_string_lossy().trim_start_matches('/').to_string();
            if rel.starts_with("src/verif_hooks") || rel.ends_with("tests.rs") || rel == "src/transports/ice/conn.rs" { continue; }
            let txt = std::fs::read_to_string(&f).unwrap_or_default();
            let code = match txt.find("#[cfg(test)]") { Some(i) => &txt[..i], None => &txt[..] };
            let n = code.matches("IceConn::new").count();
            if n > 0 || rel == "src/peer_connection.rs" { out.insert(rel, n); }
        }
        out
    }
    pub fn run(run: &mut Run) {
        let cr = creators();
        run.case("writers", &cr.iter().map(|(f, n)| format!("{f}#new={n}")).collect::<Vec<_>>().join(" "),
            &cr.keys().map(|f| format!("{f}#new=ok")).collect::<Vec<_>>().join(" "), true);
        for (f, n) in &cr { let want = if f == "src/peer_connection.rs" { 2 } else { 0 };
            if *n != want { run.fail(&format!("tie:unmodelled-iceconn-construction-site:{f}"), &format!("writers {f}#new={n}"),
                "the pc stream covers the two construction sites in peer_connection.rs (start_dtls: primary, ensure_direct_rtp_media_transport: extra); a further site creates a connection whose latch state starts fresh"); } }
        let sites = sites();
        let mut per: std::collections::BTreeMap<String, Vec<usize>> = Default::default();
        per.insert("src/transports/ice/conn.rs".into(), vec![]);
        for (f, l) in &sites { per.entry(f.clone()).or_default().push(*l); }
        let input = per.iter().map(|(f, ls)| format!("{f}={}", ls.len())).collect::<Vec<_>>().join(" ");
        let out = per.keys().map(|f| format!("{f}=ok")).collect::<Vec<_>>().join(" ");
        run.case("writers", &input, &out, true);
        run.count_n("remote_addr_write_sites", sites.len() as u64);
        for (f, ls) in &per {
            if f != "src/transports/ice/conn.rs" && !ls.is_empty() {
                run.fail(&format!("tie:unmodelled-writer-of-remote_addr:{f}"), &format!("writers {f}:{:?}", ls),
                    "a write to IceConn::remote_addr outside conn.rs bypasses the latch guard (set_remote_addr_from_selected_pair / _from_signaling)");
            }
        }
    }
}

/// The anchored callers (`src/peer_connection.rs`, `src/transports/ice/mod.rs`): a real
/// `PeerConnection` in RTP mode with latching, driven through SDP and real loopback UDP sockets.
///  * pranswer → the transport is created, latching enabled, destination set from signaling;
///  * UDP datagrams from several local sockets (two share the IP, two share the port) → `IceConn::receive`;
///  * final answer with a changed endpoint → `set_remote_addr_from_signaling` (model op `sg`);
///  * re-INVITE with a changed endpoint → `complete_direct_rtp` → selected-pair change → the pair
///    monitor task → `set_remote_addr_from_selected_pair` (model op `pr`);
///  * an (unauthenticated, RTP-mode) STUN binding request from another IP with the pair's port →
///    STUN-driven pair rewrite (`mod.rs` "RTP latching: updating remote address") → monitor → `pr`;
///    from any other port → no pair change;
///  * after every step `IceConn::send` / `try_send` / `send_rtcp` are called and the datagrams must
///    arrive at the socket the model's destination names (the *send address*, not only the field).
/// Compared with the model after every step: destination and latch flag.
mod pc_stream {
    use super::*;
    use rustrtc::transports::ice::stun::{StunClass, StunMessage, StunMethod};
    use rustrtc::{MediaKind, PeerConnection, RtcConfiguration, SdpType, SessionDescription, TransceiverDirection, TransportMode};
    use std::time::Duration;
    use tokio::net::UdpSocket;

    /// symbolic addresses: index → (ip code, symbolic port, 127.0.0.x host byte)
    /// S signaled endpoint, A, C (same IP as A), B (same port as C), T second signaled endpoint,
    /// X (same port as S, other IP: the only kind of source the STUN rewrite accepts), Y same for T
    const SYM: [(u8, u16, u8); 9] = [(9, 5009, 9), (1, 5001, 1), (1, 5002, 1), (2, 5002, 2), (4, 5004, 4), (3, 5009, 3), (3, 5004, 3), (9, 5010, 9), (4, 5005, 4)];
    /// R / U: the RTCP ports (RTP port + 1) of S / T, used by the scenarios without rtcp-mux
    const NAMES: [&str; 9] = ["S", "A", "C", "B", "T", "X", "Y", "R", "U"];

    #[derive(Clone, Debug)]
    /// `Answer` / `Reinvite` carry the endpoint and what the SDP announces as `a=ssrc`:
    /// 0 = no `a=ssrc` line, 1 = `SSRC`, 2 = `SSRC2`, 9 = as the case's `ssrc` flag says (SSRC or none)
    /// `Stun(source, kind)`: kind 0 = Binding request without attributes, 1 = Binding INDICATION,
    /// 2 = Binding request with USE-CANDIDATE + PRIORITY (all without credentials)
    pub enum Step { Pkt(usize, Vec<u8>), Answer(usize, u8), Reinvite(usize, u8), Stun(usize, u8) }
    fn stun_bytes(kind: u8, k: usize) -> Result<Vec<u8>, String> {
        use rustrtc::transports::ice::stun::StunAttribute;
        let m = StunMessage { class: if kind == 1 { StunClass::Indication } else { StunClass::Request }, method: StunMethod::Binding, transaction_id: [k as u8; 12],
            attributes: if kind == 2 { vec![StunAttribute::UseCandidate, StunAttribute::Priority(0x7fff_ffff)] } else { vec![] } };
        m.encode(None, true).map_err(|e| format!("stun encode: {e:?}"))
    }
    pub const SSRC2: u32 = 0x5566_7788;
    /// what the PC feeds `set_remote_rtcp_addr` for an endpoint: nothing with rtcp-mux, else RTP port + 1 (symbolic R / U)
    fn ra_op(i: usize, mux: bool) -> String { if mux { "ra,-".into() } else { format!("ra,{},{}", SYM[i].0, SYM[i].1 + 1) } }
    fn rtcp_text(net: &Net, conn: &IceConn) -> String { match *conn.remote_rtcp_addr.read() { None => "-".into(), Some(a) => { let r = net.sym(a); format!("{}:{}", r.0, r.1) } } }
    fn ssrc_of(c: &PcCase, sid: u8) -> Option<u32> { match sid { 0 => None, 1 => Some(SSRC), 2 => Some(SSRC2), _ => if c.ssrc { Some(SSRC) } else { None } } }
    #[derive(Clone, Debug)]
    pub struct PcCase { pub answerer: bool, pub maxp: u8, pub ssrc: bool, pub mux: bool, pub steps: Vec<Step> }

    pub fn case_text(c: &PcCase) -> String {
        format!("pc {},{},{}{} {}", c.maxp, c.ssrc as u8, c.mux as u8, if c.answerer { ",a" } else { "" }, c.steps.iter().map(|s| match s {
            Step::Pkt(i, b) => format!("p,{},{}", NAMES[*i], hex(b)),
            Step::Answer(i, sid) => format!("answer,{},{sid}", NAMES[*i]),
            Step::Reinvite(i, sid) => format!("reinvite,{},{sid}", NAMES[*i]),
            Step::Stun(i, kind) => format!("stun,{},{kind}", NAMES[*i]) }).collect::<Vec<_>>().join(" "))
    }
    pub fn parse(s: &str) -> PcCase {
        let mut it = s.split_whitespace(); it.next();
        let h: Vec<&str> = it.next().unwrap().split(',').collect();
        let idx = |n: &str| NAMES.iter().position(|x| *x == n).unwrap();
        let steps = it.map(|t| { let f: Vec<&str> = t.split(',').collect(); match f[0] {
            "p" => Step::Pkt(idx(f[1]), crate::unhex(f[2])), "answer" => Step::Answer(idx(f[1]), f.get(2).map(|x| x.parse().unwrap()).unwrap_or(9)),
            "reinvite" => Step::Reinvite(idx(f[1]), f.get(2).map(|x| x.parse().unwrap()).unwrap_or(9)), _ => Step::Stun(idx(f[1]), f.get(2).map(|x| x.parse().unwrap()).unwrap_or(0)) } }).collect();
        PcCase { answerer: h.get(3) == Some(&"a"), maxp: h[0].parse().unwrap(), ssrc: h[1] == "1", mux: h.get(2) != Some(&"0"), steps }
    }

    struct Net { socks: Vec<UdpSocket> }
    impl Net {
        /// bind the seven sockets on ephemeral ports such that the "same port" relations hold
        async fn new() -> Option<Net> {
            for _ in 0..50 {
                let bind = |h: u8, port: u16| async move { UdpSocket::bind(SocketAddr::new(IpAddr::V4(Ipv4Addr::new(127, 0, 0, h)), port)).await.ok() };
                let Some(s) = bind(9, 0).await else { continue };
                let Some(a) = bind(1, 0).await else { continue };
                let Some(c) = bind(1, 0).await else { continue };
                let Some(b) = bind(2, c.local_addr().unwrap().port()).await else { continue };
                let Some(t) = bind(4, 0).await else { continue };
                let Some(x) = bind(3, s.local_addr().unwrap().port()).await else { continue };
                let Some(y) = bind(3, t.local_addr().unwrap().port()).await else { continue };
                let Some(r) = bind(9, s.local_addr().unwrap().port().wrapping_add(1)).await else { continue };
                let Some(u) = bind(4, t.local_addr().unwrap().port().wrapping_add(1)).await else { continue };
                return Some(Net { socks: vec![s, a, c, b, t, x, y, r, u] });
            }
            None
        }
        fn real(&self, i: usize) -> SocketAddr { self.socks[i].local_addr().unwrap() }
        fn sym(&self, a: SocketAddr) -> (u8, u16) {
            for (i, s) in self.socks.iter().enumerate() { if s.local_addr().unwrap() == a { return (SYM[i].0, SYM[i].1); } }
            (250, a.port())
        }
        async fn drain(&self) { let mut b = [0u8; 2048]; for s in &self.socks { while s.try_recv_from(&mut b).is_ok() {} } }
        /// index of the socket that receives a datagram starting with `tag` within the timeout
        async fn who_gets(&self, tag: &[u8]) -> Option<usize> {
            let deadline = tokio::time::Instant::now() + Duration::from_millis(300);
            let mut b = [0u8; 2048];
            loop {
                for (i, s) in self.socks.iter().enumerate() {
                    while let Ok((n, _)) = s.try_recv_from(&mut b) { if b[..n].starts_with(tag) { return Some(i); } }
                }
                if tokio::time::Instant::now() > deadline { return None; }
                tokio::time::sleep(Duration::from_millis(2)).await;
            }
        }
    }

    fn sdp(addr: SocketAddr, ver: u32, ssrc: Option<u32>, mux: bool) -> String {
        format!("v=0\r\no=- 1 {ver} IN IP4 {ip}\r\ns=-\r\nt=0 0\r\nc=IN IP4 {ip}\r\nm=audio {port} RTP/AVP 0\r\na=rtpmap:0 PCMU/8000\r\n{mx}a=sendrecv\r\n{s}",
            mx = if mux { "a=rtcp-mux\r\n" } else { "" }, ip = addr.ip(), port = addr.port(), s = match ssrc { Some(v) => format!("a=ssrc:{v} cname:verif\r\n"), None => String::new() })
    }

    pub struct PcOut { pub model_ops: Vec<String>, pub obs: Vec<String>, pub fails: Vec<(String, String)>, pub stun_rewrites: u64, pub stun_moved_open: u64, pub split_rtcp: u64, pub ssrc_handoffs: u64, pub hidden: Vec<String> }

    pub async fn exec(c: &PcCase) -> Result<PcOut, String> {
        let net = Net::new().await.ok_or("could not bind the loopback sockets")?;
        let mut cfg = RtcConfiguration::default();
        cfg.transport_mode = TransportMode::Rtp;
        cfg.enable_latching = true;
        cfg.bind_ip = Some("127.0.0.1".into());
        cfg.disable_ipv6 = true;
        cfg.probation_max_packets = if c.maxp == 0 { None } else { Some(c.maxp) };
        let pc = PeerConnection::new(cfg);
        if c.answerer {
            // ANSWERER (ICE role Controlled): the remote OFFER names S; we answer. The connection is Stable afterwards,
            // so the steps may be packets, STUN and re-INVITEs (no `Answer`).
            let of = SessionDescription::parse(SdpType::Offer, &sdp(net.real(0), 1, ssrc_of(c, 9), c.mux)).map_err(|e| format!("sdp: {e:?}"))?;
            pc.set_remote_description(of).await.map_err(|e| format!("set_remote(offer): {e:?}"))?;
            let a = pc.create_answer().await.map_err(|e| format!("create_answer: {e:?}"))?;
            pc.set_local_description(a).map_err(|e| format!("set_local(answer): {e:?}"))?;
        } else {
            pc.add_transceiver(MediaKind::Audio, TransceiverDirection::SendRecv);
            let offer = pc.create_offer().await.map_err(|e| format!("create_offer: {e:?}"))?;
            pc.set_local_description(offer).map_err(|e| format!("set_local: {e:?}"))?;
            let pr = SessionDescription::parse(SdpType::Pranswer, &sdp(net.real(0), 1, ssrc_of(c, 9), c.mux)).map_err(|e| format!("sdp: {e:?}"))?;
            pc.set_remote_description(pr).await.map_err(|e| format!("set_remote(pranswer): {e:?}"))?;
        }
        let local = pc.ice_transport().local_candidates().into_iter().find(|c| c.component == 1).ok_or("no local candidate")?.address;
        let mut transport = None;
        for _ in 0..500 { if let Some(t) = pc.verif_lc_rtp_transport() { transport = Some(t); break; } tokio::time::sleep(Duration::from_millis(2)).await; }
        let conn = transport.ok_or("no rtp transport after pranswer")?.ice_conn();
        tokio::time::sleep(Duration::from_millis(20)).await;
        let observe = |net: &Net| { let r = net.sym(*conn.remote_addr.read()); format!("{}:{}/{}/{}/{}", r.0, r.1, conn.rtp_latched.load(Ordering::Relaxed) as u8, conn.expected_ssrc.load(Ordering::Relaxed), rtcp_text(net, &conn)) };
        let mut out = PcOut { model_ops: vec![format!("init,{},{},{},0", SYM[0].0, SYM[0].1, c.maxp), "en".into(), format!("sg,{},{}", SYM[0].0, SYM[0].1), ra_op(0, c.mux)], obs: vec![], fails: vec![], stun_rewrites: 0, stun_moved_open: 0, split_rtcp: 0, ssrc_handoffs: 0, hidden: vec![] };
        { let (on, exp, mx, pr) = conn.verif_latch_state(); out.hidden.push(format!("on={on} expected={exp} maxp={mx} prob={:?}", pr.map(|p| (p.0, p.1, p.2.len())))); }
        if c.ssrc { out.model_ops.push(format!("ss,{SSRC}")); out.ssrc_handoffs += 1;
            if conn.expected_ssrc.load(Ordering::Relaxed) != SSRC { out.fails.push(("pc:ssrc:announced-ssrc-not-handed-to-the-latch:primary-creation".into(), format!("pranswer announces {SSRC}, latch expects {}", conn.expected_ssrc.load(Ordering::Relaxed)))); } }
        out.model_ops.push("|".into());
        out.obs.push(observe(&net));
        let mut ver = 2;
        let mut pair_remote = 0usize; // symbolic index of the selected pair's remote
        let mut signaled: (usize, Option<u32>) = (0, ssrc_of(c, 9)); // endpoint and a=ssrc of the last applied remote SDP
        for (k, st) in c.steps.iter().enumerate() {
            let before = *conn.remote_addr.read();
            let before_latched = conn.rtp_latched.load(Ordering::Relaxed);
            match st {
                Step::Pkt(i, b) => {
                    let n0 = conn.rx_packets.load(Ordering::Relaxed);
                    net.socks[*i].send_to(b, local).await.map_err(|e| format!("send: {e}"))?;
                    for _ in 0..500 { if conn.rx_packets.load(Ordering::Relaxed) > n0 { break; } tokio::time::sleep(Duration::from_millis(2)).await; }
                    if conn.rx_packets.load(Ordering::Relaxed) == n0 { return Err(format!("step {k}: datagram not delivered to IceConn::receive")); }
                    out.model_ops.push(format!("p,{},{},{}", SYM[*i].0, SYM[*i].1, hex(b)));
                }
                Step::Answer(i, sid) | Step::Reinvite(i, sid) => {
                    let reinvite = matches!(st, Step::Reinvite(..));
                    let ss = ssrc_of(c, *sid);
                    let d = SessionDescription::parse(if reinvite { SdpType::Offer } else { SdpType::Answer }, &sdp(net.real(*i), ver, ss, c.mux)).map_err(|e| format!("sdp: {e:?}"))?; ver += 1;
                    pc.set_remote_description(d).await.map_err(|e| format!("set_remote({}): {e:?}", if reinvite { "reinvite" } else { "answer" }))?;
                    if reinvite {
                        let a = pc.create_answer().await.map_err(|e| format!("create_answer: {e:?}"))?;
                        pc.set_local_description(a).map_err(|e| format!("set_local(answer): {e:?}"))?;
                    }
                    // An SDP whose media sections are unchanged is not re-applied (`set_remote_description` shortcut). A changed
                    // one (endpoint OR a=ssrc) runs `configure_rtp_media_transport(primary)`: `set_remote_addr_from_signaling`
                    // (model `sg`: reset + retarget — for a re-INVITE preceded by `handle_reinvite`'s pair update, which the
                    // monitor applies to the same address) and, when it announces one, `set_expected_ssrc` (model `ss`);
                    // an SDP without `a=ssrc` leaves the previous expectation in place.
                    if (*i, ss) != signaled {
                        match ss {
                            Some(v) => { out.model_ops.push(format!("~sg,{},{}", SYM[*i].0, SYM[*i].1)); out.model_ops.push(format!("~{}", ra_op(*i, c.mux))); out.model_ops.push(format!("ss,{v}")); out.ssrc_handoffs += 1;
                                if conn.expected_ssrc.load(Ordering::Relaxed) != v { out.fails.push(("pc:ssrc:announced-ssrc-not-handed-to-the-latch:primary-retarget".into(), format!("step {k}: SDP announces {v}, latch expects {}", conn.expected_ssrc.load(Ordering::Relaxed)))); } }
                            None => { out.model_ops.push(format!("~sg,{},{}", SYM[*i].0, SYM[*i].1)); out.model_ops.push(ra_op(*i, c.mux)); }
                        }
                        pair_remote = *i; signaled = (*i, ss);
                    } else { out.model_ops.push(format!("mp,{}", c.maxp)); }
                }
                Step::Stun(i, kind) => {
                    let bytes = stun_bytes(*kind, k)?;
                    net.socks[*i].send_to(&bytes, local).await.map_err(|e| format!("send: {e}"))?;
                    // the rewrite applies to a REQUEST from a source with the pair's port and another IP; an indication, a
                    // request from any other port (also on the pair's IP) and USE-CANDIDATE without credentials change nothing
                    let applies = *kind != 1 && SYM[*i].1 == SYM[pair_remote].1 && SYM[*i].0 != SYM[pair_remote].0;
                    if applies { out.model_ops.push(format!("pr,{},{}", SYM[*i].0, SYM[*i].1)); pair_remote = *i; out.stun_rewrites += 1; }
                    else { out.model_ops.push(format!("mp,{}", c.maxp)); } // a no-op for the model
                    tokio::time::sleep(Duration::from_millis(30)).await;
                }
            }
            tokio::time::sleep(Duration::from_millis(25)).await; // let the pair-monitor task run
            out.obs.push(observe(&net));
            // the send paths use the destination the latch state machine holds
            let dest = *conn.remote_addr.read();
            if dest.port() != 0 {
                net.drain().await;
                let want_rtp = net.socks.iter().position(|s| s.local_addr().unwrap() == dest);
                let rtcp_dest = conn.remote_rtcp_addr.read().unwrap_or(dest);
                let want_rtcp = net.socks.iter().position(|s| s.local_addr().unwrap() == rtcp_dest);
                if rtcp_dest != dest { out.split_rtcp += 1; }
                for (name, tag) in [("send", &b"\x80\x60send"[..]), ("try_send", &b"\x80\x60trys"[..]), ("send_rtcp", &b"\x80\xc9rtcp"[..])] {
                    let r = match name { "send" => conn.send(tag).await.map(|_| ()), "try_send" => conn.try_send(tag).map(|_| ()), _ => conn.send_rtcp(tag).await.map(|_| ()) };
                    if let Err(e) = r { out.fails.push((format!("pc:send-path:{name}-failed"), format!("step {k}: {e}"))); continue; }
                    let got = net.who_gets(tag).await;
                    let want = if name == "send_rtcp" { want_rtcp } else { want_rtp };
                    if got != want { out.fails.push((format!("pc:send-path:{name}-goes-elsewhere"),
                        format!("step {k}: destination field {:?}, datagram arrived at {:?}", net.sym(dest), got.map(|g| NAMES[g])))); }
                }
            }
            if let Step::Stun(_, kind) = st { if *conn.remote_addr.read() != before {
                out.stun_moved_open += 1;
                let predicted = !out.model_ops.last().map(|t| t.starts_with("mp,")).unwrap_or(false);
                // KNOWN finding (clause 1, literally), with exactly its conditions: latch OPEN before the step, a Binding REQUEST,
                // source = pair port on another IP. Everything else that moves the destination gets its own (unlisted) signature.
                let sig = if before_latched { "pc:move:stun-moved-latched-destination" }
                    else if *kind == 1 { "pc:move:stun-indication-moved-destination" }
                    else if predicted { "pc:move:stun-request-moved-open-destination" }
                    else if *kind == 2 { "pc:move:stun-use-candidate-without-credentials-moved-destination" }
                    else { "pc:move:stun-request-not-from-the-pair-port-moved-destination" };
                out.fails.push((sig.into(), format!("step {k}: {:?} -> {:?} by a STUN binding {} without credentials", net.sym(before), net.sym(*conn.remote_addr.read()), if *kind == 1 { "indication" } else { "request" })));
            } }
            { let (on, exp, mx, pr) = conn.verif_latch_state(); out.hidden.push(format!("on={on} expected={exp} maxp={mx} prob={:?}", pr.map(|p| (p.0, p.1, p.2.len())))); }
        }
        pc.close();
        Ok(out)
    }

    fn emit(run: &mut Run, rt: &tokio::runtime::Runtime, c: &PcCase) {
        let r = rt.block_on(exec(c));
        finish(run, rt, &case_text(c), r, "pc_scenarios");
    }
    /// correspondence case + the property oracles for one executed scenario (all three scenario kinds)
    fn finish(run: &mut Run, rt: &tokio::runtime::Runtime, text: &str, r: Result<PcOut, String>, count_key: &str) -> Option<Vec<String>> {
        let text = text.to_string();
        match r {
            Err(e) => { run.count("pc_setup_errors"); run.fail("pc:scenario-could-not-run", &text, &e); None }
            Ok(o) => {
                let input = o.model_ops.join(" ");
                run.case("pc", &input, &o.obs.join(" "), true);
                run.count(count_key);
                run.count_n("pc_stun_pair_rewrites", o.stun_rewrites);
                // visible in the evidence: an unauthenticated RTP-mode STUN request (same port, other IP) moved the
                // destination while the latch was open — a selected-pair update in the property's alphabet
                run.count_n("pc_stun_request_moved_open_destination", o.stun_moved_open);
                run.count_n("pc_send_probes_with_separate_rtcp_destination", o.split_rtcp);
                // property oracles on the observations: the same `oracles` as the bare-IceConn stream,
                // applied to the op list the scenario stands for (public fields only)
                // silent ops (`~op`: applied inside the same API call as the next op) get the following observation twice… no:
                // the oracles need one observation per op, so a silent op is merged into its successor by dropping it when it
                // is a retarget immediately followed by `ss` (the `ss` oracle only requires destination and latch to stay).
                let ops: Vec<String> = o.model_ops.iter().filter(|t| *t != "|").map(|t| t.trim_start_matches('~').to_string()).collect();
                let case = parse_case(&ops.join(" "));
                let npre = o.model_ops.iter().position(|t| t == "|").unwrap() - 1;
                let parse_obs = |t: &str| { let f: Vec<&str> = t.split('/').collect(); let (r, l) = (f[0], f[1]); let (i, p) = r.split_once(':').unwrap();
                    Obs { remote: (i.parse().unwrap(), p.parse().unwrap()), rtcp: f.get(3).and_then(|x| x.split_once(':')).map(|(a, b)| (a.parse().unwrap(), b.parse().unwrap())), latched: l == "1", rtcpl: false, fwd: "-", on: false /* hidden part not observed here: skips the table oracles */, exp: 0, maxp: 0, prob: None } };
                // states during the prefix are not observable (inside set_remote_description): replay it on a bare IceConn
                let pre = exec_prefix(rt, &case, npre);
                let mut obs: Vec<Obs> = pre;
                obs.pop();
                obs.push(parse_obs(&o.obs[0]));
                let mut j = 0;
                for t in o.model_ops.iter().skip(npre + 2) { // ops after `|`; a silent op shares the observation of its successor
                    if !t.starts_with('~') { j += 1; }
                    obs.push(parse_obs(&o.obs[if t.starts_with('~') { j + 1 } else { j }]));
                }
                run.count_n("pc_ssrc_handoffs_from_sdp", o.ssrc_handoffs);
                for (sig, d) in oracles(&case, &obs) { run.fail(&format!("pc:{sig}"), &text, &d); }
                for (sig, d) in o.fails { run.fail(&sig, &text, &d); }
                Some(o.obs)
            }
        }
    }
    fn exec_prefix(rt: &tokio::runtime::Runtime, case: &Case, npre: usize) -> Vec<Obs> {
        let c = Case { init: case.init, maxp: case.maxp, tcp: false, ops: case.ops[..npre].to_vec() };
        super::exec(rt, &c)
    }

    fn scenarios(args: &Args) -> Vec<PcCase> {
        let p = |i: usize, m: bool, seq: u16| Step::Pkt(i, rtp(m, seq, seq as u32, SSRC));
        let wrong = |i: usize| Step::Pkt(i, rtp(true, 7, 7, 0xdead_beef));
        let rtcp_ = |i: usize| Step::Pkt(i, rtcp());
        let mut v = vec![
            // commit by marker, then everything that must not move the destination
            PcCase { answerer: false, maxp: 6, ssrc: true, mux: true, steps: vec![p(1, true, 10), p(2, true, 1), rtcp_(3), wrong(3), Step::Stun(5, 0), Step::Answer(0, 9), Step::Stun(5, 0), Step::Stun(1, 0), p(3, true, 2)] },
            // re-INVITE to a new endpoint resets and retargets; STUN from the new pair's port retargets the open latch
            PcCase { answerer: false, maxp: 6, ssrc: true, mux: true, steps: vec![p(1, true, 10), Step::Answer(0, 9), Step::Reinvite(4, 9), rtcp_(2), Step::Stun(5, 0), Step::Stun(6, 0), wrong(1), p(2, true, 3), Step::Stun(5, 0), Step::Reinvite(4, 9)] },
            // open latch: pair updates do move it, wrong-SSRC / RTCP / non-matching STUN do not
            PcCase { answerer: false, maxp: 6, ssrc: true, mux: true, steps: vec![rtcp_(1), wrong(2), Step::Stun(1, 0), Step::Stun(5, 0), p(1, false, 10), Step::Answer(4, 9), Step::Stun(6, 0), p(2, false, 20), p(2, false, 21), p(2, false, 22)] },
            // changed final answer resets the latch and retargets
            PcCase { answerer: false, maxp: 3, ssrc: true, mux: false, steps: vec![p(1, true, 10), Step::Answer(4, 9), rtcp_(2), p(3, false, 5), p(2, false, 9), p(3, false, 6)] },
            // same final answer keeps the latched NAT address
            PcCase { answerer: false, maxp: 3, ssrc: false, mux: true, steps: vec![p(1, true, 10), Step::Answer(0, 9), p(2, true, 1), Step::Stun(5, 0)] },
            // immediate-latch mode, no SSRC known
            PcCase { answerer: false, maxp: 0, ssrc: false, mux: false, steps: vec![rtcp_(2), p(2, false, 1), p(1, false, 2), Step::Answer(4, 9), Step::Stun(6, 0), Step::Reinvite(0, 9), p(3, false, 9)] },
            // rule competition through the real sockets (window 6)
            PcCase { answerer: false, maxp: 6, ssrc: true, mux: true, steps: vec![p(3, false, 1), p(1, false, 100), p(3, false, 10), p(1, false, 101), p(3, false, 20), p(1, false, 102), p(2, true, 0)] },
        ];
        // the SSRC announced by a later SDP must reach the latch (primary retarget site): a re-INVITE / changed answer
        // announcing SSRC2 — old-SSRC RTP must no longer move or commit anything, SSRC2 RTP must
        let p2 = |i: usize, m: bool, seq: u16| Step::Pkt(i, rtp(m, seq, seq as u32, SSRC2));
        v.push(PcCase { answerer: false, maxp: 3, ssrc: true, mux: true, steps: vec![p(1, true, 10), Step::Answer(0, 9), Step::Reinvite(4, 2), p(2, true, 11), p(2, false, 12), p2(3, false, 50), p2(3, false, 51), p2(3, false, 52)] });
        v.push(PcCase { answerer: false, maxp: 0, ssrc: true, mux: true, steps: vec![Step::Answer(4, 2), p(1, false, 10), p2(2, false, 20), p(3, false, 30)] });
        v.push(PcCase { answerer: false, maxp: 6, ssrc: true, mux: false, steps: vec![p(1, true, 10), Step::Answer(0, 9), Step::Reinvite(0, 2), p(2, true, 11), p2(3, true, 50), Step::Reinvite(0, 0), p(1, true, 12), Step::Reinvite(4, 0), p(1, true, 13), p2(2, true, 60)] });
        v.push(PcCase { answerer: false, maxp: 2, ssrc: false, mux: true, steps: vec![p(1, false, 10), Step::Answer(0, 1), p2(2, false, 20), p2(2, false, 21), p(3, false, 30), p(3, false, 40)] });
        // STUN that must NOT move an OPEN latch: requests from the pair's own IP at another port (R = S's RTCP port, U = T's, C
        // next to A after a rewrite), Binding INDICATIONS from the one source a request may rewrite to (X / Y), and requests
        // with USE-CANDIDATE from anywhere — offerer (Controlling) and ANSWERER (Controlled, where a nomination is honoured)
        v.push(PcCase { answerer: false, maxp: 6, ssrc: true, mux: true, steps: vec![Step::Stun(7, 0), Step::Stun(5, 1), Step::Stun(1, 2), Step::Stun(7, 2), Step::Stun(5, 0), Step::Stun(7, 0), Step::Stun(0, 1),
            Step::Answer(4, 9), Step::Stun(8, 0), Step::Stun(6, 1), Step::Stun(3, 2), Step::Stun(6, 0), Step::Stun(8, 0), p(1, true, 10), Step::Stun(4, 0), Step::Stun(4, 2)] });
        v.push(PcCase { answerer: true, maxp: 6, ssrc: true, mux: true, steps: vec![Step::Stun(1, 2), Step::Stun(7, 2), Step::Stun(5, 1), Step::Stun(7, 0), Step::Stun(5, 2), Step::Stun(0, 2), wrong(1), rtcp_(2),
            Step::Reinvite(4, 9), Step::Stun(8, 0), Step::Stun(3, 2), Step::Stun(6, 1), p(2, true, 20), Step::Stun(6, 2), Step::Stun(1, 2)] });
        v.push(PcCase { answerer: true, maxp: 0, ssrc: false, mux: false, steps: vec![rtcp_(1), Step::Stun(2, 2), Step::Stun(5, 0), Step::Stun(2, 0), p(2, false, 5), Step::Stun(1, 2), Step::Reinvite(4, 1), Step::Stun(1, 2), p2(3, false, 9)] });
        // RTCP destination in a real connection (no rtcp-mux): learnt once from the first foreign RTCP sender, not again
        // until a new description re-arms it
        v.push(PcCase { answerer: false, maxp: 3, ssrc: true, mux: false, steps: vec![rtcp_(1), rtcp_(2), rtcp_(3), p(1, true, 10), rtcp_(3), Step::Answer(4, 9), rtcp_(2), rtcp_(3), rtcp_(1)] });
        let mut rng = Rng::new(args.seed ^ 0x18);
        let n = if args.tier_thorough { 120 } else { 14 };
        for _ in 0..n {
            let mut steps: Vec<Step> = vec![];
            let mut answered = false;
            let mut seqs = [100u16, 200, 300, 400, 500, 600, 700];
            for _ in 0..rng.range(4, 12) {
                let r = rng.below(100);
                steps.push(if r < 45 { let i = *rng.pick(&[1usize, 2, 3, 3, 2, 5]); seqs[i] = if rng.chance(2, 3) { seqs[i].wrapping_add(1) } else { seqs[i].wrapping_sub(3) }; p(i, rng.chance(1, 6), seqs[i]) }
                    else if r < 55 { let i = *rng.pick(&[1usize, 2, 3]); seqs[i] = seqs[i].wrapping_add(1); p2(i, rng.chance(1, 4), seqs[i]) }
                    else if r < 65 { wrong(*rng.pick(&[1usize, 2, 3])) } else if r < 75 { rtcp_(*rng.pick(&[1usize, 2, 3])) }
                    else if r < 87 { Step::Stun(*rng.pick(&[1usize, 3, 5, 6, 7, 8, 2]), *rng.pick(&[0u8, 0, 0, 1, 2])) }
                    else if answered { Step::Reinvite(*rng.pick(&[0usize, 4]), *rng.pick(&[9u8, 9, 1, 2, 0])) }
                    else { answered = true; Step::Answer(*rng.pick(&[0usize, 4]), *rng.pick(&[9u8, 9, 2, 0])) });
            }
            let answerer = rng.chance(1, 3);
            if answerer { steps = steps.into_iter().map(|st| match st { Step::Answer(i, sid) => Step::Reinvite(i, sid), o => o }).collect(); }
            v.push(PcCase { answerer, maxp: *rng.pick(&[0u8, 2, 3, 6]), ssrc: rng.chance(2, 3), mux: rng.chance(1, 2), steps });
        }
        v
    }

    /// The offerer's extra (non-BUNDLE, second m-line) transport: `create_offer` creates its `IceConn` at
    /// 0.0.0.0:0 with latching enabled, before any remote description exists. Datagrams sent to the video
    /// port reach that `IceConn`; the answer then retargets it from signaling (`sg`). Same step language
    /// (`Pkt`, one `Answer(T)`); model prefix `init,0,0,maxp,0 en`.
    pub async fn exec_extra(c: &PcCase) -> Result<PcOut, String> {
        let net = Net::new().await.ok_or("could not bind the loopback sockets")?;
        let mut cfg = RtcConfiguration::default();
        cfg.transport_mode = TransportMode::Rtp;
        cfg.enable_latching = true;
        cfg.bind_ip = Some("127.0.0.1".into());
        cfg.disable_ipv6 = true;
        cfg.probation_max_packets = if c.maxp == 0 { None } else { Some(c.maxp) };
        cfg.sdp_compatibility = rustrtc::config::SdpCompatibilityMode::LegacySip; // no BUNDLE: one transport per m-line
        let pc = PeerConnection::new(cfg);
        pc.add_transceiver(MediaKind::Audio, TransceiverDirection::SendRecv);
        pc.add_transceiver(MediaKind::Video, TransceiverDirection::SendRecv);
        let offer = pc.create_offer().await.map_err(|e| format!("create_offer: {e:?}"))?;
        let offer_text = offer.to_sdp_string();
        pc.set_local_description(offer).map_err(|e| format!("set_local: {e:?}"))?;
        let (held, _) = pc.verif_rtp_transports();
        let conn = held.last().ok_or_else(|| format!("no extra transport after create_offer; offer:\n{offer_text}"))?.ice_conn();
        let vport: u16 = offer_text.lines().find_map(|l| l.strip_prefix("m=video ")).and_then(|r| r.split(' ').next()).and_then(|p| p.parse().ok()).ok_or("no m=video port")?;
        let local = SocketAddr::new(IpAddr::V4(Ipv4Addr::new(127, 0, 0, 1)), vport);
        let observe = |net: &Net| { let a = *conn.remote_addr.read(); let r = if a.port() == 0 && a.ip().is_unspecified() { (0, 0) } else { net.sym(a) };
            format!("{}:{}/{}/{}/{}", r.0, r.1, conn.rtp_latched.load(Ordering::Relaxed) as u8, conn.expected_ssrc.load(Ordering::Relaxed), rtcp_text(net, &conn)) };
        let mut video_pair: Option<usize> = None; // remote of the extra transport's selected pair (none before the answer)
        let mut out = PcOut { model_ops: vec![format!("init,0,0,{},0", c.maxp), "en".into(), "|".into()], obs: vec![observe(&net)], fails: vec![], stun_rewrites: 0, stun_moved_open: 0, split_rtcp: 0, ssrc_handoffs: 0, hidden: vec![] };
        for (k, st) in c.steps.iter().enumerate() {
            match st {
                Step::Pkt(i, b) => {
                    let n0 = conn.rx_packets.load(Ordering::Relaxed);
                    net.socks[*i].send_to(b, local).await.map_err(|e| format!("send: {e}"))?;
                    for _ in 0..500 { if conn.rx_packets.load(Ordering::Relaxed) > n0 { break; } tokio::time::sleep(Duration::from_millis(2)).await; }
                    if conn.rx_packets.load(Ordering::Relaxed) == n0 { return Err(format!("step {k}: datagram to the video port {vport} not delivered to the extra IceConn")); }
                    out.model_ops.push(format!("p,{},{},{}", SYM[*i].0, SYM[*i].1, hex(b)));
                }
                Step::Answer(i, sid) | Step::Reinvite(i, sid) => {
                    let reinvite = matches!(st, Step::Reinvite(..));
                    // the offer's own media sections, re-addressed: audio at S, video at the given endpoint
                    let mut video = false;
                    let mut ans = String::new();
                    for l in offer_text.lines() {
                        let addr = if video { net.real(*i) } else { net.real(0) };
                        if l.starts_with("m=audio ") || l.starts_with("m=video ") {
                            video = l.starts_with("m=video ");
                            let addr = if video { net.real(*i) } else { net.real(0) };
                            let mut f: Vec<String> = l.split(' ').map(|x| x.to_string()).collect(); f[1] = addr.port().to_string();
                            ans.push_str(&f.join(" ")); ans.push_str("\r\n");
                            ans.push_str(&format!("c=IN IP4 {}\r\n", addr.ip()));
                        } else if l.starts_with("c=") { if ans.contains("m=") { continue; } ans.push_str(&format!("c=IN IP4 {}\r\n", addr.ip())); }
                        else if l.starts_with("a=candidate") || l.starts_with("a=ice-") || l.starts_with("a=rtcp:") || l.starts_with("a=ssrc") || l.starts_with("a=end-of-candidates") { continue; }
                        else { ans.push_str(l); ans.push_str("\r\n"); }
                    }
                    // the video section (last) announces its SSRC: existing-extra-transport hand-off site
                    if let Some(v) = ssrc_of(c, *sid) { ans.push_str(&format!("a=ssrc:{v} cname:verif\r\n")); }
                    let d = SessionDescription::parse(if reinvite { SdpType::Offer } else { SdpType::Answer }, &ans).map_err(|e| format!("sdp: {e:?}"))?;
                    pc.set_remote_description(d).await.map_err(|e| format!("set_remote({}): {e:?}", if reinvite { "reinvite" } else { "answer" }))?;
                    if reinvite { // a re-INVITE offer: only the existing-extra-transport site hands the new SSRC over
                        let a = pc.create_answer().await.map_err(|e| format!("create_answer: {e:?}"))?;
                        pc.set_local_description(a).map_err(|e| format!("set_local(answer): {e:?}"))?;
                    }
                    match ssrc_of(c, *sid) {
                        Some(v) => { out.model_ops.push(format!("~sg,{},{}", SYM[*i].0, SYM[*i].1)); out.model_ops.push(format!("~{}", ra_op(*i, false))); out.model_ops.push(format!("ss,{v}")); out.ssrc_handoffs += 1;
                            if conn.expected_ssrc.load(Ordering::Relaxed) != v { out.fails.push(("pc:ssrc:announced-ssrc-not-handed-to-the-latch:existing-extra-transport".into(), format!("step {k}: SDP announces {v}, latch expects {}", conn.expected_ssrc.load(Ordering::Relaxed)))); } }
                        None => { out.model_ops.push(format!("~sg,{},{}", SYM[*i].0, SYM[*i].1)); out.model_ops.push(ra_op(*i, false)); }
                    }
                    video_pair = Some(*i);
                }
                Step::Stun(i, kind) => {
                    // the extra transport has its own IceTransport and pair monitor: same rewrite rule as on the primary
                    let bytes = stun_bytes(*kind, k)?;
                    let before = *conn.remote_addr.read();
                    let before_latched = conn.rtp_latched.load(Ordering::Relaxed);
                    net.socks[*i].send_to(&bytes, local).await.map_err(|e| format!("send: {e}"))?;
                    let applies = *kind != 1 && match video_pair { Some(pr) => SYM[*i].1 == SYM[pr].1 && SYM[*i].0 != SYM[pr].0, None => false };
                    if applies { out.model_ops.push(format!("pr,{},{}", SYM[*i].0, SYM[*i].1)); video_pair = Some(*i); out.stun_rewrites += 1; }
                    else { out.model_ops.push(format!("mp,{}", c.maxp)); }
                    tokio::time::sleep(Duration::from_millis(50)).await;
                    if *conn.remote_addr.read() != before {
                        out.stun_moved_open += 1;
                        let sig = if before_latched { "pc:move:stun-moved-latched-destination" }
                            else if *kind == 1 { "pc:move:stun-indication-moved-destination" }
                            else if applies { "pc:move:stun-request-moved-open-destination" }
                            else if *kind == 2 { "pc:move:stun-use-candidate-without-credentials-moved-destination" }
                            else { "pc:move:stun-request-not-from-the-pair-port-moved-destination" };
                        out.fails.push((sig.into(), format!("step {k} (extra transport): {:?} -> {:?}", net.sym(before), net.sym(*conn.remote_addr.read()))));
                    }
                }
                _ => return Err("only packets, STUN, one answer and re-INVITEs in an extra-transport scenario".into()),
            }
            tokio::time::sleep(Duration::from_millis(10)).await;
            out.obs.push(observe(&net));
            { let (on, exp, mx, pr) = conn.verif_latch_state(); out.hidden.push(format!("on={on} expected={exp} maxp={mx} prob={:?}", pr.map(|p| (p.0, p.1, p.2.len())))); }
        }
        pc.close();
        Ok(out)
    }

    /// The ANSWERER's extra transport: a remote non-BUNDLE offer with two m-lines makes `set_remote_description`
    /// create the video transport with the offer's endpoint, latching enabled and the offer's `a=ssrc` as the
    /// expectation (new-extra-transport hand-off site). Steps: packets only. Model prefix `init,T,maxp,0 en [ss,v]`.
    pub async fn exec_extra_answerer(c: &PcCase, sid: u8) -> Result<PcOut, String> {
        let net = Net::new().await.ok_or("could not bind the loopback sockets")?;
        let mut cfg = RtcConfiguration::default();
        cfg.transport_mode = TransportMode::Rtp;
        cfg.enable_latching = true;
        cfg.bind_ip = Some("127.0.0.1".into());
        cfg.disable_ipv6 = true;
        cfg.probation_max_packets = if c.maxp == 0 { None } else { Some(c.maxp) };
        cfg.sdp_compatibility = rustrtc::config::SdpCompatibilityMode::LegacySip;
        let pc = PeerConnection::new(cfg);
        let (sa_, ta) = (net.real(0), net.real(4));
        let vs = match ssrc_of(c, sid) { Some(v) => format!("a=ssrc:{v} cname:verif\r\n"), None => String::new() };
        let offer = format!("v=0\r\no=- 1 1 IN IP4 {}\r\ns=-\r\nt=0 0\r\nm=audio {} RTP/AVP 0\r\nc=IN IP4 {}\r\na=rtpmap:0 PCMU/8000\r\na=sendrecv\r\nm=video {} RTP/AVP 96\r\nc=IN IP4 {}\r\na=rtpmap:96 VP8/90000\r\na=sendrecv\r\n{vs}",
            sa_.ip(), sa_.port(), sa_.ip(), ta.port(), ta.ip());
        let d = SessionDescription::parse(SdpType::Offer, &offer).map_err(|e| format!("sdp: {e:?}"))?;
        pc.set_remote_description(d).await.map_err(|e| format!("set_remote(offer): {e:?}"))?;
        let ans = pc.create_answer().await.map_err(|e| format!("create_answer: {e:?}"))?;
        let ans_text = ans.to_sdp_string();
        pc.set_local_description(ans).map_err(|e| format!("set_local(answer): {e:?}"))?;
        let (held, _) = pc.verif_rtp_transports();
        let vport: u16 = ans_text.lines().find_map(|l| l.strip_prefix("m=video ")).and_then(|r| r.split(' ').next()).and_then(|p| p.parse().ok()).ok_or("no m=video port in the answer")?;
        let local = SocketAddr::new(IpAddr::V4(Ipv4Addr::new(127, 0, 0, 1)), vport);
        // the extra transport is the one whose destination is the video endpoint
        let conn = held.iter().map(|t| t.ice_conn()).find(|c| *c.remote_addr.read() == ta).ok_or_else(|| format!("no transport aimed at the video endpoint; answer:\n{ans_text}"))?;
        let observe = |net: &Net| { let r = net.sym(*conn.remote_addr.read());
            format!("{}:{}/{}/{}/{}", r.0, r.1, conn.rtp_latched.load(Ordering::Relaxed) as u8, conn.expected_ssrc.load(Ordering::Relaxed), rtcp_text(net, &conn)) };
        let mut out = PcOut { model_ops: vec![format!("init,{},{},{},0", SYM[4].0, SYM[4].1, c.maxp), "en".into(), ra_op(4, false)], obs: vec![], fails: vec![], stun_rewrites: 0, stun_moved_open: 0, split_rtcp: 0, ssrc_handoffs: 0, hidden: vec![] };
        if let Some(v) = ssrc_of(c, sid) { out.model_ops.push(format!("ss,{v}")); out.ssrc_handoffs += 1;
            if conn.expected_ssrc.load(Ordering::Relaxed) != v { out.fails.push(("pc:ssrc:announced-ssrc-not-handed-to-the-latch:new-extra-transport".into(), format!("offer announces {v}, latch expects {}", conn.expected_ssrc.load(Ordering::Relaxed)))); } }
        out.model_ops.push("|".into());
        out.obs.push(observe(&net));
        for (k, st) in c.steps.iter().enumerate() {
            let Step::Pkt(i, b) = st else { return Err("only packets in an answerer extra-transport scenario".into()) };
            let n0 = conn.rx_packets.load(Ordering::Relaxed);
            net.socks[*i].send_to(b, local).await.map_err(|e| format!("send: {e}"))?;
            for _ in 0..500 { if conn.rx_packets.load(Ordering::Relaxed) > n0 { break; } tokio::time::sleep(Duration::from_millis(2)).await; }
            if conn.rx_packets.load(Ordering::Relaxed) == n0 { return Err(format!("step {k}: datagram to the video port {vport} not delivered")); }
            out.model_ops.push(format!("p,{},{},{}", SYM[*i].0, SYM[*i].1, hex(b)));
            out.obs.push(observe(&net));
        }
        pc.close();
        Ok(out)
    }

    fn extra_scenarios() -> Vec<PcCase> {
        let p = |i: usize, m: bool, seq: u16| Step::Pkt(i, rtp(m, seq, seq as u32, SSRC));
        vec![
            // RTCP, DTLS-like and garbage before anything is known must not set the destination; RTP (no SSRC known) does
            PcCase { answerer: false, maxp: 6, ssrc: false, mux: true, steps: vec![Step::Pkt(1, rtcp()), Step::Pkt(2, vec![22, 254, 253, 0, 0, 0, 0, 0, 0, 0, 0, 0, 1, 0]), Step::Pkt(3, vec![200, 1, 2, 3]),
                p(1, false, 10), p(2, false, 20), p(2, false, 21), p(2, false, 22), Step::Pkt(3, rtcp()), Step::Answer(4, 2), Step::Pkt(1, rtcp()), p(3, true, 5), Step::Pkt(3, rtp(true, 6, 6, SSRC2)), Step::Pkt(1, rtcp()),
                Step::Stun(6, 0), Step::Stun(1, 0),
                Step::Reinvite(0, 1), Step::Stun(1, 0), Step::Stun(5, 0), Step::Pkt(2, rtp(true, 7, 7, SSRC2)), p(1, true, 8), Step::Stun(6, 0)] },
            PcCase { answerer: false, maxp: 0, ssrc: false, mux: true, steps: vec![Step::Pkt(3, rtcp()), Step::Pkt(3, rtp(false, 1, 1, 5)[..8].to_vec()), p(3, false, 1), p(1, true, 2), Step::Answer(4, 1), Step::Pkt(2, rtcp()), Step::Pkt(2, rtp(false, 9, 9, SSRC2)), p(2, false, 9), Step::Reinvite(4, 2), p(1, false, 10), Step::Pkt(3, rtp(false, 11, 11, SSRC2))] },
        ]
    }

    pub fn run(run: &mut Run, rt: &tokio::runtime::Runtime, args: &Args) {
        for c in scenarios(args) { emit(run, rt, &c); }
        // answerer side: the offer's a=ssrc must be the expectation of the freshly created extra transport
        for (sid, maxp) in [(1u8, 3u8), (2, 0), (0, 3)] {
            let c = PcCase { answerer: false, maxp, ssrc: false, mux: true, steps: vec![Step::Pkt(1, rtcp()), Step::Pkt(2, rtp(true, 5, 5, if sid == 1 { SSRC2 } else { SSRC })),
                Step::Pkt(3, rtp(false, 7, 7, if sid == 1 { SSRC } else { SSRC2 })), Step::Pkt(3, rtp(true, 8, 8, if sid == 1 { SSRC } else { SSRC2 })), Step::Pkt(1, rtp(true, 9, 9, SSRC))] };
            let text = case_text(&c).replacen("pc ", &format!("pc answerer{sid}:"), 1);
            let r = rt.block_on(exec_extra_answerer(&c, sid));
            finish(run, rt, &text, r, "pc_extra_transport_scenarios");
        }
        for c in extra_scenarios() {
            let text = case_text(&c).replacen("pc ", "pc extra:", 1);
            let r = rt.block_on(exec_extra(&c));
            if let Some(obs) = finish(run, rt, &text, r, "pc_extra_transport_scenarios") {
                // clause 1 / 4 directly: before the answer only RTP may set the unset destination
                let dest = |t: &str| t.split('/').next().unwrap().to_string(); // destination field only
                let mut prev = dest(&obs[0]);
                for (k, st) in c.steps.iter().enumerate() {
                    if let Step::Pkt(_, b) = st { if !(is_rtp(b) && b.len() >= 12) && dest(&obs[k + 1]) != prev {
                        run.fail("pc:move:unset-destination-of-extra-transport-set-by-non-rtp", &text, &format!("step {k}: {} -> {}", prev, obs[k + 1])); } }
                    prev = dest(&obs[k + 1]);
                }
            }
        }
    }
    pub fn replay(rt: &tokio::runtime::Runtime, case: &str) {
        if let Some(rest) = case.strip_prefix("pc answerer") {
            let (sid, rest) = rest.split_once(':').unwrap();
            let c = parse(&format!("pc {rest}"));
            match rt.block_on(exec_extra_answerer(&c, sid.parse().unwrap())) {
                Err(e) => println!("pc answerer scenario could not run: {e}"),
                Ok(o) => { println!("model ops: {}", o.model_ops.join(" ")); println!("impl: {}", o.obs.join(" ")); }
            }
            return;
        }
        if let Some(rest) = case.strip_prefix("pc extra:") {
            let c = parse(&format!("pc {rest}"));
            match rt.block_on(exec_extra(&c)) {
                Err(e) => println!("pc extra scenario could not run: {e}"),
                Ok(o) => { println!("model ops: {}", o.model_ops.join(" ")); println!("impl: {}", o.obs.join(" "));
                    for (i, h) in o.hidden.iter().enumerate() { println!("hidden[{i}]: {h}"); } }
            }
            return;
        }
        let c = parse(case);
        match rt.block_on(exec(&c)) {
            Err(e) => println!("pc scenario could not run: {e}"),
            Ok(o) => { println!("model ops: {}", o.model_ops.join(" ")); println!("impl: {}", o.obs.join(" "));
                for (i, h) in o.hidden.iter().enumerate() { println!("hidden[{i}]: {h}"); }
                for (s, d) in o.fails { println!("ORACLE-FAIL {s} {d}"); } }
        }
    }
}
/// API ops racing with `receive()`: the `verif_sched` yield points park each thread at named points;
/// a schedule (a string over {r, s}) says which thread runs up to its next point. Every schedule of
/// the small programs is executed on the real `IceConn` with two OS threads.
///  * correspondence: final full state vs the interleaving model `RtcModel.LatchRace` for the same schedule;
///  * oracle (independent of the model): the outcome must be serializable — equal to running the two
///    calls one after the other, in one of the two orders, on the real code.
mod race {
    use super::*;
    use rustrtc::transports::ice::conn::verif_sched;
    use std::cell::Cell;
    use std::sync::{Condvar, Mutex as StdMutex};
    use std::time::Duration;

    #[derive(Default)]
    struct St { paused: [Option<&'static str>; 2], go: [bool; 2], done: [bool; 2] }
    struct Ctl { m: StdMutex<St>, cv: Condvar }
    thread_local! { static TID: Cell<Option<usize>> = const { Cell::new(None) }; }

    fn park(ctl: &Ctl, t: usize, name: &'static str) {
        let mut g = ctl.m.lock().unwrap();
        g.paused[t] = Some(name);
        ctl.cv.notify_all();
        while !g.go[t] { g = ctl.cv.wait(g).unwrap(); }
        g.go[t] = false;
        g.paused[t] = None;
    }
    /// yield points that lie INSIDE a latch critical section (everything except the start of the call and the
    /// point right before `probation.lock()`): a thread parked there must hold the probation mutex
    fn interior(name: &str) -> bool { name != "start" && !name.ends_with(":before-lock") && !name.ends_with(":unlocked") }
    /// `…:unlocked`: the thread has just released the probation mutex (end of its critical section) but is not done

    #[derive(Clone, Debug, PartialEq)]
    /// `Pkt`: the second thread is another `receive()` (the RTCP-socket reader task of a non-mux call delivers to the same `IceConn`)
    pub enum Api { Sig(u8, u16), Reset, Pair(u8, u16), Pkt(u8, u16, Vec<u8>) }
    pub struct RaceCase { pub setup: Case, pub pkt: (u8, u16, Vec<u8>), pub api: Api, pub sched: String }

    fn api_text(a: &Api) -> String { match a { Api::Sig(i, p) => format!("sg,{i},{p}"), Api::Reset => "rs".into(), Api::Pair(i, p) => format!("pr,{i},{p}"), Api::Pkt(i, p, b) => format!("p,{i},{p},{}", hex(b)) } }
    pub fn text(c: &RaceCase) -> String {
        format!("race {} | p,{},{},{} | {} | {}", case_text(&c.setup), c.pkt.0, c.pkt.1, hex(&c.pkt.2), api_text(&c.api), c.sched)
    }
    pub fn parse(s: &str) -> RaceCase {
        let parts: Vec<&str> = s.trim_start_matches("race ").split(" | ").collect();
        let setup = parse_case(parts[0]);
        let pk = match &parse_case(&format!("init,0,0,0,0 {}", parts[1])).ops[0] { Op::Pkt(i, p, b) => (*i, *p, b.clone()), _ => panic!() };
        let api = match &parse_case(&format!("init,0,0,0,0 {}", parts[2])).ops[0] { Op::Sig(i, p) => Api::Sig(*i, *p), Op::Reset => Api::Reset, Op::Pair(i, p) => Api::Pair(*i, *p), Op::Pkt(i, p, b) => Api::Pkt(*i, *p, b.clone()), _ => panic!() };
        RaceCase { setup, pkt: pk, api, sched: parts[3].to_string() }
    }

    fn build(c: &Case) -> Arc<IceConn> {
        let (_tx, rx) = watch::channel::<Option<IceSocketWrapper>>(None);
        let conn = hook::new_with_rtcp(rx.clone(), rx, sa(c.init.0, c.init.1), if c.maxp == 0 { None } else { Some(c.maxp) });
        let rt = tokio::runtime::Builder::new_current_thread().build().unwrap();
        let mut mb = vec![];
        for op in &c.ops { match op {
            Op::Pkt(ip, port, b) => rt.block_on(conn.receive(Bytes::from(b.clone()), sa(*ip, *port), &mut mb)),
            Op::Enable => conn.enable_latch_on_rtp(), Op::Reset => conn.reset_latch(),
            Op::Sig(ip, p) => hook::set_remote_addr_from_signaling(&conn, sa(*ip, *p)),
            Op::Pair(ip, p) => hook::set_remote_addr_from_selected_pair(&conn, sa(*ip, *p)),
            Op::Ssrc(v) => conn.set_expected_ssrc(*v),
            Op::Maxp(v) => conn.set_probation_max_packets(if *v == 0 { None } else { Some(*v) }),
            Op::RtcpAddr(a) => conn.set_remote_rtcp_addr(a.map(|(i, p)| sa(i, p))),
        } }
        conn
    }
    fn do_api(conn: &IceConn, a: &Api) { match a {
        Api::Sig(i, p) => hook::set_remote_addr_from_signaling(conn, sa(*i, *p)), Api::Reset => conn.reset_latch(),
        Api::Pair(i, p) => hook::set_remote_addr_from_selected_pair(conn, sa(*i, *p)),
        Api::Pkt(i, p, b) => do_pkt(conn, &(*i, *p, b.clone())) } }
    fn do_pkt(conn: &IceConn, pk: &(u8, u16, Vec<u8>)) {
        let rt = tokio::runtime::Builder::new_current_thread().build().unwrap();
        let mut mb = vec![];
        rt.block_on(conn.receive(Bytes::from(pk.2.clone()), sa(pk.0, pk.1), &mut mb));
    }
    fn final_text(conn: &IceConn) -> String { observe(conn, "-").text(None).0 }

    pub struct RaceOut { pub state: String, pub violations: Vec<(String, String)>, pub blocked_seen: u64 }

    /// Runs the schedule on the real code. A pick RELEASES the thread from its yield point. Mutual exclusion
    /// is OBSERVED, not assumed: the probation mutex is probed with `verif_probation_locked` —
    ///  * a thread parked at an interior point of its critical section must hold the mutex (probe = locked);
    ///  * a thread released at `…:before-lock` while the mutex is held must NOT reach its next point before the
    ///    holder has finished (it is then `blocked`; it proceeds by itself once the holder is done, exactly as
    ///    `LatchRace.pickR/pickA` say).
    /// `Err` if a released thread neither reached a point nor finished in time.
    pub fn exec(c: &RaceCase) -> Result<RaceOut, String> {
        let conn = build(&c.setup);
        let ctl = Arc::new(Ctl { m: StdMutex::new(St::default()), cv: Condvar::new() });
        let ctl_h = ctl.clone();
        verif_sched::set(Some(Arc::new(move |name: &'static str| { if let Some(t) = TID.with(|x| x.get()) { park(&ctl_h, t, name); } })));
        let mut hs = vec![];
        for t in 0..2 {
            let (conn, ctl, pk, api) = (conn.clone(), ctl.clone(), c.pkt.clone(), c.api.clone());
            hs.push(std::thread::spawn(move || {
                TID.with(|x| x.set(Some(t)));
                park(&ctl, t, "start");
                if t == 0 { do_pkt(&conn, &pk) } else { do_api(&conn, &api) }
                let mut g = ctl.m.lock().unwrap();
                g.done[t] = true; g.paused[t] = None;
                ctl.cv.notify_all();
            }));
        }
        let settled = |g: &St, t: usize| g.done[t] || (g.paused[t].is_some() && !g.go[t]);
        let wait_parked = |t: usize| -> Result<(), String> {
            let mut g = ctl.m.lock().unwrap();
            let deadline = std::time::Instant::now() + Duration::from_secs(5);
            while !settled(&g, t) {
                let (g2, to) = ctl.cv.wait_timeout(g, Duration::from_millis(200)).unwrap();
                g = g2;
                if to.timed_out() && std::time::Instant::now() > deadline { return Err(format!("thread {t} neither parked nor finished")); }
            }
            Ok(())
        };
        let name_of = |t: usize| if t == 0 { "receive" } else { "api" };
        let mut out = RaceOut { state: String::new(), violations: vec![], blocked_seen: 0 };
        let mut blocked = [false; 2];
        let mut err = None;
        for t in 0..2 { if let Err(e) = wait_parked(t) { err = Some(e); } }
        let tail = "rsrsrsrsrsrsrsrsrsrs";
        if err.is_none() {
            'sched: for (k, ch) in c.sched.chars().chain(tail.chars()).enumerate() {
                let t = if ch == 'r' { 0 } else { 1 };
                let o = 1 - t;
                // a blocked thread must still be inside lock(): it may not have reached a point while the holder is not done
                for b in 0..2 { if blocked[b] { let g = ctl.m.lock().unwrap(); if settled(&g, b) && !g.done[1 - b] && !g.paused[1 - b].map(|n| n.ends_with(":unlocked")).unwrap_or(false) {
                    out.violations.push(("race:mutual-exclusion-violated".into(), format!("pick {k}: the {} thread, released at its before-lock point while the {} thread holds the probation mutex, reached {:?} before the holder finished", name_of(b), name_of(1 - b), g.paused[b])));
                    blocked[b] = false; } } }
                let at = { let g = ctl.m.lock().unwrap(); if g.done[t] || blocked[t] { continue; } g.paused[t].unwrap_or("") };
                let will_block = at.ends_with(":before-lock") && conn.verif_probation_locked();
                { let mut g = ctl.m.lock().unwrap(); g.go[t] = true; ctl.cv.notify_all(); }
                if will_block {
                    blocked[t] = true; out.blocked_seen += 1;
                    std::thread::sleep(Duration::from_micros(300)); // give a thread that does NOT take the mutex time to show up
                    continue;
                }
                if let Err(e) = wait_parked(t) { err = Some(e); break 'sched; }
                // where did it stop?
                let (now_at, t_done) = { let g = ctl.m.lock().unwrap(); (g.paused[t], g.done[t]) };
                if let Some(n) = now_at { if interior(n) && !conn.verif_probation_locked() {
                    out.violations.push(("race:critical-section-without-the-mutex".into(), format!("pick {k}: the {} thread is at `{n}` (inside its critical section) and the probation mutex is free", name_of(t)))); } }
                if let Some(n) = now_at { if n.ends_with(":unlocked") && conn.verif_probation_locked() && !blocked[o] {
                    out.violations.push(("race:mutex-still-held-after-the-critical-section".into(), format!("pick {k}: the {} thread is at `{n}` and the probation mutex is locked", name_of(t)))); } }
                // leaving the critical section (done, or parked right behind the unlock) hands the mutex to a blocked peer, which
                // runs to its next point by itself
                let left_crit = t_done || now_at.map(|n| n.ends_with(":unlocked")).unwrap_or(false);
                if left_crit && blocked[o] {
                    if let Err(e) = wait_parked(o) { err = Some(e); break 'sched; }
                    blocked[o] = false;
                    let g = ctl.m.lock().unwrap();
                    if let Some(n) = g.paused[o] { if interior(n) && !conn.verif_probation_locked() {
                        out.violations.push(("race:critical-section-without-the-mutex".into(), format!("pick {k}: the {} thread is at `{n}` and the probation mutex is free", name_of(o)))); } }
                }
            }
        }
        { // release everything so the threads can end (normally both are done already)
            let mut g = ctl.m.lock().unwrap(); g.go = [true, true]; ctl.cv.notify_all(); drop(g);
            verif_sched::set(None);
            if err.is_some() { std::thread::sleep(Duration::from_millis(50)); let mut g = ctl.m.lock().unwrap(); g.go = [true, true]; ctl.cv.notify_all(); }
        }
        if let Some(e) = err { return Err(e); }
        for h in hs { let _ = h.join(); }
        out.state = final_text(&conn);
        Ok(out)
    }
    /// the two serial executions on the real code
    fn serial(c: &RaceCase) -> [String; 2] {
        let a = build(&c.setup); do_pkt(&a, &c.pkt); do_api(&a, &c.api);
        let b = build(&c.setup); do_api(&b, &c.api); do_pkt(&b, &c.pkt);
        [final_text(&a), final_text(&b)]
    }

    fn setups() -> Vec<(&'static str, Case, (u8, u16, Vec<u8>))> {
        let pre = |maxp: u8, ops: Vec<Op>| Case { init: (9, 5009), maxp, tcp: false, ops: [vec![Op::Ssrc(SSRC), Op::Enable], ops].concat() };
        let a = SRC[0]; let b = SRC[1];
        vec![
            ("commit-to-own-source(marker)", pre(6, vec![]), (a.0, a.1, rtp(true, 10, 10, SSRC))),
            ("commit-to-earlier-candidate", pre(6, vec![Op::Pkt(b.0, b.1, rtp(false, 5, 5, SSRC)), Op::Pkt(a.0, a.1, rtp(false, 9, 9, SSRC))]), (a.0, a.1, rtp(true, 10, 10, SSRC))),
            ("commit-by-window", pre(2, vec![Op::Pkt(b.0, b.1, rtp(false, 5, 5, SSRC))]), (a.0, a.1, rtp(false, 10, 10, SSRC))),
            ("no-commit", pre(6, vec![Op::Pkt(b.0, b.1, rtp(false, 5, 5, SSRC))]), (a.0, a.1, rtp(false, 10, 10, SSRC))),
            ("immediate-mode", pre(0, vec![]), (a.0, a.1, rtp(false, 10, 10, SSRC))),
            ("already-latched", pre(6, vec![Op::Pkt(b.0, b.1, rtp(true, 5, 5, SSRC))]), (a.0, a.1, rtp(true, 10, 10, SSRC))),
            ("packet-from-current-destination", pre(6, vec![Op::Sig(a.0, a.1)]), (a.0, a.1, rtp(true, 10, 10, SSRC))),
        ]
    }

    pub fn run(run: &mut Run, args: &Args) {
        let bits = if args.tier_thorough { 9 } else { 7 };
        for (name, setup, pk) in setups() {
            // the second thread: each latch API call, or a SECOND receive() (other source: with a marker / continuing nothing)
            for api in [Api::Sig(SIG.0, SIG.1), Api::Reset, Api::Pair(PAIR.0, PAIR.1), Api::Pair(SRC[1].0, SRC[1].1),
                        Api::Pkt(SRC[2].0, SRC[2].1, rtp(true, 3, 3, SSRC)), Api::Pkt(SRC[1].0, SRC[1].1, rtp(false, 77, 77, SSRC))] {
                for idx in 0..(1u32 << bits) {
                    let sched: String = (0..bits).map(|k| if idx >> k & 1 == 0 { 'r' } else { 's' }).collect();
                    let c = RaceCase { setup: Case { init: setup.init, maxp: setup.maxp, tcp: false, ops: setup.ops.clone() }, pkt: pk.clone(), api: api.clone(), sched };
                    let t = text(&c);
                    match exec(&c) {
                        Err(e) => { run.fail("race:schedule-did-not-complete", &t, &e); }
                        Ok(ro) => {
                            let out = ro.state.clone();
                            run.case("race", t.trim_start_matches("race "), &out, true);
                            run.count_n("race_acquisitions_observed_blocking_on_the_mutex", ro.blocked_seen);
                            for (sig, d) in &ro.violations { run.fail(sig, &t, d); }
                            let ser = serial(&c);
                            if out != ser[0] && out != ser[1] {
                                run.fail(&format!("race:{}:outcome-not-serializable", match api { Api::Sig(..) => "signaling-retarget", Api::Reset => "reset", Api::Pair(..) => "pair-update", Api::Pkt(..) => "second-receive" }),
                                    &t, &format!("{name}: outcome {out}; receive-then-api {}; api-then-receive {}", ser[0], ser[1]));
                            } else { run.count(if out == ser[0] && out == ser[1] { "race_outcome_same_in_both_orders" } else if out == ser[0] { "race_outcome_receive_first" } else { "race_outcome_api_first" }); }
                        }
                    }
                    run.count("race_schedules");
                }
            }
        }
    }
    pub fn replay(case: &str) {
        let c = parse(case);
        match exec(&c) { Err(e) => println!("schedule did not complete: {e}"), Ok(ro) => { let o = ro.state; println!("impl: {o}"); let s = serial(&c);
            println!("receive-then-api: {}\napi-then-receive: {}\nacquisitions observed blocking: {}", s[0], s[1], ro.blocked_seen);
            for (sig, d) in ro.violations { println!("ORACLE-FAIL {sig} {d}"); }
            if o != s[0] && o != s[1] { println!("ORACLE-FAIL race:outcome-not-serializable"); } } }
    }
}
