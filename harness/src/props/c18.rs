//! C18 — RTP latching. Drives the real `IceConn::receive` + latch API, writes op lines for the
//! Lean model (`RtcModel.Latch`) and evaluates the property's own oracles on the implementation.
use crate::{Args, Rng, Run, hex};
use async_trait::async_trait;
use bytes::Bytes;
use parking_lot::Mutex;
use rustrtc::transports::PacketReceiver;
use rustrtc::transports::ice::IceSocketWrapper;
use rustrtc::transports::ice::conn::IceConn;
use rustrtc::verif_hooks::ice_conn as hook;
use std::net::{IpAddr, Ipv4Addr, SocketAddr};
use std::sync::Arc;
use std::sync::atomic::Ordering;
use tokio::sync::watch;

#[derive(Clone, Debug, PartialEq)]
pub enum Op {
    Pkt(u8, u16, Vec<u8>),
    Enable,
    Reset,
    Sig(u8, u16),
    Pair(u8, u16),
    Ssrc(u32),
    Maxp(u8),
    RtcpAddr(Option<(u8, u16)>),
}

fn sa(ip: u8, port: u16) -> SocketAddr {
    if ip == 0 { SocketAddr::new(IpAddr::V4(Ipv4Addr::new(0, 0, 0, 0)), port) }
    else { SocketAddr::new(IpAddr::V4(Ipv4Addr::new(10, 0, 0, ip)), port) }
}
fn ip_of(a: SocketAddr) -> (u8, u16) {
    match a.ip() { IpAddr::V4(v) => (v.octets()[3], a.port()), _ => (255, a.port()) }
}

pub fn op_text(op: &Op) -> String {
    match op {
        Op::Pkt(ip, port, b) => format!("p,{ip},{port},{}", hex(b)),
        Op::Enable => "en".into(),
        Op::Reset => "rs".into(),
        Op::Sig(ip, p) => format!("sg,{ip},{p}"),
        Op::Pair(ip, p) => format!("pr,{ip},{p}"),
        Op::Ssrc(v) => format!("ss,{v}"),
        Op::Maxp(v) => format!("mp,{v}"),
        Op::RtcpAddr(None) => "ra,-".into(),
        Op::RtcpAddr(Some((ip, p))) => format!("ra,{ip},{p}"),
    }
}

struct Rec(Mutex<Vec<&'static str>>, &'static str);
#[async_trait]
impl PacketReceiver for Rec {
    async fn receive(&self, _p: Bytes, _a: SocketAddr, _m: &mut Vec<u8>) { self.0.lock().push(self.1); }
}

#[derive(Clone, Debug, PartialEq)]
pub struct Obs { remote: (u8, u16), rtcp: Option<(u8, u16)>, latched: bool, rtcpl: bool, fwd: &'static str }
impl Obs {
    fn text(&self) -> String {
        format!("{}:{}/{}/{}/{}/{}", self.remote.0, self.remote.1,
            match self.rtcp { None => "-".to_string(), Some((i, p)) => format!("{i}:{p}") },
            self.latched as u8, self.rtcpl as u8, self.fwd)
    }
}

pub struct Case { pub init: (u8, u16), pub maxp: u8, pub tcp: bool, pub ops: Vec<Op> }

/// Execute a case on the real IceConn; returns the observation after init and after every op.
pub fn exec(rt: &tokio::runtime::Runtime, c: &Case) -> Vec<Obs> {
    // tcp = the selected socket is an accepted TCP stream (a real loopback pair; only the variant matters)
    let sock: Option<IceSocketWrapper> = if c.tcp {
        Some(rt.block_on(async {
            let l = tokio::net::TcpListener::bind("127.0.0.1:0").await.unwrap();
            let a = l.local_addr().unwrap();
            let (c1, acc) = tokio::join!(tokio::net::TcpStream::connect(a), l.accept());
            let _keep = c1.unwrap();
            let (st, peer) = acc.unwrap();
            let (r, w) = st.into_split();
            IceSocketWrapper::TcpStream(Arc::new(tokio::sync::Mutex::new(r)), Arc::new(tokio::sync::Mutex::new(w)), peer)
        }))
    } else { None };
    let (_tx, rx) = watch::channel::<Option<IceSocketWrapper>>(sock);
    let conn: Arc<IceConn> = hook::new_with_rtcp(rx.clone(), rx, sa(c.init.0, c.init.1),
        if c.maxp == 0 { None } else { Some(c.maxp) });
    let log = Arc::new(Rec(Mutex::new(vec![]), "rtp"));
    let dlog = Arc::new(Rec(Mutex::new(vec![]), "dtls"));
    conn.set_rtp_receiver(log.clone());
    conn.set_dtls_receiver(dlog.clone());
    let obs = |fwd: &'static str| Obs {
        remote: ip_of(*conn.remote_addr.read()),
        rtcp: conn.remote_rtcp_addr.read().map(ip_of),
        latched: conn.rtp_latched.load(Ordering::Relaxed),
        rtcpl: conn.rtcp_latched.load(Ordering::Relaxed),
        fwd,
    };
    let mut out = vec![obs("-")];
    let mut mb = Vec::new();
    for op in &c.ops {
        let mut fwd = "-";
        match op {
            Op::Pkt(ip, port, b) => {
                rt.block_on(conn.receive(Bytes::from(b.clone()), sa(*ip, *port), &mut mb));
                let a = log.0.lock().pop();
                let d = dlog.0.lock().pop();
                fwd = a.or(d).unwrap_or("none");
            }
            Op::Enable => conn.enable_latch_on_rtp(),
            Op::Reset => conn.reset_latch(),
            Op::Sig(ip, p) => hook::set_remote_addr_from_signaling(&conn, sa(*ip, *p)),
            Op::Pair(ip, p) => hook::set_remote_addr_from_selected_pair(&conn, sa(*ip, *p)),
            Op::Ssrc(v) => conn.set_expected_ssrc(*v),
            Op::Maxp(v) => conn.set_probation_max_packets(if *v == 0 { None } else { Some(*v) }),
            Op::RtcpAddr(a) => conn.set_remote_rtcp_addr(a.map(|(i, p)| sa(i, p))),
        }
        out.push(obs(fwd));
    }
    out
}

// ---------------------------------------------------------------------------------------------
// Property oracles evaluated directly on the implementation's observations.
// Independent bookkeeping written from the doc comment of `RtpCandidateState` (rules 1,2,3) and
// the property text — NOT from the body of `receive`.

struct Src { addr: (u8, u16), seqs: Vec<u16>, marker: bool }

fn is_rtp(b: &[u8]) -> bool { !b.is_empty() && (128..192).contains(&b[0]) && !(b.len() >= 2 && (200..=211).contains(&b[1])) }
fn is_rtcp(b: &[u8]) -> bool { !b.is_empty() && (128..192).contains(&b[0]) && b.len() >= 2 && (200..=211).contains(&b[1]) }

/// documented winner for the observation history `srcs` (in order of first appearance), `total` packets.
fn spec_winner(srcs: &[Src], total: usize, max: usize) -> Option<(u8, u16)> {
    // rule 1: marker seen and lowest first (lowest) seq
    let mut best: Option<(&Src, u16)> = None;
    for s in srcs.iter().filter(|s| s.marker) {
        let fs = *s.seqs.iter().min().unwrap();
        if best.map(|(_, b)| fs < b).unwrap_or(true) { best = Some((s, fs)); }
    }
    if let Some((s, _)) = best { return Some(s.addr); }
    if total >= max {
        // rule 3: most packets, ties → lowest first_seq (then the later source, as `max_by` does)
        let mut w: Option<&Src> = None;
        for s in srcs {
            w = match w { None => Some(s), Some(b) => {
                let (bc, sc) = (b.seqs.len().min(255), s.seqs.len().min(255));
                let (bf, sf) = (*b.seqs.iter().min().unwrap(), *s.seqs.iter().min().unwrap());
                if sc > bc || (sc == bc && sf <= bf) { Some(s) } else { Some(b) } } };
        }
        return w.map(|s| s.addr);
    }
    if total >= 3 {
        for s in srcs {
            // consecutive run length at the tail of this source's packets
            let mut run = 0;
            for w in s.seqs.windows(2) { if w[1] == w[0].wrapping_add(1) { run += 1; } else { run = 0; } }
            if run >= 2 { return Some(s.addr); }
        }
    }
    None
}

/// Returns oracle failures (signature, detail) for a case and its observations.
pub fn oracles(c: &Case, obs: &[Obs]) -> Vec<(String, String)> {
    let mut fails = vec![];
    let mut expected: u32 = 0;
    let mut latch_on = false;
    let mut maxp = c.maxp;
    let mut prob_max: Option<u8> = None; // probation window in force
    let mut srcs: Vec<Src> = vec![];
    let mut total = 0usize;
    let mut allowed: Vec<(u8, u16)> = vec![];
    let mut rtcp_changes = 0;
    for (i, op) in c.ops.iter().enumerate() {
        let (before, after) = (&obs[i], &obs[i + 1]);
        let wf = before.remote.1 != 0 && !c.tcp; // configured destination on a datagram socket
        match op {
            Op::Pkt(ip, port, b) => {
                let a = (*ip, *port);
                let legit = is_rtp(b) && b.len() >= 12 && {
                    let ssrc = u32::from_be_bytes([b[8], b[9], b[10], b[11]]);
                    expected == 0 || ssrc == expected };
                if legit { allowed.push(a); }
                if wf && before.latched && latch_on && after.remote != before.remote {
                    fails.push(("sticky:pkt-moved-latched-destination".into(), format!("step {i}")));
                }
                if wf && is_rtcp(b) && after.remote != before.remote {
                    fails.push(("rtcp:moved-rtp-destination".into(), format!("step {i}")));
                }
                if wf && after.remote != before.remote && !allowed.contains(&after.remote) {
                    fails.push(("move:to-non-legit-source".into(), format!("step {i} -> {:?}", after.remote)));
                }
                if after.rtcp != before.rtcp {
                    rtcp_changes += 1;
                    if !is_rtcp(b) { fails.push(("rtcp:set-by-non-rtcp".into(), format!("step {i}"))); }
                    if rtcp_changes > 1 { fails.push(("rtcp:set-more-than-once".into(), format!("step {i}"))); }
                }
                if latch_on && !before.latched && legit {
                    if let Some(m) = prob_max {
                        total += 1;
                        let seq = u16::from_be_bytes([b[2], b[3]]);
                        let marker = b[1] & 0x80 != 0;
                        if let Some(s) = srcs.iter_mut().find(|s| s.addr == a) { s.seqs.push(seq); s.marker |= marker; }
                        else { srcs.push(Src { addr: a, seqs: vec![seq], marker }); }
                        let w = spec_winner(&srcs, total, m as usize);
                        match (w, after.latched) {
                            (Some(w), true) => if after.remote != w {
                                fails.push(("winner:committed-destination-is-not-rule-winner".into(),
                                    format!("step {i}: rules pick {:?}, destination {:?}", w, after.remote))); },
                            (Some(_), false) => fails.push(("commit:not-latched-when-rules-decide".into(), format!("step {i}"))),
                            (None, true) => fails.push(("commit:latched-without-rule".into(), format!("step {i}"))),
                            (None, false) => {}
                        }
                        if total >= m as usize && !after.latched {
                            fails.push(("commit:not-within-max-packets".into(), format!("step {i}")));
                        }
                    } else if !after.latched || after.remote != a {
                        fails.push(("commit:immediate-latch-missed".into(), format!("step {i}")));
                    }
                }
            }
            Op::Enable => { latch_on = true; if maxp > 0 { if prob_max.is_none() { prob_max = Some(maxp); srcs.clear(); total = 0; } } else { prob_max = None; } }
            Op::Reset => { rtcp_changes = 0; srcs.clear(); total = 0; prob_max = if latch_on && maxp > 0 { Some(maxp) } else { None }; }
            Op::Sig(ip, p) => { allowed.push((*ip, *p)); rtcp_changes = 0; srcs.clear(); total = 0;
                                prob_max = if latch_on && maxp > 0 { Some(maxp) } else { None }; }
            Op::Pair(ip, p) => {
                allowed.push((*ip, *p));
                if before.latched && latch_on && after.remote != before.remote {
                    fails.push(("sticky:pair-update-moved-latched-destination".into(), format!("step {i}")));
                }
            }
            Op::Ssrc(v) => expected = *v,
            Op::Maxp(v) => maxp = *v,
            Op::RtcpAddr(_) => rtcp_changes = 0,
        }
        if after.latched && !before.latched { /* committed */ }
    }
    fails
}

// ---------------------------------------------------------------------------------------------
// Generators

const SSRC: u32 = 0x1122_3344;
const SRC: [(u8, u16); 3] = [(1, 5001), (2, 5002), (3, 5003)];

fn rtp(marker: bool, seq: u16, ts: u32, ssrc: u32) -> Vec<u8> {
    let mut b = vec![0x80, if marker { 0x80 | 96 } else { 96 }];
    b.extend_from_slice(&seq.to_be_bytes());
    b.extend_from_slice(&ts.to_be_bytes());
    b.extend_from_slice(&ssrc.to_be_bytes());
    b
}
fn rtcp() -> Vec<u8> { vec![0x80, 201, 0, 1, 0, 0, 0, 1] }

/// The 21-symbol alphabet of the design; per-source sequence cursors make "+1" meaningful.
struct Alpha { last: [u16; 3] }
impl Alpha {
    fn new() -> Self { Alpha { last: [1000, 500, 65534] } }
    fn sym(&mut self, k: usize) -> Op {
        if k < 18 {
            let (s, v) = (k / 6, k % 6);
            let (ip, port) = SRC[s];
            match v {
                0..=3 => {
                    let marker = v & 1 == 1;
                    let seq = if v & 2 == 0 { self.last[s].wrapping_add(1) } else { self.last[s].wrapping_sub(3) };
                    self.last[s] = seq;
                    Op::Pkt(ip, port, rtp(marker, seq, 160u32.wrapping_mul(seq as u32), SSRC))
                }
                4 => Op::Pkt(ip, port, rtp(false, 7, 7, 0xdead_beef)),
                _ => Op::Pkt(ip, port, rtcp()),
            }
        } else {
            match k { 18 => Op::Reset, 19 => Op::Sig(3, 5003), _ => Op::Pair(2, 5002) }
        }
    }
}
pub const NSYM: usize = 21;

fn emit(run: &mut Run, rt: &tokio::runtime::Runtime, c: &Case) {
    let obs = exec(rt, c);
    let input = format!("init,{},{},{},{} {}", c.init.0, c.init.1, c.maxp, c.tcp as u8,
        c.ops.iter().map(op_text).collect::<Vec<_>>().join(" "));
    let out = obs.iter().map(|o| o.text()).collect::<Vec<_>>().join(" ");
    let committed = obs.iter().any(|o| o.latched);
    let moved = obs.windows(2).any(|w| w[0].remote != w[1].remote);
    run.case("latch", &input, &out, committed || moved);
    if committed { run.count("cases_committed"); }
    if moved { run.count("cases_destination_moved"); }
    if obs.windows(2).any(|w| w[0].rtcp != w[1].rtcp) { run.count("cases_rtcp_learnt"); }
    for (sig, detail) in oracles(c, &obs) {
        run.fail(&sig, &input, &detail);
    }
}

pub fn run(args: &Args) {
    let rt = tokio::runtime::Builder::new_current_thread().enable_all().build().unwrap();
    let mut run = Run::new("c18", &args.out);
    if let Some(case) = &args.replay {
        let c = parse_case(case);
        let obs = exec(&rt, &c);
        println!("impl: {}", obs.iter().map(|o| o.text()).collect::<Vec<_>>().join(" "));
        for (s, d) in oracles(&c, &obs) { println!("ORACLE-FAIL {s} {d}"); }
        return;
    }
    // (1) exhaustive: all sequences of length L over the 21-symbol alphabet, after `ss,SSRC ra en`
    let (len, settings): (usize, Vec<u8>) = if args.tier_thorough { (4, vec![0, 1, 2, 3, 4, 6, 8]) } else { (3, vec![0, 1, 2, 3, 4, 5, 6, 7, 8]) };
    let mut plan: Vec<(usize, u8)> = settings.iter().map(|&m| (len, m)).collect();
    if args.tier_thorough { plan.push((5, 3)); plan.push((5, 6)); }
    for &(len, maxp) in &plan {
        let n = NSYM.pow(len as u32);
        for idx in 0..n {
            let mut al = Alpha::new();
            let mut ops = vec![Op::Ssrc(SSRC), Op::RtcpAddr(Some((1, 5101))), Op::Enable];
            let mut k = idx;
            for _ in 0..len { ops.push(al.sym(k % NSYM)); k /= NSYM; }
            emit(&mut run, &rt, &Case { init: (1, 5001), maxp, tcp: false, ops });
        }
        run.count_n(&format!("exhaustive_len{len}_maxp{maxp}"), n as u64);
    }
    // (2) random longer sequences (saturating counters, wrap, unknown ssrc, unset destination, API ops)
    let mut rng = Rng::new(args.seed);
    let nrand = if args.tier_thorough { 200_000 } else { 20_000 };
    for _ in 0..nrand {
        let maxp = *rng.pick(&[0u8, 1, 2, 3, 4, 5, 6, 7, 8, 8, 20, 255]);
        let init = *rng.pick(&[(1u8, 5001u16), (9, 5009), (0, 0), (1, 0)]);
        let mut ops = vec![];
        if rng.chance(3, 4) { ops.push(Op::Ssrc(SSRC)); }
        if rng.chance(1, 2) { ops.push(Op::RtcpAddr(Some((1, 5101)))); }
        if rng.chance(9, 10) { ops.push(Op::Enable); }
        let n = if rng.chance(1, 20) { rng.range(260, 300) } else { rng.range(1, 30) } as usize;
        let mut al = Alpha::new();
        for _ in 0..n {
            let r = rng.below(100);
            let op = if r < 70 { al.sym(rng.below(18) as usize) }
                else if r < 80 {
                    let (ip, port) = *rng.pick(&SRC);
                    let b = match rng.below(6) {
                        0 => vec![], 1 => vec![rng.next() as u8],
                        2 => { let mut b = rtp(false, 1, 1, SSRC); b.truncate(rng.below(12) as usize + 1); b }
                        3 => { let mut b = rng.bytes(13); b[0] = 22; b }
                        4 => rtp(rng.chance(1, 2), rng.next() as u16, rng.next() as u32, if rng.chance(1, 2) { SSRC } else { 0 }),
                        _ => { let n = rng.range(1, 20) as usize; rng.bytes(n) } };
                    Op::Pkt(ip, port, b) }
                else if r < 84 { Op::Reset } else if r < 88 { Op::Sig(*rng.pick(&[1u8, 2, 3, 9]), *rng.pick(&[5001u16, 5002, 5003, 5009])) }
                else if r < 92 { let (i, p) = *rng.pick(&SRC); Op::Pair(i, p) }
                else if r < 94 { Op::Ssrc(*rng.pick(&[0u32, SSRC, 5])) }
                else if r < 96 { Op::Maxp(*rng.pick(&[0u8, 1, 3, 6])) }
                else if r < 98 { Op::Enable }
                else { Op::RtcpAddr(if rng.chance(1, 3) { None } else { Some((2, 5102)) }) };
            ops.push(op);
        }
        let tcp = rng.chance(1, 25);
        if tcp { run.count("random_tcp_socket_cases"); }
        emit(&mut run, &rt, &Case { init, maxp, tcp, ops });
    }
    run.count_n("random_sequences", nrand);
    run.exhaustive = true;
    run.notes.insert("exhaustive_scope".into(), serde_json::json!(format!(
        "all {}^{} sequences over the 21-symbol alphabet for probation settings {:?}", NSYM, len, settings)));
    run.finish();
}

pub fn parse_case(s: &str) -> Case {
    let mut it = s.split_whitespace();
    let init: Vec<&str> = it.next().unwrap().split(',').collect();
    let mut ops = vec![];
    for t in it {
        let f: Vec<&str> = t.split(',').collect();
        let n = |i: usize| f[i].parse::<u64>().unwrap();
        ops.push(match f[0] {
            "p" => Op::Pkt(n(1) as u8, n(2) as u16, crate::unhex(f[3])),
            "en" => Op::Enable, "rs" => Op::Reset,
            "sg" => Op::Sig(n(1) as u8, n(2) as u16), "pr" => Op::Pair(n(1) as u8, n(2) as u16),
            "ss" => Op::Ssrc(n(1) as u32), "mp" => Op::Maxp(n(1) as u8),
            "ra" => Op::RtcpAddr(if f[1] == "-" { None } else { Some((n(1) as u8, n(2) as u16)) }),
            x => panic!("bad op {x}"),
        });
    }
    Case { init: (init[1].parse().unwrap(), init[2].parse().unwrap()), maxp: init[3].parse().unwrap(), tcp: init.get(4) == Some(&"1"), ops }
}
