//! Message specifications shared by the C16 streams: text form (= Lean driver input), encoding via
//! rustrtc and via the webrtc-rs `stun` crate, canonical text of rustrtc's decode result, oracles.
use crate::{Rng, hex, unhex};
use rustrtc::transports::ice::stun::{StunAttribute, StunClass, StunDecoded, StunMessage, StunMethod};
use std::net::{IpAddr, Ipv4Addr, Ipv6Addr, SocketAddr};
use stun::agent::TransactionId;
use stun::attributes::*;
use stun::fingerprint::FINGERPRINT;
use stun::integrity::MessageIntegrity;
use stun::message::{Message, MessageType, Setter};
use stun::xoraddr::XorMappedAddress;

#[derive(Clone, Debug, PartialEq)]
pub enum A {
    Un(String), Re(String), No(String), Sw(String), Rt(u8), Lt(u32), Pr(u32), Ic(u64), Id(u64), Uc,
    Xp(SocketAddr), Xm(SocketAddr), Cn(u16), Da(Vec<u8>),
    // only the reference encoder can produce these (rustrtc has no encoder for them)
    Xr(SocketAddr), Ec(u16, String), Unk(u16, Vec<u8>), RawRe(Vec<u8>), RawNo(Vec<u8>),
    /// ERROR-CODE with non-zero reserved bits (RFC 5389 §15.6: 21 reserved bits, 3-bit class, 8-bit number): (reserved bits above the class, class, number)
    EcBits(u8, u8, u8),
}

#[derive(Clone, Debug)]
pub struct Spec { pub cls: u8, pub method: u8, pub tx: [u8; 12], pub attrs: Vec<A>, pub key: Option<Vec<u8>>, pub fp: bool }

pub const CLS: [&str; 4] = ["req", "ind", "ok", "err"];
pub const METH: [&str; 7] = ["binding", "allocate", "refresh", "createpermission", "channelbind", "send", "data"];

fn addr_text(a: &SocketAddr) -> String {
    match a.ip() {
        IpAddr::V4(v) => format!("4,{},{}", hex(&v.octets()), a.port()),
        IpAddr::V6(v) => format!("6,{},{}", hex(&v.octets()), a.port()),
    }
}
fn parse_addr(f: &[&str]) -> Option<SocketAddr> {
    let ip = unhex(f[1]);
    let port: u16 = f[2].parse().ok()?;
    match f[0] {
        "4" => Some(SocketAddr::new(IpAddr::V4(Ipv4Addr::from(<[u8; 4]>::try_from(ip).ok()?)), port)),
        "6" => Some(SocketAddr::new(IpAddr::V6(Ipv6Addr::from(<[u8; 16]>::try_from(ip).ok()?)), port)),
        _ => None,
    }
}

impl A {
    pub fn text(&self) -> String {
        match self {
            A::Un(s) => format!("un,{}", hex(s.as_bytes())), A::Re(s) => format!("re,{}", hex(s.as_bytes())),
            A::No(s) => format!("no,{}", hex(s.as_bytes())), A::Sw(s) => format!("sw,{}", hex(s.as_bytes())),
            A::Rt(v) => format!("rt,{v}"), A::Lt(v) => format!("lt,{v}"), A::Pr(v) => format!("pr,{v}"),
            A::Ic(v) => format!("ic,{v}"), A::Id(v) => format!("id,{v}"), A::Uc => "uc".into(),
            A::Xp(a) => format!("xp,{}", addr_text(a)), A::Xm(a) => format!("xm,{}", addr_text(a)),
            A::Cn(v) => format!("cn,{v}"), A::Da(b) => format!("da,{}", hex(b)),
            _ => "unsupported".into(),
        }
    }
    pub fn parse(t: &str) -> Option<A> {
        let f: Vec<&str> = t.split(',').collect();
        let s = |h: &str| String::from_utf8(unhex(h)).ok();
        Some(match f[0] {
            "un" => A::Un(s(f[1])?), "re" => A::Re(s(f[1])?), "no" => A::No(s(f[1])?), "sw" => A::Sw(s(f[1])?),
            "rt" => A::Rt(f[1].parse().ok()?), "lt" => A::Lt(f[1].parse().ok()?), "pr" => A::Pr(f[1].parse().ok()?),
            "ic" => A::Ic(f[1].parse().ok()?), "id" => A::Id(f[1].parse().ok()?), "uc" => A::Uc,
            "xp" => A::Xp(parse_addr(&f[1..])?), "xm" => A::Xm(parse_addr(&f[1..])?),
            "cn" => A::Cn(f[1].parse().ok()?), "da" => A::Da(unhex(f[1])),
            _ => return None,
        })
    }
    pub fn kind(&self) -> &'static str {
        match self { A::Un(_) => "username", A::Re(_) | A::RawRe(_) => "realm", A::No(_) | A::RawNo(_) => "nonce", A::Sw(_) => "software",
            A::Rt(_) => "requested-transport", A::Lt(_) => "lifetime", A::Pr(_) => "priority", A::Ic(_) => "ice-controlling",
            A::Id(_) => "ice-controlled", A::Uc => "use-candidate", A::Xp(_) => "xor-peer", A::Xm(_) => "xor-mapped",
            A::Cn(_) => "channel-number", A::Da(_) => "data", A::Xr(_) => "xor-relayed", A::Ec(..) | A::EcBits(..) => "error-code", A::Unk(..) => "unknown" }
    }
    /// attribute type code and value bytes per RFC 5389 / 5766 / 8445 (XOR addresses are computed by the
    /// reference crate, see `encode_reference`).
    fn rfc_tlv(&self) -> (u16, Vec<u8>) {
        match self {
            A::Un(s) => (0x0006, s.as_bytes().to_vec()), A::Re(s) => (0x0014, s.as_bytes().to_vec()),
            A::No(s) => (0x0015, s.as_bytes().to_vec()), A::Sw(s) => (0x8022, s.as_bytes().to_vec()),
            A::RawRe(b) => (0x0014, b.clone()), A::RawNo(b) => (0x0015, b.clone()),
            A::Rt(v) => (0x0019, vec![*v, 0, 0, 0]), A::Lt(v) => (0x000D, v.to_be_bytes().to_vec()),
            A::Pr(v) => (0x0024, v.to_be_bytes().to_vec()), A::Ic(v) => (0x802A, v.to_be_bytes().to_vec()),
            A::Id(v) => (0x8029, v.to_be_bytes().to_vec()), A::Uc => (0x0025, vec![]),
            A::Cn(v) => (0x000C, vec![(v >> 8) as u8, *v as u8, 0, 0]), A::Da(b) => (0x0013, b.clone()),
            A::Ec(code, reason) => { let mut v = vec![0, 0, (code / 100) as u8, (code % 100) as u8]; v.extend_from_slice(reason.as_bytes()); (0x0009, v) }
            A::EcBits(r, c, n) => (0x0009, vec![0xff, 0xff, (r << 3) | (c & 7), *n, b'!']),
            A::Unk(t, b) => (*t, b.clone()),
            A::Xp(_) => (0x0012, vec![]), A::Xm(_) => (0x0020, vec![]), A::Xr(_) => (0x0016, vec![]),
        }
    }
    fn value_len(&self) -> usize {
        match self { A::Xp(a) | A::Xm(a) | A::Xr(a) => if a.is_ipv4() { 8 } else { 20 }, _ => self.rfc_tlv().1.len() }
    }
}

impl Spec {
    pub fn text(&self) -> String {
        let mut s = format!("{} {} {} {} {}", CLS[self.cls as usize], METH[self.method as usize], hex(&self.tx),
            match &self.key { None => "nokey".to_string(), Some(k) => format!("k,{}", hex(k)) }, self.fp as u8);
        for a in &self.attrs { s.push(' '); s.push_str(&a.text()); }
        s
    }
    pub fn parse(t: &str) -> Option<Spec> {
        let f: Vec<&str> = t.split_whitespace().collect();
        if f.len() < 5 { return None; }
        let cls = CLS.iter().position(|c| *c == f[0])? as u8;
        let method = METH.iter().position(|c| *c == f[1])? as u8;
        let tx: [u8; 12] = unhex(f[2]).try_into().ok()?;
        let key = if f[3] == "nokey" { None } else { Some(unhex(f[3].strip_prefix("k,")?)) };
        let attrs = f[5..].iter().map(|a| A::parse(a)).collect::<Option<Vec<_>>>()?;
        Some(Spec { cls, method, tx, attrs, key, fp: f[4] == "1" })
    }
    pub fn len_class(&self) -> String {
        let m = self.attrs.iter().map(|a| a.value_len()).max().unwrap_or(0);
        format!("maxlen-mod4-{}", m % 4)
    }
    pub fn dup_free(&self) -> bool {
        let mut seen = std::collections::BTreeSet::new();
        self.attrs.iter().all(|a| seen.insert(a.rfc_tlv().0))
    }
    fn rr_class(&self) -> StunClass { [StunClass::Request, StunClass::Indication, StunClass::SuccessResponse, StunClass::ErrorResponse][self.cls as usize] }
    fn rr_method(&self) -> StunMethod { [StunMethod::Binding, StunMethod::Allocate, StunMethod::Refresh, StunMethod::CreatePermission,
        StunMethod::ChannelBind, StunMethod::Send, StunMethod::Data][self.method as usize] }

    pub fn encode_rustrtc(&self) -> anyhow::Result<Vec<u8>> {
        let attributes = self.attrs.iter().map(|a| match a {
            A::Un(s) => StunAttribute::Username(s.clone()), A::Re(s) => StunAttribute::Realm(s.clone()),
            A::No(s) => StunAttribute::Nonce(s.clone()), A::Sw(s) => StunAttribute::Software(s.clone()),
            A::Rt(v) => StunAttribute::RequestedTransport(*v), A::Lt(v) => StunAttribute::Lifetime(*v),
            A::Pr(v) => StunAttribute::Priority(*v), A::Ic(v) => StunAttribute::IceControlling(*v),
            A::Id(v) => StunAttribute::IceControlled(*v), A::Uc => StunAttribute::UseCandidate,
            A::Xp(a) => StunAttribute::XorPeerAddress(*a), A::Xm(a) => StunAttribute::XorMappedAddress(*a),
            A::Cn(v) => StunAttribute::ChannelNumber(*v), A::Da(b) => StunAttribute::Data(b.clone()),
            other => panic!("rustrtc cannot encode {:?}", other),
        }).collect();
        let m = StunMessage { class: self.rr_class(), method: self.rr_method(), transaction_id: self.tx, attributes };
        m.encode(self.key.as_deref(), self.fp)
    }

    pub fn ref_type(&self) -> MessageType {
        use stun::message::*;
        let m: Method = [METHOD_BINDING, METHOD_ALLOCATE, METHOD_REFRESH, METHOD_CREATE_PERMISSION, METHOD_CHANNEL_BIND, METHOD_SEND, METHOD_DATA][self.method as usize];
        let c: MessageClass = [CLASS_REQUEST, CLASS_INDICATION, CLASS_SUCCESS_RESPONSE, CLASS_ERROR_RESPONSE][self.cls as usize];
        MessageType::new(m, c)
    }

    /// The same message built by the webrtc-rs `stun` crate.
    pub fn encode_reference(&self) -> Vec<u8> {
        let mut m = Message::new();
        m.typ = self.ref_type();
        m.transaction_id = TransactionId(self.tx);
        m.write_header();
        for a in &self.attrs {
            match a {
                A::Xp(addr) | A::Xm(addr) | A::Xr(addr) => {
                    let t = AttrType(a.rfc_tlv().0);
                    XorMappedAddress { ip: addr.ip(), port: addr.port() }.add_to_as(&mut m, t).unwrap();
                }
                _ => { let (t, v) = a.rfc_tlv(); m.add(AttrType(t), &v); }
            }
        }
        if let Some(k) = &self.key { MessageIntegrity(k.clone()).add_to(&mut m).unwrap(); }
        if self.fp { FINGERPRINT.add_to(&mut m).unwrap(); }
        m.raw
    }
}

pub fn err_kind(e: &str) -> &'static str {
    if e.contains("too short") { "short" } else if e.contains("length mismatch") { "length" }
    else if e.contains("unsupported STUN method") { "method" } else if e.contains("unsupported STUN class") { "class" } else { "other" }
}

pub fn decoded_text(d: &StunDecoded) -> String {
    let cls = match d.class { StunClass::Request => "req", StunClass::Indication => "ind", StunClass::SuccessResponse => "ok", StunClass::ErrorResponse => "err" };
    let m = match d.method { StunMethod::Binding => "binding", StunMethod::Allocate => "allocate", StunMethod::Refresh => "refresh",
        StunMethod::CreatePermission => "createpermission", StunMethod::ChannelBind => "channelbind", StunMethod::Send => "send", StunMethod::Data => "data" };
    let oa = |a: &Option<SocketAddr>| a.as_ref().map(addr_text).unwrap_or_else(|| "n".into());
    let os = |a: &Option<String>| a.as_ref().map(|s| format!("s{}", hex(s.as_bytes()))).unwrap_or_else(|| "n".into());
    format!("ok {cls} {m} {} {} {} {} {} {} {} {} {} {} {}", hex(&d.transaction_id), oa(&d.xor_mapped_address), oa(&d.xor_relayed_address),
        oa(&d.xor_peer_address), d.error_code.map(|c| c.to_string()).unwrap_or_else(|| "n".into()), os(&d.realm), os(&d.nonce),
        d.data.as_ref().map(|b| format!("s{}", hex(b))).unwrap_or_else(|| "n".into()), d.use_candidate as u8,
        d.lifetime.map(|c| c.to_string()).unwrap_or_else(|| "n".into()), d.priority.map(|c| c.to_string()).unwrap_or_else(|| "n".into()))
}

/// Oracle for rustrtc's encoder output `out` of `s`.
pub fn oracle_enc(s: &Spec, out: &[u8]) -> Vec<(String, String)> {
    let mut fails = vec![];
    let lc = s.len_class();
    // (a) an independent implementation accepts it with the same attributes
    let mut m = Message::new();
    m.raw = out.to_vec();
    if let Err(e) = m.decode() {
        fails.push((format!("codec:encode:reference-decoder-rejects:{lc}"), format!("{e}")));
        return fails;
    }
    if m.raw.len() != 20 + m.length as usize { fails.push((format!("codec:encode:length-field:{lc}"), format!("len field {} total {}", m.length, m.raw.len()))); }
    if m.typ != s.ref_type() { fails.push(("codec:encode:message-type".into(), format!("{} vs {}", m.typ, s.ref_type()))); }
    if m.transaction_id.0 != s.tx { fails.push(("codec:encode:transaction-id".into(), hex(&m.transaction_id.0))); }
    // expected attribute list from the reference encoder
    let refbytes = s.encode_reference();
    let mut r = Message::new();
    r.raw = refbytes.clone();
    r.decode().expect("reference decodes its own message");
    let n = r.attributes.0.len().max(m.attributes.0.len());
    for i in 0..n {
        let (a, b) = (m.attributes.0.get(i), r.attributes.0.get(i));
        let same = match (a, b) { (Some(a), Some(b)) => a.typ == b.typ && a.value == b.value, _ => false };
        if !same {
            let kind = if i < s.attrs.len() { s.attrs[i].kind() } else if b.map(|b| b.typ) == Some(ATTR_MESSAGE_INTEGRITY) { "message-integrity" } else { "fingerprint" };
            fails.push((format!("codec:encode:{kind}:value:{lc}"), format!("attribute #{i}: rustrtc {:?} reference {:?}", a.map(|a| (a.typ.0, hex(&a.value))), b.map(|b| (b.typ.0, hex(&b.value))))));
            break;
        }
    }
    if fails.is_empty() && refbytes != out {
        let i = refbytes.iter().zip(out.iter()).position(|(a, b)| a != b).unwrap_or(refbytes.len().min(out.len()));
        fails.push((format!("codec:encode:bytes:padding-or-header:{lc}"), format!("first difference at offset {i}")));
    }
    // (b) valid MESSAGE-INTEGRITY under the given key, valid FINGERPRINT (checked by the reference crate)
    if let Some(k) = &s.key {
        if let Err(e) = MessageIntegrity(k.clone()).check(&mut m) { fails.push((format!("codec:encode:message-integrity:check:{lc}"), format!("{e}"))); }
    } else if m.contains(ATTR_MESSAGE_INTEGRITY) { fails.push(("codec:encode:message-integrity:unexpected".into(), String::new())); }
    if s.fp {
        if let Err(e) = FINGERPRINT.check(&m) { fails.push((format!("codec:encode:fingerprint:check:{lc}"), format!("{e}"))); }
        if m.attributes.0.last().map(|a| a.typ) != Some(ATTR_FINGERPRINT) { fails.push(("codec:encode:fingerprint:not-last".into(), String::new())); }
    } else if m.contains(ATTR_FINGERPRINT) { fails.push(("codec:encode:fingerprint:unexpected".into(), String::new())); }
    // (c) rustrtc decodes its own message to the same values
    match StunMessage::decode(out) {
        Err(e) => fails.push((format!("codec:roundtrip:decode-rejects-own-encoding:{lc}"), e.to_string())),
        Ok(d) => if s.dup_free() { for (sig, det) in oracle_dec(s, &d) { fails.push((sig.replace("codec:decode:", "codec:roundtrip:"), det)); } },
    }
    fails
}

/// Field-by-field comparison of rustrtc's decode result with the attributes the message was built from
/// (attribute types unique in `s`).
pub fn oracle_dec(s: &Spec, d: &StunDecoded) -> Vec<(String, String)> {
    let mut fails = vec![];
    let mut f = |field: &str, class: String, det: String| fails.push((format!("codec:decode:{field}:{class}"), det));
    if d.class != s.rr_class() { f("class", CLS[s.cls as usize].into(), format!("{:?}", d.class)); }
    if d.method != s.rr_method() { f("method", METH[s.method as usize].into(), format!("{:?}", d.method)); }
    if d.transaction_id != s.tx { f("transaction-id", "any".into(), hex(&d.transaction_id)); }
    let fam = |a: &SocketAddr| if a.is_ipv4() { "v4".to_string() } else { "v6".to_string() };
    let (mut xm, mut xp, mut xr, mut re, mut no, mut da, mut lt, mut ec, mut uc) = (None, None, None, None, None, None, None, None, false);
    let mut pr = None;
    for a in &s.attrs { match a {
        A::Xm(x) => xm = Some(*x), A::Xp(x) => xp = Some(*x), A::Xr(x) => xr = Some(*x), A::Re(x) => re = Some(x.clone()),
        A::No(x) => no = Some(x.clone()), A::Da(x) => da = Some(x.clone()), A::Lt(x) => lt = Some(*x), A::Ec(c, _) => ec = Some(*c), A::EcBits(_, c, n) => ec = Some((*c as u16 & 7) * 100 + *n as u16),
        A::Uc => uc = true, A::Pr(x) => pr = Some(*x),
        A::RawRe(b) => re = String::from_utf8(b.clone()).ok(), A::RawNo(b) => no = String::from_utf8(b.clone()).ok(),
        _ => {} } }
    if d.xor_mapped_address != xm { f("xor-mapped", xm.as_ref().map(fam).unwrap_or("absent".into()), format!("{:?} vs {:?}", d.xor_mapped_address, xm)); }
    if d.xor_peer_address != xp { f("xor-peer", xp.as_ref().map(fam).unwrap_or("absent".into()), format!("{:?} vs {:?}", d.xor_peer_address, xp)); }
    if d.xor_relayed_address != xr { f("xor-relayed", xr.as_ref().map(fam).unwrap_or("absent".into()), format!("{:?} vs {:?}", d.xor_relayed_address, xr)); }
    if d.realm != re { f("realm", format!("len-mod4-{}", re.as_ref().map(|s| s.len() % 4).unwrap_or(9)), format!("{:?} vs {:?}", d.realm, re)); }
    if d.nonce != no { f("nonce", format!("len-mod4-{}", no.as_ref().map(|s| s.len() % 4).unwrap_or(9)), format!("{:?} vs {:?}", d.nonce, no)); }
    if d.data != da { f("data", format!("len-mod4-{}", da.as_ref().map(|s| s.len() % 4).unwrap_or(9)), "data differs".into()); }
    if d.lifetime != lt { f("lifetime", "u32".into(), format!("{:?} vs {:?}", d.lifetime, lt)); }
    if d.error_code != ec { f("error-code", "class*100+number".into(), format!("{:?} vs {:?}", d.error_code, ec)); }
    if d.priority != pr { f("priority", "u32".into(), format!("{:?} vs {:?}", d.priority, pr)); }
    if d.use_candidate != uc { f("use-candidate", "flag".into(), format!("{} vs {}", d.use_candidate, uc)); }
    fails
}

// ---------------------------------------------------------------------------------------------
// generators

pub fn rng_tx(rng: &mut Rng) -> [u8; 12] { rng.bytes(12).try_into().unwrap() }

/// valid UTF-8 of exactly `len` bytes (ASCII with some 2/3/4-byte characters mixed in)
pub fn utf8_of_len(rng: &mut Rng, len: usize) -> String {
    let pool = ["a", "Z", "0", ":", " ", "/", "=", "\u{e9}", "\u{3b1}", "\u{6f22}", "\u{20ac}", "\u{1f600}", "\u{7f}", "\u{0}"];
    let mut s = String::with_capacity(len);
    let multi = rng.chance(1, 3);
    while s.len() < len {
        let c = if multi { *rng.pick(&pool) } else { *rng.pick(&pool[..7]) };
        if s.len() + c.len() <= len { s.push_str(c); } else { s.push('x'); }
    }
    s
}

pub fn addr_pool(rng: &mut Rng) -> Vec<SocketAddr> {
    let mut v = vec![];
    let ports = [0u16, 1, 0x2112, 0x2113, 3478, 65535, rng.next() as u16];
    let v4s = [[0u8, 0, 0, 0], [255, 255, 255, 255], [127, 0, 0, 1], [0x21, 0x12, 0xa4, 0x42], [192, 168, 1, 10], [10, 0, 0, 1]];
    for ip in v4s { for p in ports { v.push(SocketAddr::new(IpAddr::V4(Ipv4Addr::from(ip)), p)); } }
    let mut cookie6 = [0u8; 16]; cookie6[..4].copy_from_slice(&[0x21, 0x12, 0xa4, 0x42]);
    let mut mapped = [0u8; 16]; mapped[10] = 0xff; mapped[11] = 0xff; mapped[12..].copy_from_slice(&[1, 2, 3, 4]);
    let mut one = [0u8; 16]; one[15] = 1;
    let mut ll = [0u8; 16]; ll[0] = 0xfe; ll[1] = 0x80; ll[15] = 7;
    let rnd: [u8; 16] = rng.bytes(16).try_into().unwrap();
    for ip in [[0u8; 16], [0xff; 16], one, cookie6, mapped, ll, rnd] { for p in ports { v.push(SocketAddr::new(IpAddr::V6(Ipv6Addr::from(ip)), p)); } }
    v
}

pub fn gen_addr(rng: &mut Rng) -> SocketAddr {
    if rng.chance(1, 4) { let p = addr_pool(rng); return *rng.pick(&p); }
    let port = rng.next() as u16;
    if rng.chance(1, 2) { SocketAddr::new(IpAddr::V4(Ipv4Addr::from(rng.next() as u32)), port) }
    else { SocketAddr::new(IpAddr::V6(Ipv6Addr::from(<[u8; 16]>::try_from(rng.bytes(16)).unwrap())), port) }
}

fn gen_len(rng: &mut Rng) -> usize {
    match rng.below(10) { 0 => 0, 1 => rng.range(1, 4) as usize, 2 => rng.range(5, 40) as usize, 3 => rng.range(760, 763) as usize,
        4 => rng.range(100, 763) as usize, _ => rng.range(1, 64) as usize }
}

pub fn gen_attr(rng: &mut Rng) -> A {
    let u32s = [0u32, 1, 600, 0x7fff_ffff, 0x8000_0000, 0xffff_ffff];
    let u64s = [0u64, 1, 0xffff_ffff, 0x1_0000_0000, u64::MAX];
    match rng.below(14) {
        0 => { let n = gen_len(rng); A::Un(utf8_of_len(rng, n)) }
        1 => { let n = gen_len(rng); A::Re(utf8_of_len(rng, n)) }
        2 => { let n = gen_len(rng); A::No(utf8_of_len(rng, n)) }
        3 => { let n = gen_len(rng); A::Sw(utf8_of_len(rng, n)) }
        4 => A::Rt(*rng.pick(&[17u8, 6, 0, 255])),
        5 => A::Lt(if rng.chance(1, 2) { *rng.pick(&u32s) } else { rng.next() as u32 }),
        6 => A::Pr(if rng.chance(1, 2) { *rng.pick(&u32s) } else { rng.next() as u32 }),
        7 => A::Ic(if rng.chance(1, 2) { *rng.pick(&u64s) } else { rng.next() }),
        8 => A::Id(if rng.chance(1, 2) { *rng.pick(&u64s) } else { rng.next() }),
        9 => A::Uc,
        10 => A::Xp(gen_addr(rng)),
        11 => A::Xm(gen_addr(rng)),
        12 => A::Cn(*rng.pick(&[0u16, 0x3fff, 0x4000, 0x4001, 0x7fff, 0x8000, 0xffff])),
        _ => { let n = if rng.chance(1, 10) { rng.range(1000, 1400) as usize } else { gen_len(rng) }; A::Da(rng.bytes(n)) }
    }
}

pub fn gen_key(rng: &mut Rng) -> Option<Vec<u8>> {
    match rng.below(6) {
        0 => None,
        1 | 2 => { let n = rng.range(1, 40) as usize; Some(utf8_of_len(rng, n).into_bytes()) }   // short-term: the password
        3 | 4 => Some(rng.bytes(16)),                                                             // long-term: an MD5 digest
        _ => { let n = *rng.pick(&[0usize, 63, 64, 65, 200]); Some(rng.bytes(n)) }
    }
}

/// random message rustrtc can encode
pub fn gen_spec(rng: &mut Rng) -> Spec {
    let n = match rng.below(10) { 0 => 0, 1 | 2 => 1, 3 | 4 | 5 => rng.range(2, 4), _ => rng.range(4, 9) } as usize;
    let attrs = (0..n).map(|_| gen_attr(rng)).collect();
    Spec { cls: rng.below(4) as u8, method: rng.below(7) as u8, tx: rng_tx(rng), attrs, key: gen_key(rng), fp: rng.chance(2, 3) }
}

/// random message for the reference encoder (includes attributes rustrtc only decodes, unknown
/// attributes and non-UTF-8 REALM/NONCE values)
pub fn gen_ref_spec(rng: &mut Rng) -> Spec {
    let mut s = gen_spec(rng);
    let extra = rng.below(4) as usize;
    for _ in 0..extra {
        let a = match rng.below(6) {
            0 => A::Xr(gen_addr(rng)),
            1 => { let n = rng.below(30) as usize; A::Ec(*rng.pick(&[300u16, 400, 401, 420, 437, 438, 441, 486, 500, 508, 699]), utf8_of_len(rng, n)) }
            2 => { let n = rng.below(24) as usize; A::Unk(*rng.pick(&[0x0001u16, 0x0003, 0x000A, 0x0017, 0x0018, 0x001A, 0x0022, 0x8023, 0xC057, 0xffff]), rng.bytes(n)) }
            3 => { let n = rng.below(12) as usize; A::RawRe(rng.bytes(n)) }
            4 => { if rng.chance(1, 2) { let n = rng.below(12) as usize; A::RawNo(rng.bytes(n)) } else { A::EcBits(rng.range(1, 31) as u8, rng.range(3, 6) as u8, rng.below(100) as u8) } }
            _ => A::Lt(rng.next() as u32),
        };
        let pos = rng.below(s.attrs.len() as u64 + 1) as usize;
        s.attrs.insert(pos, a);
    }
    s
}
