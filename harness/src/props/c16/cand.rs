//! C16 candidate lines: `IceCandidate::to_sdp` / `from_sdp` against `RtcModel.IceCand`, with the
//! round-trip oracle.  std's `IpAddr: Display` / `SocketAddr: FromStr` are passed to the model as tables.
use crate::{Rng, Run, hex};
use rustrtc::transports::ice::{IceCandidate, IceCandidateType, TcpType};
use rustrtc::verif_hooks::ice::candidate as hook;
use std::net::{IpAddr, Ipv4Addr, Ipv6Addr, SocketAddr};

fn addr_text(a: &SocketAddr) -> String {
    match a.ip() {
        IpAddr::V4(v) => format!("4,{},{}", hex(&v.octets()), a.port()),
        IpAddr::V6(v) => format!("6,{},{}", hex(&v.octets()), a.port()),
    }
}
fn typ_name(t: IceCandidateType) -> &'static str {
    match t { IceCandidateType::Host => "host", IceCandidateType::ServerReflexive => "srflx",
              IceCandidateType::PeerReflexive => "prflx", IceCandidateType::Relay => "relay" }
}
fn tt_name(t: Option<TcpType>) -> &'static str {
    match t { None => "-", Some(TcpType::Active) => "active", Some(TcpType::Passive) => "passive", Some(TcpType::So) => "so" }
}

pub fn cand_text(c: &IceCandidate) -> String {
    format!("ok {} {} {} {} {} {} {} {}", hex(c.foundation.as_bytes()), c.priority, addr_text(&c.address), typ_name(c.typ),
        hex(c.transport.as_bytes()), tt_name(c.tcp_type), c.related_address.as_ref().map(addr_text).unwrap_or_else(|| "-".into()), c.component)
}

/// `tosdp`: print with rustrtc; the model gets `ip().to_string()` of the two addresses as a table.
pub fn do_tosdp(run: &mut Run, c: &IceCandidate) -> String {
    let mut input = format!("{} {} {} {} {} {} {} {}", hex(c.foundation.as_bytes()), c.priority, addr_text(&c.address), typ_name(c.typ),
        hex(c.transport.as_bytes()), tt_name(c.tcp_type), c.related_address.as_ref().map(addr_text).unwrap_or_else(|| "-".into()), c.component);
    input.push_str(&format!(" {}={}", addr_text(&c.address), hex(c.address.ip().to_string().as_bytes())));
    if let Some(r) = &c.related_address { input.push_str(&format!(" {}={}", addr_text(r), hex(r.ip().to_string().as_bytes()))); }
    let line = c.to_sdp();
    run.case("tosdp", &input, &hex(line.as_bytes()), true);
    run.count(&format!("tosdp_{}_{}", typ_name(c.typ), c.transport.to_ascii_lowercase()));
    line
}

fn err_kind(e: &anyhow::Error) -> &'static str {
    if e.downcast_ref::<std::num::ParseIntError>().is_some() { "int" }
    else if e.downcast_ref::<std::net::AddrParseError>().is_some() { "addr" }
    else if e.to_string().contains("invalid candidate") { "few" }
    else if e.to_string().contains("unknown type") { "typ" } else { "other" }
}

/// table of std's `str::parse::<SocketAddr>()` for every (ip token, port token) position `from_sdp` can
/// look at, in both spellings `ip:port` and `[ip]:port`
fn sock_table(line: &str) -> String {
    let parts: Vec<&str> = line.split_whitespace().collect();
    let mut pos = vec![(4usize, 5usize)];
    let mut i = 8;
    while i + 3 < parts.len() { pos.push((i + 1, i + 3)); i += 2; }
    let mut out = String::new();
    let mut seen = std::collections::BTreeSet::new();
    for (ipi, pi) in pos {
        if pi >= parts.len() { continue; }
        let Ok(port) = parts[pi].parse::<u16>() else { continue };
        for key in [format!("{}:{}", parts[ipi], port), format!("[{}]:{}", parts[ipi], port)] {
            if !seen.insert(key.clone()) { continue; }
            let res = key.parse::<SocketAddr>().map(|a| addr_text(&a)).unwrap_or_else(|_| "bad".into());
            out.push_str(&format!(" {}={}", hex(key.as_bytes()), res));
        }
    }
    out
}

/// `fromsdp`: parse with rustrtc.
pub fn do_fromsdp(run: &mut Run, line: &str, tag: &str) -> Option<IceCandidate> {
    let input = format!("{}{}", hex(line.as_bytes()), sock_table(line));
    let r = match crate::catch(|| IceCandidate::from_sdp(line)) {
        Ok(r) => r,
        Err(p) => { run.case("fromsdp", &input, "panic", false);
                    run.fail("codec:candidate-line:from_sdp-panic", &format!("fromsdp {}", hex(line.as_bytes())), &p); return None; }
    };
    let out = match &r { Ok(c) => cand_text(c), Err(e) => format!("err {}", err_kind(e)) };
    run.case("fromsdp", &input, &out, r.is_ok());
    run.count(&format!("fromsdp_{tag}_{}", if r.is_ok() { "ok".to_string() } else { out.replace(' ', "_") }));
    r.ok()
}

/// The property's oracle: the line survives `to_sdp → from_sdp → to_sdp`, and the candidate itself
/// survives except for the (never printed) related address of a host candidate.
pub fn roundtrip(run: &mut Run, c: &IceCandidate) {
    let line = do_tosdp(run, c);
    let class = format!("{}-{}{}", typ_name(c.typ), c.transport.to_ascii_lowercase(), if c.address.is_ipv6() { "-v6" } else { "-v4" });
    let case = format!("tosdp-roundtrip {}", hex(line.as_bytes()));
    // the assumption about std used by the theorem (AddrOk): holds for scope-id-free addresses
    for a in std::iter::once(&c.address).chain(c.related_address.iter()) {
        let txt = if a.is_ipv6() { format!("[{}]:{}", a.ip(), a.port()) } else { format!("{}:{}", a.ip(), a.port()) };
        if txt.parse::<SocketAddr>().ok() != Some(*a) {
            // std's print/parse does not round-trip this address (e.g. an IPv6 scope id): the theorem's hypothesis
            // `AddrOk` fails, and so does the round trip of the candidate line — reported, not skipped
            run.fail(&format!("codec:candidate-line:address-text-does-not-round-trip:{class}"), &case, &txt); return; }
    }
    match do_fromsdp(run, &line, "roundtrip") {
        None => run.fail(&format!("codec:candidate-line:rejected:{class}"), &case, &line),
        Some(back) => {
            let mut want = c.clone();
            if c.typ == IceCandidateType::Host { want.related_address = None; }
            let field = if back.foundation != want.foundation { "foundation" } else if back.priority != want.priority { "priority" }
                else if back.address != want.address { "address" } else if back.typ != want.typ { "typ" }
                else if back.transport != want.transport { "transport" } else if back.tcp_type != want.tcp_type { "tcptype" }
                else if back.related_address != want.related_address { "related-address" } else if back.component != want.component { "component" } else { "" };
            if !field.is_empty() {
                run.fail(&format!("codec:candidate-line:{field}:{class}"), &case, &format!("{line} -> {:?}", back));
            }
            let line2 = back.to_sdp();
            if line2 != line { run.fail(&format!("codec:candidate-line:line-changed:{class}"), &case, &format!("{line} -> {line2}")); }
        }
    }
}

pub fn addr_pool(rng: &mut Rng) -> Vec<SocketAddr> {
    let mut v = vec![];
    let v4s = [[192u8, 168, 1, 10], [10, 0, 0, 1], [0, 0, 0, 0], [255, 255, 255, 255], [127, 0, 0, 1], [203, 0, 113, 7]];
    for ip in v4s { v.push(SocketAddr::new(IpAddr::V4(Ipv4Addr::from(ip)), *rng.pick(&[0u16, 1, 9, 3478, 50000, 65535]))); }
    let mut mapped = [0u8; 16]; mapped[10] = 0xff; mapped[11] = 0xff; mapped[12..].copy_from_slice(&[1, 2, 3, 4]);
    let mut compat = [0u8; 16]; compat[12..].copy_from_slice(&[1, 2, 3, 4]);
    let mut one = [0u8; 16]; one[15] = 1;
    let mut ll = [0u8; 16]; ll[0] = 0xfe; ll[1] = 0x80; ll[15] = 7;
    let mut g = [0u8; 16]; g[0] = 0x20; g[1] = 0x01; g[2] = 0x0d; g[3] = 0xb8; g[15] = 1;
    let mut gap = [0u8; 16]; gap[0] = 0x20; gap[1] = 1; gap[6] = 0; gap[9] = 1; gap[15] = 1;
    let rnd: [u8; 16] = rng.bytes(16).try_into().unwrap();
    for ip in [[0u8; 16], [0xff; 16], one, mapped, compat, ll, g, gap, rnd] {
        v.push(SocketAddr::new(IpAddr::V6(Ipv6Addr::from(ip)), *rng.pick(&[0u16, 1, 9, 3478, 50000, 65535])));
    }
    v
}

fn rnd_addr(rng: &mut Rng) -> SocketAddr {
    if rng.chance(1, 3) { let p = addr_pool(rng); return *rng.pick(&p); }
    let port = rng.next() as u16;
    if rng.chance(1, 2) { SocketAddr::new(IpAddr::V4(Ipv4Addr::from(rng.next() as u32)), port) }
    else {
        let mut b: [u8; 16] = rng.bytes(16).try_into().unwrap();
        // zero some groups so that `::` compression and its tie-breaks are exercised
        for gidx in 0..8 { if rng.chance(1, 3) { b[2 * gidx] = 0; b[2 * gidx + 1] = 0; } }
        SocketAddr::new(IpAddr::V6(Ipv6Addr::from(b)), port)
    }
}

/// candidates exactly as the stack's own constructors build them
pub fn gen_constructed(rng: &mut Rng) -> IceCandidate {
    let a = rnd_addr(rng);
    let b = rnd_addr(rng);
    let comp = *rng.pick(&[1u16, 1, 1, 2, 2, 256, 0, 3, 65535]);
    let tt = *rng.pick(&[TcpType::Active, TcpType::Passive, TcpType::So]);
    match rng.below(10) {
        0 | 1 => IceCandidate::host(a, comp),
        2 => IceCandidate::host_tcp(a, comp, tt),
        3 => IceCandidate::tcp(a, comp, *rng.pick(&["active", "passive", "so", "bogus"])),
        4 | 5 => hook::server_reflexive(b, a, comp),
        6 => hook::relay(a, comp, *rng.pick(&["udp", "tcp"])),
        7 => { // peer-reflexive as handle_stun_request builds it
            let mut c = IceCandidate::host(a, 1);
            c.typ = IceCandidateType::PeerReflexive;
            let tcp = rng.chance(1, 3);
            c.transport = if tcp { "tcp".into() } else { "udp".into() };
            c.priority = if tcp { hook::priority_for_tcp(IceCandidateType::PeerReflexive, 1, TcpType::Passive) } else { hook::priority_for(IceCandidateType::PeerReflexive, 1) };
            c }
        8 => { let mut c = IceCandidate::host(a, comp); c.related_address = Some(b); c }   // 1:1 NAT / external-IP host candidate
        _ => hook::server_reflexive(b, a, comp).with_tcp_type(tt),
    }
}

pub const BROWSER_LINES: [&str; 12] = [
    "candidate:842163049 1 udp 1677729535 203.0.113.7 46154 typ srflx raddr 192.168.1.10 rport 46154 generation 0 ufrag EsAw network-id 1 network-cost 10",
    "842163049 1 udp 2122260223 192.168.1.10 46154 typ host generation 0 ufrag EsAw network-id 1",
    "candidate:1 1 TCP 1518280447 192.168.1.10 9 typ host tcptype active generation 0",
    "candidate:1 1 tcp 1518214911 192.168.1.10 51234 typ host tcptype passive",
    "candidate:0 1 UDP 2122252543 2001:db8::1 50000 typ host",
    "candidate:3 1 udp 41885439 198.51.100.4 61000 typ relay raddr 203.0.113.7 rport 46154 generation 0",
    "candidate:4 2 udp 1686052606 2001:db8::2 40000 typ srflx raddr fe80::7 rport 40000",
    "candidate:5 1 tcp 1019216383 198.51.100.4 443 typ srflx raddr 10.0.0.1 rport 9 tcptype so",
    "candidate:6 1 udp 1845501695 198.51.100.9 3478 typ prflx raddr 0.0.0.0 rport 0",
    "candidate:candidate:7 1 udp 1 1.2.3.4 5 typ host",
    "a=candidate:8 1 udp 1 1.2.3.4 5 typ host",
    "9 1 udp 1 1.2.3.4 5 notyp host raddr 5.6.7.8 rport x",
];

pub fn mutate_line(rng: &mut Rng, line: &str) -> String {
    let mut parts: Vec<String> = line.split(' ').map(|s| s.to_string()).collect();
    let nums = ["0", "1", "+5", "-1", "65535", "65536", "4294967295", "4294967296", "00007", "", "1e3", "0x10", "٣", "99999999999999999999"];
    let ips = ["1.2.3.4", "01.2.3.4", "1.2.3", "256.1.1.1", "::", "::1", "1::2::3", "fe80::1%3", "fe80::1%eth0", "::ffff:1.2.3.4", "[::1]", "1.2.3.4:5", "localhost", ""];
    match rng.below(10) {
        0 => { if !parts.is_empty() { let i = rng.below(parts.len() as u64) as usize; parts.remove(i); } }
        1 => { let i = rng.below(parts.len() as u64 + 1) as usize; parts.insert(i, rng.pick(&["x", "raddr", "rport", "tcptype", "typ", "passive"]).to_string()); }
        2 => { for idx in [1usize, 3, 5] { if idx < parts.len() && rng.chance(1, 2) { parts[idx] = rng.pick(&nums).to_string(); } } }
        3 => { if parts.len() > 4 { parts[4] = rng.pick(&ips).to_string(); } }
        4 => { if parts.len() > 7 { parts[7] = rng.pick(&["host", "srflx", "prflx", "relay", "HOST", "hostx", ""]).to_string(); } }
        5 => { if parts.len() > 2 { parts[2] = rng.pick(&["udp", "UDP", "tcp", "TCP", "Tcp", "ssltcp", "dccp"]).to_string(); } }
        6 => { let n = parts.len(); if n > 9 { let i = 8 + rng.below((n - 8) as u64) as usize; parts[i] = rng.pick(&["raddr", "rport", "tcptype", "active", "so", "1.2.3.4", "::1", "70000", "7"]).to_string(); } }
        7 => { let k = rng.below(parts.len() as u64 + 1) as usize; parts.truncate(k); }
        8 => { parts.push(rng.pick(&["raddr", "tcptype"]).to_string()); parts.push(rng.pick(&["9.9.9.9", "passive", "bogus"]).to_string());
               parts.push("rport".into()); parts.push(rng.pick(&nums).to_string()); }
        _ => {}
    }
    let seps = [" ", " ", " ", "  ", "\t", "\u{a0}", "\n", " \u{2003}"];
    let mut out = String::new();
    if rng.chance(1, 8) { out.push_str(*rng.pick(&seps)); }
    for (i, p) in parts.iter().enumerate() { if i > 0 { out.push_str(if rng.chance(1, 6) { *rng.pick(&seps) } else { " " }); } out.push_str(p); }
    if rng.chance(1, 8) { out.push_str(*rng.pick(&seps)); }
    out
}

/// every public / hooked constructor stores the priority of ITS type, transport flavour and component
fn constructor_priorities(run: &mut Run, rng: &mut Rng) {
    let a: SocketAddr = "192.0.2.7:5000".parse().unwrap();
    let b: SocketAddr = "10.0.0.7:5000".parse().unwrap();
    let f = |tp: u64, lp: u64, comp: u16| (tp << 24) + (lp << 8) + (256 - comp.min(256) as u64);
    let _ = rng;
    for comp in [1u16, 2, 3, 255, 256] {
        let mut cases: Vec<(String, IceCandidate, u64)> = vec![
            ("host".into(), IceCandidate::host(a, comp), f(126, 65535, comp)),
            ("srflx".into(), hook::server_reflexive(b, a, comp), f(100, 65535, comp)),
            ("relay-udp".into(), hook::relay(a, comp, "udp"), f(0, 65535, comp)),
            ("relay-tcp".into(), hook::relay(a, comp, "tcp"), f(0, 65535, comp)),
        ];
        for (tt, name, lp) in [(TcpType::Passive, "passive", 65535u64), (TcpType::Active, "active", 65534), (TcpType::So, "so", 65533)] {
            cases.push((format!("host_tcp-{name}"), IceCandidate::host_tcp(a, comp, tt), f(126, lp, comp)));
            cases.push((format!("tcp-{name}"), IceCandidate::tcp(a, comp, name), f(126, lp, comp)));
            cases.push((format!("srflx-with_tcp_type-{name}"), hook::server_reflexive(b, a, comp).with_tcp_type(tt), f(100, 65535, comp)));
        }
        cases.push(("tcp-unknown-type-defaults-to-passive".into(), IceCandidate::tcp(a, comp, "bogus"), f(126, 65535, comp)));
        for (name, c, want) in cases {
            run.case("candprio", &format!("{name} {comp}"), &c.priority.to_string(), true);
            if c.priority as u64 != want { run.fail(&format!("codec:priority:constructor:{name}"), &format!("candprio {name} {comp}"), &format!("{} vs {want}", c.priority)); }
        }
    }
}

pub fn run_all(run: &mut Run, rng: &mut Rng, thorough: bool) {
    constructor_priorities(run, rng);
    // exhaustive tuple scope: type x transport flavour x component x family x related
    let pool = addr_pool(rng);
    let v4 = pool[0]; let v6 = pool[12];
    for typ in [IceCandidateType::Host, IceCandidateType::ServerReflexive, IceCandidateType::PeerReflexive, IceCandidateType::Relay] {
        for flav in [None, Some(TcpType::Active), Some(TcpType::Passive), Some(TcpType::So)] {
            for comp in [1u16, 2] { for addr in [v4, v6] { for rel in [None, Some(pool[1]), Some(pool[9])] {
                if typ == IceCandidateType::Host && rel.is_some() && comp == 2 { continue; }
                let c = IceCandidate {
                    foundation: format!("{:x}", rng.next()),
                    priority: match flav { None => hook::priority_for(typ, comp), Some(t) => hook::priority_for_tcp(typ, comp, t) },
                    address: addr, typ, transport: if flav.is_some() { "tcp".into() } else { "udp".into() },
                    tcp_type: flav, related_address: rel, component: comp };
                roundtrip(run, &c);
            }}}
        }
    }
    for a in &pool { roundtrip(run, &IceCandidate::host(*a, 1)); roundtrip(run, &hook::server_reflexive(pool[0], *a, 1)); roundtrip(run, &hook::server_reflexive(*a, pool[0], 2)); }
    let n = if thorough { 100_000 } else { 6_000 };
    for _ in 0..n { let c = gen_constructed(rng); roundtrip(run, &c); }
    // foreign / malformed lines (model vs implementation, no panic)
    for l in BROWSER_LINES { do_fromsdp(run, l, "browser"); }
    let nm = if thorough { 100_000 } else { 6_000 };
    for _ in 0..nm {
        let base = if rng.chance(1, 2) { rng.pick(&BROWSER_LINES).to_string() } else { gen_constructed(rng).to_sdp() };
        let l = mutate_line(rng, &base);
        do_fromsdp(run, &l, "mutated");
    }
}
