//! C16 — STUN/TURN messages and ICE priorities conform to the RFCs.
//! Drives the real `StunMessage::{encode,decode}`, the TURN builders, `IceCandidate` priority /
//! SDP functions and `IceCandidatePair::priority`; writes op lines for the Lean models
//! (`RtcModel.Stun`, `RtcModel.Turn`, `RtcModel.IcePrio`, `RtcModel.IceCand`) and evaluates the
//! property's own oracles on the implementation, three-way with the webrtc-rs `stun` crate.
pub mod msg;
pub mod cand;
pub mod turn;
pub mod agent;

use crate::{Args, Rng, Run, hex};
use msg::*;
use rustrtc::transports::ice::{IceCandidate, IceCandidatePair, IceCandidateType, IceRole, TcpType};
use rustrtc::verif_hooks::ice::candidate as hook;

// ---------------------------------------------------------------------------------------------
// streams

/// `enc`: encode with rustrtc; oracle = byte equality with the reference crate's encoding of the same
/// attributes + the reference crate's own MESSAGE-INTEGRITY / FINGERPRINT checks on rustrtc's bytes.
fn do_enc(run: &mut Run, s: &Spec) {
    let input = s.text();
    let out = match crate::catch(|| s.encode_rustrtc()) {
        Ok(Ok(b)) => b,
        Ok(Err(e)) => { run.case("enc", &input, &format!("error {e}"), false); return; }
        Err(p) => {
            run.case("enc", &input, "panic", false);
            run.fail("codec:encode:panic", &format!("enc {input}"), &p);
            return;
        }
    };
    run.case("enc", &input, &hex(&out), !s.attrs.is_empty());
    run.count(&format!("enc_attrs_{}", s.attrs.len().min(6)));
    for (sig, detail) in oracle_enc(s, &out) {
        run.fail(&sig, &format!("enc {input}"), &detail);
    }
    // the Lean RFC 5389 reader (header / strict attribute walk / §15.4 / §15.5) on rustrtc's bytes,
    // against the reference crate's verdicts; also with a wrong key and a corrupted transaction id
    if run.n_cases % 3 == 0 {
        do_rfc(run, &out, s.key.as_deref());
        if let Some(k) = &s.key { let mut k2 = k.clone(); k2.push(0x55); do_rfc(run, &out, Some(&k2)); }
        let mut bad = out.clone(); bad[8 + (run.n_cases % 12) as usize] ^= 0x10; do_rfc(run, &bad, s.key.as_deref());
    }
}

fn do_rfc(run: &mut Run, bytes: &[u8], key: Option<&[u8]>) {
    use stun::attributes::*;
    use stun::message::Message;
    let mut m = Message::new();
    m.raw = bytes.to_vec();
    let ok = m.decode().is_ok() && m.raw.len() == 20 + m.length as usize;
    let out = if !ok { "hdr=0 attrs=bad".to_string() } else {
        let mi = match key { None => "-".to_string(), Some(k) => (stun::integrity::MessageIntegrity(k.to_vec()).check(&mut m).is_ok() as u8).to_string() };
        let fp = m.attributes.0.last().map(|a| a.typ) == Some(ATTR_FINGERPRINT) && stun::fingerprint::FINGERPRINT.check(&m).is_ok();
        format!("hdr=1 attrs={} mi={mi} fp={}", m.attributes.0.len(), fp as u8)
    };
    run.case("rfc", &format!("{} {}", key.map(|k| format!("k,{}", hex(k))).unwrap_or_else(|| "nokey".into()), hex(bytes)), &out, true);
}

/// `dec`: decode with rustrtc; `expect` (when the bytes were built by the reference crate from known,
/// duplicate-free attributes) is compared field by field.
fn do_dec(run: &mut Run, bytes: &[u8], expect: Option<&Spec>, tag: &str) {
    let input = hex(bytes);
    let (out, dec) = match crate::catch(|| rustrtc::transports::ice::stun::StunMessage::decode(bytes)) {
        Ok(Ok(d)) => (decoded_text(&d), Some(d)),
        Ok(Err(e)) => (format!("err {}", err_kind(&e.to_string())), None),
        Err(p) => {
            run.fail("codec:decode:panic", &format!("dec {input}"), &p);
            ("panic".to_string(), None)
        }
    };
    let nontrivial = dec.as_ref().map(|d| d.xor_mapped_address.is_some() || d.xor_peer_address.is_some()
        || d.xor_relayed_address.is_some() || d.realm.is_some() || d.nonce.is_some() || d.data.is_some()
        || d.error_code.is_some() || d.lifetime.is_some() || d.priority.is_some() || d.use_candidate).unwrap_or(false);
    run.case("dec", &input, &out, nontrivial);
    run.count(&format!("dec_{tag}_{}", if dec.is_some() { "ok" } else { "err" }));
    if let Some(s) = expect {
        match &dec {
            None => run.fail(&format!("codec:decode:rejected-reference-message:{}", s.len_class()),
                             &format!("dec {input}"), &out),
            Some(d) => for (sig, detail) in oracle_dec(s, d) {
                run.fail(&sig, &format!("dec {input}"), &detail);
            }
        }
    }
}

fn typ_name(t: IceCandidateType) -> &'static str {
    match t { IceCandidateType::Host => "host", IceCandidateType::ServerReflexive => "srflx",
              IceCandidateType::PeerReflexive => "prflx", IceCandidateType::Relay => "relay" }
}
const TYPES: [IceCandidateType; 4] = [IceCandidateType::Host, IceCandidateType::ServerReflexive,
    IceCandidateType::PeerReflexive, IceCandidateType::Relay];

/// RFC 8445 §5.1.2.1 with the RECOMMENDED type preferences (§5.1.2.2) and RFC 6544 §4.2 local
/// preferences as rustrtc documents them — written from the RFC text, not from the function body.
fn rfc_priority(t: IceCandidateType, local_pref: u64, component: u64) -> u64 {
    let tp: u64 = match t { IceCandidateType::Host => 126, IceCandidateType::PeerReflexive => 110,
        IceCandidateType::ServerReflexive => 100, IceCandidateType::Relay => 0 };
    (1 << 24) * tp + (1 << 8) * local_pref + (256 - component)
}

fn do_prio(run: &mut Run, t: IceCandidateType, comp: u16, tr: &str) {
    let input = format!("{} {} {}", typ_name(t), comp, tr);
    let (v, lp) = match tr {
        "udp" => (hook::priority_for(t, comp), 65535u64),
        "active" => (hook::priority_for_tcp(t, comp, TcpType::Active), 65534),
        "passive" => (hook::priority_for_tcp(t, comp, TcpType::Passive), 65535),
        _ => (hook::priority_for_tcp(t, comp, TcpType::So), 65533),
    };
    run.case("prio", &input, &v.to_string(), true);
    if (1..=256).contains(&comp) {
        // UDP: local preference 65535 (single-homed, RFC 8445 §5.1.2.1); TCP flavours: the RFC fixes the
        // shape of the formula, the local preference is the implementation's choice (any 16-bit value)
        // the TCP flavours use rustrtc's documented table passive 65535 / active 65534 / so 65533 (an
        // implementation choice — it deviates from RFC 6544 §4.2's direction preferences, see NOTES — pinned so
        // that a silent change is reported)
        let want = rfc_priority(t, lp, comp as u64);
        if v as u64 != want {
            run.fail(&format!("codec:priority:{}:{}", typ_name(t), tr), &format!("prio {input}"),
                     &format!("got {v}, RFC 8445 formula gives {want}"));
        }
        if v == 0 || v as u64 > (1u64 << 31) - 1 {
            run.fail("codec:priority:range", &format!("prio {input}"), &format!("{v} outside 1..2^31-1"));
        }
    }
}

fn cand_with_prio(p: u32, port: u16) -> IceCandidate {
    let mut c = IceCandidate::host(std::net::SocketAddr::from(([10, 0, 0, 1], port)), 1);
    c.priority = p;
    c
}

/// `None` = `IceCandidatePair::priority` overflowed `u64` (debug build: panic; release: wraps) — only
/// possible when both priorities are 2^32-1, outside the RFC 8445 range 1..2^31-1.
fn pair_prio(local: u32, remote: u32, role: IceRole) -> Option<u64> {
    let pair = IceCandidatePair::new(cand_with_prio(local, 1), cand_with_prio(remote, 2));
    crate::catch(move || pair.priority(role)).ok()
}

fn do_pair(run: &mut Run, l: u32, r: u32) {
    for role in [IceRole::Controlling, IceRole::Controlled] {
        let rn = if role == IceRole::Controlling { "controlling" } else { "controlled" };
        let v = pair_prio(l, r, role);
        let input = format!("{rn} {l} {r}");
        let show = |v: Option<u64>| v.map(|v| v.to_string()).unwrap_or_else(|| "overflow".into());
        run.case("pair", &input, &show(v), true);
        // the peer: opposite role, candidates swapped
        let other = if role == IceRole::Controlling { IceRole::Controlled } else { IceRole::Controlling };
        let peer = pair_prio(r, l, other);
        if peer != v {
            run.fail("codec:pair-priority:asymmetric", &format!("pair {input}"), &format!("{} vs peer {}", show(v), show(peer)));
        }
        let (g, d) = if role == IceRole::Controlling { (l as u128, r as u128) } else { (r as u128, l as u128) };
        let want = (1u128 << 32) * g.min(d) + 2 * g.max(d) + if g > d { 1 } else { 0 };
        let in_rfc_range = |p: u32| (1..=0x7fff_ffffu32).contains(&p);
        match v {
            Some(v) => if v as u128 != want {
                run.fail("codec:pair-priority:formula", &format!("pair {input}"), &format!("{v} vs RFC 8445 §6.1.2.3 {want}")); },
            None => { run.count("pair_priority_u64_overflow");
                if in_rfc_range(l) && in_rfc_range(r) {
                    run.fail("codec:pair-priority:overflow-in-rfc-range", &format!("pair {input}"), "u64 overflow"); } }
        }
    }
}

fn do_hash(run: &mut Run, alg: &str, key: &[u8], data: &[u8]) {
    use hmac::{Hmac, KeyInit, Mac};
    use sha1::{Digest, Sha1};
    let out = match alg {
        "crc32" => crc32fast::hash(data).to_string(),
        "sha1" => hex(&Sha1::digest(data)),
        "md5" => { use md5::Md5; hex(&Md5::digest(data)) }
        _ => { let mut m = <Hmac<Sha1> as KeyInit>::new_from_slice(key).unwrap(); m.update(data); hex(&m.finalize().into_bytes()) }
    };
    run.case("hash", &format!("{alg} {} {}", hex(key), hex(data)), &out, true);
}

// ---------------------------------------------------------------------------------------------

pub fn run(args: &Args) {
    if let Some(case) = &args.replay { replay(case); return; }
    let mut run = Run::new("c16", &args.out);
    let mut rng = Rng::new(args.seed);
    let thorough = args.tier_thorough;

    // (0) primitives: RFC vectors + random inputs (tests of the Lean executable primitives)
    for (alg, k, d) in [("crc32", &b""[..], &b"123456789"[..]), ("sha1", b"", b"abc"), ("sha1", b"", b""),
        ("md5", b"", b"abc"), ("md5", b"", b""), ("hmac", b"key", b"The quick brown fox jumps over the lazy dog"),
        ("hmac", &[0x0b; 20], b"Hi There"), ("hmac", b"Jefe", b"what do ya want for nothing?"), ("hmac", &[0xaa; 80], b"Test Using Larger Than Block-Size Key - Hash Key First")] {
        do_hash(&mut run, alg, k, d);
    }
    for i in 0..(if thorough { 2000 } else { 300 }) {
        let n = if i < 140 { i } else { rng.below(900) as usize };
        let d = rng.bytes(n);
        let kl = *rng.pick(&[0usize, 1, 16, 20, 63, 64, 65, 100]);
        let k = rng.bytes(kl);
        do_hash(&mut run, *rng.pick(&["crc32", "sha1", "md5", "hmac"]), &k, &d);
    }

    // (1) exhaustive small scopes for encode: every method x class x key/no key x fp/no fp
    for cls in 0..4u8 { for method in 0..7u8 { for key in [None, Some(b"pwd".to_vec())] { for fp in [false, true] {
        let s = Spec { cls, method, tx: rng_tx(&mut rng), attrs: vec![A::Sw("rustrtc".into()), A::Pr(rng.next() as u32)], key: key.clone(), fp };
        do_enc(&mut run, &s);
        do_dec_of_reference(&mut run, &s);
    }}}}
    // every string length 0..=763 for each string attribute (each residue mod 4 is hit by construction)
    for kind in 0..5u8 {
        for len in 0..=763usize {
            let text = utf8_of_len(&mut rng, len);
            let a = match kind { 0 => A::Un(text), 1 => A::Re(text), 2 => A::No(text), 3 => A::Sw(text), _ => A::Da(rng.bytes(len)) };
            let s = Spec { cls: (len % 4) as u8, method: (len % 7) as u8, tx: rng_tx(&mut rng), attrs: vec![a, A::Uc],
                key: if len % 3 == 0 { None } else if len % 3 == 1 { Some(b"short-term-pwd".to_vec()) } else { Some(rng.bytes(16)) }, fp: len % 2 == 0 };
            do_enc(&mut run, &s);
            if kind != 0 && kind != 3 { do_dec_of_reference(&mut run, &s); }
        }
    }
    run.count_n("exhaustive_string_lengths_0_763_x5_kinds", 5 * 764);
    // address boundary pool x both address attributes
    for a in addr_pool(&mut rng) { for which in 0..3u8 {
        let tx = rng_tx(&mut rng);
        for tx in [tx, [0u8; 12], [0xff; 12]] {
            let attr = match which { 0 => A::Xm(a), 1 => A::Xp(a), _ => A::Xr(a) };
            let s = Spec { cls: 2, method: 0, tx, attrs: vec![attr], key: Some(b"k".to_vec()), fp: true };
            if which < 2 { do_enc(&mut run, &s); }
            do_dec_of_reference(&mut run, &s);
        }
    }}

    // (2) random structurally valid messages
    let n = if thorough { 200_000 } else { 12_000 };
    for _ in 0..n {
        let s = gen_spec(&mut rng);
        do_enc(&mut run, &s);
        if rng.chance(1, 2) { do_dec_of_reference(&mut run, &gen_ref_spec(&mut rng)); }
    }
    // (3) malformed stream for decode: truncations at every offset, length fields, bit flips, garbage
    let nm = if thorough { 20_000 } else { 1_500 };
    for i in 0..nm {
        let s = gen_ref_spec(&mut rng);
        let good = s.encode_reference();
        if i % 50 == 0 { for cut in 0..good.len().min(120) { do_dec(&mut run, &good[..cut], None, "truncated"); } }
        let mut b = good.clone();
        match rng.below(6) {
            0 => { let v = *rng.pick(&[0u16, 1, 3, 4, (b.len() as u16).wrapping_sub(21), (b.len() as u16).wrapping_sub(19), 0xffff]); b[2..4].copy_from_slice(&v.to_be_bytes()); }
            1 => { if b.len() > 24 { let off = 22; let v = *rng.pick(&[0u16, 1, 2, 3, 5, 7, 8, 19, 20, 21, 0x7fff, 0xffff]); b[off..off + 2].copy_from_slice(&v.to_be_bytes()); } }
            2 => { let i = rng.below(b.len() as u64) as usize; b[i] ^= 1 << rng.below(8); }
            3 => { let k = rng.below(4) as usize + 1; let l = b.len(); b.truncate(l.saturating_sub(k)); let nl = (b.len().saturating_sub(20)) as u16; if b.len() >= 4 { b[2..4].copy_from_slice(&nl.to_be_bytes()); } }
            4 => { let ne = rng.below(9) as usize; let extra = rng.bytes(ne); b.extend_from_slice(&extra); let nl = (b.len() - 20) as u16; b[2..4].copy_from_slice(&nl.to_be_bytes()); }
            _ => { let n = rng.below(60) as usize; b = rng.bytes(n); if b.len() >= 4 && rng.chance(1, 2) { let nl = (b.len().saturating_sub(20)) as u16; b[2..4].copy_from_slice(&nl.to_be_bytes()); b[0] &= 0x3f; } }
        }
        do_dec(&mut run, &b, None, "malformed");
    }

    // (4) priorities: all types x transports x components 0..=300 and boundaries
    for t in TYPES { for tr in ["udp", "active", "passive", "so"] {
        for comp in (0u16..=300).chain([511, 512, 1000, 32767, 32768, 65534, 65535]) { do_prio(&mut run, t, comp, tr); }
    }}
    // (5) pair priorities: all pairs from a 64-value pool (both roles)
    let mut pool: Vec<u32> = vec![0, 1, 2, 255, 256, 65535, 65536, 0x7fff_ffff, 0x8000_0000, 0xffff_fffe, 0xffff_ffff];
    for t in TYPES { for c in [1u16, 2, 256] { pool.push(hook::priority_for(t, c)); pool.push(hook::priority_for_tcp(t, c, TcpType::Active)); } }
    while pool.len() < 64 { pool.push(rng.next() as u32); }
    for &l in &pool { for &r in &pool { do_pair(&mut run, l, r); } }
    if thorough { for _ in 0..200_000 { do_pair(&mut run, rng.next() as u32, rng.next() as u32); } }

    // (6) candidate lines
    cand::run_all(&mut run, &mut rng, thorough);
    // (7) TURN
    turn::run_all(&mut run, &mut rng, thorough);
    // (7b) the agent's own check order and messages
    agent::run_all(&mut run, &mut rng, thorough);
    turn::callsite_cases(&mut run, &mut rng, thorough);
    // (8) ICE server URIs (RFC 7064 / 7065)
    uri_cases(&mut run, &mut rng, thorough);

    run.exhaustive = true;
    run.notes.insert("exhaustive_scope".into(), serde_json::json!(
        "encode: 7 methods x 4 classes x key x fingerprint; string/DATA attributes of every length 0..=763; address boundary pool x 3 address attributes x 3 transaction ids; priorities: 4 types x 4 transports x components 0..=300 + boundaries; pair priority: all 64x64 pairs x 2 roles"));
    run.finish();
}

fn do_uri(run: &mut Run, u: &str) {
    let out = match crate::catch({ let u = u.to_string(); move || hook::parse_ice_server_uri(&u) }) {
        Ok(Ok((kind, host, port, tr))) => format!("ok {kind} {} {port} {tr}", hex(host.as_bytes())),
        Ok(Err(e)) => format!("err {}", if e.contains("missing scheme") { "noscheme" } else if e.contains("invalid port") { "port" }
            else if e.contains("unsupported scheme") { "scheme" } else if e.contains("unsupported transport") { "transport" }
            else if e.contains("must not include transport") { "stuntransport" } else { "other" }),
        Err(p) => { run.fail("codec:uri:panic", &format!("uri {}", hex(u.as_bytes())), &p); "panic".into() }
    };
    run.case("uri", &hex(u.as_bytes()), &out, out.starts_with("ok"));
    run.count(&format!("uri_{}", out.split(' ').take(2).collect::<Vec<_>>().join("_")));
}

fn uri_cases(run: &mut Run, rng: &mut Rng, thorough: bool) {
    let schemes = ["stun", "stuns", "turn", "turns", "STUN", "http", "", "stunx", "turn "];
    let hosts = ["example.org", "192.0.2.1", "[2001:db8::1]", "2001:db8::1", "", "a", "host.with-dash.example", "ex?ample", "h\u{f6}st"];
    let ports = ["", ":3478", ":0", ":65535", ":65536", ":+5", ":-1", ":", ":abc", ":3478:9"];
    let queries = ["", "?transport=udp", "?transport=tcp", "?transport=TCP", "?transport=sctp", "?transport", "?x=1&transport=tcp", "?transport=udp&transport=tcp",
                   "?Transport=tcp", "?", "?a=b", "?transport=", "?xtransport=1", "?transport=tcp?transport=udp"];
    // RFC syntax and the oracle: `scheme:host[:port][?transport=..]` with defaults 3478/5349 and udp/tcp
    for sc in schemes { for h in hosts { for p in ports { for q in queries {
        let u = format!("{sc}:{h}{p}{q}");
        do_uri(run, &u);
        // independent oracle on the canonical subset
        let simple_host = !h.is_empty() && !h.contains(':') && !h.contains('?');
        let port_ok = p.is_empty() || matches!(p, ":3478" | ":0" | ":65535");
        let q_ok = matches!(q, "" | "?transport=udp" | "?transport=tcp");
        if ["stun", "stuns", "turn", "turns"].contains(&sc) && simple_host && port_ok && q_ok && !(sc.starts_with("stun") && !q.is_empty()) {
            let want_port: u16 = if p.is_empty() { if sc.ends_with('s') { 5349 } else { 3478 } } else { p[1..].parse().unwrap() };
            let want_tr = if q == "?transport=udp" { "udp" } else if q == "?transport=tcp" { "tcp" } else if sc.ends_with('s') { "tcp" } else { "udp" };
            let want = (if sc.starts_with("stun") { "stun" } else { "turn" }.to_string(), h.to_string(), want_port, want_tr.to_string());
            match hook::parse_ice_server_uri(&u) {
                Ok(got) if got == want => {}
                other => run.fail(&format!("codec:uri:{}:{}", sc, if p.is_empty() { "default-port" } else { "explicit-port" }), &format!("uri {}", hex(u.as_bytes())), &format!("{:?} vs {:?}", other, want)),
            }
        }
    }}}}
    for _ in 0..(if thorough { 50_000 } else { 3_000 }) {
        let mut u = format!("{}:{}{}{}", rng.pick(&schemes), rng.pick(&hosts), rng.pick(&ports), rng.pick(&queries));
        let mut b: Vec<char> = u.chars().collect();
        match rng.below(4) { 0 if !b.is_empty() => { let i = rng.below(b.len() as u64) as usize; b.remove(i); }
            1 => { let i = rng.below(b.len() as u64 + 1) as usize; b.insert(i, *rng.pick(&[':', '?', '&', '=', 'x', '%', ' '])); } _ => {} }
        u = b.into_iter().collect();
        do_uri(run, &u);
    }
}

fn do_dec_of_reference(run: &mut Run, s: &Spec) {
    let bytes = s.encode_reference();
    let dup_free = s.dup_free();
    do_dec(run, &bytes, if dup_free { Some(s) } else { None }, "reference");
}

fn replay(case: &str) {
    let case = case.trim();
    let (stream, rest) = match case.split_once(' ') {
        Some((s, r)) if ["enc", "dec", "prio", "pair", "hash", "fromsdp", "tosdp-roundtrip", "uri"].contains(&s) => (s.to_string(), r.to_string()),
        _ => {
            let first = case.split(' ').next().unwrap_or("");
            let st = if ["req", "ind", "ok", "err"].contains(&first) { "enc" }
                else if ["host", "srflx", "prflx", "relay"].contains(&first) { "prio" }
                else if ["controlling", "controlled"].contains(&first) { "pair" } else { "dec" };
            (st.to_string(), case.to_string())
        }
    };
    let mut run = Run::new("c16", &crate::scratch("c16-replay"));
    if agent::replay(&mut run, case) || turn::replay(&mut run, case) {
        for f in &run.fails { println!("ORACLE-FAIL {} {}", f.signature, f.detail); }
        if run.fails.is_empty() { println!("no oracle failure"); }
        return;
    }
    match stream.as_str() {
        "enc" => { let s = Spec::parse(&rest).expect("bad enc case"); do_enc(&mut run, &s);
                   println!("impl: {}", s.encode_rustrtc().map(|b| hex(&b)).unwrap_or_else(|e| format!("error {e}")));
                   println!("ref : {}", hex(&s.encode_reference())); }
        "dec" => { let b = crate::unhex(rest.trim()); do_dec(&mut run, &b, None, "replay");
                   println!("impl: {:?}", rustrtc::transports::ice::stun::StunMessage::decode(&b).map(|d| decoded_text(&d))); }
        "prio" => { let f: Vec<&str> = rest.split(' ').collect();
                    let t = TYPES.into_iter().find(|t| typ_name(*t) == f[0]).unwrap(); do_prio(&mut run, t, f[1].parse().unwrap(), f[2]); }
        "pair" => { let f: Vec<&str> = rest.split(' ').collect(); do_pair(&mut run, f[1].parse().unwrap(), f[2].parse().unwrap()); }
        "uri" => { let u = String::from_utf8(crate::unhex(rest.trim())).unwrap(); println!("uri: {u}\nimpl: {:?}", hook::parse_ice_server_uri(&u)); do_uri(&mut run, &u); }
        "fromsdp" | "tosdp-roundtrip" => {
            let line = String::from_utf8(crate::unhex(rest.split(' ').next().unwrap())).unwrap();
            println!("line: {line}");
            match IceCandidate::from_sdp(&line) {
                Ok(c) => { println!("impl: {:?}", c); println!("reprinted: {}", c.to_sdp()); cand::roundtrip(&mut run, &c);
                           if c.to_sdp() != line && stream == "tosdp-roundtrip" { println!("ORACLE-FAIL codec:candidate-line:line-changed {} -> {}", line, c.to_sdp()); } }
                Err(e) => println!("impl: error {e}"),
            }
        }
        _ => {}
    }
    for f in &run.fails { println!("ORACLE-FAIL {} {}", f.signature, f.detail); }
    if run.fails.is_empty() { println!("no oracle failure"); }
}
