//! C16 TURN: the real `TurnClient` request builders / ChannelData framing over a loopback socket the
//! harness owns, the long-term key, the Allocate dialogue against a scripted server built with the
//! webrtc-rs `stun` crate, and the receive-side classification of `handle_turn_packet`.
use crate::{Rng, Run, hex};
use async_trait::async_trait;
use bytes::Bytes;
use parking_lot::Mutex;
use rustrtc::transports::PacketReceiver;
use rustrtc::transports::ice::IceTransport;
use rustrtc::transports::ice::turn::{TurnClient, verif_long_term_key};
use std::net::{IpAddr, Ipv4Addr, Ipv6Addr, SocketAddr};
use std::sync::Arc;
use std::time::Duration;
use stun::agent::TransactionId;
use stun::attributes::*;
use stun::fingerprint::FINGERPRINT;
use stun::integrity::MessageIntegrity;
use stun::message::*;
use stun::xoraddr::XorMappedAddress;
use tokio::net::UdpSocket;

use super::msg::{gen_addr, utf8_of_len};

fn addr_text(a: &SocketAddr) -> String {
    match a.ip() {
        IpAddr::V4(v) => format!("4,{},{}", hex(&v.octets()), a.port()),
        IpAddr::V6(v) => format!("6,{},{}", hex(&v.octets()), a.port()),
    }
}

#[derive(Clone)]
struct Creds { user: String, pass: String, realm: String, nonce: String }
impl Creds {
    fn make(rng: &mut Rng) -> Creds {
        let mut s = |lo: u64, hi: u64| { let n = rng.range(lo, hi) as usize; utf8_of_len(rng, n) };
        Creds { user: s(1, 40), pass: s(1, 40), realm: s(0, 60), nonce: s(0, 130) }
    }
    fn key(&self) -> Vec<u8> { verif_long_term_key(&self.user, &self.realm, &self.pass) }
    fn text(&self) -> String { format!("{},{},{},{}", hex(self.user.as_bytes()), hex(self.realm.as_bytes()), hex(self.nonce.as_bytes()), hex(&self.key())) }
}

struct Env { rt: tokio::runtime::Runtime, server: UdpSocket, client: Arc<TurnClient>, client_addr: SocketAddr }

impl Env {
    fn new() -> Env {
        let rt = tokio::runtime::Builder::new_current_thread().enable_all().build().unwrap();
        let (server, csock) = rt.block_on(async {
            (UdpSocket::bind("127.0.0.1:0").await.unwrap(), UdpSocket::bind("127.0.0.1:0").await.unwrap())
        });
        let server_addr = server.local_addr().unwrap();
        let client_addr = csock.local_addr().unwrap();
        let client = Arc::new(TurnClient::verif_new_udp(Arc::new(csock), server_addr));
        Env { rt, server, client, client_addr }
    }
    /// next datagram the client sent to the "TURN server"
    fn sent(&self) -> Option<Vec<u8>> {
        self.rt.block_on(async {
            let mut buf = vec![0u8; 65536];
            match tokio::time::timeout(Duration::from_millis(500), self.server.recv_from(&mut buf)).await {
                Ok(Ok((n, _))) => { buf.truncate(n); Some(buf) }
                _ => None,
            }
        })
    }
}

/// checks of a request's bytes by the reference crate: type, transaction id, long-term MESSAGE-INTEGRITY
/// (key derived independently by the reference crate from username/realm/password), FINGERPRINT, and the
/// listed attribute values
fn oracle_request(run: &mut Run, case: &str, kind: &str, bytes: &[u8], tx: &[u8; 12], method: Method, class: MessageClass,
                  creds: Option<&Creds>, peer: Option<SocketAddr>, expect: &[(AttrType, Vec<u8>)]) {
    let mut m = Message::new();
    m.raw = bytes.to_vec();
    if let Err(e) = m.decode() { run.fail(&format!("codec:turn:{kind}:reference-decoder-rejects"), case, &e.to_string()); return; }
    if m.typ != MessageType::new(method, class) { run.fail(&format!("codec:turn:{kind}:message-type"), case, &format!("{}", m.typ)); }
    if &m.transaction_id.0 != tx { run.fail(&format!("codec:turn:{kind}:transaction-id"), case, ""); }
    if let Some(c) = creds {
        let mi = MessageIntegrity::new_long_term_integrity(c.user.clone(), c.realm.clone(), c.pass.clone());
        if let Err(e) = mi.check(&mut m) { run.fail(&format!("codec:turn:{kind}:long-term-message-integrity"), case, &e.to_string()); }
        if let Err(e) = FINGERPRINT.check(&m) { run.fail(&format!("codec:turn:{kind}:fingerprint"), case, &e.to_string()); }
        for (t, v) in [(ATTR_USERNAME, c.user.as_bytes()), (ATTR_REALM, c.realm.as_bytes()), (ATTR_NONCE, c.nonce.as_bytes())] {
            if m.get(t).ok().as_deref() != Some(v) { run.fail(&format!("codec:turn:{kind}:credential-attribute:{}", t.0), case, ""); }
        }
    }
    if let Some(p) = peer {
        let mut x = XorMappedAddress::default();
        match x.get_from_as(&m, ATTR_XOR_PEER_ADDRESS) {
            Ok(()) if x.ip == p.ip() && x.port == p.port() => {}
            other => run.fail(&format!("codec:turn:{kind}:xor-peer:{}", if p.is_ipv4() { "v4" } else { "v6" }), case, &format!("{:?} / {}:{}", other.err(), x.ip, x.port)),
        }
    }
    for (t, v) in expect {
        if m.get(*t).ok().as_ref() != Some(v) { run.fail(&format!("codec:turn:{kind}:attribute:{}", t.0), case, &format!("{:?}", m.get(*t).ok().map(|b| hex(&b)))); }
    }
}

fn case_req(run: &mut Run, kind: &str, tx: &[u8; 12], auth: Option<&Creds>, peer: Option<SocketAddr>, n: u32, data: &[u8], bytes: &[u8]) -> String {
    let input = format!("{kind} {} {} {} {n} {}", hex(tx), auth.map(|c| c.text()).unwrap_or_else(|| "noauth".into()),
        peer.as_ref().map(addr_text).unwrap_or_else(|| "-".into()), hex(data));
    run.case("turnreq", &input, &hex(bytes), true);
    run.count(&format!("turnreq_{kind}"));
    format!("turnreq {input}")
}

struct Capture(Mutex<Vec<(Vec<u8>, SocketAddr)>>);
#[async_trait]
impl PacketReceiver for Capture {
    async fn receive(&self, p: Bytes, a: SocketAddr, _m: &mut Vec<u8>) { self.0.lock().push((p.to_vec(), a)); }
}

pub fn run_all(run: &mut Run, rng: &mut Rng, thorough: bool) {
    let env = Env::new();
    let c = &env.client;
    // ---- long-term key (three-way: rustrtc, reference crate, Lean MD5)
    for i in 0..(if thorough { 3000 } else { 400 }) {
        let mut cr = Creds::make(rng);
        if i < 130 { cr.user = utf8_of_len(rng, i); }      // crosses the 55/56/64-byte MD5 padding boundaries
        let k = cr.key();
        run.case("ltkey", &format!("{} {} {}", hex(cr.user.as_bytes()), hex(cr.realm.as_bytes()), hex(cr.pass.as_bytes())), &hex(&k), true);
        let r = MessageIntegrity::new_long_term_integrity(cr.user.clone(), cr.realm.clone(), cr.pass.clone());
        if r.0 != k { run.fail("codec:turn:long-term-key", &format!("ltkey {} {} {}", hex(cr.user.as_bytes()), hex(cr.realm.as_bytes()), hex(cr.pass.as_bytes())), &hex(&k)); }
    }
    // ---- request builders
    let n = if thorough { 20_000 } else { 1_500 };
    for i in 0..n {
        let cr = Creds::make(rng);
        c.verif_set_auth(&cr.user, &cr.pass, &cr.realm, &cr.nonce);
        if c.verif_auth_key() != Some(cr.key()) { run.fail("codec:turn:auth-key", "set_auth", ""); }
        let peer = gen_addr(rng);
        match i % 6 {
            0 => { let (b, tx) = env.rt.block_on(c.verif_create_permission_packet(peer)).unwrap();
                   let case = case_req(run, "perm", &tx, Some(&cr), Some(peer), 0, &[], &b);
                   oracle_request(run, &case, "create-permission", &b, &tx, METHOD_CREATE_PERMISSION, CLASS_REQUEST, Some(&cr), Some(peer), &[]); }
            1 => { let start = *rng.pick(&[0x4000u16, 0x4001, 0x7ffe, 0x7fff, 0x5000]);
                   env.rt.block_on(c.verif_set_next_channel(start));
                   let (b, tx, ch) = env.rt.block_on(c.verif_create_channel_bind_packet(peer)).unwrap();
                   let next = env.rt.block_on(c.verif_next_channel());
                   run.case("nextch", &start.to_string(), &format!("{ch} {next}"), true);
                   if !(0x4000..=0x7fff).contains(&ch) || !(0x4000..=0x7fff).contains(&next) { run.fail("codec:turn:channel-number-range", &format!("nextch {start}"), &format!("{ch} {next}")); }
                   let case = case_req(run, "bind", &tx, Some(&cr), Some(peer), ch as u32, &[], &b);
                   oracle_request(run, &case, "channel-bind", &b, &tx, METHOD_CHANNEL_BIND, CLASS_REQUEST, Some(&cr), Some(peer),
                       &[(ATTR_CHANNEL_NUMBER, vec![(ch >> 8) as u8, ch as u8, 0, 0])]); }
            2 => { let ch = rng.range(0x4000, 0x7fff) as u16;
                   let (b, tx) = env.rt.block_on(c.verif_create_channel_rebind_packet(peer, ch)).unwrap();
                   let case = case_req(run, "bind", &tx, Some(&cr), Some(peer), ch as u32, &[], &b);
                   oracle_request(run, &case, "channel-rebind", &b, &tx, METHOD_CHANNEL_BIND, CLASS_REQUEST, Some(&cr), Some(peer),
                       &[(ATTR_CHANNEL_NUMBER, vec![(ch >> 8) as u8, ch as u8, 0, 0])]); }
            3 => { let (b, tx) = env.rt.block_on(c.verif_create_refresh_packet()).unwrap();
                   let case = case_req(run, "refresh", &tx, Some(&cr), None, 600, &[], &b);
                   oracle_request(run, &case, "refresh", &b, &tx, METHOD_REFRESH, CLASS_REQUEST, Some(&cr), None, &[(ATTR_LIFETIME, 600u32.to_be_bytes().to_vec())]); }
            4 => { let (b, tx) = c.verif_create_destroy_packet().unwrap();
                   let case = case_req(run, "refresh", &tx, Some(&cr), None, 0, &[], &b);
                   oracle_request(run, &case, "destroy", &b, &tx, METHOD_REFRESH, CLASS_REQUEST, Some(&cr), None, &[(ATTR_LIFETIME, vec![0, 0, 0, 0])]); }
            _ => { // Send indication / ChannelData over the wire
                let dl = *rng.pick(&[0usize, 1, 2, 3, 4, 5, 100, 763, 1200]);
                let data = rng.bytes(dl);
                let authed = rng.chance(2, 3);
                if !authed { c.verif_clear_auth(); }
                env.rt.block_on(c.verif_send_indication(peer, &data)).unwrap();
                if let Some(b) = env.sent() {
                    let tx: [u8; 12] = b[8..20].try_into().unwrap();
                    let case = case_req(run, "sendind", &tx, if authed { Some(&cr) } else { None }, Some(peer), 0, &data, &b);
                    oracle_request(run, &case, "send-indication", &b, &tx, METHOD_SEND, CLASS_INDICATION, if authed { Some(&cr) } else { None }, Some(peer), &[(ATTR_DATA, data.clone())]);
                } else { run.count("udp_loopback_loss"); }
                let ch = rng.range(0x4000, 0x7fff) as u16;
                env.rt.block_on(c.verif_send_channel_data(ch, &data)).unwrap();
                if let Some(b) = env.sent() {
                    run.case("chan", &format!("{ch} {}", hex(&data)), &hex(&b), true);
                    // RFC 5766 §11.4 written out independently
                    let mut want = vec![(ch >> 8) as u8, ch as u8, (data.len() >> 8) as u8, data.len() as u8]; want.extend_from_slice(&data);
                    if b != want { run.fail(&format!("codec:turn:channel-data:frame:len-mod4-{}", data.len() % 4), &format!("chan {ch} {}", hex(&data)), &hex(&b)); }
                } else { run.count("udp_loopback_loss"); }
            }
        }
    }
    // ---- challenge histories: allocate, then 401/438 challenges that keep or CHANGE the realm; after every step
    // each request builder must produce a message that verifies under MD5(USERNAME : REALM-in-the-message : password)
    challenge_histories(run, rng, &env, thorough);
    // ---- TURN over TCP: `TurnClient::send` frames every message with a 2-byte length (RFC 4571)
    tcp_framing(run, rng, &env, thorough);
    tcp_recv_buffer(run, rng, &env, thorough);
    // ---- Allocate dialogue (401 challenge, then success) against a scripted reference-crate server
    for _ in 0..(if thorough { 300 } else { 40 }) { allocate_dialogue(run, rng, &env); }
    // ---- receive side: handle_turn_packet
    rx_cases(run, rng, &env, thorough);
}

/// RFC 5766 §2.1 / §11.5, RFC 5389 §7.2.2 reader of the client→server TCP byte stream, written from the RFC:
/// no extra framing; a STUN message (first two bits 00) is 20 + length bytes; a ChannelData message (first two
/// bits 01) is 4 + length bytes followed by padding to a multiple of four. Returns (message, bytes consumed).
fn rfc_tcp_next(stream: &[u8]) -> Option<(Vec<u8>, usize)> {
    if stream.len() < 4 { return None; }
    let l = u16::from_be_bytes([stream[2], stream[3]]) as usize;
    match stream[0] >> 6 {
        0 => { if stream.len() < 20 + l { return None; } Some((stream[..20 + l].to_vec(), 20 + l)) }
        1 => { let on_wire = 4 + l.div_ceil(4) * 4; if stream.len() < on_wire { return None; } Some((stream[..4 + l].to_vec(), on_wire)) }
        _ => None,
    }
}

fn tcp_framing(run: &mut Run, rng: &mut Rng, env: &Env, thorough: bool) {
    use tokio::io::{AsyncReadExt, AsyncWriteExt};
    let (client, mut server_side) = env.rt.block_on(async {
        let l = tokio::net::TcpListener::bind("127.0.0.1:0").await.unwrap();
        let c = tokio::net::TcpStream::connect(l.local_addr().unwrap()).await.unwrap();
        let (s, _) = l.accept().await.unwrap();
        (TurnClient::verif_new_tcp(c), s)
    });
    // ---- client → server: what the client writes must be readable by the RFC stream reader
    for _ in 0..(if thorough { 2000 } else { 200 }) {
        let k = rng.range(1, 4) as usize;
        let mut sent: Vec<(bool, u16, SocketAddr, Vec<u8>)> = vec![];
        for _ in 0..k {
            let dl = *rng.pick(&[0usize, 1, 2, 3, 4, 5, 100, 763, 1400]);
            sent.push((rng.chance(1, 2), rng.range(0x4000, 0x7fff) as u16, gen_addr(rng), rng.bytes(dl)));
        }
        let stream = env.rt.block_on(async {
            for (use_chan, ch, peer, data) in &sent {
                if *use_chan { client.verif_send_channel_data(*ch, data).await.unwrap(); } else { client.verif_send_indication(*peer, data).await.unwrap(); }
            }
            // read until the RFC reader has seen all messages (or 3 s pass), then pick up any trailing bytes
            let mut acc: Vec<u8> = vec![]; let mut buf = [0u8; 8192];
            let complete = |acc: &[u8]| { let mut off = 0; let mut n = 0; while let Some((_, u)) = rfc_tcp_next(&acc[off..]) { off += u; n += 1; } n >= sent.len() };
            let deadline = tokio::time::Instant::now() + Duration::from_secs(3);
            while !complete(&acc) {
                match tokio::time::timeout_at(deadline, server_side.read(&mut buf)).await { Ok(Ok(n)) if n > 0 => acc.extend_from_slice(&buf[..n]), _ => break }
            }
            while let Ok(n) = server_side.try_read(&mut buf) { if n == 0 { break; } acc.extend_from_slice(&buf[..n]); }
            acc
        });
        // model: the wire image of each message
        let mut off = 0usize;
        for (i, (use_chan, ch, peer, data)) in sent.iter().enumerate() {
            let case = format!("tcpstream msg#{i} chan={use_chan} len={}", data.len());
            let Some((msg, used)) = rfc_tcp_next(&stream[off..]) else {
                run.fail(&format!("codec:turn:tcp-stream:not-self-delimiting:{}", if *use_chan { "channel-data" } else { "stun" }), &case, &hex(&stream[off..stream.len().min(off + 48)])); return };
            run.case("tcpwire", &hex(&msg), &hex(&stream[off..off + used]), true);
            if *use_chan {
                let mut want = vec![(ch >> 8) as u8, *ch as u8, (data.len() >> 8) as u8, data.len() as u8]; want.extend_from_slice(data);
                if msg != want { run.fail(&format!("codec:turn:tcp-stream:channel-data:len-mod4-{}", data.len() % 4), &case, &hex(&msg)); }
                if stream[off + msg.len()..off + used].iter().any(|b| *b != 0) { run.count("tcp_channeldata_nonzero_padding"); }
            } else {
                let tx: [u8; 12] = match msg.get(8..20) { Some(t) => t.try_into().unwrap(), None => { run.fail("codec:turn:tcp-stream:short-stun", &case, &hex(&msg)); break } };
                let c2 = case_req(run, "sendind", &tx, None, Some(*peer), 0, data, &msg);
                oracle_request(run, &c2, "send-indication-tcp", &msg, &tx, METHOD_SEND, CLASS_INDICATION, None, Some(*peer), &[(ATTR_DATA, data.clone())]);
            }
            off += used;
        }
        if off != stream.len() && off > 0 { run.fail("codec:turn:tcp-stream:trailing-bytes", "tcpstream", &format!("{} of {}", off, stream.len())); }
    }
    // ---- server → client: `TurnClient::recv` must return each message of an RFC-framed stream
    for _ in 0..(if thorough { 1000 } else { 100 }) {
        let k = rng.range(1, 4) as usize;
        let mut msgs: Vec<Vec<u8>> = vec![]; let mut wire = vec![];
        for _ in 0..k {
            if rng.chance(1, 2) {
                let dl = *rng.pick(&[0usize, 1, 2, 3, 4, 7, 100, 1000]);
                let data = rng.bytes(dl); let ch = rng.range(0x4000, 0x7fff) as u16;
                let mut m = vec![(ch >> 8) as u8, ch as u8, (dl >> 8) as u8, dl as u8]; m.extend_from_slice(&data);
                wire.extend_from_slice(&m); wire.extend(std::iter::repeat_n(0u8, (4 - dl % 4) % 4)); msgs.push(m);
            } else {
                let mut sp = super::msg::gen_ref_spec(rng); sp.attrs.retain(|a| !matches!(a, super::msg::A::Da(d) if d.len() > 900));
                let m = sp.encode_reference(); wire.extend_from_slice(&m); msgs.push(m);
            }
        }
        run.case("tcpsplit", &hex(&wire), &msgs.iter().map(|m| hex(m)).collect::<Vec<_>>().join(","), true);
        let got: Vec<Option<Vec<u8>>> = env.rt.block_on(async {
            server_side.write_all(&wire).await.unwrap();
            let mut out = vec![];
            for _ in 0..msgs.len() {
                let mut buf = vec![0u8; 70000];
                match tokio::time::timeout(Duration::from_millis(2000), client.verif_recv(&mut buf)).await { Ok(Ok(n)) => { buf.truncate(n); out.push(Some(buf)); } _ => { out.push(None); break } }
            }
            out
        });
        for (i, m) in msgs.iter().enumerate() {
            if got.get(i).cloned().flatten().as_ref() != Some(m) {
                run.fail(&format!("codec:turn:tcp-stream:recv:{}", if m[0] >> 6 == 1 { "channel-data" } else { "stun" }), &format!("tcpsplit {}", hex(&wire)), &format!("message #{i}: {:?}", got.get(i).map(|g| g.as_ref().map(|b| hex(b)))));
                // the stream is out of sync now: start over with a fresh connection would be needed; stop this stream test
                return;
            }
        }
    }
}

/// `TurnClient::recv` over TCP with the RUNNER's buffer size (1500 bytes, `IceTransportRunner::run_turn_read_loop`):
/// messages whose on-the-wire size is around the buffer size. A frame that does not fit is an error (never a
/// slice out of range); one that fits is returned exactly. A fresh connection per case (an error leaves the
/// stream out of sync).
fn tcp_recv_buffer(run: &mut Run, rng: &mut Rng, env: &Env, thorough: bool) {
    use tokio::io::AsyncWriteExt;
    let mut sizes: Vec<(usize, bool, usize)> = vec![];
    for dl in 1488..=1502usize { sizes.push((1500, true, dl)); }            // ChannelData: 4 + dl + pad vs 1500
    for body in [1472usize, 1476, 1480, 1484, 1488] { sizes.push((1500, false, body)); }   // STUN: 20 + body vs 1500
    // buffer sizes that are not a multiple of four (no caller in the tree uses one; `recv` is generic in the buffer):
    // here the unpadded length may fit while the padded wire image does not
    for buf in [1497usize, 1498, 1499, 1501] { for dl in 1490..=1498usize { sizes.push((buf, true, dl)); } }
    for _ in 0..(if thorough { 40 } else { 6 }) { sizes.push((1500, rng.chance(1, 2), rng.range(0, 3000) as usize)); }
    for (runner_buf, chan, n) in sizes {
        #[allow(non_snake_case)] let RUNNER_BUF = runner_buf;
        let wire: Vec<u8> = if chan {
            let ch = rng.range(0x4000, 0x7fff) as u16;
            let mut m = vec![(ch >> 8) as u8, ch as u8, (n >> 8) as u8, n as u8]; m.extend(rng.bytes(n)); m.extend(std::iter::repeat_n(0u8, (4 - n % 4) % 4)); m
        } else {
            // a Data indication whose DATA attribute fills the body: 20-byte header + 4 + value (+ padding)
            let v = n.saturating_sub(4) / 4 * 4; let body = 4 + v;
            let mut m = vec![0x00, 0x17, (body >> 8) as u8, body as u8, 0x21, 0x12, 0xA4, 0x42]; m.extend(rng.bytes(12));
            m.extend_from_slice(&[0x00, 0x13, (v >> 8) as u8, v as u8]); m.extend(rng.bytes(v)); m
        };
        let w2 = wire.clone();
        let res = crate::catch(std::panic::AssertUnwindSafe(|| env.rt.block_on(async {
            let l = tokio::net::TcpListener::bind("127.0.0.1:0").await.unwrap();
            let c = tokio::net::TcpStream::connect(l.local_addr().unwrap()).await.unwrap();
            let (mut s, _) = l.accept().await.unwrap();
            let client = TurnClient::verif_new_tcp(c);
            s.write_all(&w2).await.unwrap();
            let mut buf = vec![0u8; RUNNER_BUF];
            match tokio::time::timeout(Duration::from_millis(1500), client.verif_recv(&mut buf)).await { Ok(Ok(k)) => { buf.truncate(k); format!("ok {}", hex(&buf)) } Ok(Err(_)) => "toobig".to_string(), Err(_) => "needmore".to_string() }
        })));
        let out = match res { Ok(o) => o, Err(_) => "panic".to_string() };
        let case = format!("tcprecv {RUNNER_BUF} {}", hex(&wire));
        run.case("tcprecv", &format!("{RUNNER_BUF} {}", hex(&wire)), &out, true);
        // oracle from RFC 5766 §11.5: the message (without padding) or an error, never a panic, never other bytes
        let msg_len = if chan { 4 + n } else { wire.len() };
        if out == "panic" { run.fail(&format!("codec:turn:tcp-stream:recv:panic:{}", if chan { "channel-data" } else { "stun" }), &case, &format!("on-wire {} bytes, buffer {RUNNER_BUF}", wire.len())); }
        else if wire.len() <= RUNNER_BUF { if out != format!("ok {}", hex(&wire[..msg_len])) { run.fail(&format!("codec:turn:tcp-stream:recv:message-that-fits-the-buffer-not-returned:{}", if chan { "channel-data" } else { "stun" }), &case, &out[..out.len().min(80)]); } }
        else if out.starts_with("ok") { run.fail("codec:turn:tcp-stream:recv:message-larger-than-buffer-returned", &case, &out[..out.len().min(80)]); }
        run.count(&format!("tcp_recv_buffer_{}", if wire.len() <= RUNNER_BUF { "fits" } else { "too_big" }));
    }
}

/// MESSAGE-INTEGRITY of `bytes` under the long-term key derived (by the reference crate) from the USERNAME and
/// REALM the message itself carries and the account's password
fn verifies_under_own_realm(bytes: &[u8], password: &str) -> Result<(), String> {
    let mut m = Message::new();
    m.raw = bytes.to_vec();
    m.decode().map_err(|e| e.to_string())?;
    let user = String::from_utf8(m.get(ATTR_USERNAME).map_err(|e| e.to_string())?).map_err(|e| e.to_string())?;
    let realm = String::from_utf8(m.get(ATTR_REALM).map_err(|e| e.to_string())?).map_err(|e| e.to_string())?;
    MessageIntegrity::new_long_term_integrity(user, realm, password.to_string()).check(&mut m).map_err(|e| e.to_string())
}

fn challenge_histories(run: &mut Run, rng: &mut Rng, env: &Env, thorough: bool) {
    let c = &env.client;
    for round in 0..(if thorough { 400 } else { 40 }) {
        let mut cr = Creds::make(rng);
        let realm_a = cr.realm.clone();
        let mk = |rng: &mut Rng, tag: &str| { let n = rng.range(0, 30) as usize; format!("{tag}{}", utf8_of_len(rng, n)) };
        let realm_b = mk(rng, "B-"); let realm_c = mk(rng, "C-");
        c.verif_set_auth(&cr.user, &cr.pass, &cr.realm, &cr.nonce);      // = the state a successful allocate leaves
        // the history of the audit: same realm, realm B, new nonce in B, realm C — then random steps
        let mut steps: Vec<(String, String)> = vec![(realm_a.clone(), mk(rng, "n1")), (realm_b.clone(), mk(rng, "n2")), (realm_b.clone(), mk(rng, "n3")), (realm_c.clone(), mk(rng, "n4"))];
        for _ in 0..rng.below(4) { steps.push((rng.pick(&[realm_a.clone(), realm_b.clone(), realm_c.clone(), String::new()]).clone(), mk(rng, "r"))); }
        if round % 5 == 0 { steps.rotate_left(1); }
        let all_steps: Vec<(String, String)> = std::iter::once((cr.realm.clone(), cr.nonce.clone())).chain(steps.iter().cloned()).collect();
        for (si, (realm, nonce)) in all_steps.into_iter().enumerate() {
            if si > 0 { env.rt.block_on(c.verif_update_nonce(&realm, &nonce)); cr.realm = realm.clone(); cr.nonce = nonce.clone(); }
            let step_class = if si == 0 { "after-allocate" } else if realm == realm_a { "after-challenge-same-realm" } else { "after-challenge-new-realm" };
            if c.verif_auth_key() != Some(cr.key()) { run.fail(&format!("codec:turn:challenge-history:stored-key:{step_class}"), &format!("history step {si}"), ""); }
            let peer = gen_addr(rng);
            let ch = rng.range(0x4000, 0x7fff) as u16;
            let built: Vec<(&str, Vec<u8>, [u8; 12], Option<SocketAddr>, u32)> = vec![
                { let (b, tx) = env.rt.block_on(c.verif_create_permission_packet(peer)).unwrap(); ("perm", b, tx, Some(peer), 0) },
                { let (b, tx) = env.rt.block_on(c.verif_create_channel_rebind_packet(peer, ch)).unwrap(); ("bind", b, tx, Some(peer), ch as u32) },
                { let (b, tx) = env.rt.block_on(c.verif_create_refresh_packet()).unwrap(); ("refresh", b, tx, None, 600) },
                { let (b, tx) = c.verif_create_destroy_packet().unwrap(); ("refresh", b, tx, None, 0) },
            ];
            for (kind, b, tx, p, n) in built {
                let case = case_req(run, kind, &tx, Some(&cr), p, n, &[], &b);
                if let Err(e) = verifies_under_own_realm(&b, &cr.pass) { run.fail(&format!("codec:turn:challenge-history:{kind}:{step_class}:message-integrity-not-under-realm-in-message"), &case, &e); }
                let mut m = Message::new(); m.raw = b.clone(); let _ = m.decode();
                if m.get(ATTR_REALM).ok().as_deref() != Some(cr.realm.as_bytes()) || m.get(ATTR_NONCE).ok().as_deref() != Some(cr.nonce.as_bytes()) {
                    run.fail(&format!("codec:turn:challenge-history:{kind}:{step_class}:realm-or-nonce-not-the-challenged-one"), &case, ""); }
            }
            // authenticated Send indication over the wire
            let dl = *rng.pick(&[0usize, 5, 100]);
            let data = rng.bytes(dl);
            env.rt.block_on(c.verif_send_indication(peer, &data)).unwrap();
            if let Some(b) = env.sent() {
                let tx: [u8; 12] = b[8..20].try_into().unwrap();
                let case = case_req(run, "sendind", &tx, Some(&cr), Some(peer), 0, &data, &b);
                if let Err(e) = verifies_under_own_realm(&b, &cr.pass) { run.fail(&format!("codec:turn:challenge-history:sendind:{step_class}:message-integrity-not-under-realm-in-message"), &case, &e); }
            } else { run.count("udp_loopback_loss"); }
            run.count(&format!("challenge_history_{step_class}"));
        }
    }
}

fn error_reply(tx: [u8; 12], method: Method, code: u16, realm: &str, nonce: &str) -> Vec<u8> {
    server_reply(tx, method, CLASS_ERROR_RESPONSE, &[(ATTR_ERROR_CODE, vec![0, 0, (code / 100) as u8, (code % 100) as u8, b'x']),
        (ATTR_REALM, realm.as_bytes().to_vec()), (ATTR_NONCE, nonce.as_bytes().to_vec())], None, None)
}

/// The CALL SITES that feed the request builders (`refresh_one_turn_client` via `run_turn_refresh`): which
/// realm / nonce of a 401 / 438 go to `update_nonce`, the retry-once logic, the order Refresh → CreatePermission
/// (selected pair's remote) → ChannelBind (every bound peer). A scripted server (reference crate) challenges the
/// first `ch[m]` requests of each method; responses are delivered through the real `handle_turn_packet`.
pub fn refresh_callsite_case(run: &mut Run, seed: u64, ch: [u8; 3]) {
    let mut rng = Rng::new(seed);
    let rng = &mut rng;
    let env = Env::new();
    let case = format!("turnrefresh {seed} {} {} {}", ch[0], ch[1], ch[2]);
    let mut cr = Creds::make(rng);
    if cr.realm.is_empty() { cr.realm = "r".into(); }
    env.client.verif_set_auth(&cr.user, &cr.pass, &cr.realm, &cr.nonce);
    let relayed: SocketAddr = "203.0.113.7:50000".parse().unwrap();
    let peer: SocketAddr = "198.51.100.9:40000".parse().unwrap();
    let channel = 0x4000 + rng.below(0x3fff) as u16;
    env.rt.block_on(env.client.verif_add_channel(peer, channel));
    let (t, _runner) = IceTransport::new(rustrtc::RtcConfiguration::default());
    t.verif_add_turn_client(relayed, env.client.clone());
    let lc = rustrtc::verif_hooks::ice::candidate::relay(relayed, 1, "udp");
    let rc = rustrtc::transports::ice::IceCandidate::host(peer, 1);
    t.verif_set_selected_pair(Some(rustrtc::transports::ice::IceCandidatePair::new(lc, rc)));
    t.verif_set_state(rustrtc::transports::ice::IceTransportState::Connected);
    // (method index, request bytes, credentials the request must carry)
    let log: std::cell::RefCell<Vec<(usize, Vec<u8>, Creds)>> = Default::default();
    let methods = [METHOD_REFRESH, METHOD_CREATE_PERMISSION, METHOD_CHANNEL_BIND];
    let t2 = t.clone(); let client = env.client.clone();
    let finished = env.rt.block_on(async {
        let srv = async {
            let mut seen = [0u8; 3];
            let mut cur = cr.clone();
            let mut buf = vec![0u8; 4096];
            let mut k = 0u32;
            loop {
                let Ok((n, _)) = env.server.recv_from(&mut buf).await else { continue };
                let bytes = buf[..n].to_vec();
                let mut m = Message::new(); m.raw = bytes.clone();
                if m.decode().is_err() { continue; }
                let Some(mi) = methods.iter().position(|x| *x == m.typ.method) else { continue };
                log.borrow_mut().push((mi, bytes.clone(), cur.clone()));
                seen[mi] += 1;
                let tx = m.transaction_id.0;
                let resp = if seen[mi] <= ch[mi] {
                    k += 1;
                    let (realm, nonce) = (if k % 2 == 1 { format!("realm-{k}-é") } else { cur.realm.clone() }, format!("nonce-{k}"));
                    // the client adopts the challenge only on its first attempt of a method
                    if seen[mi] == 1 { cur.realm = realm.clone(); cur.nonce = nonce.clone(); }
                    error_reply(tx, m.typ.method, if k % 3 == 0 { 401 } else { 438 }, &realm, &nonce)
                } else { server_reply(tx, m.typ.method, CLASS_SUCCESS_RESPONSE, &[], None, None) };
                t2.verif_handle_turn_packet(&resp, &client, relayed).await;
            }
        };
        tokio::select! { biased; _ = t.verif_run_turn_refresh() => true, _ = srv => false, _ = tokio::time::sleep(Duration::from_secs(4)) => false }
    });
    let log = log.into_inner();
    if !finished { run.fail("agent-turn:refresh:pass-did-not-finish", &case, &format!("{} requests seen", log.len())); }
    let names = ["refresh", "create-permission", "channel-bind"];
    // order and count: per method min(challenges, 1) + 1 requests, methods in order
    let want: Vec<usize> = (0..3).flat_map(|mi| std::iter::repeat_n(mi, 1 + ch[mi].min(1) as usize)).collect();
    let got: Vec<usize> = log.iter().map(|l| l.0).collect();
    if got != want { run.fail(&format!("agent-turn:refresh:request-sequence:{}", if got.len() < want.len() { "stale-nonce-not-retried-or-step-missing" } else { "unexpected-extra-request" }), &case, &format!("{got:?} vs {want:?}")); }
    for (i, (mi, bytes, creds)) in log.iter().enumerate() {
        let kind = names[*mi];
        let tx: [u8; 12] = bytes[8..20].try_into().unwrap();
        let c2 = format!("{case} request#{i} {kind}");
        let mkind = ["refresh", "perm", "bind"][*mi];
        let _ = case_req(run, mkind, &tx, Some(creds), if *mi == 0 { None } else { Some(peer) }, if *mi == 0 { 600 } else if *mi == 2 { channel as u32 } else { 0 }, &[], bytes);
        let expect: Vec<(AttrType, Vec<u8>)> = match mi { 0 => vec![(ATTR_LIFETIME, 600u32.to_be_bytes().to_vec())], 2 => vec![(ATTR_CHANNEL_NUMBER, vec![(channel >> 8) as u8, channel as u8, 0, 0])], _ => vec![] };
        oracle_request(run, &c2, &format!("refresh-callsite:{kind}"), bytes, &tx, methods[*mi], CLASS_REQUEST, Some(creds), if *mi == 0 { None } else { Some(peer) }, &expect);
        if let Err(e) = verifies_under_own_realm(bytes, &cr.pass) { run.fail(&format!("agent-turn:refresh:{kind}:message-integrity-not-under-realm-in-message"), &c2, &e); }
    }
    run.count(&format!("turn_refresh_callsite_{}{}{}", ch[0], ch[1], ch[2]));
    t.stop();
}

/// The relay path of `perform_binding_check`: CreatePermission for the remote, then (only after success)
/// ChannelBind, `add_channel` only on a ChannelBind success, and the connectivity check itself through the relay —
/// as ChannelData on the bound channel, otherwise as a Send indication. `script`: 0 = both succeed,
/// 1 = ChannelBind refused, 2 = CreatePermission refused.
pub fn relay_check_case(run: &mut Run, seed: u64, script: u8, controlling: bool) {
    use rustrtc::transports::ice::{IceCandidate, IceParameters, IceRole, IceTransportState};
    let mut rng = Rng::new(seed);
    let rng = &mut rng;
    let env = Env::new();
    let case = format!("relaycheck {seed} {script} {}", controlling as u8);
    let cr = Creds::make(rng);
    env.client.verif_set_auth(&cr.user, &cr.pass, &cr.realm, &cr.nonce);
    let relayed: SocketAddr = "203.0.113.7:50000".parse().unwrap();
    let peer: SocketAddr = "198.51.100.9:40000".parse().unwrap();
    let mut cfg = rustrtc::RtcConfiguration::default();
    cfg.stun_timeout = Duration::from_millis(300); cfg.nomination_timeout = Duration::from_millis(300);
    let (t, _runner) = IceTransport::new(cfg);
    let role = if controlling { IceRole::Controlling } else { IceRole::Controlled };
    t.set_role(role);
    t.set_remote_parameters(IceParameters::new(super::agent::REMOTE_UFRAG, super::agent::REMOTE_PWD));
    t.verif_set_state(IceTransportState::Checking);
    t.verif_add_turn_client(relayed, env.client.clone());
    let lc = rustrtc::verif_hooks::ice::candidate::relay(relayed, 1, "udp");
    t.verif_add_local_candidate(lc.clone());
    t.verif_add_remote_candidate_quiet(IceCandidate::host(peer, 1));
    let log: std::cell::RefCell<Vec<Vec<u8>>> = Default::default();
    let t2 = t.clone(); let client = env.client.clone();
    env.rt.block_on(async {
        let srv = async {
            let mut buf = vec![0u8; 4096];
            loop {
                let Ok((n, _)) = env.server.recv_from(&mut buf).await else { continue };
                let bytes = buf[..n].to_vec();
                log.borrow_mut().push(bytes.clone());
                if bytes[0] >> 6 != 0 { continue; }                       // ChannelData
                let mut m = Message::new(); m.raw = bytes.clone();
                if m.decode().is_err() || m.typ.class != CLASS_REQUEST { continue; }
                let tx = m.transaction_id.0;
                let refuse = (m.typ.method == METHOD_CREATE_PERMISSION && script == 2) || (m.typ.method == METHOD_CHANNEL_BIND && script == 1);
                let resp = if refuse { server_reply(tx, m.typ.method, CLASS_ERROR_RESPONSE, &[(ATTR_ERROR_CODE, vec![0, 0, 4, 3, b'x'])], None, None) }
                    else { server_reply(tx, m.typ.method, CLASS_SUCCESS_RESPONSE, &[], None, None) };
                t2.verif_handle_turn_packet(&resp, &client, relayed).await;
            }
        };
        tokio::select! { biased; _ = t.verif_run_connectivity_checks() => {}, _ = srv => {}, _ = tokio::time::sleep(Duration::from_secs(4)) => {} }
    });
    rustrtc::verif_hooks::ice::pairs::take();
    let log = log.into_inner();
    // classify what the server saw
    let mut kinds: Vec<String> = vec![];
    let mut bound_channel: Option<u16> = None;
    for b in &log {
        if b[0] >> 6 == 1 {
            let chn = u16::from_be_bytes([b[0], b[1]]); let l = u16::from_be_bytes([b[2], b[3]]) as usize;
            kinds.push("channel-data".into());
            if Some(chn) != bound_channel { run.fail("agent-turn:relay-check:channel-data-on-a-channel-that-was-not-bound", &case, &format!("{chn:#x} vs {bound_channel:?}")); }
            if let Some(inner) = b.get(4..4 + l) { super::agent::check_request(run, &case, &t, role, lc.priority, &super::agent::Seen { from: relayed, to: 0, bytes: inner.to_vec() }, Some(false)); }
            continue;
        }
        let mut m = Message::new(); m.raw = b.clone();
        if m.decode().is_err() { kinds.push("undecodable".into()); continue; }
        let tx: [u8; 12] = m.transaction_id.0;
        if m.typ == MessageType::new(METHOD_CREATE_PERMISSION, CLASS_REQUEST) {
            kinds.push("create-permission".into());
            let c2 = case_req(run, "perm", &tx, Some(&cr), Some(peer), 0, &[], b);
            oracle_request(run, &c2, "relay-check:create-permission", b, &tx, METHOD_CREATE_PERMISSION, CLASS_REQUEST, Some(&cr), Some(peer), &[]);
        } else if m.typ == MessageType::new(METHOD_CHANNEL_BIND, CLASS_REQUEST) {
            kinds.push("channel-bind".into());
            let chn = m.get(ATTR_CHANNEL_NUMBER).ok().map(|v| u16::from_be_bytes([v[0], v[1]])).unwrap_or(0);
            if !(0x4000..=0x7fff).contains(&chn) { run.fail("agent-turn:relay-check:channel-number-range", &case, &format!("{chn:#x}")); }
            if script != 1 { bound_channel = Some(chn); }
            let c2 = case_req(run, "bind", &tx, Some(&cr), Some(peer), chn as u32, &[], b);
            oracle_request(run, &c2, "relay-check:channel-bind", b, &tx, METHOD_CHANNEL_BIND, CLASS_REQUEST, Some(&cr), Some(peer), &[(ATTR_CHANNEL_NUMBER, vec![(chn >> 8) as u8, chn as u8, 0, 0])]);
        } else if m.typ == MessageType::new(METHOD_SEND, CLASS_INDICATION) {
            kinds.push("send-indication".into());
            let mut x = XorMappedAddress::default();
            if x.get_from_as(&m, ATTR_XOR_PEER_ADDRESS).is_err() || x.ip != peer.ip() || x.port != peer.port() { run.fail("agent-turn:relay-check:send-indication-peer", &case, ""); }
            if let Ok(inner) = m.get(ATTR_DATA) { super::agent::check_request(run, &case, &t, role, lc.priority, &super::agent::Seen { from: relayed, to: 0, bytes: inner }, Some(false)); }
            else { run.fail("agent-turn:relay-check:send-indication-without-data", &case, ""); }
        } else { kinds.push(format!("other:{}", m.typ)); }
    }
    let want: Vec<&str> = match script { 0 => vec!["create-permission", "channel-bind", "channel-data"], 1 => vec!["create-permission", "channel-bind", "send-indication"], _ => vec!["create-permission"] };
    if kinds != want { run.fail(&format!("agent-turn:relay-check:message-sequence:{}", ["bind-accepted", "bind-refused", "permission-refused"][script as usize]), &case, &format!("{kinds:?} vs {want:?}")); }
    let ch_now = env.rt.block_on(env.client.verif_get_peer(bound_channel.unwrap_or(0x4000)));
    if script == 1 && env.rt.block_on(async { let mut any = false; for c in 0x4000u16..0x4010 { if env.client.verif_get_peer(c).await.is_some() { any = true; } } any }) { run.fail("agent-turn:relay-check:channel-added-although-bind-was-refused", &case, ""); }
    if script == 0 && ch_now != Some(peer) { run.fail("agent-turn:relay-check:channel-not-added-after-successful-bind", &case, &format!("{ch_now:?}")); }
    run.count(&format!("turn_relay_check_script{script}"));
    t.stop();
}

pub fn callsite_cases(run: &mut Run, rng: &mut Rng, thorough: bool) {
    for ch in [[0u8, 0, 0], [1, 0, 0], [0, 1, 0], [0, 0, 1], [1, 1, 1], [2, 0, 0], [0, 2, 2]] { refresh_callsite_case(run, rng.next(), ch); }
    for _ in 0..(if thorough { 20 } else { 0 }) { refresh_callsite_case(run, rng.next(), [rng.below(3) as u8, rng.below(3) as u8, rng.below(3) as u8]); }
    for script in 0..3u8 { for controlling in [true, false] { relay_check_case(run, rng.next(), script, controlling); } }
}

pub fn replay(run: &mut Run, case: &str) -> bool {
    let f: Vec<&str> = case.split(' ').collect();
    match f[0] {
        "turnrefresh" if f.len() >= 5 => { refresh_callsite_case(run, f[1].parse().unwrap(), [f[2].parse().unwrap(), f[3].parse().unwrap(), f[4].parse().unwrap()]); true }
        "relaycheck" if f.len() >= 4 => { relay_check_case(run, f[1].parse().unwrap(), f[2].parse().unwrap(), f[3] == "1"); true }
        _ => false,
    }
}

fn server_reply(tx: [u8; 12], method: Method, class: MessageClass, attrs: &[(AttrType, Vec<u8>)], relayed: Option<SocketAddr>, key: Option<Vec<u8>>) -> Vec<u8> {
    let mut m = Message::new();
    m.typ = MessageType::new(method, class);
    m.transaction_id = TransactionId(tx);
    m.write_header();
    if let Some(r) = relayed { XorMappedAddress { ip: r.ip(), port: r.port() }.add_to_as(&mut m, ATTR_XOR_RELAYED_ADDRESS).unwrap(); }
    for (t, v) in attrs { m.add(*t, v); }
    if let Some(k) = key { MessageIntegrity(k).add_to(&mut m).unwrap(); }
    FINGERPRINT.add_to(&mut m).unwrap();
    m.raw
}

/// every authenticated request builder on `env.client` in its CURRENT auth state, which must be `cr`: byte-compared with
/// the model, MESSAGE-INTEGRITY verified under MD5(USERNAME:REALM-in-the-message:password) by the reference crate,
/// REALM / NONCE = the ones of `cr`
fn builders_after(run: &mut Run, rng: &mut Rng, env: &Env, cr: &Creds, class: &str) {
    let c = &env.client;
    let peer = gen_addr(rng);
    let ch = rng.range(0x4000, 0x7fff) as u16;
    let mut built: Vec<(&str, Vec<u8>, [u8; 12], Option<SocketAddr>, u32, Vec<u8>)> = vec![
        { let (b, tx) = env.rt.block_on(c.verif_create_permission_packet(peer)).unwrap(); ("perm", b, tx, Some(peer), 0, vec![]) },
        { let (b, tx) = env.rt.block_on(c.verif_create_channel_rebind_packet(peer, ch)).unwrap(); ("bind", b, tx, Some(peer), ch as u32, vec![]) },
        { let (b, tx) = env.rt.block_on(c.verif_create_refresh_packet()).unwrap(); ("refresh", b, tx, None, 600, vec![]) },
        { let (b, tx) = c.verif_create_destroy_packet().unwrap(); ("refresh", b, tx, None, 0, vec![]) },
    ];
    let dl = *rng.pick(&[0usize, 5, 100]); let data = rng.bytes(dl);
    { let mut b = [0u8; 4096]; while env.server.try_recv_from(&mut b).is_ok() {} }
    env.rt.block_on(c.verif_send_indication(peer, &data)).unwrap();
    if let Some(b) = env.sent() { let tx: [u8; 12] = b[8..20].try_into().unwrap(); built.push(("sendind", b, tx, Some(peer), 0, data.clone())); } else { run.count("udp_loopback_loss"); }
    for (kind, b, tx, p, n, d) in built {
        let case = case_req(run, kind, &tx, Some(cr), p, n, &d, &b);
        if let Err(e) = verifies_under_own_realm(&b, &cr.pass) { run.fail(&format!("codec:turn:{class}:{kind}:message-integrity-not-under-realm-in-message"), &case, &e); }
        let mut m = Message::new(); m.raw = b.clone(); let _ = m.decode();
        if m.get(ATTR_REALM).ok().as_deref() != Some(cr.realm.as_bytes()) || m.get(ATTR_NONCE).ok().as_deref() != Some(cr.nonce.as_bytes()) {
            run.fail(&format!("codec:turn:{class}:{kind}:realm-or-nonce-not-the-challenged-one"), &case, &format!("realm {:?} nonce {:?}", m.get(ATTR_REALM).ok().map(|v| String::from_utf8_lossy(&v).to_string()), m.get(ATTR_NONCE).ok().map(|v| String::from_utf8_lossy(&v).to_string()))); }
        if m.get(ATTR_USERNAME).ok().as_deref() != Some(cr.user.as_bytes()) { run.fail(&format!("codec:turn:{class}:{kind}:username"), &case, ""); }
    }
    run.count(&format!("turn_builders_{class}"));
}

fn allocate_dialogue(run: &mut Run, rng: &mut Rng, env: &Env) {
    let cr = Creds::make(rng);
    let relayed = gen_addr(rng);
    let lifetime = *rng.pick(&[0u32, 1, 300, 600, 3600, u32::MAX]);
    let code = *rng.pick(&[401u16, 401, 438]);
    // every other dialogue starts with a forged success response (foreign transaction id, bogus relayed address)
    let forged_first = rng.chance(1, 2);
    let bogus: SocketAddr = "192.0.2.66:6666".parse().unwrap();
    let client = env.client.clone();
    let (user, pass) = (cr.user.clone(), cr.pass.clone());
    let server = &env.server;
    let client_addr = env.client_addr;
    let (res, reqs) = env.rt.block_on(async {
        let srv = async {
            let mut reqs: Vec<Vec<u8>> = vec![];
            let mut buf = vec![0u8; 4096];
            if forged_first {
                if let Ok(Ok((n, _))) = tokio::time::timeout(Duration::from_secs(2), server.recv_from(&mut buf)).await {
                    let mut tx: [u8; 12] = buf[8..20].try_into().unwrap(); tx[0] ^= 0x80; let _ = n;
                    let forged = server_reply(tx, METHOD_ALLOCATE, CLASS_SUCCESS_RESPONSE, &[(ATTR_LIFETIME, 600u32.to_be_bytes().to_vec())], Some(bogus), None);
                    let _ = server.send_to(&forged, client_addr).await;
                }
            }
            for step in 0..2 {
                let Ok(Ok((n, _))) = tokio::time::timeout(Duration::from_millis(700), server.recv_from(&mut buf)).await else { break };
                let req = buf[..n].to_vec();
                let tx: [u8; 12] = req[8..20].try_into().unwrap();
                let reply = if step == 0 {
                    server_reply(tx, METHOD_ALLOCATE, CLASS_ERROR_RESPONSE, &[(ATTR_ERROR_CODE, vec![0, 0, (code / 100) as u8, (code % 100) as u8, b'x']),
                        (ATTR_REALM, cr.realm.as_bytes().to_vec()), (ATTR_NONCE, cr.nonce.as_bytes().to_vec())], None, None)
                } else {
                    server_reply(tx, METHOD_ALLOCATE, CLASS_SUCCESS_RESPONSE, &[(ATTR_LIFETIME, lifetime.to_be_bytes().to_vec())], Some(relayed), Some(cr.key()))
                };
                reqs.push(req);
                let _ = server.send_to(&reply, client_addr).await;
            }
            reqs
        };
        tokio::join!(client.verif_allocate(&user, &pass), srv)
    });
    if forged_first { if let Ok((addr, _)) = &res { if *addr == bogus {
        run.fail("codec:turn:allocate:response-with-foreign-transaction-id-honoured", "allocate-dialogue forged-first", &addr.to_string()); return; } } }
    if reqs.len() != 2 { run.count("allocate_dialogue_incomplete"); return; }
    let tx0: [u8; 12] = reqs[0][8..20].try_into().unwrap();
    let tx1: [u8; 12] = reqs[1][8..20].try_into().unwrap();
    let c0 = case_req(run, "alloc", &tx0, None, None, 0, &[], &reqs[0]);
    oracle_request(run, &c0, "allocate-unauthenticated", &reqs[0], &tx0, METHOD_ALLOCATE, CLASS_REQUEST, None, None,
        &[(ATTR_REQUESTED_TRANSPORT, vec![17, 0, 0, 0]), (ATTR_LIFETIME, 600u32.to_be_bytes().to_vec())]);
    let c1 = case_req(run, "alloc", &tx1, Some(&cr), None, 0, &[], &reqs[1]);
    oracle_request(run, &c1, "allocate", &reqs[1], &tx1, METHOD_ALLOCATE, CLASS_REQUEST, Some(&cr), None,
        &[(ATTR_REQUESTED_TRANSPORT, vec![17, 0, 0, 0]), (ATTR_LIFETIME, 600u32.to_be_bytes().to_vec())]);
    match res {
        Ok((addr, _)) if forged_first && addr == bogus => run.fail("codec:turn:allocate:response-with-foreign-transaction-id-honoured", &c1, &addr.to_string()),
        Ok((addr, lt)) => {
            if addr != relayed { run.fail(&format!("codec:turn:allocate:xor-relayed:{}", if relayed.is_ipv4() { "v4" } else { "v6" }), &c1, &format!("{addr} vs {relayed}")); }
            let want = if lifetime > 0 { lifetime } else { 600 };
            if lt != want { run.fail("codec:turn:allocate:lifetime", &c1, &format!("{lt} vs {want}")); }
            if env.client.verif_auth_key() != Some(cr.key()) { run.fail("codec:turn:allocate:stored-key", &c1, ""); }
            run.count("allocate_dialogue_ok");
            // requests built from the state the REAL allocate() left (not from the hook `verif_set_auth`): as it is, after a
            // stale-nonce challenge in the same realm, and after a challenge with a new realm
            let mut cur = cr.clone();
            for step in ["as-left-by-allocate", "after-challenge-same-realm", "after-challenge-new-realm"] {
                if step != "as-left-by-allocate" {
                    let n = rng.range(0, 30) as usize;
                    cur.nonce = format!("n-{}", utf8_of_len(rng, n));
                    if step == "after-challenge-new-realm" { cur.realm = format!("other-{}", cur.realm); }
                    env.rt.block_on(env.client.verif_update_nonce(&cur.realm, &cur.nonce));
                }
                builders_after(run, rng, env, &cur, &format!("after-real-allocate:{step}"));
            }
        }
        Err(e) if e.to_string().contains("elapsed") || e.to_string().contains("timed out") => run.count("allocate_dialogue_timeout_under_load"),
        Err(e) => run.fail("codec:turn:allocate:dialogue-failed", &c1, &e.to_string()),
    }
}

fn rx_cases(run: &mut Run, rng: &mut Rng, env: &Env, thorough: bool) {
    let (transport, _runner) = IceTransport::new(rustrtc::RtcConfiguration::default());
    let cap = Arc::new(Capture(Mutex::new(vec![])));
    env.rt.block_on(transport.set_data_receiver(cap.clone()));
    let relayed: SocketAddr = "198.51.100.4:49152".parse().unwrap();
    // bound channels
    let bound: Vec<(u16, SocketAddr)> = vec![(0x4000, "203.0.113.7:5000".parse().unwrap()), (0x4001, SocketAddr::new(IpAddr::V6(Ipv6Addr::LOCALHOST), 6000)),
        (0x7fff, SocketAddr::new(IpAddr::V4(Ipv4Addr::new(10, 0, 0, 9)), 7000))];
    for (ch, p) in &bound { env.rt.block_on(env.client.verif_add_channel(*p, *ch)); }
    let table = bound.iter().map(|(ch, p)| format!("{ch}={}", addr_text(p))).collect::<Vec<_>>().join(" ");
    let payload = |rng: &mut Rng| -> Vec<u8> {
        let n = *rng.pick(&[0usize, 1, 2, 3, 4, 12, 100, 1000]);
        let mut d = rng.bytes(n);
        if !d.is_empty() && d[0] < 2 { d[0] = *rng.pick(&[2u8, 20, 63, 64, 128, 191, 255]); }
        d
    };
    let n = if thorough { 40_000 } else { 4_000 };
    for _ in 0..n {
        let data = payload(rng);
        let pkt: Vec<u8> = match rng.below(10) {
            0 | 1 | 2 => { // ChannelData, bound / unbound / out-of-range channel, right / short / long length field
                let ch = if rng.chance(2, 3) { rng.pick(&bound).0 } else { *rng.pick(&[0x3fffu16, 0x4002, 0x5000, 0x7ffe, 0x8000, 0xffff]) };
                let len = match rng.below(5) { 0 => data.len().wrapping_sub(1) as u16, 1 => data.len() as u16 + 1, 2 => data.len() as u16 / 2, _ => data.len() as u16 };
                let mut p = ch.to_be_bytes().to_vec(); p.extend_from_slice(&len.to_be_bytes()); p.extend_from_slice(&data);
                if rng.chance(1, 5) { let pad = (4 - p.len() % 4) % 4; p.extend(std::iter::repeat_n(0u8, pad)); }
                p }
            3 | 4 | 5 => { // Data indication from the reference encoder
                let peer = gen_addr(rng);
                let mut attrs: Vec<super::msg::A> = vec![];
                if rng.chance(9, 10) { attrs.push(super::msg::A::Xp(peer)); }
                if rng.chance(9, 10) { attrs.push(super::msg::A::Da(data.clone())); }
                if rng.chance(1, 2) { attrs.reverse(); }
                if rng.chance(1, 4) { attrs.push(super::msg::A::Sw("turn".into())); }
                super::msg::Spec { cls: 1, method: 6, tx: super::msg::rng_tx(rng), attrs, key: None, fp: rng.chance(1, 2) }.encode_reference() }
            6 => { // other STUN traffic without side effects: success/error responses with unknown transaction ids
                let mut s = super::msg::gen_ref_spec(rng); s.cls = *rng.pick(&[2u8, 3]); if s.method == 6 { s.method = 0; }
                s.encode_reference() }
            7 => { let k = rng.below(4) as usize; rng.bytes(k) }
            _ => { let mut s = super::msg::gen_ref_spec(rng); s.cls = 1; s.method = 6; let mut b = s.encode_reference();
                   if rng.chance(1, 2) && !b.is_empty() { let i = rng.below(b.len() as u64) as usize; b[i] ^= 1 << rng.below(8); } b }
        };
        cap.0.lock().clear();
        let t = transport.clone(); let cl = env.client.clone(); let rt = &env.rt; let pk = pkt.clone();
        let r = crate::catch(std::panic::AssertUnwindSafe(move || rt.block_on(t.verif_handle_turn_packet(&pk, &cl, relayed))));
        let got = cap.0.lock().clone();
        let out = match (&r, got.as_slice()) {
            (Err(_), _) => "panic".to_string(),
            (Ok(()), []) => "none".to_string(),
            (Ok(()), [(d, a)]) => format!("fwd {} {}", addr_text(a), hex(d)),
            _ => "many".to_string(),
        };
        run.case("rxobs", &format!("{} {table}", hex(&pkt)), &out, out != "none");
        run.count(&format!("rxobs_{}", out.split(' ').next().unwrap()));
        if r.is_err() { run.count("note_c07_empty_payload_panics_handle_packet"); }
    }
    transport.stop();
}
