//! C16: what the ICE agent itself composes and computes — the order in which candidate pairs are checked
//! (`perform_connectivity_checks_async`: pair formation, stable sort by pair priority, optional
//! prefer-srflx re-sort) and the STUN connectivity-check / nomination messages it sends — driven through
//! the real code (hook `verif_run_connectivity_checks`, recorded pair list) and compared with
//! `RtcModel.IcePairs`; messages are checked by the webrtc-rs `stun` crate.
use crate::{Rng, Run, hex};
use rustrtc::transports::ice::{IceCandidate, IceCandidateType, IceParameters, IceRole, IceSocketWrapper, IceTransport, IceTransportState, TcpType};
use rustrtc::verif_hooks::ice::{candidate as chook, pairs};
use std::net::{IpAddr, Ipv4Addr, Ipv6Addr, SocketAddr};
use std::sync::Arc;
use std::time::Duration;

const REMOTE_UFRAG: &str = "peerufrag01";
const REMOTE_PWD: &str = "peer-password-0123456789ab";

fn mk_transport(prefer_srflx: bool, role: IceRole) -> IceTransport {
    let mut cfg = rustrtc::RtcConfiguration::default();
    cfg.stun_timeout = Duration::from_millis(25);
    cfg.nomination_timeout = Duration::from_millis(60);
    cfg.prefer_srflx_over_natted_host = prefer_srflx;
    let (t, _runner) = IceTransport::new(cfg);
    t.set_role(role);
    t.set_remote_parameters(IceParameters::new(REMOTE_UFRAG, REMOTE_PWD));
    t.verif_set_state(IceTransportState::Checking);
    t
}

/// (A) check order on synthetic candidate sets (no sockets: every check fails at once, only the order matters)
fn order_cases(run: &mut Run, rng: &mut Rng, rt: &tokio::runtime::Runtime, thorough: bool) {
    let ips: [IpAddr; 8] = [IpAddr::V4(Ipv4Addr::new(10, 0, 0, 5)), IpAddr::V4(Ipv4Addr::new(192, 168, 1, 7)), IpAddr::V4(Ipv4Addr::new(203, 0, 113, 9)),
        IpAddr::V4(Ipv4Addr::new(127, 0, 0, 1)), IpAddr::V4(Ipv4Addr::new(198, 51, 100, 3)), IpAddr::V6(Ipv6Addr::new(0xfd00, 0, 0, 0, 0, 0, 0, 1)),
        IpAddr::V6(Ipv6Addr::new(0x2001, 0xdb8, 0, 0, 0, 0, 0, 2)), IpAddr::V6(Ipv6Addr::LOCALHOST)];
    let n = if thorough { 6000 } else { 500 };
    for i in 0..n {
        let role = if rng.chance(1, 2) { IceRole::Controlling } else { IceRole::Controlled };
        let prefer = rng.chance(1, 3);
        let t = mk_transport(prefer, role);
        let mut port = 40000u16;
        let mut mkc = |rng: &mut Rng, remote: bool| -> IceCandidate {
            port += 1;
            let ip = *rng.pick(&ips);
            let addr = SocketAddr::new(ip, port);
            let comp = *rng.pick(&[1u16, 1, 1, 2]);
            let mut c = match rng.below(8) {
                0..=3 => IceCandidate::host(addr, comp),
                4 => chook::server_reflexive(SocketAddr::new(ips[0], port), addr, comp),
                5 => chook::relay(addr, comp, "udp"),
                6 => IceCandidate::host_tcp(addr, comp, if remote { TcpType::Active } else { TcpType::Passive }),
                _ => { let mut c = IceCandidate::host(addr, comp); c.typ = IceCandidateType::PeerReflexive; c.priority = chook::priority_for(IceCandidateType::PeerReflexive, comp); c }
            };
            if rng.chance(1, 4) { c.priority = *rng.pick(&[1u32, 100, 2130706431, 1694498815, 16777215, 0x7fff_ffff]); }
            c
        };
        let nl = rng.range(1, if i % 5 == 0 { 5 } else { 3 }) as usize;
        let nr = rng.range(1, 4) as usize;
        let locals: Vec<IceCandidate> = (0..nl).map(|_| mkc(rng, false)).collect();
        let remotes: Vec<IceCandidate> = (0..nr).map(|_| mkc(rng, true)).collect();
        for l in &locals { t.verif_add_local_candidate(l.clone()); }
        for r in &remotes { t.verif_add_remote_candidate_quiet(r.clone()); }
        pairs::take();
        rt.block_on(t.verif_run_connectivity_checks());
        let rec = pairs::take();
        let id = |a: SocketAddr| a.port() as u32 - 40000;
        let out = match rec.last() { Some(l) if !l.is_empty() => l.iter().map(|(a, b, _)| format!("{}>{}", id(*a), id(*b))).collect::<Vec<_>>().join(";"), _ => "-".to_string() };
        let ctext = |side: &str, c: &IceCandidate| {
            let private = match c.address.ip() { IpAddr::V4(v) => v.is_private(), IpAddr::V6(v) => v.is_unique_local() };
            format!("{side},{},{},{},{},{},{},{},{},{}", id(c.address), c.priority, (c.transport == "tcp") as u8, c.component, c.address.ip().is_loopback() as u8,
                c.address.is_ipv4() as u8, (c.tcp_type == Some(TcpType::Passive)) as u8, (c.typ == IceCandidateType::Host) as u8, private as u8) };
        let input = format!("{} {} {}", if role == IceRole::Controlling { "controlling" } else { "controlled" }, prefer as u8,
            locals.iter().map(|c| ctext("L", c)).chain(remotes.iter().map(|c| ctext("R", c))).collect::<Vec<_>>().join(" "));
        run.case("pairorder", &input, &out, out != "-");
        // oracle (RFC 8445 §6.1.2.3): without the re-sort the list is in non-increasing pair-priority order
        if let Some(l) = rec.last() { if !prefer && l.windows(2).any(|w| w[0].2 < w[1].2) { run.fail("codec:pair-order:not-descending-by-pair-priority", &format!("pairorder {input}"), &out); } }
        t.stop();
    }
}

struct Seen { from: SocketAddr, to: usize, bytes: Vec<u8> }

/// check one composed connectivity-check / nomination request with the reference crate
fn check_request(run: &mut Run, case: &str, t: &IceTransport, role: IceRole, local_prio: u32, s: &Seen, expect_nominated: Option<bool>) -> bool {
    use stun::attributes::*;
    use stun::message::*;
    let lp = t.local_parameters();
    let mut m = Message::new(); m.raw = s.bytes.clone();
    if m.decode().is_err() { run.fail("agent-message:check:undecodable", case, &hex(&s.bytes)); return false; }
    if m.typ != BINDING_REQUEST { run.fail("agent-message:check:not-binding-request", case, &format!("{}", m.typ)); }
    let want_user = format!("{REMOTE_UFRAG}:{}", lp.username_fragment);
    if m.get(ATTR_USERNAME).ok().as_deref() != Some(want_user.as_bytes()) { run.fail("agent-message:check:username-is-not-remote-colon-local", case, &format!("{:?}", m.get(ATTR_USERNAME).ok().map(|b| String::from_utf8_lossy(&b).to_string()))); }
    if stun::integrity::MessageIntegrity(REMOTE_PWD.as_bytes().to_vec()).check(&mut m).is_err() { run.fail("agent-message:check:message-integrity-not-under-remote-password", case, ""); }
    if stun::fingerprint::FINGERPRINT.check(&m).is_err() { run.fail("agent-message:check:fingerprint", case, ""); }
    if m.get(ATTR_PRIORITY).ok() != Some(local_prio.to_be_bytes().to_vec()) { run.fail("agent-message:check:priority-is-not-local-candidate-priority", case, ""); }
    let (mine, other) = if role == IceRole::Controlling { (ATTR_ICE_CONTROLLING, ATTR_ICE_CONTROLLED) } else { (ATTR_ICE_CONTROLLED, ATTR_ICE_CONTROLLING) };
    if m.get(mine).ok() != Some(lp.tie_breaker.to_be_bytes().to_vec()) || m.contains(other) { run.fail("agent-message:check:role-attribute", case, ""); }
    let uc = m.contains(ATTR_USE_CANDIDATE);
    if uc && role == IceRole::Controlled { run.fail("agent-message:check:use-candidate-from-controlled-agent", case, ""); }
    if let Some(n) = expect_nominated { if uc != n { run.fail("agent-message:check:use-candidate-flag", case, &format!("{uc} vs {n}")); } }
    // model: byte-exact composition
    let tx = &s.bytes[8..20];
    run.case("agentmsg", &format!("check {} {} {} {} {} {} {} {}", hex(tx), hex(lp.username_fragment.as_bytes()), hex(REMOTE_UFRAG.as_bytes()), hex(REMOTE_PWD.as_bytes()),
        if role == IceRole::Controlling { "controlling" } else { "controlled" }, local_prio, lp.tie_breaker, uc as u8), &hex(&s.bytes), true);
    uc
}

/// (B) the real messages: UDP host candidates on loopback sockets, remote candidates = harness sockets;
/// without answers (plain checks) and with a responder (controlling agent goes on to nominate).
fn message_cases(run: &mut Run, rng: &mut Rng, rt: &tokio::runtime::Runtime, thorough: bool) {
    let n = if thorough { 60 } else { 10 };
    for i in 0..n {
        let role = if i % 2 == 0 { IceRole::Controlling } else { IceRole::Controlled };
        let respond = i % 4 < 2;
        let t = mk_transport(false, role);
        let nl = 1 + (i % 2);
        let locals: Vec<Arc<tokio::net::UdpSocket>> = (0..nl).map(|_| Arc::new(rt.block_on(tokio::net::UdpSocket::bind("127.0.0.1:0")).unwrap())).collect();
        let peers: Vec<std::net::UdpSocket> = (0..2).map(|_| { let s = std::net::UdpSocket::bind("127.0.0.1:0").unwrap(); s.set_nonblocking(true).unwrap(); s }).collect();
        let mut lcands = vec![];
        for (k, l) in locals.iter().enumerate() { let mut c = IceCandidate::host(l.local_addr().unwrap(), 1); if k == 1 { c.priority -= 256 * (1 + rng.below(100) as u32); } t.verif_add_local_udp(c.clone(), l.clone()); lcands.push(c); }
        for p in &peers { t.verif_add_remote_candidate_quiet(IceCandidate::host(p.local_addr().unwrap(), 1)); }
        let case = format!("agent role={role:?} locals={nl} respond={respond}");
        let t2 = t.clone();
        let (_, seen) = rt.block_on(async {
            let responder = async {
                let mut seen: Vec<Seen> = vec![];
                let mut buf = [0u8; 2048];
                let deadline = tokio::time::Instant::now() + Duration::from_millis(if respond { 700 } else { 120 });
                while tokio::time::Instant::now() < deadline {
                    for (pi, p) in peers.iter().enumerate() {
                        while let Ok((n, from)) = p.recv_from(&mut buf) {
                            let bytes = buf[..n].to_vec();
                            if respond && n >= 20 {
                                let tx: [u8; 12] = bytes[8..20].try_into().unwrap();
                                let resp = rustrtc::transports::ice::stun::StunMessage::binding_success_response(tx, from).encode(None, true).unwrap();
                                if let Some(l) = locals.iter().find(|l| l.local_addr().unwrap() == from) {
                                    t2.verif_handle_packet(&resp, p.local_addr().unwrap(), IceSocketWrapper::Udp(l.clone())).await;
                                }
                            }
                            seen.push(Seen { from, to: pi, bytes });
                        }
                    }
                    tokio::time::sleep(Duration::from_millis(2)).await;
                }
                seen
            };
            tokio::join!(t.verif_run_connectivity_checks(), responder)
        });
        pairs::take();
        if seen.is_empty() { run.fail("agent-message:check:none-sent", &case, ""); }
        let mut nominations = 0;
        for s in &seen {
            let Some(lc) = lcands.iter().find(|c| c.address == s.from) else { run.fail("agent-message:check:unknown-source-socket", &case, &s.from.to_string()); continue };
            if check_request(run, &case, &t, role, lc.priority, s, if respond { None } else { Some(false) }) { nominations += 1; }
            let _ = s.to;
        }
        run.count(&format!("agent_checks_seen_{}", seen.len().min(9)));
        if respond && role == IceRole::Controlling {
            if nominations == 0 { run.fail("agent-message:nomination:no-use-candidate-request-sent", &case, ""); }
            // the nominated pair is the highest-priority one (local 0 has the highest priority; equal remotes)
            match t.get_selected_pair() { Some(p) if p.local.address == lcands[0].address => {}, other => run.fail("agent-message:nomination:selected-pair-is-not-highest-priority", &case, &format!("{:?}", other.map(|p| (p.local.address, p.remote.address)))) }
            if t.verif_nomination_complete() != Some(true) || t.state() != IceTransportState::Connected { run.fail("agent-message:nomination:not-completed", &case, &format!("{:?} {:?}", t.verif_nomination_complete(), t.state())); }
            run.count("agent_nominations_completed");
        }
        if respond && role == IceRole::Controlled && nominations > 0 { run.fail("agent-message:check:use-candidate-from-controlled-agent", &case, ""); }
        t.stop();
    }
}

pub fn run_all(run: &mut Run, rng: &mut Rng, thorough: bool) {
    let rt = tokio::runtime::Builder::new_current_thread().enable_all().build().unwrap();
    order_cases(run, rng, &rt, thorough);
    message_cases(run, rng, &rt, thorough);
}
