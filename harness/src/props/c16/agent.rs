//! C16: what the ICE agent itself composes and computes — the order in which candidate pairs are checked
//! (`perform_connectivity_checks_async`: pair formation, stable sort by pair priority, optional
//! prefer-srflx re-sort) and the STUN connectivity-check / nomination messages it sends — driven through
//! the real code (hook `verif_run_connectivity_checks`, recorded pair list) and compared with
//! `RtcModel.IcePairs`; messages are checked by the webrtc-rs `stun` crate.
use crate::{Rng, Run, hex};
use rustrtc::transports::ice::{IceCandidate, IceCandidateType, IceParameters, IceRole, IceSocketWrapper, IceTransport, IceTransportState, TcpType};
use rustrtc::verif_hooks::ice::{candidate as chook, pairs};
use std::net::{IpAddr, Ipv4Addr, Ipv6Addr, SocketAddr};
use std::sync::Arc;
use std::time::Duration;

pub(super) const REMOTE_UFRAG: &str = "peerufrag01";
pub(super) const REMOTE_PWD: &str = "peer-password-0123456789ab";

fn mk_transport(prefer_srflx: bool, role: IceRole) -> IceTransport {
    let mut cfg = rustrtc::RtcConfiguration::default();
    cfg.stun_timeout = Duration::from_millis(25);
    cfg.nomination_timeout = Duration::from_millis(60);
    cfg.prefer_srflx_over_natted_host = prefer_srflx;
    let (t, _runner) = IceTransport::new(cfg);
    t.set_role(role);
    t.set_remote_parameters(IceParameters::new(REMOTE_UFRAG, REMOTE_PWD));
    t.verif_set_state(IceTransportState::Checking);
    t
}

/// (A) check order on synthetic candidate sets (no sockets: every check fails at once, only the order matters)
fn order_cases(run: &mut Run, rng: &mut Rng, rt: &tokio::runtime::Runtime, thorough: bool) {
    // address classes std distinguishes (a filter or re-sort keyed on any of them shows as a model disagreement): private,
    // global, loopback, unique-local, link-local (v4 and v6), CGNAT shared space
    let ips: [IpAddr; 11] = [IpAddr::V6(Ipv6Addr::new(0xfe80, 0, 0, 0, 0, 0, 0, 1)), IpAddr::V4(Ipv4Addr::new(169, 254, 7, 7)), IpAddr::V4(Ipv4Addr::new(100, 64, 0, 9)), IpAddr::V4(Ipv4Addr::new(10, 0, 0, 5)), IpAddr::V4(Ipv4Addr::new(192, 168, 1, 7)), IpAddr::V4(Ipv4Addr::new(203, 0, 113, 9)),
        IpAddr::V4(Ipv4Addr::new(127, 0, 0, 1)), IpAddr::V4(Ipv4Addr::new(198, 51, 100, 3)), IpAddr::V6(Ipv6Addr::new(0xfd00, 0, 0, 0, 0, 0, 0, 1)),
        IpAddr::V6(Ipv6Addr::new(0x2001, 0xdb8, 0, 0, 0, 0, 0, 2)), IpAddr::V6(Ipv6Addr::LOCALHOST)];
    let n = if thorough { 6000 } else { 500 };
    for i in 0..n {
        let role = if rng.chance(1, 2) { IceRole::Controlling } else { IceRole::Controlled };
        let prefer = rng.chance(1, 3);
        let t = mk_transport(prefer, role);
        let mut port = 40000u16;
        let mut mkc = |rng: &mut Rng, remote: bool| -> IceCandidate {
            port += 1;
            let ip = *rng.pick(&ips);
            let addr = SocketAddr::new(ip, port);
            let comp = *rng.pick(&[1u16, 1, 1, 2]);
            let mut c = match rng.below(8) {
                0..=3 => IceCandidate::host(addr, comp),
                4 => chook::server_reflexive(SocketAddr::new(ips[3], port), addr, comp),
                5 => chook::relay(addr, comp, "udp"),
                6 => IceCandidate::host_tcp(addr, comp, if remote { TcpType::Active } else { TcpType::Passive }),
                _ => { let mut c = IceCandidate::host(addr, comp); c.typ = IceCandidateType::PeerReflexive; c.priority = chook::priority_for(IceCandidateType::PeerReflexive, comp); c }
            };
            if rng.chance(1, 4) { c.priority = *rng.pick(&[1u32, 100, 2130706431, 1694498815, 16777215, 0x7fff_ffff]); }
            c
        };
        // preamble variants: state other than Checking / a pair already selected (nothing happens), no local candidate at
        // all (a controlling agent synthesizes active-TCP locals for remote passive-TCP candidates)
        let variant = if i % 9 == 4 { 1 } else if i % 9 == 5 { 2 } else if i % 9 == 6 { 3 } else { 0 };
        let nl = if variant == 3 { 0 } else { rng.range(1, if i % 5 == 0 { 5 } else { 3 }) as usize };
        let nr = rng.range(1, 4) as usize;
        let locals: Vec<IceCandidate> = (0..nl).map(|_| mkc(rng, false)).collect();
        let remotes: Vec<IceCandidate> = (0..nr).map(|_| mkc(rng, true)).collect();
        let remotes: Vec<IceCandidate> = if variant == 3 { remotes.into_iter().map(|mut r| { if rng.chance(1, 2) { r = IceCandidate::host_tcp(SocketAddr::new(ips[5], r.address.port()), r.component, TcpType::Passive); } r }).collect() } else { remotes };
        for l in &locals { t.verif_add_local_candidate(l.clone()); }
        for r in &remotes { t.verif_add_remote_candidate_quiet(r.clone()); }
        if variant == 1 { t.verif_set_state(*rng.pick(&[IceTransportState::New, IceTransportState::Connected, IceTransportState::Completed, IceTransportState::Failed, IceTransportState::Disconnected])); }
        if variant == 2 { t.verif_set_selected_pair(Some(rustrtc::transports::ice::IceCandidatePair::new(locals[0].clone(), remotes[0].clone()))); }
        pairs::take();
        rt.block_on(t.verif_run_connectivity_checks());
        let rec = pairs::take();
        let id = |a: SocketAddr| if a.port() == 0 { 99999 } else { a.port() as u32 - 40000 };
        let out = match rec.last() { Some(l) if !l.is_empty() => l.iter().map(|(a, b, _)| format!("{}>{}", id(*a), id(*b))).collect::<Vec<_>>().join(";"), _ => "-".to_string() };
        let ctext = |side: &str, c: &IceCandidate| {
            let private = match c.address.ip() { IpAddr::V4(v) => v.is_private(), IpAddr::V6(v) => v.is_unique_local() };
            format!("{side},{},{},{},{},{},{},{},{},{}", id(c.address), c.priority, (c.transport == "tcp") as u8, c.component, c.address.ip().is_loopback() as u8,
                c.address.is_ipv4() as u8, (c.tcp_type == Some(TcpType::Passive)) as u8, (c.typ == IceCandidateType::Host) as u8, private as u8) };
        let input = format!("{} {},{},{} {}", if role == IceRole::Controlling { "controlling" } else { "controlled" }, prefer as u8, (variant != 1) as u8, (variant == 2) as u8,
            locals.iter().map(|c| ctext("L", c)).chain(remotes.iter().map(|c| ctext("R", c))).collect::<Vec<_>>().join(" "));
        run.case("pairorder", &input, &out, out != "-");
        run.count(&format!("pairorder_preamble_variant_{variant}_{}", if out == "-" { "nothing" } else { "list" }));
        // oracle (RFC 8445 §6.1.2.3): without the re-sort the list is in non-increasing pair-priority order
        if let Some(l) = rec.last() { if !prefer && l.windows(2).any(|w| w[0].2 < w[1].2) { run.fail("codec:pair-order:not-descending-by-pair-priority", &format!("pairorder {input}"), &out); } }
        t.stop();
    }
}

pub(super) struct Seen { pub from: SocketAddr, pub to: usize, pub bytes: Vec<u8> }

/// check one composed connectivity-check / nomination request with the reference crate
pub(super) fn check_request(run: &mut Run, case: &str, t: &IceTransport, role: IceRole, local_prio: u32, s: &Seen, expect_nominated: Option<bool>) -> bool {
    use stun::attributes::*;
    use stun::message::*;
    let lp = t.local_parameters();
    let mut m = Message::new(); m.raw = s.bytes.clone();
    if m.decode().is_err() { run.fail("agent-message:check:undecodable", case, &hex(&s.bytes)); return false; }
    if m.typ != BINDING_REQUEST { run.fail("agent-message:check:not-binding-request", case, &format!("{}", m.typ)); }
    let want_user = format!("{REMOTE_UFRAG}:{}", lp.username_fragment);
    if m.get(ATTR_USERNAME).ok().as_deref() != Some(want_user.as_bytes()) { run.fail("agent-message:check:username-is-not-remote-colon-local", case, &format!("{:?}", m.get(ATTR_USERNAME).ok().map(|b| String::from_utf8_lossy(&b).to_string()))); }
    if stun::integrity::MessageIntegrity(REMOTE_PWD.as_bytes().to_vec()).check(&mut m).is_err() { run.fail("agent-message:check:message-integrity-not-under-remote-password", case, ""); }
    if stun::fingerprint::FINGERPRINT.check(&m).is_err() { run.fail("agent-message:check:fingerprint", case, ""); }
    if m.get(ATTR_PRIORITY).ok() != Some(local_prio.to_be_bytes().to_vec()) { run.fail("agent-message:check:priority-is-not-local-candidate-priority", case, ""); }
    let (mine, other) = if role == IceRole::Controlling { (ATTR_ICE_CONTROLLING, ATTR_ICE_CONTROLLED) } else { (ATTR_ICE_CONTROLLED, ATTR_ICE_CONTROLLING) };
    if m.get(mine).ok() != Some(lp.tie_breaker.to_be_bytes().to_vec()) || m.contains(other) { run.fail("agent-message:check:role-attribute", case, ""); }
    let uc = m.contains(ATTR_USE_CANDIDATE);
    if uc && role == IceRole::Controlled { run.fail("agent-message:check:use-candidate-from-controlled-agent", case, ""); }
    if let Some(n) = expect_nominated { if uc != n { run.fail("agent-message:check:use-candidate-flag", case, &format!("{uc} vs {n}")); } }
    // model: byte-exact composition
    let tx = &s.bytes[8..20];
    run.case("agentmsg", &format!("check {} {} {} {} {} {} {} {}", hex(tx), hex(lp.username_fragment.as_bytes()), hex(REMOTE_UFRAG.as_bytes()), hex(REMOTE_PWD.as_bytes()),
        if role == IceRole::Controlling { "controlling" } else { "controlled" }, local_prio, lp.tie_breaker, uc as u8), &hex(&s.bytes), true);
    uc
}

/// (B) the real messages: UDP host candidates on loopback sockets, remote candidates = harness sockets;
/// without answers (plain checks) and with a responder (controlling agent goes on to nominate).
fn message_cases(run: &mut Run, rng: &mut Rng, rt: &tokio::runtime::Runtime, thorough: bool) {
    let n = if thorough { 60 } else { 10 };
    for i in 0..n {
        let role = if i % 2 == 0 { IceRole::Controlling } else { IceRole::Controlled };
        let respond = i % 4 < 2;
        let t = mk_transport(false, role);
        let nl = 1 + (i % 2);
        let locals: Vec<Arc<tokio::net::UdpSocket>> = (0..nl).map(|_| Arc::new(rt.block_on(tokio::net::UdpSocket::bind("127.0.0.1:0")).unwrap())).collect();
        let peers: Vec<std::net::UdpSocket> = (0..2).map(|_| { let s = std::net::UdpSocket::bind("127.0.0.1:0").unwrap(); s.set_nonblocking(true).unwrap(); s }).collect();
        let mut lcands = vec![];
        for (k, l) in locals.iter().enumerate() { let mut c = IceCandidate::host(l.local_addr().unwrap(), 1); if k == 1 { c.priority -= 256 * (1 + rng.below(100) as u32); } t.verif_add_local_udp(c.clone(), l.clone()); lcands.push(c); }
        for p in &peers { t.verif_add_remote_candidate_quiet(IceCandidate::host(p.local_addr().unwrap(), 1)); }
        let case = format!("agent role={role:?} locals={nl} respond={respond}");
        let t2 = t.clone();
        let (_, seen) = rt.block_on(async {
            let responder = async {
                let mut seen: Vec<Seen> = vec![];
                let mut buf = [0u8; 2048];
                let deadline = tokio::time::Instant::now() + Duration::from_millis(if respond { 700 } else { 120 });
                while tokio::time::Instant::now() < deadline {
                    for (pi, p) in peers.iter().enumerate() {
                        while let Ok((n, from)) = p.recv_from(&mut buf) {
                            let bytes = buf[..n].to_vec();
                            if respond && n >= 20 {
                                let tx: [u8; 12] = bytes[8..20].try_into().unwrap();
                                let resp = rustrtc::transports::ice::stun::StunMessage::binding_success_response(tx, from).encode(None, true).unwrap();
                                if let Some(l) = locals.iter().find(|l| l.local_addr().unwrap() == from) {
                                    t2.verif_handle_packet(&resp, p.local_addr().unwrap(), IceSocketWrapper::Udp(l.clone())).await;
                                }
                            }
                            seen.push(Seen { from, to: pi, bytes });
                        }
                    }
                    tokio::time::sleep(Duration::from_millis(2)).await;
                }
                seen
            };
            tokio::join!(t.verif_run_connectivity_checks(), responder)
        });
        pairs::take();
        if seen.is_empty() { run.fail("agent-message:check:none-sent", &case, ""); }
        let mut nominations = 0;
        for s in &seen {
            let Some(lc) = lcands.iter().find(|c| c.address == s.from) else { run.fail("agent-message:check:unknown-source-socket", &case, &s.from.to_string()); continue };
            if check_request(run, &case, &t, role, lc.priority, s, if respond { None } else { Some(false) }) { nominations += 1; }
            let _ = s.to;
        }
        run.count(&format!("agent_checks_seen_{}", seen.len().min(9)));
        if respond && role == IceRole::Controlling {
            if nominations == 0 { run.fail("agent-message:nomination:no-use-candidate-request-sent", &case, ""); }
            // the nominated pair is the highest-priority one (local 0 has the highest priority; equal remotes)
            match t.get_selected_pair() { Some(p) if p.local.address == lcands[0].address => {}, other => run.fail("agent-message:nomination:selected-pair-is-not-highest-priority", &case, &format!("{:?}", other.map(|p| (p.local.address, p.remote.address)))) }
            if t.verif_nomination_complete() != Some(true) || t.state() != IceTransportState::Connected { run.fail("agent-message:nomination:not-completed", &case, &format!("{:?} {:?}", t.verif_nomination_complete(), t.state())); }
            run.count("agent_nominations_completed");
        }
        if respond && role == IceRole::Controlled && nominations > 0 { run.fail("agent-message:check:use-candidate-from-controlled-agent", &case, ""); }
        t.stop();
    }
}

/// RFC 8445 §6.1.2.3 pair priority, written from the RFC text
fn rfc_pair_priority(controlling: bool, local: u32, remote: u32) -> u64 {
    let (g, d) = if controlling { (local as u64, remote as u64) } else { (remote as u64, local as u64) };
    (1u64 << 32) * g.min(d) + 2 * g.max(d) + if g > d { 1 } else { 0 }
}

fn mk_transport_t(role: IceRole, timeout_ms: u64) -> IceTransport {
    let mut cfg = rustrtc::RtcConfiguration::default();
    cfg.stun_timeout = Duration::from_millis(timeout_ms);
    cfg.nomination_timeout = Duration::from_millis(timeout_ms);
    let (t, _runner) = IceTransport::new(cfg);
    t.set_role(role);
    t.set_remote_parameters(IceParameters::new(REMOTE_UFRAG, REMOTE_PWD));
    t.verif_set_state(IceTransportState::Checking);
    t
}

/// (C) which pair the agent ends up USING: `nl` x `nr` UDP pairs with pairwise distinct pair priorities, a
/// responder that answers the plain checks of the pairs in `check_mask` and the nominations (USE-CANDIDATE) of
/// the pairs in `nom_mask` (bit `li * nr + ri`). Oracle (RFC 8445 §8.1.1 / §6.1.2.3, implementation only): the
/// selected pair is the highest-priority pair among the successful nominations (controlling; among the
/// successful checks if no nomination succeeded) resp. among the successful checks (controlled).
pub fn selection_case(run: &mut Run, rt: &tokio::runtime::Runtime, controlling: bool, nl: usize, nr: usize, check_mask: u32, nom_mask: u32, peer_nominated: bool) {
    let role = if controlling { IceRole::Controlling } else { IceRole::Controlled };
    let case = format!("select {} {nl} {nr} {check_mask} {nom_mask} {}", if controlling { "controlling" } else { "controlled" }, peer_nominated as u8);
    let t = mk_transport_t(role, 500);
    if peer_nominated { t.verif_set_nomination_complete(Some(true)); }
    let locals: Vec<Arc<tokio::net::UdpSocket>> = (0..nl).map(|_| Arc::new(rt.block_on(tokio::net::UdpSocket::bind("127.0.0.1:0")).unwrap())).collect();
    let peers: Vec<std::net::UdpSocket> = (0..nr).map(|_| { let s = std::net::UdpSocket::bind("127.0.0.1:0").unwrap(); s.set_nonblocking(true).unwrap(); s }).collect();
    // distinct priorities on both sides: the LAST local / remote is the best one (so that neither insertion
    // order nor "first to answer" coincides with the right choice)
    let mut lcands = vec![]; let mut rcands = vec![];
    for (k, l) in locals.iter().enumerate() { let mut c = IceCandidate::host(l.local_addr().unwrap(), 1); c.priority -= 256 * (3 * (nl - 1 - k) as u32 + 1); t.verif_add_local_udp(c.clone(), l.clone()); lcands.push(c); }
    for (k, p) in peers.iter().enumerate() { let mut c = IceCandidate::host(p.local_addr().unwrap(), 1); c.priority -= 256 * (7 * (nr - 1 - k) as u32 + 2); t.verif_add_remote_candidate_quiet(c.clone()); rcands.push(c); }
    let answered: std::cell::RefCell<Vec<(bool, usize, usize)>> = Default::default();
    let t2 = t.clone();
    rt.block_on(async {
        let responder = async {
            let mut buf = [0u8; 2048];
            loop {
                for (ri, p) in peers.iter().enumerate() {
                    while let Ok((n, from)) = p.recv_from(&mut buf) {
                        if n < 20 { continue; }
                        let bytes = buf[..n].to_vec();
                        let Some(li) = locals.iter().position(|l| l.local_addr().unwrap() == from) else { continue };
                        let mut m = stun::message::Message::new(); m.raw = bytes.clone();
                        if m.decode().is_err() { continue; }
                        let nomination = m.contains(stun::attributes::ATTR_USE_CANDIDATE);
                        let bit = 1u32 << (li * nr + ri);
                        if (if nomination { nom_mask } else { check_mask }) & bit == 0 { continue; }
                        let tx: [u8; 12] = bytes[8..20].try_into().unwrap();
                        let resp = rustrtc::transports::ice::stun::StunMessage::binding_success_response(tx, from).encode(None, true).unwrap();
                        answered.borrow_mut().push((nomination, li, ri));
                        t2.verif_handle_packet(&resp, p.local_addr().unwrap(), IceSocketWrapper::Udp(locals[li].clone())).await;
                    }
                }
                tokio::time::sleep(Duration::from_millis(1)).await;
            }
        };
        tokio::select! { biased; _ = t.verif_run_connectivity_checks() => {}, _ = responder => {} }
    });
    pairs::take();
    let answered = answered.into_inner();
    let id = |c: &IceCandidate, cs: &[IceCandidate]| cs.iter().position(|x| x.address == c.address).unwrap();
    let sel = t.get_selected_pair();
    let out = match &sel {
        None => "-".to_string(),
        Some(p) => format!("{}>{} nc={} state={}", id(&p.local, &lcands), 10 + id(&p.remote, &rcands),
            match t.verif_nomination_complete() { None => "-", Some(true) => "true", Some(false) => "false" },
            match t.state() { IceTransportState::Connected => "connected", IceTransportState::Failed => "failed", _ => "other" }),
    };
    // model line: the successful checks / nominations in the order the responder answered them
    let items: Vec<String> = answered.iter().filter(|(nom, _, _)| controlling || !*nom).map(|(nom, li, ri)| format!("{},{},{},0,{},{}", if *nom { "N" } else { "S" }, li, lcands[*li].priority, 10 + ri, rcands[*ri].priority)).collect();
    let out_cmp = if peer_nominated && !controlling && sel.is_none() { "-".to_string() } else { out.clone() };
    run.case("select", &format!("{} {} {}", if controlling { "controlling" } else { "controlled" }, peer_nominated as u8, items.join(" ")).trim_end().to_string(), &out_cmp, !items.is_empty());
    // oracle
    let best = |noms: bool| -> Option<(usize, usize)> { answered.iter().filter(|(n, _, _)| *n == noms).map(|(_, li, ri)| (*li, *ri))
        .max_by_key(|(li, ri)| rfc_pair_priority(controlling, lcands[*li].priority, rcands[*ri].priority)) };
    let got = sel.as_ref().map(|p| (id(&p.local, &lcands), id(&p.remote, &rcands)));
    let rname = if controlling { "controlling" } else { "controlled" };
    let succ_best = best(false);
    if controlling {
        match (succ_best, best(true)) {
            (None, _) => if got.is_some() { run.fail("agent-selection:controlling:pair-selected-without-successful-check", &case, &out); },
            (Some(_), Some(nb)) => {
                if got != Some(nb) { run.fail("agent-selection:controlling:selected-pair-is-not-the-highest-priority-nominated-pair", &case, &format!("{out} want {nb:?} answered {answered:?}")); }
                if t.verif_nomination_complete() != Some(true) || t.state() != IceTransportState::Connected { run.fail("agent-selection:controlling:nomination-not-completed", &case, &out); }
            }
            (Some(sb), None) => {
                if got != Some(sb) { run.fail("agent-selection:controlling:best-effort-pair-is-not-the-highest-priority-successful-pair", &case, &format!("{out} want {sb:?} answered {answered:?}")); }
                if t.verif_nomination_complete() != Some(false) || t.state() != IceTransportState::Failed { run.fail("agent-selection:controlling:failed-nomination-not-reported", &case, &out); }
            }
        }
    } else if peer_nominated {
        if got.is_some() { run.fail("agent-selection:controlled:peer-nominated-pair-overwritten", &case, &out); }
    } else {
        if got != succ_best { run.fail("agent-selection:controlled:selected-pair-is-not-the-highest-priority-successful-pair", &case, &format!("{out} want {succ_best:?} answered {answered:?}")); }
        if answered.iter().any(|(n, _, _)| *n) { run.fail("agent-message:check:use-candidate-from-controlled-agent", &case, ""); }
    }
    let _ = rname;
    run.count(&format!("agent_selection_{rname}_succ{}_nom{}", answered.iter().filter(|a| !a.0).count().min(9), answered.iter().filter(|a| a.0).count().min(9)));
    t.stop();
}

fn selection_cases(run: &mut Run, rng: &mut Rng, rt: &tokio::runtime::Runtime, thorough: bool) {
    // fixed corners: everything answered (2x2, 3x2), nominations only for the worst pair, no nomination answered,
    // only the two worst pairs reachable, controlled agent after the peer nominated
    let full4 = 0b1111u32; let full6 = 0b111111u32;
    for controlling in [true, false] {
        selection_case(run, rt, controlling, 2, 2, full4, full4, false);
        selection_case(run, rt, controlling, 3, 2, full6, full6, false);
        selection_case(run, rt, controlling, 2, 2, full4, 0b0011, false);
        selection_case(run, rt, controlling, 2, 2, 0b0110, 0b0110, false);
    }
    selection_case(run, rt, true, 2, 2, full4, 0, false);
    selection_case(run, rt, false, 2, 2, full4, 0, true);
    let n = if thorough { 60 } else { 6 };
    for _ in 0..n {
        let (nl, nr) = *rng.pick(&[(2usize, 2usize), (2, 3), (3, 2), (1, 3), (3, 1)]);
        let bits = (nl * nr) as u32;
        let mut cm = rng.next() as u32 & ((1 << bits) - 1);
        if cm == 0 { cm = 1 << rng.below(bits as u64); }
        let nm = if rng.chance(1, 5) { 0 } else { rng.next() as u32 & cm };
        selection_case(run, rt, rng.chance(1, 2), nl, nr, cm, nm, false);
    }
}

/// (D) ICE-TCP: the request `perform_tcp_binding_check` writes on a fresh TCP connection to a remote passive
/// candidate (a harness listener): RFC 4571 framing (2-byte length = message length) and the same
/// connectivity-check composition as over UDP. `synth`: the controlling agent has no local candidate at all and
/// synthesizes an active-TCP local (preamble of `perform_connectivity_checks_async`).
pub fn tcp_check_case(run: &mut Run, rt: &tokio::runtime::Runtime, controlling: bool, synth: bool, respond: bool) {
    let role = if controlling { IceRole::Controlling } else { IceRole::Controlled };
    let case = format!("tcpcheck {} {} {}", if controlling { "controlling" } else { "controlled" }, synth as u8, respond as u8);
    let t = mk_transport_t(role, 500);
    let local = IceCandidate::tcp(SocketAddr::new(IpAddr::V4(Ipv4Addr::UNSPECIFIED), 0), 1, "active");
    if !synth { t.verif_add_local_candidate(local.clone()); }
    let dummy = Arc::new(rt.block_on(tokio::net::UdpSocket::bind("127.0.0.1:0")).unwrap());
    let seen: std::cell::RefCell<Vec<(Vec<u8>, usize)>> = Default::default();
    let t2 = t.clone();
    rt.block_on(async {
        let listener = tokio::net::TcpListener::bind("127.0.0.1:0").await.unwrap();
        let laddr = listener.local_addr().unwrap();
        t.verif_add_remote_candidate_quiet(IceCandidate::host_tcp(laddr, 1, TcpType::Passive));
        let responder = async {
            use tokio::io::AsyncReadExt;
            let mut conns = vec![];
            loop {
                let (mut s, _) = listener.accept().await.unwrap();
                let mut hdr = [0u8; 2];
                if tokio::time::timeout(Duration::from_millis(400), s.read_exact(&mut hdr)).await.map(|r| r.is_ok()).unwrap_or(false) {
                    let n = u16::from_be_bytes(hdr) as usize;
                    let mut body = vec![0u8; n];
                    if tokio::time::timeout(Duration::from_millis(400), s.read_exact(&mut body)).await.map(|r| r.is_ok()).unwrap_or(false) {
                        // anything written behind the frame right away would be a framing error
                        let mut extra = [0u8; 64];
                        let trailing = match tokio::time::timeout(Duration::from_millis(5), s.read(&mut extra)).await { Ok(Ok(k)) => k, _ => 0 };
                        seen.borrow_mut().push((body.clone(), trailing));
                        if respond && n >= 20 {
                            let tx: [u8; 12] = body[8..20].try_into().unwrap();
                            let resp = rustrtc::transports::ice::stun::StunMessage::binding_success_response(tx, s.peer_addr().unwrap()).encode(None, true).unwrap();
                            t2.verif_handle_packet(&resp, laddr, IceSocketWrapper::Udp(dummy.clone())).await;
                        }
                    } else { seen.borrow_mut().push((hdr.to_vec(), usize::MAX)); }
                }
                conns.push(s);
            }
        };
        tokio::select! { biased; _ = t.verif_run_connectivity_checks() => {}, _ = responder => {} }
    });
    pairs::take();
    let seen = seen.into_inner();
    if seen.is_empty() { run.fail("agent-message:tcp-check:none-sent", &case, ""); }
    let mut nominations = 0;
    for (bytes, trailing) in &seen {
        if *trailing == usize::MAX { run.fail("agent-message:tcp-check:rfc4571-length-prefix-does-not-delimit-the-message", &case, &hex(bytes)); continue; }
        if *trailing != 0 { run.fail("agent-message:tcp-check:bytes-behind-the-frame", &case, &format!("{trailing}")); }
        if bytes.len() < 20 || 20 + u16::from_be_bytes([bytes[2], bytes[3]]) as usize != bytes.len() { run.fail("agent-message:tcp-check:rfc4571-length-prefix-does-not-delimit-the-message", &case, &hex(bytes)); continue; }
        let s = Seen { from: SocketAddr::new(IpAddr::V4(Ipv4Addr::UNSPECIFIED), 0), to: 0, bytes: bytes.clone() };
        if check_request(run, &case.replace("tcpcheck", "tcp-check"), &t, role, local.priority, &s, if respond { None } else { Some(false) }) { nominations += 1; }
    }
    if respond && controlling {
        if nominations == 0 { run.fail("agent-message:tcp-check:no-use-candidate-request-sent", &case, ""); }
        if t.verif_nomination_complete() != Some(true) || t.get_selected_pair().is_none() { run.fail("agent-message:tcp-check:nomination-not-completed", &case, &format!("{:?} {:?}", t.verif_nomination_complete(), t.state())); }
    }
    if !controlling && nominations > 0 { run.fail("agent-message:check:use-candidate-from-controlled-agent", &case, ""); }
    run.count(&format!("agent_tcp_checks_seen_{}", seen.len().min(9)));
    t.stop();
}

/// (E) the other requests the agent composes: the credentialed keepalive and the credential-less keepalive of
/// `run_keepalive_tick`, and the server-reflexive probe of `probe_stun`; checked by the reference crate and
/// compared byte for byte with `IcePairs.keepalive` / `bareBinding`.
pub fn keepalive_probe_case(run: &mut Run, rt: &tokio::runtime::Runtime, kind: &str, controlling: bool) {
    use stun::attributes::*;
    use stun::message::*;
    let case = format!("agentreq {kind} {}", if controlling { "controlling" } else { "controlled" });
    let webrtc = kind != "bare";
    let mut cfg = rustrtc::RtcConfigurationBuilder::new().transport_mode(if webrtc { rustrtc::TransportMode::WebRtc } else { rustrtc::TransportMode::Rtp }).build();
    cfg.stun_timeout = Duration::from_millis(40);
    let (t, _runner) = IceTransport::new(cfg);
    t.set_role(if controlling { IceRole::Controlling } else { IceRole::Controlled });
    if kind == "keepalive" { t.set_remote_parameters(IceParameters::new(REMOTE_UFRAG, REMOTE_PWD)); }
    let lp = t.local_parameters();
    let peer = std::net::UdpSocket::bind("127.0.0.1:0").unwrap();
    peer.set_read_timeout(Some(Duration::from_millis(300))).unwrap();
    let mut prio = 0u32;
    if kind == "probe" {
        let _ = rt.block_on(t.verif_probe_stun(peer.local_addr().unwrap()));
    } else {
        let l = Arc::new(rt.block_on(tokio::net::UdpSocket::bind("127.0.0.1:0")).unwrap());
        let mut lc = IceCandidate::host(l.local_addr().unwrap(), 1);
        lc.priority -= 256 * 5;
        prio = lc.priority;
        t.verif_add_local_udp(lc.clone(), l.clone());
        let rc = IceCandidate::host(peer.local_addr().unwrap(), 1);
        t.verif_add_remote_candidate_quiet(rc.clone());
        t.verif_set_selected_pair(Some(rustrtc::transports::ice::IceCandidatePair::new(lc, rc)));
        t.verif_set_state(IceTransportState::Connected);
        rt.block_on(t.verif_run_keepalive_tick());
    }
    let mut buf = [0u8; 2048];
    let Ok((n, _)) = peer.recv_from(&mut buf) else { run.fail(&format!("agent-message:{kind}:none-sent"), &case, ""); t.stop(); return; };
    let bytes = buf[..n].to_vec();
    let mut m = Message::new(); m.raw = bytes.clone();
    if m.decode().is_err() { run.fail(&format!("agent-message:{kind}:undecodable"), &case, &hex(&bytes)); t.stop(); return; }
    if m.typ != BINDING_REQUEST { run.fail(&format!("agent-message:{kind}:not-binding-request"), &case, &format!("{}", m.typ)); }
    if m.get(ATTR_SOFTWARE).ok().as_deref() != Some(b"rustrtc") { run.fail(&format!("agent-message:{kind}:software"), &case, ""); }
    match kind {
        "keepalive" => {
            let want = format!("{REMOTE_UFRAG}:{}", lp.username_fragment);
            if m.get(ATTR_USERNAME).ok().as_deref() != Some(want.as_bytes()) { run.fail("agent-message:keepalive:username-is-not-remote-colon-local", &case, &hex(&bytes)); }
            if stun::integrity::MessageIntegrity(REMOTE_PWD.as_bytes().to_vec()).check(&mut m).is_err() { run.fail("agent-message:keepalive:message-integrity-not-under-remote-password", &case, ""); }
            if stun::fingerprint::FINGERPRINT.check(&m).is_err() { run.fail("agent-message:keepalive:fingerprint", &case, ""); }
            if m.get(ATTR_PRIORITY).ok() != Some(prio.to_be_bytes().to_vec()) { run.fail("agent-message:keepalive:priority-is-not-local-candidate-priority", &case, ""); }
            if m.contains(ATTR_USE_CANDIDATE) { run.fail("agent-message:keepalive:use-candidate", &case, ""); }
        }
        "bare" => { if m.contains(ATTR_USERNAME) || m.contains(ATTR_MESSAGE_INTEGRITY) || m.contains(ATTR_FINGERPRINT) { run.fail("agent-message:bare:unexpected-attribute", &case, &hex(&bytes)); } }
        _ => {
            if stun::fingerprint::FINGERPRINT.check(&m).is_err() { run.fail("agent-message:probe:fingerprint", &case, ""); }
            if m.contains(ATTR_USERNAME) || m.contains(ATTR_MESSAGE_INTEGRITY) { run.fail("agent-message:probe:unexpected-attribute", &case, &hex(&bytes)); }
        }
    }
    let (lu, ru, rpw) = if kind == "keepalive" { (hex(lp.username_fragment.as_bytes()), hex(REMOTE_UFRAG.as_bytes()), hex(REMOTE_PWD.as_bytes())) } else { ("00".into(), "00".into(), "00".into()) };
    run.case("agentmsg", &format!("{kind} {} {lu} {ru} {rpw} {} {prio} 0 0", hex(&bytes[8..20]), if controlling { "controlling" } else { "controlled" }), &hex(&bytes), true);
    run.count(&format!("agent_{kind}_messages"));
    t.stop();
}

/// (F) the agreement clause on the IMPLEMENTATION: agent A (controlling, locals LA, remotes LB) and agent B
/// (controlled, locals LB, remotes LA) — two real transports, the same candidate objects, recorded check lists.
/// Where the formation filter is symmetric on this input, no pair is formed twice and all pair priorities are
/// distinct (the hypotheses of `pair_order_agree_stack`, decided here on the recorded lists) the two lists must
/// be each other's swap; with tied pair priorities they may differ (known finding, `pair_order_tie_witness`).
fn two_agent_cases(run: &mut Run, rng: &mut Rng, rt: &tokio::runtime::Runtime, thorough: bool) {
    let ips: [IpAddr; 9] = [IpAddr::V6(Ipv6Addr::new(0xfe80, 0, 0, 0, 0, 0, 0, 1)), IpAddr::V6(Ipv6Addr::new(0xfd00, 0, 0, 0, 0, 0, 0, 1)), IpAddr::V4(Ipv4Addr::new(169, 254, 7, 7)), IpAddr::V4(Ipv4Addr::new(127, 0, 0, 1)), IpAddr::V4(Ipv4Addr::new(10, 0, 0, 5)), IpAddr::V4(Ipv4Addr::new(192, 168, 1, 7)), IpAddr::V4(Ipv4Addr::new(203, 0, 113, 9)),
        IpAddr::V4(Ipv4Addr::new(198, 51, 100, 3)), IpAddr::V6(Ipv6Addr::new(0x2001, 0xdb8, 0, 0, 0, 0, 0, 2))];
    let n = if thorough { 3000 } else { 300 };
    for i in 0..n {
        let mut port = 41000u16;
        let multihomed = i % 3 == 0;          // same-type candidates with the stack's own (equal) priorities
        let mut mkc = |rng: &mut Rng| -> IceCandidate {
            port += 1;
            let addr = SocketAddr::new(*rng.pick(&ips), port);
            let mut c = match rng.below(if multihomed { 2 } else { 6 }) {
                0..=1 => IceCandidate::host(addr, 1),
                2 => chook::server_reflexive(SocketAddr::new(ips[4], port), addr, 1),
                3 => chook::relay(addr, 1, "udp"),
                _ => { let mut c = IceCandidate::host(addr, 1); c.typ = IceCandidateType::PeerReflexive; c.priority = chook::priority_for(IceCandidateType::PeerReflexive, 1); c }
            };
            if !multihomed { c.priority -= rng.below(200) as u32 * 256; }   // distinct local preferences, as RFC 8445 §5.1.2.1 asks for
            c
        };
        let la: Vec<IceCandidate> = (0..rng.range(1, 4)).map(|_| mkc(rng)).collect();
        let lb: Vec<IceCandidate> = (0..rng.range(1, 4)).map(|_| mkc(rng)).collect();
        let mut lists = vec![];
        let prefer = i % 4 == 1;               // the optional, non-default `prefer_srflx_over_natted_host` re-sort on both agents
        for (role, locals, remotes) in [(IceRole::Controlling, &la, &lb), (IceRole::Controlled, &lb, &la)] {
            let t = mk_transport(prefer, role);
            for l in locals { t.verif_add_local_candidate(l.clone()); }
            for r in remotes { t.verif_add_remote_candidate_quiet(r.clone()); }
            pairs::take();
            rt.block_on(t.verif_run_connectivity_checks());
            lists.push(pairs::take().last().cloned().unwrap_or_default());
            t.stop();
        }
        let a: Vec<(SocketAddr, SocketAddr, u64)> = lists[0].clone();
        let b_swapped: Vec<(SocketAddr, SocketAddr, u64)> = lists[1].iter().map(|(l, r, p)| (*r, *l, *p)).collect();
        let case = format!("twoagent A={} B={}", la.iter().map(|c| format!("{}/{}", c.address, c.priority)).collect::<Vec<_>>().join(","), lb.iter().map(|c| format!("{}/{}", c.address, c.priority)).collect::<Vec<_>>().join(","));
        let key = |v: &[(SocketAddr, SocketAddr, u64)]| { let mut k: Vec<(SocketAddr, SocketAddr)> = v.iter().map(|x| (x.0, x.1)).collect(); k.sort(); k };
        if key(&a) != key(&b_swapped) {
            // the ONE recorded one-sided rule that can apply here (UDP candidates only): a loopback local is not paired with
            // a non-loopback remote. Every other pair that one agent forms and the other does not is a violation.
            let (ka, kb) = (key(&a), key(&b_swapped));
            let explained = |l: &SocketAddr, r: &SocketAddr, dropped_by_a: bool| if dropped_by_a { l.ip().is_loopback() && !r.ip().is_loopback() } else { r.ip().is_loopback() && !l.ip().is_loopback() };
            let bad: Vec<_> = kb.iter().filter(|p| !ka.contains(p)).filter(|(l, r)| !explained(l, r, true)).chain(ka.iter().filter(|p| !kb.contains(p)).filter(|(l, r)| !explained(l, r, false))).collect();
            if !bad.is_empty() { run.fail("codec:pair-order:agents-form-different-pair-sets", &case, &format!("{bad:?}")); }
            run.count("twoagent_one_sided_loopback_rule_applies"); continue; }
        // the same pair must carry the same pair priority on both sides (RFC 8445 §6.1.2.3)
        for x in &a { if let Some(y) = b_swapped.iter().find(|y| (y.0, y.1) == (x.0, x.1)) { if x.2 != y.2 { run.fail("codec:pair-order:agents-compute-different-priority-for-the-same-pair", &case, &format!("{x:?} vs {y:?}")); } } }
        let mut prios: Vec<u64> = a.iter().map(|x| x.2).collect(); prios.sort(); let distinct = prios.windows(2).all(|w| w[0] != w[1]);
        let same = a.iter().map(|x| (x.0, x.1)).eq(b_swapped.iter().map(|x| (x.0, x.1)));
        if prefer {
            // the re-sort looks at each side's LOCAL candidate, so it is one-sided by construction (known finding)
            run.count("twoagent_prefer_srflx");
            if !same { run.fail("codec:pair-order:agents-disagree:prefer-srflx-over-natted-host-resort", &case, &format!("{a:?} vs {b_swapped:?}")); }
        } else if distinct {
            run.count("twoagent_distinct_priorities");
            if !same { run.fail("codec:pair-order:agents-disagree:distinct-pair-priorities", &case, &format!("{a:?} vs {b_swapped:?}")); }
        } else {
            run.count("twoagent_tied_priorities");
            // only the order INSIDE a run of equal pair priorities may differ (known finding); the sequence of priorities, and
            // the set of pairs at each priority, must be the same on both sides
            let groups = |v: &[(SocketAddr, SocketAddr, u64)]| { let mut g: Vec<(u64, Vec<(SocketAddr, SocketAddr)>)> = vec![]; for x in v { match g.last_mut() { Some(l) if l.0 == x.2 => l.1.push((x.0, x.1)), _ => g.push((x.2, vec![(x.0, x.1)])) } } for l in g.iter_mut() { l.1.sort(); } g };
            if groups(&a) != groups(&b_swapped) { run.fail("codec:pair-order:agents-disagree:beyond-the-order-inside-equal-priority-runs", &case, &format!("{a:?} vs {b_swapped:?}")); }
            else if !same { run.fail("codec:pair-order:agents-disagree:equal-pair-priorities", &case, &format!("{a:?} vs {b_swapped:?}")); }
        }
    }
}

/// (G) RFC 8445 §7.3.1.3: a peer-reflexive remote candidate learnt from an (authenticated) connectivity check gets
/// the PRIORITY attribute of that check — otherwise the two agents hold different priorities for the same
/// candidate and compute different pair priorities (the presupposition of the "same ordering" clause).
pub fn prflx_priority_case(run: &mut Run, rt: &tokio::runtime::Runtime, controlling: bool, tcp: bool, prio: u32) {
    use rustrtc::transports::ice::stun::{StunAttribute, StunMessage};
    let role = if controlling { IceRole::Controlling } else { IceRole::Controlled };
    let case = format!("prflx {} {} {prio}", if controlling { "controlling" } else { "controlled" }, tcp as u8);
    let t = mk_transport_t(role, 50);
    let lp = t.local_parameters();
    let l = Arc::new(rt.block_on(tokio::net::UdpSocket::bind("127.0.0.1:0")).unwrap());
    let lc = IceCandidate::host(l.local_addr().unwrap(), 1);
    t.verif_add_local_udp(lc.clone(), l.clone());
    let src: SocketAddr = "127.0.0.1:45678".parse().unwrap();
    let mut m = StunMessage::binding_request([7; 12], Some("peer"));
    m.attributes.push(StunAttribute::Username(format!("{}:{REMOTE_UFRAG}", lp.username_fragment)));
    m.attributes.push(StunAttribute::Priority(prio));
    m.attributes.push(if controlling { StunAttribute::IceControlled(1) } else { StunAttribute::IceControlling(1) });
    let bytes = m.encode(Some(lp.password.as_bytes()), true).unwrap();
    let wrapper = if tcp {
        rt.block_on(async { let li = tokio::net::TcpListener::bind("127.0.0.1:0").await.unwrap(); let c = tokio::net::TcpStream::connect(li.local_addr().unwrap()).await.unwrap();
            let (s, _) = li.accept().await.unwrap(); drop(c); let (r, w) = s.into_split();
            IceSocketWrapper::TcpStream(Arc::new(tokio::sync::Mutex::new(r)), Arc::new(tokio::sync::Mutex::new(w)), src) })
    } else { IceSocketWrapper::Udp(l.clone()) };
    rt.block_on(t.verif_handle_packet(&bytes, src, wrapper));
    match t.remote_candidates().iter().find(|c| c.address == src) {
        None => run.fail("codec:pair-priority:peer-reflexive-candidate-not-learnt", &case, ""),
        Some(c) => {
            if c.typ != IceCandidateType::PeerReflexive { run.fail("codec:pair-priority:learnt-candidate-is-not-peer-reflexive", &case, &format!("{:?}", c.typ)); }
            if c.priority != prio { run.fail("codec:pair-priority:peer-reflexive-candidate-priority-is-not-the-PRIORITY-attribute", &case, &format!("candidate priority {} vs PRIORITY {prio}", c.priority)); }
            // what the sender (its local candidate has priority `prio`) and this agent compute for the pair
            let theirs = rfc_pair_priority(!controlling, prio, lc.priority);
            let ours = rustrtc::transports::ice::IceCandidatePair::new(lc.clone(), c.clone()).priority(role);
            if theirs != ours { run.fail("codec:pair-order:agents-compute-different-priority-for-the-same-pair:peer-reflexive", &case, &format!("{theirs} vs {ours}")); }
        }
    }
    // the same candidate signalled afterwards (trickle / late answer) replaces the learnt entry: one candidate per address
    t.add_remote_candidate(IceCandidate::host(src, 1));
    let same: Vec<_> = t.remote_candidates().into_iter().filter(|c| c.address == src && (c.transport == "tcp") == tcp).collect();
    if !tcp && (same.len() != 1 || same[0].typ != IceCandidateType::Host) { run.fail("codec:pair-priority:signalled-candidate-does-not-supersede-the-learnt-peer-reflexive-entry", &case, &format!("{:?}", same.iter().map(|c| (c.typ, c.priority)).collect::<Vec<_>>())); }
    run.count("agent_prflx_priority_cases");
    t.stop();
}

pub fn replay(run: &mut Run, case: &str) -> bool {
    let f: Vec<&str> = case.split(' ').collect();
    let rt = tokio::runtime::Builder::new_current_thread().enable_all().build().unwrap();
    match f[0] {
        "select" if f.len() == 7 => { selection_case(run, &rt, f[1] == "controlling", f[2].parse().unwrap(), f[3].parse().unwrap(), f[4].parse().unwrap(), f[5].parse().unwrap(), f[6] == "1"); true }
        "tcpcheck" | "tcp-check" if f.len() == 4 => { tcp_check_case(run, &rt, f[1] == "controlling", f[2] == "1", f[3] == "1"); true }
        "prflx" if f.len() == 4 => { prflx_priority_case(run, &rt, f[1] == "controlling", f[2] == "1", f[3].parse().unwrap()); true }
        "agentreq" if f.len() == 3 => { keepalive_probe_case(run, &rt, f[1], f[2] == "controlling"); true }
        _ => false,
    }
}

pub fn run_all(run: &mut Run, rng: &mut Rng, thorough: bool) {
    let rt = tokio::runtime::Builder::new_current_thread().enable_all().build().unwrap();
    order_cases(run, rng, &rt, thorough);
    two_agent_cases(run, rng, &rt, thorough);
    message_cases(run, rng, &rt, thorough);
    selection_cases(run, rng, &rt, thorough);
    for controlling in [true, false] {
        for (synth, respond) in [(false, false), (false, true), (true, true)] { if synth && !controlling { continue; } tcp_check_case(run, &rt, controlling, synth, respond); }
        for tcp in [false, true] { for prio in [2130706431u32, 1694498815, 16777215, 1, rng.next() as u32] { prflx_priority_case(run, &rt, controlling, tcp, prio); } }
        for kind in ["keepalive", "bare", "probe"] { for _ in 0..(if thorough { 10 } else { 2 }) { keepalive_probe_case(run, &rt, kind, controlling); } }
    }
}
