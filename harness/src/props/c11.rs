//! C11 — DTLS handshakes converge.  Real `DtlsTransport` pairs through the harness proxy under
//! fault scripts: every single fault (drop, duplicate, delay past the next datagram, re-fragment) on
//! each of the ten datagrams of a handshake, (thorough) double faults and random multi-fault scripts,
//! followed by up to three retransmission-timer rounds during which the network delivers everything.
//! Each endpoint's datagram/tick history is replayed on the Lean model (`hs` stream); the property is
//! judged on the implementation: both Connected ⇒ identical keys / profile / exporter output and
//! application data readable both ways (safety, checked in `c02::run_script_ticks`), and — after the
//! recovery rounds — both Connected (liveness).
use super::c02::{Act, Rule, Script, run_script_ticks};
use super::c03::refpeer::{RefFault, ref_session};
use crate::{Args, Rng, Run};

/// datagram kinds of a handshake: (from_client, kind) — kind as in `c02::kind`
const KINDS: [(bool, u8); 10] = [(true, 1), (false, 2), (false, 11), (false, 12), (false, 14), (true, 16), (true, 200), (true, 20), (false, 200), (false, 20)];

fn faults_for(kind: u8) -> Vec<Act> {
    let mut v = vec![Act::Drop, Act::Dup, Act::Swap];
    if matches!(kind, 1 | 2 | 11 | 12 | 16) {
        // the path re-fragments this message on every (re)transmission, differently each time, and loses the
        // tail of the first transmission
        v.push(Act::RefragTailLost(if kind == 11 { 100 } else { 9 }));
        v.push(Act::RefragEvery3(if kind == 11 { 77 } else { 5 }));
        v.push(Act::RefragOverlap(if kind == 11 { 60 } else { 7 }));
    }
    match kind { 2 | 12 | 16 => { v.push(Act::Fragment(20)); v.push(Act::FragDupMid(15)); v.push(Act::FragReorder(15)); }
        11 => { v.push(Act::Fragment(100)); v.push(Act::Fragment(1)); v.push(Act::FragDupMid(90)); v.push(Act::FragReorder(90)); } 1 => { v.push(Act::Fragment(40)); v.push(Act::FragDupMid(20)); }, _ => {} }
    v
}

pub fn scripts(thorough: bool, rng: &mut Rng) -> Vec<Script> {
    let mut v = vec![Script { ce: 'o', se: 'n', rules: vec![] }];
    // repeated loss of the SAME datagram (the transmission and its retransmissions): the longest first, they run concurrently.
    // 12 consecutive losses of the ClientHello; a whole flight lost three times (first transmission + both copies of the next
    // round); the server's final flight lost twice; every datagram kind lost twice.
    let dn = |fc: bool, k: u8, n: u8| Rule { from_client: fc, typ: k, act: Act::DropN(n) };
    v.push(Script { ce: 'o', se: 'n', rules: vec![dn(true, 1, 12)] });
    v.push(Script { ce: 'o', se: 'n', rules: vec![dn(false, 2, 3), dn(false, 11, 3), dn(false, 12, 3), dn(false, 14, 3)] });
    v.push(Script { ce: 'o', se: 'n', rules: vec![dn(true, 16, 3), dn(true, 200, 3), dn(true, 20, 3)] });
    v.push(Script { ce: 'o', se: 'n', rules: vec![dn(false, 200, 2), dn(false, 20, 2)] });
    for (fc, k) in KINDS { v.push(Script { ce: 'o', se: 'n', rules: vec![dn(fc, k, 2)] }); }
    let mut singles = vec![];
    for (fc, k) in KINDS { for a in faults_for(k) { singles.push(Rule { from_client: fc, typ: k, act: a }); } }
    for r in &singles { v.push(Script { ce: 'o', se: 'n', rules: vec![r.clone()] }); }
    let n = if thorough { 1500 } else { 12 };
    for _ in 0..n {
        let a = rng.pick(&singles).clone();
        let b = rng.pick(&singles).clone();
        if a.from_client == b.from_client && a.typ == b.typ { continue; }
        let mut rules = vec![a, b];
        if rng.chance(1, 3) { let c = rng.pick(&singles).clone(); if !rules.iter().any(|r| r.from_client == c.from_client && r.typ == c.typ) { rules.push(c); } }
        v.push(Script { ce: *rng.pick(&['o', 'n']), se: 'n', rules });
    }
    v
}

/// timer rounds a script gets: 3 after the faults, i.e. 3 + the longest run of losses it contains
pub fn rounds_for(sc: &Script) -> u32 { 3 + sc.rules.iter().map(|r| match r.act { Act::DropN(n) => n as u32, _ => 0 }).max().unwrap_or(0) }

pub fn run(args: &Args) {
    let rt = tokio::runtime::Builder::new_current_thread().enable_all().build().unwrap();
    const ROUNDS: u32 = 3;
    if let Some(case) = &args.replay {
        if let Some(f) = case.strip_prefix("refclient ") {
            match rt.block_on(super::c03::refpeer::ref_client_session(RefFault::parse(f.trim()))) {
                Some(o) => { println!("ops: {}\nimpl: {}", o.line.0, o.line.1);
                    println!("server={} exporter_equal={:?} echo={:?} profile={:?}", o.client_final, o.exporter_equal, o.echo_ok, o.profile); }
                None => println!("inconclusive (timing)"),
            }
            return;
        }
        if let Some(f) = case.strip_prefix("ref ") {
            match rt.block_on(ref_session(RefFault::parse(f.trim()))) {
                Some(o) => { println!("ops: {}\nimpl: {}", o.line.0, o.line.1);
                    println!("client={} hvr_seen={} exporter_equal={:?} echo={:?} profile={:?}", o.client_final, o.hvr_seen, o.exporter_equal, o.echo_ok, o.profile); }
                None => println!("inconclusive (timing)"),
            }
            return;
        }
        if case.trim() == "deadline" { super::c03::deadline::replay(); return; }
        let sc = Script::parse(case);
        match rt.block_on(run_script_ticks(&sc, rounds_for(&sc))) {
            Some(o) => { for (i, l) in o.lines { println!("ops: {i}\nimpl: {l}"); } for t in o.tags { println!("tag {t}"); } for (s, d) in o.fails { println!("ORACLE-FAIL {s} {d}"); } }
            None => println!("inconclusive (timing)"),
        }
        return;
    }
    let mut run = Run::new("c11", &args.out);
    // run loops left alone until their handshake deadline (30 s of real time), concurrently with everything below
    let deadline = super::c03::deadline::spawn_deadline_sessions();
    let mut rng = Rng::new(args.seed);
    let all = scripts(args.tier_thorough, &mut rng);
    for sc in &all { let back = Script::parse(&sc.text()); assert!(back == *sc, "script text does not parse back: {}", sc.text()); }
    // sessions wait for real retransmission timers (1 s each): run them concurrently in batches
    for batch in all.chunks(48) {
        let mut pending: Vec<&Script> = batch.iter().collect();
        for _attempt in 0..3 {
            if pending.is_empty() { break; }
            let results = rt.block_on(futures::future::join_all(pending.iter().map(|sc| run_script_ticks(sc, rounds_for(sc)))));
            let mut again = vec![];
            for (sc, res) in pending.iter().zip(results) {
                match res {
                    None => { run.count("timing_retry"); again.push(*sc); }
                    Some(o) => {
                        for (i, l) in &o.lines { let nt = l.contains("fin:C") || l.contains("F,"); run.case("hs", i, l, nt); }
                        let both = o.tags.iter().any(|t| t == "both_connected");
                        for t in &o.tags { run.count(t); }
                        for r in &sc.rules { run.count(&format!("fault:{}:{}:{:?}", if r.from_client { "c>s" } else { "s>c" }, r.typ, r.act).replace(['(', ')'], "")); }
                        for (sig, d) in o.fails { run.fail(&sig, &d, &sc.text()); }
                        // liveness: after the scripted faults the network delivered everything for ROUNDS timer rounds
                        if !both {
                            let what = sc.rules.iter().map(|r| format!("{}:{}:{:?}", if r.from_client { "c>s" } else { "s>c" }, r.typ, r.act)).collect::<Vec<_>>().join("+");
                            let fin = o.tags.iter().find(|t| t.starts_with("final:")).cloned().unwrap_or_default();
                            run.fail(&format!("conv:not-connected-after-{}-rounds:{}", rounds_for(sc), if sc.rules.len() == 1 { what.replace(['(', ')'], "") } else { "multi-fault".into() }),
                                &sc.text(), &fin);
                        }
                    }
                }
            }
            pending = again;
        }
        for _ in pending { run.count("script_skipped_timing"); }
    }
    // rustrtc client against the reference DTLS stack (webrtc-rs `dtls`): cookie exchange, key schedule, exporter
    let reps = if args.tier_thorough { 12 } else { 2 };
    for fault in [RefFault::None, RefFault::NoEms, RefFault::DupHvr, RefFault::DupHvrLate, RefFault::SwapFlight, RefFault::DupFlight, RefFault::SplitSwap, RefFault::SplitDup] {
        for _ in 0..reps {
            let text = format!("ref {}", fault.text());
            let mut res = None;
            for _ in 0..4 { res = rt.block_on(ref_session(fault.clone())); if res.is_some() { break; } run.count("ref_timing_retry"); }
            let Some(o) = res else { run.count("ref_skipped_timing"); continue; };
            run.case("hs", &o.line.0, &o.line.1, true);
            run.count(&format!("ref:{}:client-{}", fault.text(), o.client_final));
            if o.hvr_seen { run.count("ref_hello_verify_request_exchanged"); }
            if o.client_final != 'C' { run.fail(&format!("conv:reference-server:not-connected:{}", fault.text()), &text, &format!("client ended {}", o.client_final)); }
            if o.exporter_equal == Some(false) { run.fail("conv:reference-server:exporter-output-differs", &text, ""); }
            if o.echo_ok == Some(false) { run.fail("conv:reference-server:application-data-not-echoed", &text, ""); }
            if let (Some(a), Some(b)) = o.profile { if a != b { run.fail("conv:reference-server:srtp-profile-differs", &text, &format!("{a} vs {b}")); } }
        }
    }
    // reference client against the rustrtc server
    for fault in [RefFault::None, RefFault::NoEms, RefFault::DupFlight, RefFault::SwapFlight, RefFault::DupHvr] {
        for _ in 0..reps {
            let text = format!("refclient {}", fault.text());
            let mut res = None;
            for _ in 0..4 { res = rt.block_on(super::c03::refpeer::ref_client_session(fault.clone())); if res.is_some() { break; } run.count("ref_timing_retry"); }
            let Some(o) = res else { run.count("ref_skipped_timing"); continue; };
            run.case("hs", &o.line.0, &o.line.1, true);
            run.count(&format!("refclient:{}:server-{}", fault.text(), o.client_final));
            if o.client_final != 'C' { run.fail(&format!("conv:reference-client:not-connected:{}", fault.text()), &text, &format!("rustrtc server ended {} (c = Connected but the reference client did not complete)", o.client_final)); }
            if o.exporter_equal == Some(false) { run.fail("conv:reference-client:exporter-output-differs", &text, ""); }
            if o.echo_ok == Some(false) { run.fail("conv:reference-client:application-data-not-echoed", &text, ""); }
            if let (Some(a), Some(b)) = o.profile { if a != b { run.fail("conv:reference-client:srtp-profile-differs", &text, &format!("{a} vs {b}")); } }
        }
    }
    run.notes.insert("rounds".into(), serde_json::json!(ROUNDS));
    super::c03::deadline::record(&mut run, deadline);
    run.finish();
}
