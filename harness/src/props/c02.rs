//! C02 — DTLS connects only to the peer whose certificate matches the SDP fingerprint.
//! Real `DtlsTransport` pairs through the harness proxy, which applies a *tamper script* to the
//! handshake in flight (drop / duplicate / swap messages, replace the certificate, flip bits in the
//! randoms, key-exchange parameters, signature, Finished, re-sign the key exchange with an attacker
//! key, strip an extension) for every combination of expected fingerprint {absent, correct, bogus}
//! on both roles.  Every endpoint's history is replayed on the Lean model (`hs` stream) with
//! ground-truth facts computed here (sha2, p256, aes-gcm); the property itself is judged on the
//! implementation by `judge`.
use super::c03::hs::*;
use super::c03::pair::*;
use crate::{Args, Rng, Run, hex, unhex};
use p256::ecdsa::signature::Signer;
use p256::pkcs8::DecodePrivateKey;
use rustrtc::transports::dtls::{Certificate, fingerprint, generate_certificate};
use std::collections::VecDeque;

#[derive(Clone, Debug, PartialEq)]
pub enum Act { Drop, Dup, Swap, FlipBody(u16), CertOther, CertEmpty, CertGarbage, Resign, CertOtherResign, FlipSig, FlipKey, FlipRandom, StripExt(u16), FlipCipher, Fragment(u16), FragDupMid(u16), FragReorder(u16), SeqMinus1, Impostor, ImpostorChain, ImpostorTail, ExtraCert, RefragTailLost(u16), RefragEvery3(u16), PreInject(u8), ForgeFinishedBad, InsertCert, RefragOverlap(u16), InsertHs(u8), PreInjectHs(u8), CloseClient, CloseServer, AtkSke, InsertHsBefore(u8), RepeatSame, DropN(u8), PreInject3(u8), ImpostorKey(u8) }

#[derive(Clone, Debug, PartialEq)]
pub struct Rule { pub from_client: bool, pub typ: u8, pub act: Act }

#[derive(Clone, Debug, PartialEq)]
pub struct Script { pub ce: char, pub se: char, pub rules: Vec<Rule> }

impl Script {
    pub fn text(&self) -> String {
        let rs: Vec<String> = self.rules.iter().map(|r| format!("{}:{}:{}", if r.from_client { "c>s" } else { "s>c" }, r.typ, match &r.act {
            Act::Drop => "drop".into(), Act::Dup => "dup".into(), Act::Swap => "swap".into(), Act::FlipBody(n) => format!("flipbody{n}"),
            Act::CertOther => "other".into(), Act::CertEmpty => "empty".into(), Act::CertGarbage => "garbage".into(), Act::Resign => "resign".into(),
            Act::CertOtherResign => "otherresign".into(), Act::FlipSig => "flipsig".into(), Act::FlipKey => "flipkey".into(),
            Act::FlipRandom => "fliprandom".into(), Act::StripExt(e) => format!("strip{e}"), Act::FlipCipher => "flipcipher".into(),
            Act::Fragment(n) => format!("frag{n}"), Act::FragDupMid(n) => format!("fragdup{n}"), Act::FragReorder(n) => format!("fragreorder{n}"),
            Act::SeqMinus1 => "seqminus1".into(), Act::Impostor => "impostor".into(), Act::ImpostorChain => "impostorchain".into(), Act::ImpostorTail => "impostortail".into(),
            Act::ExtraCert => "extracert".into(), Act::RefragTailLost(n) => format!("refragtaillost{n}"), Act::RefragEvery3(n) => format!("refragevery{n}"),
            Act::PreInject(ct) => format!("preinject{ct}"), Act::ForgeFinishedBad => "forgefinishedbad".into(), Act::InsertCert => "insertcert".into(), Act::InsertHs(t) => format!("inserths{t}"), Act::PreInjectHs(t) => format!("prehs{t}"),
            Act::CloseClient => "closeclient".into(), Act::CloseServer => "closeserver".into(), Act::AtkSke => "atkske".into(),
            Act::InsertHsBefore(t) => format!("insertbefore{t}"), Act::RepeatSame => "repeatsame".into(), Act::DropN(n) => format!("dropfirst{n}"),
            Act::PreInject3(ct) => format!("preinjectthird{ct}"), Act::ImpostorKey(k) => format!("impostorkey{k}"), Act::RefragOverlap(n) => format!("refragoverlap{n}") })).collect();
        format!("ce={} se={} {}", self.ce, self.se, if rs.is_empty() { "-".into() } else { rs.join(";") })
    }
    pub fn parse(s: &str) -> Script {
        let f: Vec<&str> = s.split_whitespace().collect();
        let ce = f[0].chars().last().unwrap();
        let se = f[1].chars().last().unwrap();
        let mut rules = vec![];
        if f.len() > 2 && f[2] != "-" { for r in f[2].split(';') {
            let p: Vec<&str> = r.split(':').collect();
            let a = p[2];
            let num = |pre: &str| a[pre.len()..].parse::<u16>().unwrap();
            let act = match a { "drop" => Act::Drop, "dup" => Act::Dup, "swap" => Act::Swap, "other" => Act::CertOther, "empty" => Act::CertEmpty,
                "garbage" => Act::CertGarbage, "resign" => Act::Resign, "otherresign" => Act::CertOtherResign, "flipsig" => Act::FlipSig,
                "flipkey" => Act::FlipKey, "fliprandom" => Act::FlipRandom, "flipcipher" => Act::FlipCipher, "seqminus1" => Act::SeqMinus1, "forgefinishedbad" => Act::ForgeFinishedBad, "insertcert" => Act::InsertCert, "closeclient" => Act::CloseClient, "closeserver" => Act::CloseServer, "atkske" => Act::AtkSke, "repeatsame" => Act::RepeatSame, "impostor" => Act::Impostor, "impostorchain" => Act::ImpostorChain, "impostortail" => Act::ImpostorTail, "extracert" => Act::ExtraCert,
                x if x.starts_with("flipbody") => Act::FlipBody(num("flipbody")), x if x.starts_with("strip") => Act::StripExt(num("strip")),
                x if x.starts_with("preinjectthird") => Act::PreInject3(num("preinjectthird") as u8),
                x if x.starts_with("preinject") => Act::PreInject(num("preinject") as u8),
                x if x.starts_with("refragtaillost") => Act::RefragTailLost(num("refragtaillost")), x if x.starts_with("refragevery") => Act::RefragEvery3(num("refragevery")), x if x.starts_with("refragoverlap") => Act::RefragOverlap(num("refragoverlap")), x if x.starts_with("inserths") => Act::InsertHs(num("inserths") as u8), x if x.starts_with("insertbefore") => Act::InsertHsBefore(num("insertbefore") as u8), x if x.starts_with("dropfirst") => Act::DropN(num("dropfirst") as u8),
                x if x.starts_with("preinjectthird") => Act::PreInject3(num("preinjectthird") as u8), x if x.starts_with("impostorkey") => Act::ImpostorKey(num("impostorkey") as u8), x if x.starts_with("prehs") => Act::PreInjectHs(num("prehs") as u8),
                x if x.starts_with("fragdup") => Act::FragDupMid(num("fragdup")), x if x.starts_with("fragreorder") => Act::FragReorder(num("fragreorder")),
                x if x.starts_with("frag") => Act::Fragment(num("frag")), x => panic!("bad act {x}") };
            rules.push(Rule { from_client: p[0] == "c>s", typ: p[1].parse().unwrap(), act });
        } }
        Script { ce, se, rules }
    }
}

/// what a datagram in flight is, for rule matching: handshake type for clear-text handshake records,
/// 20 for a protected handshake record (Finished), 200 for ChangeCipherSpec
fn kind(dg: &[u8]) -> u8 {
    match parse_records(dg).first() {
        Some(r) if r.ctype == 22 && r.epoch == 0 => parse_hs(&r.body).first().map(|m| m.typ).unwrap_or(255),
        Some(r) if r.ctype == 22 => 20,
        Some(r) if r.ctype == 20 => 200,
        _ => 255,
    }
}

/// ChangeCipherSpec / Finished datagrams do not say who sent them; the client's ChangeCipherSpec is record
/// sequence number 2 and its Finished follows a 3-record epoch-0 history, the server's are 4 / after 5 records —
/// the record sequence number of the ChangeCipherSpec tells, and `run_script` passes Finished through `DIR_HINT`.
fn from_client_hint(dg: &[u8]) -> bool {
    match parse_records(dg).first() { Some(r) if r.ctype == 20 => r.seq <= 3, _ => DIR_HINT.with(|d| d.get()) }
}
thread_local! { static DIR_HINT: std::cell::Cell<bool> = const { std::cell::Cell::new(false) }; }

fn rebuild(dg: &[u8], f: impl FnOnce(&mut Vec<u8>)) -> Vec<u8> {
    let r = &parse_records(dg)[0];
    let m = &parse_hs(&r.body)[0];
    let mut body = m.body.clone();
    f(&mut body);
    record_bytes(22, (r.vmaj, r.vmin), r.epoch, r.seq, &hs_bytes(m.typ, body.len() as u32, m.seq, 0, &body))
}

fn cert_body(certs: &[Vec<u8>]) -> Vec<u8> {
    let mut b = vec![]; let tot: usize = certs.iter().map(|c| c.len() + 3).sum();
    b.extend_from_slice(&(tot as u32).to_be_bytes()[1..]);
    for c in certs { b.extend_from_slice(&(c.len() as u32).to_be_bytes()[1..]); b.extend_from_slice(c); }
    b
}

pub struct Attacker { pub cert: Certificate, pub key: p256::ecdsa::SigningKey }
impl Attacker {
    pub fn new() -> Attacker {
        let cert = generate_certificate().unwrap();
        let key = p256::ecdsa::SigningKey::from_pkcs8_pem(&cert.private_key).unwrap();
        Attacker { cert, key }
    }
}

/// apply one action to a datagram; returns the datagrams to forward (in order)
/// `occ`: how many datagrams of this kind the rule has already seen (persistent re-fragmentation rules
/// apply to every retransmission, with a different split each time)
fn apply(act: &Act, dg: &[u8], atk: &Attacker, randoms: &(Vec<u8>, Vec<u8>), occ: usize) -> Vec<Vec<u8>> {
    let resign = |body: &mut Vec<u8>| {
        // ServerKeyExchange: curve_type(1) named_curve(2) len(1) pubkey, hash(1) sig(1) siglen(2) sig
        let pl = body[3] as usize;
        let params = body[..4 + pl].to_vec();
        let mut m = randoms.0.clone(); m.extend_from_slice(&randoms.1); m.extend_from_slice(&params);
        let sig: p256::ecdsa::Signature = atk.key.sign(&m);
        let der = sig.to_der();
        let mut nb = params; nb.extend_from_slice(&[4, 3]); nb.extend_from_slice(&(der.as_bytes().len() as u16).to_be_bytes()); nb.extend_from_slice(der.as_bytes());
        *body = nb;
    };
    match act {
        Act::Drop => vec![],
        Act::Dup => vec![dg.to_vec(), dg.to_vec()],
        Act::Swap => vec![dg.to_vec()], // handled by the proxy (held back)
        Act::FlipBody(n) => vec![rebuild(dg, |b| if !b.is_empty() { let i = *n as usize % b.len(); b[i] ^= 0x10; })],
        Act::CertOther => vec![rebuild(dg, |b| *b = cert_body(&atk.cert.certificate))],
        Act::CertEmpty => vec![rebuild(dg, |b| *b = cert_body(&[]))],
        Act::CertGarbage => vec![rebuild(dg, |b| *b = vec![0, 0, 9, 1, 2])],
        Act::Resign => vec![rebuild(dg, resign)],
        Act::CertOtherResign => vec![rebuild(dg, |b| *b = cert_body(&atk.cert.certificate))], // the SKE part is a second rule
        Act::FlipSig => vec![rebuild(dg, |b| { let n = b.len(); if n > 10 { b[n - 5] ^= 1; } })],
        Act::FlipKey => vec![rebuild(dg, |b| { if b.len() > 40 { b[20] ^= 1; } })],
        Act::FlipRandom => vec![rebuild(dg, |b| { if b.len() > 34 { b[10] ^= 1; } })],
        Act::StripExt(e) => vec![rebuild(dg, |b| {
            // ClientHello: version(2) random(32) sid cookie suites comp ext
            let mut i = 34; i += 1 + b[i] as usize; i += 1 + b[i] as usize; i += 2 + u16::from_be_bytes([b[i], b[i + 1]]) as usize; i += 1 + b[i] as usize;
            if b.len() >= i + 2 {
                let ext = b[i + 2..].to_vec();
                let mut out = vec![]; let mut j = 0;
                while ext.len() >= j + 4 { let t = u16::from_be_bytes([ext[j], ext[j + 1]]); let l = u16::from_be_bytes([ext[j + 2], ext[j + 3]]) as usize;
                    if t != *e { out.extend_from_slice(&ext[j..j + 4 + l]); } j += 4 + l; }
                b.truncate(i); b.extend_from_slice(&(out.len() as u16).to_be_bytes()); b.extend_from_slice(&out);
            } })],
        Act::FlipCipher => { let mut d = dg.to_vec(); let n = d.len(); d[n - 20] ^= 1; vec![d] }
        Act::Impostor | Act::ImpostorChain | Act::ImpostorTail | Act::ExtraCert | Act::ForgeFinishedBad | Act::InsertHs(_) | Act::PreInjectHs(_) | Act::CloseClient | Act::CloseServer | Act::AtkSke | Act::InsertHsBefore(_) | Act::RepeatSame | Act::PreInject3(_) | Act::ImpostorKey(_) => vec![dg.to_vec()], // handled by the proxy loop
        Act::DropN(_) => vec![], // the first n occurrences are lost (persistent rule, see the proxy loop)
        Act::InsertCert => {
            // a second Certificate message (the attacker's certificate), in sequence right after the genuine one;
            // the proxy renumbers the rest of the flight (see `seq_shift`)
            let r = &parse_records(dg)[0]; let m = &parse_hs(&r.body)[0];
            let body = cert_body(&atk.cert.certificate);
            vec![dg.to_vec(), record_bytes(22, (r.vmaj, r.vmin), 0, r.seq + 50, &hs_bytes(11, body.len() as u32, m.seq + 1, 0, &body))]
        }
        Act::SeqMinus1 => {
            // renumber the message (an on-path party closing the gap after dropping its predecessor)
            let r = &parse_records(dg)[0]; let m = &parse_hs(&r.body)[0];
            vec![record_bytes(22, (r.vmaj, r.vmin), r.epoch, r.seq, &hs_bytes(m.typ, m.total, m.seq.wrapping_sub(1), m.off, &m.body))]
        }
        Act::PreInject(ct) => {
            // a clear-text record of the given content type arrives just before this datagram (from anybody):
            // application data, close_notify, ChangeCipherSpec, or a Finished with an arbitrary verify_data
            // the clear-text Finished carries exactly the message_seq the target expects next at this point of the flight
            let next_seq: u16 = match kind(dg) { 2 => 0, 11 => 1, 12 => 2, 14 => 3, 16 => 1, _ => if parse_records(dg).first().map(|r| r.epoch == 0 && r.ctype == 20 || r.epoch > 0).unwrap_or(false) { 99 } else { 9 } };
            let next_seq = if next_seq == 99 { if from_client_hint(dg) { 2 } else { 4 } } else { next_seq };
            let payload: Vec<u8> = match ct { 21 => vec![1, 0], 20 => vec![1], 22 => hs_bytes(20, 12, next_seq, 0, &[0x5A; 12]), _ => b"clear-text application data".to_vec() };
            vec![record_bytes(*ct, (254, 253), 0, 99, &payload), dg.to_vec()]
        }
        Act::RefragTailLost(a) | Act::RefragEvery3(a) => {
            // legal re-fragmentation by the path: correct fragment_offset / fragment_length, a different split on
            // every (re)transmission; the first transmission loses its last fragment
            let r = &parse_records(dg)[0]; let m = &parse_hs(&r.body)[0];
            let n = m.body.len();
            if n < 4 { return vec![dg.to_vec()]; }
            let piece = |lo: usize, hi: usize, k: u64| record_bytes(22, (r.vmaj, r.vmin), 0, r.seq + 100 * (k + 1),
                &hs_bytes(m.typ, n as u32, m.seq, lo as u32, &m.body[lo..hi]));
            let cut = ((*a as usize + 13 * occ) % (n - 2)).max(1);
            let mut frags = if matches!(act, Act::RefragTailLost(_)) { vec![piece(0, cut, 0), piece(cut, n, 1)] } else {
                let c2 = (cut + (n - cut) / 2).min(n - 1).max(cut + 1);
                vec![piece(0, cut, 0), piece(cut, c2, 1), piece(c2, n, 2)] };
            if occ == 0 { frags.pop(); }
            frags
        }
        Act::RefragOverlap(a) => {
            // every (re)transmission arrives as two fragments whose ranges overlap ([0,hi) and [lo,n), lo < hi):
            // legal (RFC 6347 section 4.2.3 asks receivers to handle overlapping ranges)
            let r = &parse_records(dg)[0]; let m = &parse_hs(&r.body)[0];
            let n = m.body.len();
            if n < 6 { return vec![dg.to_vec()]; }
            let lo = ((*a as usize + 7 * occ) % (n - 4)).max(1);
            let hi = (lo + 1 + (n - lo) / 2).min(n - 1);
            let piece = |lo: usize, hi: usize, k: u64| record_bytes(22, (r.vmaj, r.vmin), 0, r.seq + 100 * (k + 1),
                &hs_bytes(m.typ, n as u32, m.seq, lo as u32, &m.body[lo..hi]));
            vec![piece(0, hi, 0), piece(lo, n, 1)]
        }
        Act::FragDupMid(a) | Act::FragReorder(a) => {
            // three fragments [0,a) [a,2a) [2a,..): the middle one twice, or the last two swapped
            let r = &parse_records(dg)[0]; let m = &parse_hs(&r.body)[0];
            let a = (*a as usize).min(m.body.len() / 3).max(1);
            let piece = |lo: usize, hi: usize, k: u64| record_bytes(22, (r.vmaj, r.vmin), 0, r.seq + 100 * k,
                &hs_bytes(m.typ, m.body.len() as u32, m.seq, lo as u32, &m.body[lo..hi]));
            let (f1, f2, f3) = (piece(0, a, 0), piece(a, 2 * a, 1), piece(2 * a, m.body.len(), 2));
            if matches!(act, Act::FragDupMid(_)) { vec![f1, f2.clone(), f2, f3] } else { vec![f1, f3, f2] }
        }
        Act::Fragment(at) => {
            let r = &parse_records(dg)[0]; let m = &parse_hs(&r.body)[0];
            let at = (*at as usize).min(m.body.len());
            let a = hs_bytes(m.typ, m.body.len() as u32, m.seq, 0, &m.body[..at]);
            let b = hs_bytes(m.typ, m.body.len() as u32, m.seq, at as u32, &m.body[at..]);
            vec![record_bytes(22, (r.vmaj, r.vmin), 0, r.seq, &a), record_bytes(22, (r.vmaj, r.vmin), 0, r.seq + 100, &b)]
        }
    }
}

/// What the endpoint is told to expect, by script letter.  `n` nothing, `o` the peer's fingerprint in the canonical
/// form, `b` some other certificate's; the rest are *texts related to the right fingerprint that are not it*:
///   e ""   1 first byte   h first 16 bytes   p first 31 bytes   d all but the last hex digit (odd count)
///   x one byte too many   l lower case   c without colons   s blanks instead of colons   z non-hex prefix "ZZ:"
/// `DtlsTransport::new` takes the string as it is (normalisation is `SdpFingerprint::parse`'s job), and the
/// comparison in `handle_certificate` is string equality with the canonical text — so none of these may connect.
pub fn expected_variant(c: char, peer: &Certificate, bogus: &str) -> Option<String> {
    let full = fingerprint(peer);
    match c {
        'n' => None, 'o' => Some(full), 'b' => Some(bogus.to_string()),
        'e' => Some(String::new()), '1' => Some(full[..2].to_string()), 'h' => Some(full[..47].to_string()),
        'p' => Some(full[..92].to_string()), 'd' => Some(full[..94].to_string()), 'x' => Some(format!("{full}:00")),
        'l' => Some(full.to_ascii_lowercase()), 'c' => Some(full.replace(':', "")), 's' => Some(full.replace(':', " ")),
        'z' => Some(format!("ZZ:{full}")),
        _ => None,
    }
}
pub const EXPECTED_VARIANTS: [char; 10] = ['e', '1', 'h', 'p', 'd', 'x', 'l', 'c', 's', 'z'];

/// the bytes a fingerprint text denotes (RFC 8122 reading, as liberal as `SdpFingerprint::parse`: colons and
/// ASCII white space carry no information, case does not matter; anything else, or an odd digit count, denotes nothing)
pub fn denoted_bytes(t: &str) -> Option<Vec<u8>> {
    let digits: Vec<u8> = t.bytes().filter(|b| *b != b':' && !b.is_ascii_whitespace()).collect();
    if digits.len() % 2 != 0 || !digits.iter().all(|b| b.is_ascii_hexdigit()) { return None; }
    digits.chunks(2).map(|c| u8::from_str_radix(std::str::from_utf8(c).ok()?, 16).ok()).collect()
}

pub struct Outcome { pub lines: Vec<(String, String)>, pub fails: Vec<(String, String)>, pub tags: Vec<String> }

pub async fn run_script(sc: &Script) -> Option<Outcome> { run_script_ticks(sc, 0).await }

/// `max_ticks`: how many retransmission-timer rounds (real seconds) the network stays quiet-but-alive
/// after the scripted faults, so the endpoints can recover (C11)
pub async fn run_script_ticks(sc: &Script, max_ticks: u32) -> Option<Outcome> {
    let (cc, mut scert) = certs();
    let atk = Attacker::new();
    // a peer whose certificate has a key of another type (1 = RSA-2048, 2 = ECDSA P-384; static self-signed certificates whose
    // private keys nobody in the run holds): it presents that public certificate — which the client pins — and signs with an
    // unrelated P-256 key
    if let Some(k) = sc.rules.iter().find_map(|r| match r.act { Act::ImpostorKey(k) => Some(k), _ => None }) {
        let der: &[u8] = if k == 1 { include_bytes!("c03/certs/rsa.der") } else { include_bytes!("c03/certs/p384.der") };
        let mut c = Certificate::default(); c.certificate = vec![der.to_vec()]; c.private_key = atk.cert.private_key.clone();
        scert = c;
    }
    let bogus = fingerprint(&atk.cert);
    let exp = |c: char, peer: &Certificate| expected_variant(c, peer, &bogus);
    let (exp_c, exp_s) = (exp(sc.ce, &scert), exp(sc.se, &cc));
    let mut c = Recd::new(true, cc, exp_c.clone()).await;
    // impostor servers (the pinned fingerprint stays the genuine server's):
    //  impostor       presents the genuine certificate but holds (and signs with) another key
    //  impostorchain  presents [attacker certificate, genuine certificate] and signs with the attacker's key
    //  impostortail   presents [genuine certificate, attacker certificate] and signs with the attacker's key (the pinned
    //                 fingerprint matches the FIRST entry, the signature only verifies under the LAST: must be refused)
    //  extracert      the genuine server, presenting [genuine certificate, some other certificate] (must still connect)
    let has = |a: Act| sc.rules.iter().any(|r| r.act == a);
    let scert = if false { scert
    } else if has(Act::Impostor) {
        let mut c = Certificate::default(); c.certificate = scert.certificate.clone(); c.private_key = atk.cert.private_key.clone(); c
    } else if has(Act::ImpostorChain) {
        let mut c = Certificate::default(); c.certificate = vec![atk.cert.certificate[0].clone(), scert.certificate[0].clone()];
        c.private_key = atk.cert.private_key.clone(); c
    } else if has(Act::ImpostorTail) {
        let mut c = Certificate::default(); c.certificate = vec![scert.certificate[0].clone(), atk.cert.certificate[0].clone()];
        c.private_key = atk.cert.private_key.clone(); c
    } else if has(Act::ExtraCert) {
        let mut c = Certificate::default(); c.certificate = vec![scert.certificate[0].clone(), atk.cert.certificate[0].clone()];
        c.private_key = scert.private_key.clone(); c
    } else { scert };
    let mut s = Recd::new(false, scert, exp_s.clone()).await;
    // scripts in which an endpoint must refuse: watch what its state channel shows meanwhile
    let spies = if sc.ce == 'b' || EXPECTED_VARIANTS.contains(&sc.ce) || sc.rules.iter().any(|r| matches!(r.act, Act::ForgeFinishedBad | Act::InsertCert | Act::Impostor | Act::ImpostorChain | Act::ImpostorTail | Act::CertOther | Act::CertOtherResign | Act::FlipSig | Act::FlipKey)) { Some(c.ep.spy()) } else { None };
    let (c_src, s_src) = (c.ep.sink_addr, s.ep.sink_addr);
    let mut q_cs: VecDeque<Vec<u8>> = VecDeque::new();
    let mut q_sc: VecDeque<Vec<u8>> = VecDeque::new();
    let _ = s.start().await;
    for d in c.start().await { q_cs.push_back(d); }
    let mut used = vec![false; sc.rules.len()];
    let mut occ = vec![0usize; sc.rules.len()];
    let (mut forged, mut seq_shift, mut inserted_cert) = (false, 0u16, false);
    let mut pending_shift = 0u16;
    let (mut second_cert, mut replaced_ske, mut foreign_cert_first) = (false, false, false);
    let mut third_party: Option<(u8, u8)> = None;
    let mut done2 = vec![false; sc.rules.len()];
    let mut held: (Option<Vec<u8>>, Option<Vec<u8>>) = (None, None);
    let mut randoms = (vec![], vec![]);
    let mut guard = 0;
    let mut ticks = 0;
    let (mut trailing_done, mut late_retransmit) = (false, false);
    // genuine clear-text handshake bodies seen so far (by type), for replaying them where they do not belong
    let mut seen: std::collections::BTreeMap<u8, Vec<u8>> = std::collections::BTreeMap::new();
    // what the *client* has in its transcript, as far as the proxy can tell (clear-text messages it sent / was given)
    let mut client_transcript: Vec<u8> = vec![];
    let atk_secret = p256::SecretKey::from_slice(&atk.key.to_bytes()).ok();
    let (mut inserted_ske, mut mitm_done, mut bad_cert_to_server) = (false, false, false);
    let mut mitm_keys: Option<(Vec<u8>, Vec<u8>, Vec<u8>, Vec<u8>, Vec<u8>)> = None; // ms, cwk, swk, civ, siv
    loop {
        if q_cs.is_empty() && q_sc.is_empty() {
            // a held-back (swapped) datagram whose successor never came is released now
            if let Some(h) = held.0.take() { for x in s.inject(&h, s_src).await { q_sc.push_back(x); } continue; }
            if let Some(h) = held.1.take() { for x in c.inject(&h, c_src).await { q_cs.push_back(x); } continue; }
            if ticks < max_ticks && !(c.ep.letter() == 'C' && s.ep.letter() == 'C') && c.ep.letter() != 'F' && s.ep.letter() != 'F' {
                if c.unexpected_tick_possible() || s.unexpected_tick_possible() { return None; }
                ticks += 1;
                for x in c.tick().await { q_cs.push_back(x); }
                for x in s.tick().await { q_sc.push_back(x); }
                continue;
            }
            // one more timer round after both are Connected: nobody may retransmit any more
            if max_ticks > 0 && !trailing_done && c.ep.letter() == 'C' && s.ep.letter() == 'C' {
                trailing_done = true;
                if c.unexpected_tick_possible() || s.unexpected_tick_possible() { return None; }
                let (a, b) = (c.tick().await, s.tick().await);
                if !a.is_empty() || !b.is_empty() { late_retransmit = true; }
                for x in a { q_cs.push_back(x); }
                for x in b { q_sc.push_back(x); }
                continue;
            }
            break;
        }
        if guard >= 400 { break; }
        guard += 1;
        let from_client = !q_cs.is_empty();
        let dg = if from_client { q_cs.pop_front().unwrap() } else { q_sc.pop_front().unwrap() };
        let k = kind(&dg);
        if k == 1 && randoms.0.is_empty() { randoms.0 = parse_hs(&parse_records(&dg)[0].body)[0].body[2..34].to_vec(); }
        if k == 2 && randoms.1.is_empty() { randoms.1 = parse_hs(&parse_records(&dg)[0].body)[0].body[2..34].to_vec(); }
        DIR_HINT.with(|d| d.set(from_client));
        let mut outs = vec![dg.clone()];
        let mut swap = false;
        let mut applied_now: Vec<usize> = vec![];
        for (i, r) in sc.rules.iter().enumerate() {
            if !used[i] && r.from_client == from_client && r.typ == k {
                let persistent = matches!(r.act, Act::RefragTailLost(_) | Act::RefragEvery3(_) | Act::RefragOverlap(_)) || matches!(r.act, Act::DropN(n) if occ[i] + 1 < n as usize);
                if !persistent { used[i] = true; }
                applied_now.push(i);
                if r.act == Act::Swap { swap = true; } else { outs = outs.iter().flat_map(|d| apply(&r.act, d, &atk, &randoms, occ[i])).collect(); }
                occ[i] += 1;
            }
        }
        // a Finished sealed under the genuine server write key (the harness has the client's key log) but with a
        // wrong verify_data: it authenticates as a record, and reaches the client's verify_data comparison
        if !from_client && k == 20 && sc.rules.iter().any(|r| r.act == Act::ForgeFinishedBad) && !forged {
            if let Some(keys) = c.keys.last() {
                forged = true;
                let (wk, wiv) = write_dir(keys, false);
                let fin = hs_bytes(20, 12, 4, 0, &[0x5A; 12]);
                outs = vec![record_bytes(22, (254, 253), 1, 0, &seal_body(&wk, &wiv, 1, 0, 22, (254, 253), &fin))];
            }
        }
        // ---- actions that need the session's state
        let next_seq_of_target: u16 = if from_client { match k { 1 => 0, 16 => 1, _ => 2 } } else { match k { 2 => 0, 11 => 1, 12 => 2, 14 => 3, _ => 4 } } + if from_client { 0 } else { seq_shift };
        let atk_ske = |cr: &[u8], sr: &[u8]| -> Vec<u8> {
            // the attacker's own key exchange: its own share, signed with its own key
            let pubkey = atk_secret.as_ref().map(|k| { use p256::elliptic_curve::sec1::ToEncodedPoint; k.public_key().to_encoded_point(false).as_bytes().to_vec() }).unwrap_or(vec![4; 65]);
            let mut params = vec![3u8, 0, 23, pubkey.len() as u8]; params.extend_from_slice(&pubkey);
            let mut m = cr.to_vec(); m.extend_from_slice(sr); m.extend_from_slice(&params);
            let sig: p256::ecdsa::Signature = atk.key.sign(&m);
            let der = sig.to_der();
            let mut b = params; b.extend_from_slice(&[4, 3]); b.extend_from_slice(&(der.as_bytes().len() as u16).to_be_bytes()); b.extend_from_slice(der.as_bytes());
            b
        };
        let body_for = |t: u8, seen: &std::collections::BTreeMap<u8, Vec<u8>>| -> Option<Vec<u8>> { match t {
            3 => Some(vec![254, 253, 4, 1, 2, 3, 4]), 14 => Some(vec![]), 11 => Some(cert_body(&atk.cert.certificate)),
            12 => Some(atk_ske(&randoms.0, &randoms.1)),
            2 => seen.get(&2).map(|b| { let mut b = b.clone(); if b.len() > 12 { b[10] ^= 1; } b }),
            t => seen.get(&t).cloned() } };
        let (mut pre, mut post): (Vec<Vec<u8>>, Vec<Vec<u8>>) = (vec![], vec![]);
        let mut shift_now = 0u16;
        let mut requeued = false;
        for (i, r) in sc.rules.iter().enumerate() {
            if r.from_client != from_client || r.typ != k || done2[i] { continue; }
            match r.act {
                // a clear-text handshake message of another type, at exactly the message_seq the target expects next, just
                // before this datagram (each message type is also offered to the role that never receives it)
                // a HelloVerifyRequest to the client: it answers with a fresh ClientHello, so the datagram it was injected in front of is
                // put back and handled after that ClientHello went out (keeps the order a real cookie exchange has)
                Act::PreInjectHs(3) if !from_client && !requeued => {
                    done2[i] = true;
                    let b = body_for(3, &seen).unwrap_or_default();
                    let hvr = record_bytes(22, (254, 253), 0, 93, &hs_bytes(3, b.len() as u32, next_seq_of_target, 0, &b));
                    for x in c.inject(&hvr, c_src).await { q_cs.push_back(x); }
                    q_sc.push_front(dg.clone());
                    requeued = true;
                }
                Act::PreInjectHs(t) => {
                    done2[i] = true;
                    if let Some(b) = body_for(t, &seen) {
                        if from_client && t == 11 && sc.se == 'o' { bad_cert_to_server = true; } // ('b' = the attacker's own fingerprint: that one matches)
                        pre.push(record_bytes(22, (254, 253), 0, 90 + t as u64, &hs_bytes(t, b.len() as u32, next_seq_of_target, 0, &b)));
                    }
                }
                // a further message of the server's flight IN SEQUENCE right after this one; the rest of the flight is renumbered
                Act::InsertHs(t) if !from_client => {
                    done2[i] = true;
                    if let (Some(b), Some(rec)) = (body_for(t, &seen), parse_records(&dg).first().map(|r| (r.vmaj, r.vmin, r.seq))) {
                        let own_seq = parse_records(&outs[0]).first().and_then(|r| parse_hs(&r.body).first().map(|m| m.seq)).unwrap_or(next_seq_of_target);
                        post.push(record_bytes(22, (rec.0, rec.1), 0, rec.2 + 60, &hs_bytes(t, b.len() as u32, own_seq + 1 + seq_shift, 0, &b)));
                        if t == 12 { inserted_ske = true; }
                        if t == 11 { second_cert = true; }
                        pending_shift += 1;
                    }
                }
                // the ServerKeyExchange is the attacker's own (own share, own signature) INSTEAD of the genuine one; the proxy
                // then plays the server to the end (see below)
                Act::AtkSke if !from_client && k == 12 => {
                    done2[i] = true;
                    if let (Some(b), Some(r0)) = (body_for(12, &seen), parse_records(&dg).into_iter().next()) {
                        let sq = parse_hs(&r0.body).first().map(|m| m.seq).unwrap_or(2);
                        outs = vec![record_bytes(22, (r0.vmaj, r0.vmin), 0, r0.seq, &hs_bytes(12, b.len() as u32, sq, 0, &b))];
                        inserted_ske = true; replaced_ske = true;
                    }
                }
                // a forged message of type t takes this message's place in the sequence; this one and the rest move up by one
                Act::InsertHsBefore(t) if !from_client => {
                    done2[i] = true;
                    if let (Some(b), Some(r0)) = (body_for(t, &seen), parse_records(&dg).into_iter().next()) {
                        let sq = parse_hs(&r0.body).first().map(|m| m.seq).unwrap_or(next_seq_of_target);
                        pre.push(record_bytes(22, (r0.vmaj, r0.vmin), 0, r0.seq + 80, &hs_bytes(t, b.len() as u32, sq + seq_shift, 0, &b)));
                        if t == 11 { second_cert = true; if exp_c.is_some() && sc.ce != 'b' { foreign_cert_first = true; } }
                        shift_now += 1;
                    }
                }
                // the same message again (same body) at the next message_seq
                Act::RepeatSame if !from_client => {
                    done2[i] = true;
                    if let Some(r0) = parse_records(&dg).into_iter().next() { if let Some(m) = parse_hs(&r0.body).into_iter().next() {
                        post.push(record_bytes(22, (r0.vmaj, r0.vmin), 0, r0.seq + 60, &hs_bytes(m.typ, m.total, m.seq + 1 + seq_shift, 0, &m.body)));
                        if m.typ == 11 { second_cert = true; }
                        pending_shift += 1;
                    } }
                }
                // a clear-text record from a THIRD source address just before this datagram (handshake phase × foreign address)
                Act::PreInject3(ct) => {
                    done2[i] = true;
                    let payload: Vec<u8> = match ct { 21 => vec![1, 0], 20 => vec![1], 22 => hs_bytes(20, 12, next_seq_of_target, 0, &[0x5A; 12]), _ => b"clear-text application data".to_vec() };
                    let rec = record_bytes(ct, (254, 253), 0, 98, &payload);
                    let third: std::net::SocketAddr = "127.0.0.9:4444".parse().unwrap();
                    third_party = Some((ct, k));
                    if from_client { for x in s.inject(&rec, third).await { q_sc.push_back(x); } } else { for x in c.inject(&rec, third).await { q_cs.push_back(x); } }
                }
                Act::CloseClient => { done2[i] = true; for x in c.close().await { q_cs.push_back(x); } }
                Act::CloseServer => { done2[i] = true; for x in s.close().await { q_sc.push_back(x); } }
                _ => {}
            }
        }
        if requeued { for i in applied_now { used[i] = false; occ[i] -= 1; } continue; } // the datagram comes round again: its own rules apply then
        seq_shift += shift_now;
        // after an inserted message the proxy renumbers the remaining clear-text messages of the server's flight
        if !from_client && seq_shift > 0 && (k == 2 || k == 11 || k == 12 || k == 14) {
            outs = outs.iter().map(|d| {
                let rs = parse_records(d);
                match rs.first() {
                    Some(r) if r.ctype == 22 && r.epoch == 0 && rs.len() == 1 => match parse_hs(&r.body).first() {
                        Some(m) => record_bytes(22, (r.vmaj, r.vmin), r.epoch, r.seq, &hs_bytes(m.typ, m.total, m.seq + seq_shift, m.off, &m.body)),
                        None => d.clone() },
                    _ => d.clone() } }).collect();
        }
        if !from_client && k == 11 && sc.rules.iter().any(|r| r.act == Act::InsertCert) && !inserted_cert { seq_shift += 1; inserted_cert = true; second_cert = true; }
        for (n, x) in pre.into_iter().enumerate() { outs.insert(n, x); }
        outs.extend(post);
        seq_shift += pending_shift; pending_shift = 0;
        // bookkeeping: genuine bodies by type; the client's transcript as the proxy sees it
        if let Some(r) = parse_records(&dg).first() { if r.ctype == 22 && r.epoch == 0 { for m in parse_hs(&r.body) {
            if m.off == 0 && m.total as usize == m.body.len() { seen.insert(m.typ, m.body.clone()); } } } }
        if from_client {
            if let Some(r) = parse_records(&dg).first() { if r.ctype == 22 && r.epoch == 0 { for m in parse_hs(&r.body) {
                if m.off == 0 && m.total as usize == m.body.len() {
                    if m.typ == 1 { client_transcript.clear(); }
                    client_transcript.extend_from_slice(&hs_bytes(m.typ, m.total, m.seq, 0, &m.body));
                } } } }
        } else {
            for d in &outs { if let Some(r) = parse_records(d).first() { if r.ctype == 22 && r.epoch == 0 { for m in parse_hs(&r.body) {
                if m.off == 0 && m.total as usize == m.body.len() && m.typ != 3 && m.typ != 20 && m.typ != 0 {
                    client_transcript.extend_from_slice(&hs_bytes(m.typ, m.total, m.seq, 0, &m.body)); } } } } }
        }
        // ---- the attacker whose key exchange was inserted finishes the handshake itself (it only ever gets this far if
        // the client accepted a ServerKeyExchange that the pinned certificate did not sign)
        if inserted_ske && from_client && k == 16 && mitm_keys.is_none() {
            if let (Some(sk), Some(cke), Some(logged)) = (atk_secret.as_ref(), seen.get(&16), c.keys.last()) {
                if let Ok(cpub) = p256::PublicKey::from_sec1_bytes(&cke[1..]) {
                    let shared = p256::ecdh::diffie_hellman(sk.to_nonzero_scalar(), cpub.as_affine());
                    let pm = shared.raw_secret_bytes().to_vec();
                    use sha2::Digest;
                    let h = sha2::Sha256::digest(&client_transcript);
                    let mut seed = randoms.0.clone(); seed.extend_from_slice(&randoms.1);
                    for ms in [prf_sha256(&pm, b"extended master secret", &h, 48), prf_sha256(&pm, b"master secret", &seed, 48)] {
                        if ms == logged.master_secret {
                            let mut s2 = randoms.1.clone(); s2.extend_from_slice(&randoms.0);
                            let kb = prf_sha256(&ms, b"key expansion", &s2, 40);
                            mitm_keys = Some((ms, kb[0..16].to_vec(), kb[16..32].to_vec(), kb[32..36].to_vec(), kb[36..40].to_vec()));
                            break;
                        }
                    }
                }
            }
        }
        if !mitm_done && from_client && k == 20 { if let Some((ms, cwk, swk, civ, siv)) = &mitm_keys {
            if let Some(r) = parse_records(&dg).into_iter().find(|r| r.ctype == 22 && r.epoch == 1) {
                if let (_, _, Some(fc)) = open_rec(cwk, civ, &r) {
                    mitm_done = true;
                    let mut t = client_transcript.clone(); t.extend_from_slice(&fc);
                    let vd = verify_data(ms, false, &t);
                    let fin = hs_bytes(20, 12, 4 + seq_shift, 0, &vd);
                    let ccs = record_bytes(20, (254, 253), 0, 70, &[1]);
                    let finrec = record_bytes(22, (254, 253), 1, 0, &seal_body(swk, siv, 1, 0, 22, (254, 253), &fin));
                    for d in [ccs, finrec] { for x in c.inject(&d, c_src).await { q_cs.push_back(x); } }
                }
            }
        } }
        let slot = if from_client { &mut held.0 } else { &mut held.1 };
        if swap { *slot = Some(outs.remove(0)); continue; }
        if let Some(h) = slot.take() { outs.push(h); }
        for d in outs {
            let sent = if from_client { s.inject(&d, s_src).await } else { c.inject(&d, c_src).await };
            for x in sent { if from_client { q_sc.push_back(x) } else { q_cs.push_back(x) } }
        }
    }
    if c.unexpected_tick_possible() || s.unexpected_tick_possible() { return None; }
    // ---- after the handshake attempt: application data and exporter
    let mut fails = vec![];
    if late_retransmit { fails.push(("conv:retransmission-after-both-connected".to_string(), sc.text())); }
    let mut tags = vec![format!("final:{}{}", c.ep.letter(), s.ep.letter()), format!("ticks_used:{ticks}")];
    let text = sc.text();
    for from_client in [true, false] {
        let (a, b, b_src) = if from_client { (&mut c, &mut s, s_src) } else { (&mut s, &mut c, c_src) };
        if a.ep.letter() == 'C' {
            let before = b.outs.len();
            for d in a.send(b"application-data-after-handshake").await { b.inject(&d, b_src).await; }
            let got = b.outs[before..].iter().any(|o| o.split(',').nth(2).map(|d| d != "-").unwrap_or(false));
            if got && b.ep.letter() != 'C' { fails.push(("noconn:app-data-accepted-while-not-connected".to_string(), text.clone())); }
            if b.ep.letter() == 'C' && !got { fails.push(("conv:app-data-unreadable-between-connected-peers".to_string(), text.clone())); }
        }
    }
    for (x, peer_cert_shown, role) in [(&c, true, "client"), (&s, false, "server")] {
        let _ = peer_cert_shown;
        let connected = x.ep.letter() == 'C';
        let export = x.ep.dtls.export_keying_material("EXTRACTOR-dtls_srtp", 60);
        if !connected && export.is_ok() { fails.push(("noconn:keying-material-exported".into(), text.clone())); }
        if let Some(e) = &x.expected {
            if connected {
                if role == "server" && x.shown_cert_fps.is_empty() {
                    // the known gap, and only it: the server connected although *no* Certificate message was ever
                    // delivered to it (it never asks for one).  Any other way of connecting without the pinned
                    // certificate (a Certificate was delivered but did not match, …) has its own signature below.
                    fails.push(("role:server:connected-though-no-certificate-message-was-ever-requested-or-received".to_string(), text.clone()));
                } else if denoted_bytes(e).map(|b| b.len() != 32).unwrap_or(true) {
                    // Connected ⇒ the expected value denotes exactly 32 bytes (and they are the leaf's digest, next arm)
                    fails.push((format!("role:{role}:connected-though-expected-fingerprint-does-not-denote-a-32-byte-digest:len-{}", e.len()), text.clone()));
                } else if !x.shown_cert_fps.contains(&denoted_bytes(e).unwrap().iter().map(|b| format!("{b:02X}")).collect::<Vec<_>>().join(":")) {
                    fails.push((format!("role:{role}:connected-without-matching-certificate"), text.clone()));
                } else if !x.sig_ok_under.contains(&denoted_bytes(e).unwrap().iter().map(|b| format!("{b:02X}")).collect::<Vec<_>>().join(":")) && role == "client" {
                    fails.push((format!("role:{role}:connected-without-proof-of-possession"), text.clone()));
                }
            }
        }
        if x.outs.iter().any(|o| { let f: Vec<&str> = o.split(',').collect(); f.len() == 4 && f[0] != "C" && f[2] != "-" }) {
            fails.push(("noconn:app-data-accepted-while-not-connected".into(), text.clone()));
        }
    }
    for v in c.clear_violations.iter().chain(s.clear_violations.iter()) { fails.push((v.clone(), text.clone())); }
    // the watch channel (what SCTP / SRTP wait on) must show what get_state() shows after every step
    for x in [&c, &s] { for o in &x.outs { if let Some(st) = o.split(',').next() { if st.contains('!') {
        fails.push((format!("state:watch-channel-differs-from-state:{st}"), text.clone())); } } } }
    if let Some(spy) = spies { if spy.saw_connected() && !matches!(c.ep.letter(), 'C' | 'X') {
        fails.push((format!("state:watch-channel-showed-connected-but-handshake-ended-{}", c.ep.letter()), text.clone())); } }
    // Connected ⇒ the share the keys were derived from came in a ServerKeyExchange signed by the pinned certificate
    // (the LAST key exchange before the derivation, not "some key exchange at some time")
    if c.ep.letter() == 'C' { if let Some(e) = &c.expected { if let Some(b) = denoted_bytes(e) {
        let canon = b.iter().map(|x| format!("{x:02X}")).collect::<Vec<_>>().join(":");
        if !c.key_share_signed_by.contains(&canon) {
            // the certificate whose key verified the peer's handshake signature does not hash to the expected fingerprint
            if second_cert { fails.push(("auth:connected-with-unverified-certificate:second-certificate-message".to_string(), text.clone())); }
            fails.push((format!("role:client:connected-with-a-key-share-the-pinned-certificate-did-not-sign{}", if mitm_done { ":attacker-completed-the-handshake" } else { "" }), text.clone())); }
    } } }
    // a clear-text record from a foreign address is as good as absent: the handshake around it completes and the endpoints keep
    // talking to each other (a transport that follows the source address of such a datagram stops reaching its peer).
    // Judged for application data at every stage and for alerts / handshake messages where the target holds keys.
    // (baseline: the same script without the injection connects iff the client's pin is absent or right — the server never checks)
    if let Some((ct, k)) = third_party { if sc.rules.len() == 1 && matches!(sc.ce, 'n' | 'o') && (ct == 23 || matches!(k, 200 | 20)) && !(c.ep.letter() == 'C' && s.ep.letter() == 'C') {
        fails.push((format!("rec:handshake-phase:third-party-record-disturbed-the-handshake:{ct}-before-{k}"), text.clone())); } }
    if foreign_cert_first && sc.rules.len() == 1 && c.ep.letter() != 'F' {
        fails.push((format!("role:client:non-matching-certificate-in-sequence-not-rejected:ended-{}", c.ep.letter()), text.clone())); }
    let _ = replaced_ske;
    if inserted_ske && sc.rules.len() == 1 && c.ep.letter() != 'F' {
        fails.push((format!("role:client:unverified-key-exchange-in-sequence-not-rejected:ended-{}", c.ep.letter()), text.clone())); }
    if bad_cert_to_server && sc.rules.len() == 1 && s.ep.letter() != 'F' {
        fails.push((format!("role:server:non-matching-certificate-in-sequence-not-rejected:ended-{}", s.ep.letter()), text.clone())); }
    // (a client the script closed is Closed, not Failed)
    if forged && c.ep.letter() != 'F' && !sc.rules.iter().any(|r| r.act == Act::CloseClient) { fails.push((format!("role:client:wrong-verify-data-not-rejected:ended-{}", c.ep.letter()), text.clone())); }
    // (in a multi-fault script the inserted message may never be reached in sequence — then Handshaking is a legitimate end)
    // (the inserted certificate is the attacker's: for `ce=b` — pinned to the attacker's fingerprint — it MATCHES, nothing to reject)
    if inserted_cert && c.expected.is_some() && sc.ce != 'b' && (c.ep.letter() == 'C' || (sc.rules.len() == 1 && c.ep.letter() != 'F')) {
        fails.push((format!("role:client:non-matching-certificate-in-sequence-not-rejected:ended-{}", c.ep.letter()), text.clone()));
    }
    if let (Some(kc), Some(ks)) = (c.ep.keys(), s.ep.keys()) {
        if kc != ks { fails.push(("conv:both-connected-different-keys".into(), text.clone())); }
        if c.ep.srtp_profile() != s.ep.srtp_profile() { fails.push(("conv:both-connected-different-profile".into(), text.clone())); }
        let (xc, xs) = (c.ep.dtls.export_keying_material("EXTRACTOR-dtls_srtp", 60).ok(), s.ep.dtls.export_keying_material("EXTRACTOR-dtls_srtp", 60).ok());
        if xc.is_none() || xc != xs { fails.push(("conv:both-connected-different-exporter-output".into(), text.clone())); }
        tags.push("both_connected".into());
    }
    if c.ep.letter() == 'C' { tags.push("client_connected".into()); }
    if s.ep.letter() == 'C' { tags.push("server_connected".into()); }
    Some(Outcome { lines: vec![c.lines(), s.lines()], fails, tags })
}

pub fn scripts(thorough: bool, rng: &mut Rng) -> Vec<Script> {
    let mut v = vec![];
    let r = |fc: bool, typ: u8, act: Act| Rule { from_client: fc, typ, act };
    // expected-fingerprint matrix without tampering
    for ce in ['n', 'o', 'b'] { for se in ['n', 'o', 'b'] { v.push(Script { ce, se, rules: vec![] }); } }
    let tamper: Vec<Vec<Rule>> = vec![
        vec![r(false, 11, Act::CertOther)], vec![r(false, 11, Act::CertEmpty)], vec![r(false, 11, Act::CertGarbage)], vec![r(false, 11, Act::Drop)],
        vec![r(false, 11, Act::Dup)], vec![r(false, 11, Act::Swap)], vec![r(false, 11, Act::FlipBody(40))],
        vec![r(false, 12, Act::FlipSig)], vec![r(false, 12, Act::FlipKey)], vec![r(false, 12, Act::Resign)], vec![r(false, 12, Act::Drop)],
        vec![r(false, 12, Act::Dup)], vec![r(false, 12, Act::Swap)],
        vec![r(false, 11, Act::CertOtherResign), r(false, 12, Act::Resign)],
        vec![r(false, 2, Act::FlipRandom)], vec![r(false, 2, Act::Drop)], vec![r(false, 2, Act::Dup)], vec![r(false, 2, Act::Swap)],
        vec![r(false, 14, Act::Drop)], vec![r(false, 14, Act::Dup)],
        vec![r(true, 1, Act::FlipRandom)], vec![r(true, 1, Act::StripExt(23))], vec![r(true, 1, Act::StripExt(14))], vec![r(true, 1, Act::Dup)],
        vec![r(true, 16, Act::FlipKey)], vec![r(true, 16, Act::Drop)], vec![r(true, 16, Act::Dup)], vec![r(true, 16, Act::Swap)],
        vec![r(true, 200, Act::Drop)], vec![r(true, 200, Act::Dup)], vec![r(false, 200, Act::Drop)],
        vec![r(true, 20, Act::FlipCipher)], vec![r(false, 20, Act::FlipCipher)], vec![r(true, 20, Act::Drop)], vec![r(false, 20, Act::Drop)],
        vec![r(true, 20, Act::Dup)], vec![r(false, 20, Act::Dup)],
        vec![r(false, 11, Act::Fragment(100))], vec![r(false, 12, Act::Fragment(30))],
        vec![r(false, 0, Act::Impostor)], vec![r(false, 0, Act::ImpostorChain)], vec![r(false, 0, Act::ImpostorTail)], vec![r(false, 0, Act::ExtraCert)],
        // the client's own verify_data comparison: a Finished that authenticates as a record but carries a wrong value
        vec![r(false, 20, Act::ForgeFinishedBad)],
        // a second, in-sequence Certificate message (attacker's) after the genuine one, alone and with the key
        // exchange re-signed by the attacker
        vec![r(false, 11, Act::InsertCert)], vec![r(false, 11, Act::InsertCert), r(false, 12, Act::Resign)],
        // clear-text records injected at every stage of the handshake (before keys, between keys and Connected)
        vec![r(false, 2, Act::PreInject(23))], vec![r(false, 14, Act::PreInject(23))], vec![r(false, 200, Act::PreInject(23))], vec![r(false, 20, Act::PreInject(23))],
        vec![r(true, 16, Act::PreInject(23))], vec![r(true, 200, Act::PreInject(23))], vec![r(true, 20, Act::PreInject(23))],
        vec![r(false, 2, Act::PreInject(21))], vec![r(false, 200, Act::PreInject(21))], vec![r(false, 20, Act::PreInject(21))],
        vec![r(true, 16, Act::PreInject(21))], vec![r(true, 200, Act::PreInject(21))], vec![r(true, 20, Act::PreInject(21))],
        vec![r(false, 20, Act::PreInject(22))], vec![r(true, 20, Act::PreInject(22))], vec![r(false, 12, Act::PreInject(20))],
        // a second in-sequence ServerKeyExchange (the attacker's own share, signed by the attacker) after the genuine,
        // verified one; a second ServerHello (other random) after the Certificate / after the verified key exchange
        vec![r(false, 12, Act::InsertHs(12))], vec![r(false, 12, Act::InsertHs(2))], vec![r(false, 11, Act::InsertHs(2))],
        // "repeat a handshake message type at the next message_seq" in general: a different body after / before the genuine
        // one, and the genuine one twice — Certificate, ServerKeyExchange, ServerHello
        vec![r(false, 11, Act::InsertHsBefore(11))], vec![r(false, 12, Act::InsertHsBefore(12))], vec![r(false, 2, Act::InsertHsBefore(2))],
        vec![r(false, 11, Act::RepeatSame)], vec![r(false, 12, Act::RepeatSame)], vec![r(false, 2, Act::RepeatSame)],
        // two Certificate messages and an attacker that owns the rest of the flight: genuine then foreign / foreign then
        // genuine / genuine twice, each followed by the attacker's own ServerKeyExchange; the attacker completes the handshake
        vec![r(false, 11, Act::InsertCert), r(false, 12, Act::AtkSke)], vec![r(false, 11, Act::InsertHsBefore(11)), r(false, 12, Act::AtkSke)],
        vec![r(false, 11, Act::RepeatSame), r(false, 12, Act::AtkSke)], vec![r(false, 12, Act::AtkSke)],
        // a HelloVerifyRequest reaches the CLIENT (anybody can send one in clear text) at every stage before keys — alone, and
        // followed by a foreign Certificate / by an attacker that owns the rest of the flight and completes the handshake
        vec![r(false, 2, Act::PreInjectHs(3))], vec![r(false, 11, Act::PreInjectHs(3))], vec![r(false, 12, Act::PreInjectHs(3))], vec![r(false, 14, Act::PreInjectHs(3))],
        vec![r(false, 2, Act::PreInjectHs(3)), r(false, 11, Act::CertOther)],
        vec![r(false, 2, Act::PreInjectHs(3)), r(false, 11, Act::CertOther), r(false, 12, Act::AtkSke)],
        vec![r(false, 11, Act::PreInjectHs(3)), r(false, 11, Act::CertOther), r(false, 12, Act::AtkSke)],
        // the peer's certificate carries a key of another type (RSA-2048, P-384): pinned by the client, but nobody proves possession
        vec![r(false, 0, Act::ImpostorKey(1))], vec![r(false, 0, Act::ImpostorKey(2))],
        // clear-text records from a third source address during the handshake
        vec![r(false, 2, Act::PreInject3(23))], vec![r(false, 14, Act::PreInject3(23))], vec![r(false, 200, Act::PreInject3(23))], vec![r(false, 200, Act::PreInject3(21))],
        vec![r(false, 200, Act::PreInject3(22))], vec![r(false, 20, Act::PreInject3(23))], vec![r(true, 16, Act::PreInject3(23))], vec![r(true, 200, Act::PreInject3(23))],
        vec![r(true, 20, Act::PreInject3(22))],
        // every message type offered to the role that never receives it, at the expected message_seq
        vec![r(true, 1, Act::PreInjectHs(3))], vec![r(true, 1, Act::PreInjectHs(14))],
        vec![r(true, 16, Act::PreInjectHs(3))], vec![r(true, 16, Act::PreInjectHs(14))], vec![r(true, 16, Act::PreInjectHs(2))],
        vec![r(true, 16, Act::PreInjectHs(11))], vec![r(true, 16, Act::PreInjectHs(12))],
        vec![r(false, 2, Act::PreInjectHs(1))], vec![r(false, 11, Act::PreInjectHs(1))], vec![r(false, 200, Act::PreInjectHs(16))],
        // close() at every stage: before keys, between key derivation and Connected, both roles
        vec![r(false, 2, Act::CloseClient)], vec![r(false, 14, Act::CloseClient)], vec![r(false, 200, Act::CloseClient)], vec![r(false, 20, Act::CloseClient)],
        vec![r(true, 16, Act::CloseServer)], vec![r(true, 200, Act::CloseServer)], vec![r(true, 20, Act::CloseServer)],
        vec![r(false, 12, Act::Drop), r(false, 14, Act::SeqMinus1)],
        vec![r(false, 11, Act::Drop), r(false, 12, Act::SeqMinus1)],
    ];
    for t in &tamper {
        let combos: Vec<(char, char)> = if thorough { vec![('n', 'n'), ('o', 'n'), ('b', 'n'), ('o', 'o'), ('o', 'b'), ('n', 'b')] }
            else { vec![(*rng.pick(&['o', 'o', 'n', 'b']), *rng.pick(&['n', 'n', 'o', 'b'])), ('o', 'n')] };
        for (ce, se) in combos { let s = Script { ce, se, rules: t.clone() }; if !v.contains(&s) { v.push(s); } }
    }
    // a server with an expectation is shown a Certificate (the attacker's) in sequence: the one protection the server role has
    for se in ['o', 'b'] { v.push(Script { ce: 'o', se, rules: vec![r(true, 16, Act::PreInjectHs(11))] }); }
    // expected values that are related to the right fingerprint but are not its canonical text: alone, and under
    // the tamperings that leave the genuine certificate in place
    for ce in EXPECTED_VARIANTS {
        v.push(Script { ce, se: 'n', rules: vec![] });
        v.push(Script { ce, se: 'n', rules: vec![r(false, 11, Act::Dup)] });
        v.push(Script { ce, se: 'n', rules: vec![r(false, 0, Act::ExtraCert)] });
        if thorough { for t in &tamper { v.push(Script { ce, se: *rng.pick(&['n', 'o', 'b']), rules: t.clone() }); } }
    }
    // random double tampering
    let n = if thorough { 6000 } else { 15 };
    for _ in 0..n {
        let mut rules = rng.pick(&tamper).clone();
        for x in rng.pick(&tamper).clone() { if !rules.iter().any(|y| y.from_client == x.from_client && y.typ == x.typ) { rules.push(x); } }
        v.push(Script { ce: *rng.pick(&['n', 'o', 'b']), se: *rng.pick(&['n', 'o', 'b']), rules });
    }
    // the one script that makes the client's Finished check fail, several more times: the watch-channel spy
    // catches a transiently published state only with some probability per run
    for _ in 0..(if thorough { 40 } else { 10 }) { v.push(Script { ce: 'o', se: 'n', rules: vec![r(false, 20, Act::ForgeFinishedBad)] }); }
    v
}

fn fp_cases(run: &mut Run, rng: &mut Rng, n: usize) {
    use rustrtc::sdp::SdpFingerprint;
    let hexd = b"0123456789abcdefABCDEF";
    for i in 0..n {
        let mut v: Vec<u8> = vec![];
        let pairs = match i % 7 { 0 => 32, 1 => rng.below(4) as usize, _ => rng.range(1, 40) as usize };
        for p in 0..pairs {
            if p > 0 && rng.chance(3, 4) { v.push(b':'); }
            v.push(*rng.pick(hexd)); v.push(*rng.pick(hexd));
        }
        match i % 11 { 3 => v.push(*rng.pick(hexd)), 5 => { if !v.is_empty() { let k = rng.below(v.len() as u64) as usize; v[k] = *rng.pick(b"gG-_.zZ/@"); } }
            7 => v.extend_from_slice("é".as_bytes()), 9 => { let k = rng.below(v.len() as u64 + 1) as usize; v.insert(k, b':'); } _ => {} }
        if v.is_empty() || v.iter().any(|b| b.is_ascii_whitespace()) { continue; }
        let text = String::from_utf8(v.clone()).unwrap();
        let out = match SdpFingerprint::parse(&format!("sha-256 {text}")) { Ok(f) => format!("ok:{}", hex(f.value.as_bytes())), Err(_) => "err".into() };
        run.case("fp", &hex(&v), &out, out != "err");
        run.count(if out == "err" { "fp_rejected" } else { "fp_accepted" });
        // oracle: the normal form is what fingerprint_from_der prints for the bytes the text denotes
        if let Some(h) = out.strip_prefix("ok:") {
            let norm = String::from_utf8(unhex(h)).unwrap();
            let bytes: Vec<u8> = text.bytes().filter(|b| *b != b':').collect::<Vec<_>>().chunks(2)
                .map(|c| u8::from_str_radix(std::str::from_utf8(c).unwrap(), 16).unwrap()).collect();
            let want = bytes.iter().map(|b| format!("{:02X}", b)).collect::<Vec<_>>().join(":");
            if norm != want { run.fail("fp:normal-form-differs-from-from-der-format", &format!("fp {}", hex(&v)), &format!("{norm} vs {want}")); }
        }
    }
    for _ in 0..(n / 10).max(5) {
        let dl = rng.range(1, 300) as usize; let der = rng.bytes(dl);
        let mut c = Certificate::default();
        c.certificate = vec![der.clone()];
        use sha2::Digest;
        let digest = sha2::Sha256::digest(&der);
        run.case("fpd", &hex(&digest), &hex(fingerprint(&c).as_bytes()), true);
        run.count("fpd_cases");
    }
}

/// `SessionDescription::dtls_fingerprint`: fingerprint attributes at session level and in media sections
fn sdpfp_cases(run: &mut Run, rng: &mut Rng, n: usize) {
    use rustrtc::sdp::{Attribute, MediaKind, MediaSection, SdpType, SessionDescription};
    let fps = ["AA:BB:CC:DD", "aa:bb:cc:dd", "aabbccdd", "AA:BB:CC:EE", "AA:BB:CC", "zz:11", "", "AA:BB:CC:DD:"];
    let algs = ["sha-256", "SHA-256", "sha-1", "Sha-256"];
    for _ in 0..n {
        let mut desc = SessionDescription::new(SdpType::Offer);
        let nmedia = rng.below(3) as usize;
        for i in 0..nmedia { desc.media_sections.push(MediaSection::new(MediaKind::Audio, i.to_string())); }
        let mut args_text = vec![];
        let k = rng.below(4) as usize;
        // attributes are visited session first, then media sections in order: generate in that order
        let mut slots: Vec<usize> = (0..k).map(|_| rng.below(nmedia as u64 + 1) as usize).collect();
        slots.sort();
        for slot in slots {
            let val: Option<String> = match rng.below(12) {
                0 => None,
                1 => Some((*rng.pick(&algs)).to_string()),
                2 => Some(format!("{} {} extra", rng.pick(&algs), rng.pick(&fps))),
                3 => Some(format!("  {}   {}  ", rng.pick(&algs), rng.pick(&fps))),
                _ => Some(format!("{} {}", rng.pick(&algs), rng.pick(&fps))),
            };
            args_text.push(match &val { None => "!".to_string(), Some(v) => hex(v.as_bytes()) });
            let attr = Attribute::new("fingerprint", val);
            if slot == 0 { desc.session.attributes.push(attr); } else { desc.media_sections[slot - 1].attributes.push(attr); }
        }
        // unrelated attributes must not matter
        desc.session.attributes.push(Attribute::new("setup", Some("actpass".into())));
        let out = match desc.dtls_fingerprint() { Err(_) => "err".to_string(), Ok(None) => "none".into(),
            Ok(Some(f)) => format!("ok:{}:{}", hex(f.algorithm.as_bytes()), hex(f.value.as_bytes())) };
        run.case("sdpfp", &args_text.join(" "), &out, out.starts_with("ok"));
        run.count(&format!("sdpfp_{}", &out[..out.len().min(3)]));
    }
}

pub fn run(args: &Args) {
    let rt = tokio::runtime::Builder::new_current_thread().enable_all().build().unwrap();
    if let Some(case) = &args.replay {
        if let Some(h) = case.strip_prefix("fp ") {
            let t = String::from_utf8_lossy(&unhex(h.trim())).to_string();
            println!("impl: {:?}", rustrtc::sdp::SdpFingerprint::parse(&format!("sha-256 {t}")));
            return;
        }
        if case.trim() == "deadline" { super::c03::deadline::replay(); return; }
        if case.starts_with("pc ") { super::c03::pcfp::replay(case); return; }
        let sc = Script::parse(case);
        match rt.block_on(run_script(&sc)) {
            Some(o) => { for (i, l) in o.lines { println!("ops: {i}\nimpl: {l}"); } for (s, d) in o.fails { println!("ORACLE-FAIL {s} {d}"); } }
            None => println!("inconclusive (timing)"),
        }
        return;
    }
    let mut run = Run::new("c02", &args.out);
    // run loops left alone until their handshake deadline (30 s of real time), concurrently with everything below
    let deadline = super::c03::deadline::spawn_deadline_sessions();
    let mut rng = Rng::new(args.seed);
    let all_scripts = scripts(args.tier_thorough, &mut rng);
    // every script the generators emit must survive text -> parse (that is what `--replay` is given)
    for sc in &all_scripts { let back = Script::parse(&sc.text()); assert!(back == *sc, "script text does not parse back: {}", sc.text()); }
    for sc in all_scripts {
        let mut done = false;
        for _ in 0..3 {
            if let Some(o) = rt.block_on(run_script(&sc)) {
                for (i, l) in &o.lines { let nt = l.contains("fin:C") || l.contains("F,"); run.case("hs", i, l, nt); }
                for t in o.tags { run.count(&t); }
                for r in &sc.rules { run.count(&format!("tamper:{}:{}", if r.from_client { "c>s" } else { "s>c" }, r.typ)); }
                run.count(&format!("expected:client={}:server={}", sc.ce, sc.se));
                for (sig, d) in o.fails { run.fail(&sig, &d, &sc.text()); }
                done = true; break;
            }
            run.count("timing_retry");
        }
        if !done { run.count("script_skipped_timing"); }
    }
    fp_cases(&mut run, &mut rng, if args.tier_thorough { 50000 } else { 600 });
    sdpfp_cases(&mut run, &mut rng, if args.tier_thorough { 20000 } else { 500 });
    drop(rt);
    super::c03::pcfp::run_cases(&mut run, if args.tier_thorough { 5 } else { 1 });
    super::c03::deadline::record(&mut run, deadline);
    run.finish();
}
