//! C07 — SCTP packet / chunk / parameter walkers fed to a REAL `SctpTransport` (hook `verif_handle_packet`; the
//! association has no live DTLS underneath, so its replies fail to send — that is an `Err`, not a panic), and the
//! DCEP decoders. The implementation line of stream `sctp` is the outcome class only (`ok` = returned), the Lean
//! model walks the same bytes; DCEP streams compare decoded values.
use super::{Target, exec};
use crate::{Rng, Run, hex, unhex};
use bytes::Bytes;
use rustrtc::transports::datachannel::{DataChannelAck, DataChannelOpen};
use rustrtc::transports::sctp::SctpTransport;
use std::sync::Arc;

fn nats(v: &[u64]) -> String { v.iter().map(|x| x.to_string()).collect::<Vec<_>>().join(",") }

fn call_dcep_open(b: &[u8]) -> String {
    let r = DataChannelOpen::unmarshal(b); super::mark_alloc();
    match r {
        Ok(o) => { let _ = o.marshal(); format!("ok {}", nats(&[o.channel_type as u64, o.priority as u64, o.reliability_parameter as u64, o.label.len() as u64, o.protocol.len() as u64])) }
        Err(e) => { let t = e.to_string(); if t.contains("utf-8") || t.contains("UTF-8") { "err utf8".into() } else { format!("err {}", t.replace(' ', "_")) } }
    }
}
fn call_dcep_ack(b: &[u8]) -> String {
    let r = DataChannelAck::unmarshal(b); super::mark_alloc();
    match r { Ok(a) => format!("ok {}", a.message_type), Err(e) => format!("err {}", e.to_string().replace(' ', "_")) }
}
fn gen_str(rng: &mut Rng, max: u64) -> String { (0..rng.range(0, max)).map(|_| (b'a' + rng.below(26) as u8) as char).collect() }
pub fn gen_dcep_open(rng: &mut Rng) -> Vec<u8> {
    DataChannelOpen { message_type: 3, channel_type: *rng.pick(&[0u8, 1, 2, 0x80, 0x81, 0x82]), priority: rng.next() as u16,
        reliability_parameter: rng.next() as u32, label: gen_str(rng, 20), protocol: gen_str(rng, 10) }.marshal()
}
fn gen_dcep_ack(_rng: &mut Rng) -> Vec<u8> { DataChannelAck { message_type: 2 }.marshal() }

pub fn targets() -> Vec<Target> {
    vec![
        Target { stream: "dcepopen", entry: "DataChannelOpen::unmarshal", call: call_dcep_open, valid: gen_dcep_open, alloc: Some((2, 0)), weight: 2 },
        Target { stream: "dcepack", entry: "DataChannelAck::unmarshal", call: call_dcep_ack, valid: gen_dcep_ack, alloc: Some((0, 0)), weight: 1 },
    ]
}

// ---------------------------------------------------------------------------------------------
pub struct LiveSctp { rt: tokio::runtime::Runtime, sctp: Arc<SctpTransport> }

impl LiveSctp {
    pub fn new() -> Self {
        let rt = tokio::runtime::Builder::new_current_thread().enable_all().build().unwrap();
        let sctp = rt.block_on(async {
            let (_tx, rx) = tokio::sync::watch::channel::<Option<rustrtc::transports::ice::IceSocketWrapper>>(None);
            let conn = rustrtc::transports::ice::conn::IceConn::new(rx, "127.0.0.1:9".parse().unwrap(), None);
            let cert = rustrtc::transports::dtls::generate_certificate().expect("certificate");
            let (dtls, _incoming, _runner) = rustrtc::transports::dtls::DtlsTransport::new(conn, cert, false, 2048, None).await.expect("dtls");
            let (_data_tx, data_rx) = tokio::sync::mpsc::unbounded_channel::<Bytes>();
            let (sctp, _run) = SctpTransport::new(dtls, data_rx, Arc::new(parking_lot::Mutex::new(Vec::new())), 5000, 5000, None, false,
                &rustrtc::RtcConfiguration::default());
            std::mem::forget(_data_tx);
            sctp
        });
        LiveSctp { rt, sctp }
    }
}

fn crc_fix(p: &mut [u8]) {
    if p.len() < 12 { return; }
    p[8..12].copy_from_slice(&[0; 4]);
    let c = crc32c::crc32c(p);
    p[8..12].copy_from_slice(&c.to_le_bytes());
}

fn chunk(out: &mut Vec<u8>, ct: u8, flags: u8, value: &[u8]) {
    out.push(ct); out.push(flags); out.extend_from_slice(&((4 + value.len()) as u16).to_be_bytes()); out.extend_from_slice(value);
    while out.len() % 4 != 0 { out.push(0); }
}
fn param(out: &mut Vec<u8>, pt: u16, value: &[u8]) {
    out.extend_from_slice(&pt.to_be_bytes()); out.extend_from_slice(&((4 + value.len()) as u16).to_be_bytes()); out.extend_from_slice(value);
    while out.len() % 4 != 0 { out.push(0); }
}
fn init_fixed(rng: &mut Rng) -> Vec<u8> {
    let mut v = (rng.next() as u32).to_be_bytes().to_vec(); v.extend_from_slice(&(rng.next() as u32).to_be_bytes());
    v.extend_from_slice(&[0, 10, 0, 10]); v.extend_from_slice(&(rng.next() as u32).to_be_bytes()); v
}
fn gen_chunk(rng: &mut Rng, out: &mut Vec<u8>) {
    match rng.below(12) {
        0 => { let mut v = init_fixed(rng); if rng.chance(1, 2) { param(&mut v, 0xC000, &[]); param(&mut v, 0x8008, &[0xC0]); } chunk(out, 1, 0, &v) }
        1 => { let mut v = init_fixed(rng); for _ in 0..rng.range(0, 3) { let pt = *rng.pick(&[7u16, 0xC000, 0x8008, 9]); let n = rng.below(30) as usize; param(&mut v, pt, &rng.bytes(n)); } chunk(out, 2, 0, &v) }
        2 | 3 => { // DATA
            let mut v = (rng.next() as u32).to_be_bytes().to_vec(); v.extend_from_slice(&(rng.below(4) as u16).to_be_bytes()); v.extend_from_slice(&(rng.below(4) as u16).to_be_bytes());
            let ppid = *rng.pick(&[50u32, 50, 51, 53, 0]);
            v.extend_from_slice(&ppid.to_be_bytes());
            let body = if ppid == 50 { match rng.below(4) { 0 => vec![2], 1 => vec![], 2 => { let mut b = gen_dcep_open(rng); let n = b.len(); b.truncate(rng.below(n as u64 + 1) as usize); b } _ => gen_dcep_open(rng) } }
                       else { let n = rng.below(40) as usize; rng.bytes(n) };
            v.extend(body); chunk(out, 0, rng.below(8) as u8, &v) }
        4 => { // SACK
            let r = rng.next() as u32; let ca = if rng.chance(1, 3) { *rng.pick(&[0u32, 1, 0x7FFF_FFFF, 0x8000_0000, 0xFFFF_FFF0, 0xFFFF_FFFE, 0xFFFF_FFFF]) } else { r };
            let mut v = ca.to_be_bytes().to_vec(); v.extend_from_slice(&(rng.next() as u32).to_be_bytes());
            let actual = rng.below(5) as u16; let claimed = *rng.pick(&[actual, actual, actual + 1, 0, 0xFFFF]);
            v.extend_from_slice(&claimed.to_be_bytes()); v.extend_from_slice(&(rng.below(3) as u16).to_be_bytes());
            for _ in 0..actual { for _ in 0..2 { let g = if rng.chance(1, 4) { *rng.pick(&[0u16, 1, 0x8000, 0xFFFF]) } else { rng.below(50) as u16 }; v.extend_from_slice(&g.to_be_bytes()); } }
            chunk(out, 3, 0, &v) }
        5 => { let n = rng.below(24) as usize; chunk(out, 4, 0, &rng.bytes(n)) }
        6 => { let mut v = (rng.next() as u32).to_be_bytes().to_vec(); for _ in 0..rng.below(4) { v.extend_from_slice(&(rng.next() as u32).to_be_bytes()); } if rng.chance(1, 4) { v.push(1); } chunk(out, 192, 0, &v) }
        7 => { // RECONFIG
            let mut v = vec![];
            for _ in 0..rng.range(1, 2) {
                match rng.below(3) {
                    0 => { let mut p = (rng.next() as u32).to_be_bytes().to_vec(); p.extend_from_slice(&[0; 8]); for _ in 0..rng.below(4) { p.extend_from_slice(&(rng.below(5) as u16).to_be_bytes()); } if rng.chance(1, 3) { let n = p.len(); p.truncate(rng.below(n as u64) as usize); } param(&mut v, 13, &p) }
                    1 => { let n = *rng.pick(&[8usize, 8, 4, 0, 12]); param(&mut v, 16, &rng.bytes(n)) }
                    _ => { let n = rng.below(9) as usize; let t = rng.next() as u16; param(&mut v, t, &rng.bytes(n)) }
                }
            }
            chunk(out, 130, 0, &v) }
        8 => { let n = rng.below(40) as usize; chunk(out, 10, 0, &rng.bytes(n)) }   // COOKIE-ECHO (invalid cookie)
        9 => chunk(out, *rng.pick(&[5u8, 6, 7, 8, 9, 11, 14]), 0, &[]),
        10 => { let n = rng.below(12) as usize; let t = rng.next() as u8; chunk(out, t, rng.next() as u8, &rng.bytes(n)) }
        _ => { let n = rng.below(8) as usize; chunk(out, 11, 0, &rng.bytes(n)) }
    }
}
pub fn gen_sctp_packet(rng: &mut Rng) -> Vec<u8> {
    let mut p = vec![0x13, 0x88, 0x13, 0x88]; p.extend_from_slice(&(rng.next() as u32).to_be_bytes()); p.extend_from_slice(&[0; 4]);
    for _ in 0..rng.range(1, 3) { gen_chunk(rng, &mut p); }
    crc_fix(&mut p);
    p
}

pub fn run_sctp(run: &mut Run, live: &LiveSctp, pkt: &[u8], nt: bool) {
    let p = Bytes::copy_from_slice(pkt);
    let l = std::panic::AssertUnwindSafe(live);
    let crc_ok = pkt.len() >= 12 && { let mut q = pkt.to_vec(); let want = [q[8], q[9], q[10], q[11]]; q[8..12].copy_from_slice(&[0; 4]); crc32c::crc32c(&q).to_le_bytes() == want };
    exec(run, "sctp", &format!("{} {}", crc_ok as u8, hex(pkt)), "SctpInner::handle_packet", nt, Some((8, 8192, pkt.len() as u64)), move || {
        let _ = l.rt.block_on(l.sctp.verif_handle_packet(p));
        "ok".to_string()
    });
}

pub fn special(run: &mut Run, rng: &mut Rng, thorough: bool) {
    let live = LiveSctp::new();
    run_sctp(run, &live, &[], false);
    for a in 0..=255u8 { run_sctp(run, &live, &[a], false); }
    let n = if thorough { 40_000 } else { 2_400 };       // ≈ 30 cases per base packet → ≈ 80 base packets in the quick tier
    let mut k = 0u64;
    while k < n {
        let v = gen_sctp_packet(rng);
        run_sctp(run, &live, &v, true); k += 1;
        // truncations and boundary mutations with the checksum repaired, so the walkers are reached
        for cut in 12..v.len() { if rng.chance(1, 8) { let mut t = v[..cut].to_vec(); crc_fix(&mut t); run_sctp(run, &live, &t, true); k += 1; } }
        for mut m in super::mutations(&v, rng, 24).into_iter().take(16) { if m.len() >= 12 { for i in 0..4 { m[i] = v[i]; } crc_fix(&mut m); } run_sctp(run, &live, &m, true); k += 1; }
        if rng.chance(1, 10) { let len = rng.range(12, 200) as usize; let mut r = rng.bytes(len); crc_fix(&mut r); run_sctp(run, &live, &r, false); k += 1; }
    }
    // framed truncations: every chunk alone with its value cut to every length (chunk length adjusted, CRC repaired)
    for _ in 0..(if thorough { 4_000 } else { 200 }) {
        let v = gen_sctp_packet(rng);
        let mut off = 12;
        while off + 4 <= v.len() {
            let cl = u16::from_be_bytes([v[off + 2], v[off + 3]]) as usize;
            if cl < 4 || off + cl > v.len() { break; }
            let value = &v[off + 4..off + cl];
            for k in 0..=value.len() {
                let mut p = v[..12].to_vec(); chunk(&mut p, v[off], v[off + 1], &value[..k]); crc_fix(&mut p);
                run_sctp(run, &live, &p, true);
            }
            off += (cl + 3) / 4 * 4;
        }
    }
    // long walks: a 64 KiB packet of minimal chunks / of SACK gap blocks
    let mut big = vec![0x13, 0x88, 0x13, 0x88, 0, 0, 0, 0, 0, 0, 0, 0];
    while big.len() + 4 <= 65532 { big.extend_from_slice(&[11, 0, 0, 4]); }
    crc_fix(&mut big); run_sctp(run, &live, &big, true);
    let mut big = vec![0x13, 0x88, 0x13, 0x88, 0, 0, 0, 0, 0, 0, 0, 0];
    let mut v = vec![0u8; 8]; v.extend_from_slice(&[0xFF, 0xFF, 0, 0]); v.extend(std::iter::repeat(1u8).take(65000));
    chunk(&mut big, 3, 0, &v); crc_fix(&mut big); run_sctp(run, &live, &big, true);
}

pub fn replay_special(run: &mut Run, stream: &str, a: &[&str]) -> bool {
    match (stream, a.len()) {
        ("sctp", 2) => { let l = LiveSctp::new(); run_sctp(run, &l, &unhex(a[1]), true); true }
        _ => false,
    }
}
