//! C07 — live DTLS endpoints (exploration supporting the theorems; oracle-only, lines are `noncompared`):
//! malformed datagrams are handed to REAL `DtlsTransport` tasks in the states pre-handshake (lone server / lone
//! client), mid-handshake (a real client/server pair whose traffic is cut after k datagrams), established (pair
//! completed the handshake over loopback UDP) and closing (after `close()`), under the process-wide panic hook.
//! After every input the handshake tasks and the socket pumps are checked: a panicked task is re-raised into `exec`
//! (→ `panic:<entry>:<site>`), and a liveness probe (the task must still accept input or have ended without panic).
use super::exec;
use crate::{Rng, Run, hex, unhex};
use bytes::Bytes;
use rustrtc::transports::PacketReceiver;
use rustrtc::transports::dtls::{DtlsState, DtlsTransport, generate_certificate};
use rustrtc::transports::ice::IceSocketWrapper;
use rustrtc::transports::ice::conn::IceConn;
use std::net::SocketAddr;
use std::sync::Arc;
use std::sync::atomic::{AtomicUsize, Ordering};
use std::time::Duration;
use tokio::task::JoinHandle;

/// allocation oracle of a live session, cumulative over its history (buffers such as the handshake transcript grow by
/// doubling, so a single call may legitimately allocate as much as everything received so far): the allocator traffic of
/// all injections into one session must stay below 64·(bytes injected) + 32 KiB·(datagrams) + 1 MiB. A reserve of the
/// announced 2^24-byte total_length, or a per-message blow-up, exceeds it.
pub const LIVE_BOUND: Option<(u64, u64)> = None;
fn session_alloc_check(run: &mut Run, s: &mut Session, case: &str, len: usize) {
    s.cum_alloc += super::last_alloc_used(); s.cum_in += len as u64; s.n_in += 1;
    if std::env::var("C07_DEBUG").is_ok() && s.n_in <= 12 { eprintln!("dbg {case:.40} n={} used={} cum={}", s.n_in, super::last_alloc_used(), s.cum_alloc); }
    let lim = 64 * s.cum_in + 32_768 * s.n_in + (1 << 20);
    if s.cum_alloc > lim && !s.alloc_flagged {
        s.alloc_flagged = true;
        run.fail("alloc:DtlsTransport(task)", case, &format!("{} bytes allocated after {} datagrams / {} bytes injected into this session (limit {lim})", s.cum_alloc, s.n_in, s.cum_in));
    }
}

pub struct End {
    pub t: Arc<DtlsTransport>,
    runner: Option<JoinHandle<()>>,
    pump: Option<JoinHandle<()>>,
    pub addr: SocketAddr,
    _keep: tokio::sync::watch::Sender<Option<IceSocketWrapper>>,
}

pub struct Session {
    _sink: Option<Arc<tokio::net::UdpSocket>>,
    rt: tokio::runtime::Runtime,
    pub ends: Vec<End>,
    /// datagrams seen on the wire, labelled with the index of the endpoint that RECEIVED them (0 = delivered to ends[0] = the client)
    pub wire: Arc<parking_lot::Mutex<Vec<(usize, Vec<u8>)>>>,
    /// remaining datagrams the pumps may still deliver (usize::MAX = unlimited)
    gate: Arc<AtomicUsize>,
    cum_alloc: u64, cum_in: u64, n_in: u64, alloc_flagged: bool,
}

async fn mk_end(is_client: bool, sock: Arc<tokio::net::UdpSocket>, remote: SocketAddr, idx: usize,
    wire: Arc<parking_lot::Mutex<Vec<(usize, Vec<u8>)>>>, gate: Arc<AtomicUsize>) -> End {
    let addr = sock.local_addr().unwrap();
    let (tx, rx) = tokio::sync::watch::channel(Some(IceSocketWrapper::Udp(sock.clone())));
    let conn = IceConn::new(rx, remote, None);
    let cert = generate_certificate().expect("certificate");
    let (t, _incoming, runner) = DtlsTransport::new(conn, cert, is_client, 2048, None).await.expect("dtls transport");
    std::mem::forget(_incoming);
    let runner = tokio::spawn(runner);
    let t2 = t.clone();
    let pump = tokio::spawn(async move {
        let mut buf = vec![0u8; 65536];
        let mut mb = Vec::new();
        loop {
            let Ok((n, from)) = sock.recv_from(&mut buf).await else { break };
            wire.lock().push((idx, buf[..n].to_vec()));
            let g = gate.load(Ordering::SeqCst);
            if g == 0 { continue; }
            if g != usize::MAX { gate.store(g - 1, Ordering::SeqCst); }
            t2.receive(Bytes::copy_from_slice(&buf[..n]), from, &mut mb).await;
        }
    });
    End { t, runner: Some(runner), pump: Some(pump), addr, _keep: tx }
}

impl Session {
    /// `pair`: a real client (ends[0]) and server (ends[1]); otherwise one lone endpoint talking to a sink socket.
    pub fn new(pair: bool, lone_is_client: bool, gate: usize) -> Self {
        let rt = tokio::runtime::Builder::new_current_thread().enable_all().build().unwrap();
        let wire = Arc::new(parking_lot::Mutex::new(vec![]));
        let gate = Arc::new(AtomicUsize::new(gate));
        let mut sink = None;
        let ends = rt.block_on(async {
            let a = Arc::new(tokio::net::UdpSocket::bind("127.0.0.1:0").await.unwrap());
            let b = Arc::new(tokio::net::UdpSocket::bind("127.0.0.1:0").await.unwrap());
            let (aa, ba) = (a.local_addr().unwrap(), b.local_addr().unwrap());
            if pair {
                let srv = mk_end(false, b, aa, 1, wire.clone(), gate.clone()).await;
                let cli = mk_end(true, a, ba, 0, wire.clone(), gate.clone()).await;
                vec![cli, srv]
            } else {
                sink = Some(b.clone()); // sink: keeps the port open for the session's lifetime, replies are never read
                vec![mk_end(lone_is_client, a, ba, 0, wire.clone(), gate.clone()).await]
            }
        });
        Session { _sink: sink, rt, ends, wire, gate, cum_alloc: 0, cum_in: 0, n_in: 0, alloc_flagged: false }
    }
    pub fn step(&self, ms: u64) { self.rt.block_on(async { tokio::time::sleep(Duration::from_millis(ms)).await }); }
    pub fn connected(&self) -> bool {
        self.ends.iter().all(|e| matches!(*e.t.subscribe_state().borrow(), DtlsState::Connected(..)))
    }
    pub fn wait_connected(&self, max_ms: u64) -> bool {
        let mut t = 0;
        while t < max_ms { if self.connected() { return true; } self.step(5); t += 5; }
        self.connected()
    }
    pub fn state_text(&self) -> String {
        self.ends.iter().map(|e| match &*e.t.subscribe_state().borrow() { DtlsState::New => "new", DtlsState::Handshaking => "hs",
            DtlsState::Connected(..) => "conn", DtlsState::Failed => "failed", DtlsState::Closed => "closed" }).collect::<Vec<_>>().join("/")
    }
    /// hand one datagram to endpoint `i`, let the tasks run, re-raise a task panic
    fn inject(&mut self, i: usize, pkt: &[u8]) { self.inject_us(i, pkt, 300) }
    fn inject_us(&mut self, i: usize, pkt: &[u8], settle_us: u64) {
        let t = self.ends[i].t.clone();
        let from = self.ends[i].addr;
        let p = Bytes::copy_from_slice(pkt);
        self.rt.block_on(async move {
            let mut mb = Vec::new(); t.receive(p, from, &mut mb).await;
            if settle_us > 0 { tokio::time::sleep(Duration::from_micros(settle_us)).await; } else { for _ in 0..8 { tokio::task::yield_now().await; } }
        });
        for e in self.ends.iter_mut() {
            for h in [&mut e.runner, &mut e.pump] {
                if h.as_ref().map_or(false, |x| x.is_finished()) {
                    let jh = h.take().unwrap();
                    if let Err(err) = self.rt.block_on(jh) { if err.is_panic() { std::panic::resume_unwind(err.into_panic()); } }
                }
            }
        }
    }
}

/// like `run_inject` but without the settle sleep (floods): the tasks run while the channel is drained by yields
pub fn run_inject_fast(run: &mut Run, s: &mut Session, state: &str, i: usize, pkt: &[u8]) {
    let p = pkt.to_vec();
    let mut sref = std::panic::AssertUnwindSafe(&mut *s);
    exec(run, "dtlslive", &format!("{state} {i} {}", hex(pkt)), "DtlsTransport(task)", true, LIVE_BOUND.map(|(a, b)| (a, b, pkt.len() as u64)), move || { sref.inject_us(i, &p, 0); "noncompared".into() });
    session_alloc_check(run, s, &format!("dtlslive {state} {i} {}", hex(pkt)), pkt.len());
    run.count(&format!("dtlslive:state:{state}"));
}

pub fn run_inject(run: &mut Run, s: &mut Session, state: &str, i: usize, pkt: &[u8], nt: bool) {
    let p = pkt.to_vec();
    let mut sref = std::panic::AssertUnwindSafe(&mut *s);
    exec(run, "dtlslive", &format!("{state} {i} {}", hex(pkt)), "DtlsTransport(task)", nt, LIVE_BOUND.map(|(a, b)| (a, b, pkt.len() as u64)), move || { sref.inject(i, &p); "noncompared".into() });
    session_alloc_check(run, s, &format!("dtlslive {state} {i} {}", hex(pkt)), pkt.len());
    run.count(&format!("dtlslive:state:{state}"));
}

fn variants(rng: &mut Rng, base: &[Vec<u8>], n: usize) -> Vec<Vec<u8>> {
    let mut out = vec![];
    for _ in 0..n {
        let v = match rng.below(6) {
            0 | 1 if !base.is_empty() => { let b = rng.pick(base).clone(); let ms = super::mutations(&b, rng, 30); if ms.is_empty() { b } else { rng.pick(&ms).clone() } }
            2 if !base.is_empty() => { let b = rng.pick(base).clone(); let k = rng.below(b.len() as u64 + 1) as usize; b[..k].to_vec() }
            3 => super::dtls::gen_records(rng),
            4 => { // handshake record with a single (possibly fragmented / oversized-total) message
                let body = super::dtls::gen_handshake_msgs(rng);
                let mut r = vec![22u8, 254, 253, 0, 0]; r.extend_from_slice(&rng.below(1 << 48).to_be_bytes()[2..]);
                r.extend_from_slice(&(body.len() as u16).to_be_bytes()); r.extend(body);
                if rng.chance(1, 3) && r.len() > 17 { r[14] = 0xFF; r[15] = 0xFF; r[16] = 0xFF; }   // total_length = 2^24-1
                r }
            _ => { let n = rng.range(1, 80) as usize; let mut v = rng.bytes(n); v[0] = *rng.pick(&[20u8, 21, 22, 23, 24, 25]); v }
        };
        out.push(v);
    }
    out
}

/// one datagram into a FRESH lone endpoint (the hello handlers parse their message only once per handshake)
fn probe_fresh(run: &mut Run, is_client: bool, state: &str, pkt: &[u8]) {
    let mut s = Session::new(false, is_client, usize::MAX);
    s.step(1);
    run_inject(run, &mut s, state, 0, pkt, true);
    s.step(1);
    run_inject(run, &mut s, state, 0, &[22, 254, 253, 0, 0], true);   // liveness probe: a short record must still be taken
}

/// Counter floods: a lone endpoint gets the genuine first flight of its peer (`prelude`, taken from the reference
/// handshake: for a server the ClientHello), then ≈ 65 700 in-order handshake messages of one type with an empty body.
/// Drives every 16-bit handshake counter (`recv_message_seq`, and the send-side `message_seq` through handlers that
/// answer each message) to its limit on an endpoint that has authenticated nothing.
fn type_flood(run: &mut Run, is_client: bool, prelude: &[Vec<u8>], typ: u8, start_seq: u32) {
    use rustrtc::transports::dtls::handshake::HandshakeType as T;
    let Ok(t) = T::try_from(typ) else { return };
    let st = format!("flood-{}-t{typ}", if is_client { "client" } else { "server" });
    let mut s = Session::new(false, is_client, usize::MAX);
    s.step(1);
    for p in prelude { run_inject(run, &mut s, &st, 0, p, true); }
    let mut seq: u32 = start_seq;
    let mut rec = 1u64;
    while seq < 65_536 + 300 {
        let msgs: Vec<(T, u16, Vec<u8>)> = (0..100).map(|i| (t, (seq + i) as u16, vec![])).collect();
        seq += 100;
        let d = super::dtls::handshake_record(&msgs, rec); rec += 1;
        run_inject_fast(run, &mut s, &st, 0, &d);
        if run.fails.iter().any(|f| f.case.starts_with(&format!("dtlslive {st}"))) { break; }
    }
    run_inject(run, &mut s, &st, 0, &[22, 254, 253, 0, 0], true);
    run.count(&format!("dtlslive:end_state:{st}:{}", s.state_text()));
}

/// 70 000 ChangeCipherSpec records (100 per datagram) to a lone endpoint: `read_epoch` must saturate, not overflow
fn ccs_flood(run: &mut Run, is_client: bool) {
    let st = if is_client { "flood-ccs-client" } else { "flood-ccs-server" };
    let mut s = Session::new(false, is_client, usize::MAX);
    s.step(1);
    for k in 0..700u64 {
        let mut d = vec![];
        for j in 0..100u64 { d.extend_from_slice(&[20, 254, 253, 0, 0]); d.extend_from_slice(&(k * 100 + j).to_be_bytes()[2..]); d.extend_from_slice(&[0, 1, 1]); }
        run_inject_fast(run, &mut s, st, 0, &d);
        if run.fails.iter().any(|f| f.case.starts_with(&format!("dtlslive {st}"))) { break; }
    }
    run_inject(run, &mut s, st, 0, &[22, 254, 253, 0, 0], true);
    run.count(&format!("dtlslive:end_state:{st}:{}", s.state_text()));
}

/// 66 000 HelloVerifyRequests (message_seq 0 each time — the client re-synchronises after every HVR) to a lone client:
/// every one makes the client send a fresh ClientHello and advance its own 16-bit `message_seq`
fn hvr_flood(run: &mut Run) {
    use rustrtc::transports::dtls::handshake::HandshakeType as T;
    let mut s = Session::new(false, true, usize::MAX);
    s.step(1);
    let hvr = vec![254u8, 255, 4, 1, 2, 3, 4];
    for rec in 0..1100u64 {
        let msgs: Vec<(T, u16, Vec<u8>)> = (0..60).map(|_| (T::HelloVerifyRequest, 0u16, hvr.clone())).collect();
        let d = super::dtls::handshake_record(&msgs, rec);
        run_inject(run, &mut s, "flood-hvr", 0, &d, true);
        if run.fails.iter().any(|f| f.case.starts_with("dtlslive flood-hvr")) { break; }
    }
    run.count(&format!("dtlslive:end_state:flood-hvr:{}", s.state_text()));
}

// ---------------------------------------------------------------------------------------------
// `dtlsctx` (COMPARED): the acceptance / reassembly bookkeeping of `process_handshake_payload` observed through the
// context snapshots the run loop publishes (hook `verif_hooks::decoders::hs_ctx`). Message types are restricted to those
// whose handler is a no-op for the endpoint's role, so that what is observed is the bookkeeping itself.
fn ctx_wait(id: usize, after: u64, s: &Session) -> Option<(u64, [u64; 7])> {
    for _ in 0..200 {
        if let Some((k, v)) = rustrtc::verif_hooks::decoders::hs_ctx(id) { if k > after { return Some((k, v)); } }
        s.step(1);
    }
    None
}
fn gen_ctx_payload(rng: &mut Rng, is_client: bool, expect: u16, pending: &mut Option<(u8, u16, u32, u32)>) -> Vec<u8> {
    use rustrtc::transports::dtls::handshake::{HandshakeMessage, HandshakeType as T};
    let types: &[u8] = if is_client { &[0, 1, 13, 15, 16] } else { &[0, 2, 3, 12, 13, 14, 15] };
    let mut out = bytes::BytesMut::new();
    let mut exp = expect;
    for _ in 0..rng.range(1, 4) {
        let t = *rng.pick(types);
        let seq = match rng.below(10) { 0 => exp.wrapping_add(1), 1 => exp.wrapping_sub(1), 2 => rng.next() as u16, _ => exp };
        // continue a pending fragmented message, start one, or send a whole message
        let (typ, seq, total, off, len) = if let (Some((pt, ps, ptotal, pfilled)), true) = (*pending, rng.chance(3, 4)) {
            let remaining = ptotal.saturating_sub(pfilled);
            let len = (match rng.below(6) { 0 => remaining + 1, 1 => 0, _ => rng.range(1, remaining.max(1) as u64) as u32 }).min(400);
            // at the end of the buffer, beyond it, at 0, or overlapping the bytes already held
            let off = match rng.below(10) { 0 => pfilled + 1, 1 => 0, 2 | 3 => rng.below(pfilled as u64 + 1) as u32, _ => pfilled };
            (pt, ps, ptotal, off, len)
        } else {
            match rng.below(10) {
                0..=5 => { let l = rng.below(30) as u32; (t, seq, l, 0, l) }
                6 | 7 => { let total = rng.range(2, 60) as u32; (t, seq, total, 0, rng.range(0, total as u64 - 1) as u32) }
                8 => (t, seq, *rng.pick(&[0xFF_FFFFu32, 0x10000, 70]), *rng.pick(&[0u32, 5]), rng.below(20) as u32),
                _ => { let l = rng.below(20) as u32; (t, seq, l + 1, 0, l) }
            }
        };
        let Ok(ht) = T::try_from(typ) else { continue };
        let body = rng.bytes(len as usize);
        let start = out.len();
        HandshakeMessage { msg_type: ht, total_length: total, message_seq: seq, fragment_offset: off, fragment_length: len, body: bytes::Bytes::from(body) }.encode(&mut out);
        let tl = total.to_be_bytes(); out[start + 1..start + 4].copy_from_slice(&tl[1..]);      // encode() writes body.len() as total
        // harness-side guess of what stays pending (only steers the generator; the comparison does not depend on it)
        if total != len && seq == exp { if off == 0 && len < total { *pending = Some((typ, seq, total, len)); } else if let Some((a, b, c, f)) = *pending { if off <= f && off + len > f { if off + len >= c { *pending = None; exp = exp.wrapping_add(1); } else { *pending = Some((a, b, c, off + len)); } } } }
        else if total == len && seq == exp { exp = exp.wrapping_add(1); *pending = None; }
    }
    if rng.chance(1, 8) { let n = out.len(); out.truncate(rng.below(n as u64 + 1) as usize); }
    if rng.chance(1, 10) { out.extend_from_slice(&rng.bytes(5)); }
    out.truncate(60_000);                                   // one record (16-bit length)
    out.to_vec()
}
pub fn run_dtlsctx(run: &mut Run, rng: &mut Rng, is_client: bool, replay: Option<Vec<Vec<u8>>>) {
    let mut s = Session::new(false, is_client, usize::MAX);
    s.step(1);
    let id = s.ends[0].t.verif_instance_id();
    rustrtc::verif_hooks::decoders::hs_ctx_clear(id);
    let record_ct = |ct: u8, epoch: u16, payload: &[u8], seq: u64| -> Vec<u8> {
        let mut r = vec![ct, 254, 253]; r.extend_from_slice(&epoch.to_be_bytes()); r.extend_from_slice(&seq.to_be_bytes()[2..]); r.extend_from_slice(&(payload.len() as u16).to_be_bytes()); r.extend_from_slice(payload); r };
    let record = |payload: &[u8], seq: u64| -> Vec<u8> {
        let mut r = vec![22u8, 254, 253, 0, 0]; r.extend_from_slice(&seq.to_be_bytes()[2..]); r.extend_from_slice(&(payload.len() as u16).to_be_bytes()); r.extend_from_slice(payload); r };
    // baseline (the client has already sent its ClientHello: message_seq 1, transcript non-empty)
    run_inject(run, &mut s, "ctx", 0, &record(&[], 0), false);
    let Some((mut k, base)) = ctx_wait(id, 0, &s) else { run.count("dtlsctx:no_baseline"); return };
    let n = replay.as_ref().map_or(rng.range(2, 8) as usize, |r| r.len());
    let mut payloads = vec![]; let mut outs = vec![];
    let mut expect = base[0] as u16; let mut pending = None;
    for i in 0..n {
        let p = match &replay { Some(r) => r[i].clone(), None => {
            // a datagram = 1..3 records: handshake payloads, interleaved with CCS / alerts (1 or 2 bytes, never
            // close_notify) / epoch-0 application data / heartbeat / a protected-epoch record (ends the walk) / garbage
            let mut d = vec![];
            for j in 0..rng.range(1, 3) {
                match rng.below(12) {
                    0 => d.extend(record_ct(20, 0, &[1], j)), 1 => d.extend(record_ct(21, 0, &[2], j)), 2 => d.extend(record_ct(21, 0, &[2, rng.range(1, 255) as u8], j)),
                    3 => { let n = rng.below(9) as usize; d.extend(record_ct(23, 0, &rng.bytes(n), j)) } 4 => d.extend(record_ct(24, 0, &[1, 2, 3], j)),
                    5 => { let n = rng.below(30) as usize; d.extend(record_ct(*rng.pick(&[22u8, 23, 21]), rng.range(1, 3) as u16, &rng.bytes(n), j)) }
                    6 => { let n = rng.below(16) as usize; d.extend(rng.bytes(n)) }
                    _ => { let pl = gen_ctx_payload(rng, is_client, expect, &mut pending); d.extend(record_ct(22, 0, &pl, j)) }
                }
            }
            d } };
        run_inject(run, &mut s, "ctx", 0, &p, false);
        let Some((k2, v)) = ctx_wait(id, k, &s) else {
            // the run loop did not finish this datagram: it is dead (panicked task) or stuck
            run.fail("dead:DtlsTransport(run loop):no-snapshot", &format!("dtlsctx {} {} {}", is_client as u8, base[1], payloads.iter().chain(std::iter::once(&p)).map(|p| hex(p)).collect::<Vec<_>>().join(" ")), "no handshake-context snapshot within the deadline after this datagram");
            return };
        k = k2; expect = v[0] as u16;
        outs.push(format!("{},{},{},{},{},{},{}", v[0], v[1], v[2], v[3], v[4] - base[4], v[5], v[6]));
        payloads.push(p);
    }
    let text = format!("{} {} {}", is_client as u8, base[1], payloads.iter().map(|p| hex(p)).collect::<Vec<_>>().join(" "));
    let out = format!("ok {}", outs.join(" "));
    exec(run, "dtlsctx", &text, "DtlsTransport::process_handshake_payload", true, None, move || out);
    rustrtc::verif_hooks::decoders::hs_ctx_clear(id);
}

pub fn special(run: &mut Run, rng: &mut Rng, thorough: bool) {
    let per = if thorough { 3_000 } else { 150 };
    for i in 0..(if thorough { 6_000 } else { 400 }) { run_dtlsctx(run, rng, i % 4 == 3, None); }
    // the 16-bit receive counter driven to its end: 660 datagrams of 100 in-order empty HelloRequests (a no-op for either role),
    // then more — `checked_add` fails, the error flag is set and the counter stays
    for is_client in [false, true] {
        use rustrtc::transports::dtls::handshake::{HandshakeMessage, HandshakeType as T};
        let s0 = Session::new(false, is_client, usize::MAX); s0.step(1);
        drop(s0);
        let start: u32 = if is_client { 0 } else { 0 };
        let dgrams: Vec<Vec<u8>> = (0..660u32).map(|d| { let mut pl = bytes::BytesMut::new();
            for j in 0..100u32 { HandshakeMessage { msg_type: T::HelloRequest, total_length: 0, message_seq: (start + d * 100 + j) as u16, fragment_offset: 0, fragment_length: 0, body: bytes::Bytes::new() }.encode(&mut pl); }
            let mut r = vec![22u8, 254, 253, 0, 0]; r.extend_from_slice(&(d as u64).to_be_bytes()[2..]); r.extend_from_slice(&(pl.len() as u16).to_be_bytes()); r.extend_from_slice(&pl); r }).collect();
        run_dtlsctx(run, rng, is_client, Some(dgrams));
    }
    hvr_flood(run);
    ccs_flood(run, false);
    if thorough { ccs_flood(run, true); }
    {
        use rustrtc::transports::dtls::handshake::HandshakeType as T;
        for _ in 0..(if thorough { 2_000 } else { 120 }) {
            // server: ClientHello with hostile extensions reaches `handle_client_hello`'s extension walk
            let ch = super::dtls::hostile_client_hello(rng);
            probe_fresh(run, false, "fresh-server", &super::dtls::handshake_record(&[(T::ClientHello, 0, ch)], 0));
            // client: ServerHello (+ Certificate, ServerKeyExchange, ServerHelloDone in the same flight)
            let sh = super::dtls::hostile_server_hello(rng);
            let mut flight = vec![(T::ServerHello, 0u16, sh)];
            if rng.chance(1, 2) { flight.push((T::Certificate, 1, super::dtls::gen_cert_pub(rng))); }
            if rng.chance(1, 2) { flight.push((T::ServerKeyExchange, flight.len() as u16, super::dtls::gen_ske_pub(rng))); }
            if rng.chance(1, 2) { flight.push((T::ServerHelloDone, flight.len() as u16, vec![])); }
            probe_fresh(run, true, "fresh-client", &super::dtls::handshake_record(&flight, 0));
        }
    }
    // a reference handshake: collects genuine flights for mutation and checks the pair really connects
    let reference = Session::new(true, false, usize::MAX);
    let ok = reference.wait_connected(4000);
    run.count(if ok { "dtlslive:reference_handshake_connected" } else { "dtlslive:reference_handshake_NOT_connected" });
    let wire: Vec<(usize, Vec<u8>)> = reference.wire.lock().clone();
    let to_server: Vec<Vec<u8>> = wire.iter().filter(|(d, _)| *d == 1).map(|(_, p)| p.clone()).collect();
    let to_client: Vec<Vec<u8>> = wire.iter().filter(|(d, _)| *d == 0).map(|(_, p)| p.clone()).collect();
    // direction self-check: the first datagram a server receives is a ClientHello (handshake type 1), a client's a type 2/3
    let hs_type = |p: &Vec<u8>| if p.len() > 13 && p[0] == 22 { p[13] } else { 255 };
    assert_eq!(to_server.first().map(hs_type), Some(1), "to_server must start with a ClientHello");
    assert!(matches!(to_client.first().map(hs_type), Some(2) | Some(3)), "to_client must start with ServerHello/HelloVerifyRequest");
    drop(reference);
    // counter floods, every handshake message type, both roles (server after the genuine ClientHello)
    let types: &[u8] = if thorough { &[0, 1, 2, 3, 11, 12, 13, 14, 15, 16, 20] } else { &[0, 2, 3, 11, 12, 14, 16, 20] };
    let ch: Vec<Vec<u8>> = to_server.iter().take(1).cloned().collect();
    for &t in types {
        type_flood(run, false, &ch, t, 1);
        type_flood(run, false, &[], t, 0);
        type_flood(run, true, &[], t, 0);
    }
    // pre-handshake: lone server, lone client
    for (is_client, base) in [(false, &to_server), (true, &to_client)] {
        let mut s = Session::new(false, is_client, usize::MAX);
        s.step(2);
        let st = if is_client { "pre-client" } else { "pre-server" };
        for v in variants(rng, base, per) { run_inject(run, &mut s, st, 0, &v, true); }
        // genuine first flight replayed twice, then more garbage
        for b in base.iter().take(2) { run_inject(run, &mut s, st, 0, b, true); run_inject(run, &mut s, st, 0, b, true); }
        for v in variants(rng, base, per / 2) { run_inject(run, &mut s, st, 0, &v, true); }
        run.count(&format!("dtlslive:end_state:{st}:{}", s.state_text()));
    }
    // mid-handshake: cut the pair's traffic after k datagrams
    for k in [1usize, 2, 3, 4, 5] {
        let mut s = Session::new(true, false, k);
        s.step(30);
        let st = format!("mid{k}");
        for j in 0..per / 2 { let tgt = j % 2; let vs = variants(rng, if tgt == 1 { &to_server } else { &to_client }, 1); run_inject(run, &mut s, &st, tgt, &vs[0], true); }
        run.count(&format!("dtlslive:end_state:{st}:{}", s.state_text()));
    }
    // established, then closing
    let mut s = Session::new(true, false, usize::MAX);
    let ok = s.wait_connected(4000);
    run.count(if ok { "dtlslive:established_reached" } else { "dtlslive:established_NOT_reached" });
    // this session's OWN datagrams (other randoms and keys than the reference session): re-injected verbatim its protected records
    // (client Finished, server CCS + Finished) authenticate under the session keys — the decrypt → `handle_decrypted_record(authenticated)`
    // path incl. the duplicate-Finished resend runs; mutated they fail authentication. Hostile PLAINTEXT under the session keys is not generated.
    let own: Vec<(usize, Vec<u8>)> = s.wire.lock().clone();
    let own_to_server: Vec<Vec<u8>> = own.iter().filter(|(d, _)| *d == 1).map(|(_, p)| p.clone()).collect();
    let own_to_client: Vec<Vec<u8>> = own.iter().filter(|(d, _)| *d == 0).map(|(_, p)| p.clone()).collect();
    for j in 0..per {
        let tgt = j % 2;
        let pool = match (tgt, j % 4 < 2) { (1, true) => &own_to_server, (_, true) => &own_to_client, (1, false) => &to_server, _ => &to_client };
        if pool.is_empty() { continue; }
        let pkt = if j % 8 < 2 { rng.pick(pool).clone() } else { variants(rng, pool, 1)[0].clone() };
        run_inject(run, &mut s, "established", tgt, &pkt, true);
    }
    run.count(&format!("dtlslive:end_state:established:{}", s.state_text()));
    s.ends[0].t.close();
    s.step(2);
    for j in 0..per / 2 { let tgt = j % 2; let vs = variants(rng, if tgt == 1 { &to_server } else { &to_client }, 1); run_inject(run, &mut s, "closing", tgt, &vs[0], true); }
    run.count(&format!("dtlslive:end_state:closing:{}", s.state_text()));
}

pub fn replay_special(run: &mut Run, stream: &str, a: &[&str]) -> bool {
    if stream == "dtlsctx" && a.len() >= 2 { let mut rng = Rng::new(1); run_dtlsctx(run, &mut rng, a[0] == "1", Some(a[2..].iter().map(|h| unhex(h)).collect())); return true; }
    if stream != "dtlslive" || a.len() != 3 { return false; }
    let state = a[0]; let i: usize = a[1].parse().unwrap_or(0);
    let mut s = match state {
        "flood-hvr" => { let mut r2 = Run::new("c07", &crate::scratch("c07-replay-flood")); hvr_flood(&mut r2);
            for f in &r2.fails { run.fails.push(f.clone()); } let _ = std::fs::remove_dir_all(crate::scratch("c07-replay-flood")); return true; }
        "flood-ccs-server" | "flood-ccs-client" => { let mut r2 = Run::new("c07", &crate::scratch("c07-replay-flood")); ccs_flood(&mut r2, state.ends_with("client"));
            for f in &r2.fails { run.fails.push(f.clone()); } let _ = std::fs::remove_dir_all(crate::scratch("c07-replay-flood")); return true; }
        st if st.starts_with("flood-server-t") || st.starts_with("flood-client-t") => {
            // the flood is the witness (the single datagram of the case line does not reproduce accumulated state):
            // replay the whole flood of that type; server floods run with a genuine ClientHello captured from a reference handshake
            let is_client = st.starts_with("flood-client");
            let typ: u8 = st.rsplit('t').next().and_then(|x| x.parse().ok()).unwrap_or(14);
            let mut r2 = Run::new("c07", &crate::scratch("c07-replay-flood"));
            let prelude: Vec<Vec<u8>> = if is_client { vec![] } else {
                let r = Session::new(true, false, usize::MAX); r.wait_connected(4000);
                let w = r.wire.lock().clone(); w.iter().filter(|(d, _)| *d == 1).take(1).map(|(_, p)| p.clone()).collect() };
            type_flood(&mut r2, is_client, &prelude, typ, if is_client { 0 } else { 1 });
            for f in &r2.fails { run.fails.push(f.clone()); } let _ = std::fs::remove_dir_all(crate::scratch("c07-replay-flood")); return true; }
        "pre-server" | "fresh-server" => { let s = Session::new(false, false, usize::MAX); s.step(1); s }
        "pre-client" | "fresh-client" => { let s = Session::new(false, true, usize::MAX); s.step(1); s }
        st if st.starts_with("mid") => { let s = Session::new(true, false, st[3..].parse().unwrap_or(1)); s.step(30); s }
        _ => { let s = Session::new(true, false, usize::MAX); s.wait_connected(4000); if state == "closing" { s.ends[0].t.close(); s.step(2); } s }
    };
    let i = i.min(s.ends.len() - 1);
    run_inject(run, &mut s, state, i, &unhex(a[2]), true);
    true
}
