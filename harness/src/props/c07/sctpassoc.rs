//! C07 — SCTP packet HISTORIES on a real association (`SctpTransport::new_verif_link`, packets handed to
//! `SctpInner::handle_packet` through `verif_handle_packet`, replies captured by the `verif_hooks::sctp` trace, state
//! read with `verif_snapshot`). The harness plays the remote endpoint: it completes the four-way handshake (server
//! role: INIT → INIT-ACK → COOKIE-ECHO → COOKIE-ACK; client role: the endpoint's own INIT is answered with a hostile
//! INIT-ACK) and then sends structurally valid chunk streams whose TSNs are chosen relative to the association's
//! current cumulative TSN (next-in-order, gaps, duplicates, half-space, wrap-around), DCEP OPEN/ACK, fragments,
//! SACK / FORWARD-TSN / RE-CONFIG / HEARTBEAT / SHUTDOWN / stray handshake chunks and framed truncations.
//! Compared with the stateful Lean model (`RtcModel/C07SctpSt.lean`), per packet: control chunks sent in reply
//! (type + echoed values), data channels created (decoded DCEP fields), handler error, then
//! `cumulative_tsn_ack, |received_queue|, peer_rwnd`.
use super::exec;
use crate::{Rng, Run, hex, unhex};
use bytes::Bytes;
use rustrtc::transports::datachannel::{DataChannel, DataChannelOpen};
use rustrtc::transports::sctp::SctpTransport;
use rustrtc::verif_hooks::sctp as hk;
use std::sync::Arc;
use std::sync::atomic::{AtomicU16, Ordering};

static NEXT_PORT: AtomicU16 = AtomicU16::new(20000);

pub struct Assoc {
    rt: tokio::runtime::Runtime,
    sctp: Arc<SctpTransport>,
    port: u16,
    chan_rx: tokio::sync::mpsc::UnboundedReceiver<Arc<DataChannel>>,
    held: Vec<Arc<DataChannel>>,
    _out_rx: tokio::sync::mpsc::UnboundedReceiver<Bytes>,
    _in_tx: tokio::sync::mpsc::UnboundedSender<Bytes>,
    alloc_fail: Option<String>,
    alloc_max_x100: u64,
    pub last_sent: Vec<u64>,
    seed_tsn: u32,
}

fn fold(b: &[u8]) -> u64 { b.iter().fold(7u64, |a, x| (a * 31 + *x as u64) % 4294967296) }

impl Assoc {
    pub fn new(is_client: bool, seed_tsn: u32) -> Self {
        let rt = tokio::runtime::Builder::new_current_thread().enable_all().build().unwrap();
        let port = NEXT_PORT.fetch_add(1, Ordering::SeqCst);
        hk::clear(port);
        hk::set_seeds(port, hk::Seeds { tag: Some(0x1122_3344), tsn: Some(seed_tsn) });
        hk::trace_enable(port);
        let (sctp, chan_rx, out_rx, in_tx) = rt.block_on(async {
            let (_tx, rx) = tokio::sync::watch::channel::<Option<rustrtc::transports::ice::IceSocketWrapper>>(None);
            let conn = rustrtc::transports::ice::conn::IceConn::new(rx, "127.0.0.1:9".parse().unwrap(), None);
            let cert = rustrtc::transports::dtls::generate_certificate().expect("certificate");
            let (dtls, _incoming, _runner) = rustrtc::transports::dtls::DtlsTransport::new(conn, cert, is_client, 2048, None).await.expect("dtls");
            let (in_tx, in_rx) = tokio::sync::mpsc::unbounded_channel::<Bytes>();
            let (out_tx, out_rx) = tokio::sync::mpsc::unbounded_channel::<Bytes>();
            let (dc_tx, dc_rx) = tokio::sync::mpsc::unbounded_channel::<Arc<DataChannel>>();
            let (sctp, _run) = SctpTransport::new_verif_link(dtls, in_rx, out_tx, Arc::new(parking_lot::Mutex::new(Vec::new())), port, 5000, Some(dc_tx), is_client,
                &rustrtc::RtcConfiguration::default());
            (sctp, dc_rx, out_rx, in_tx)
        });
        let mut a = Assoc { rt, sctp, port, chan_rx, held: vec![], _out_rx: out_rx, _in_tx: in_tx, alloc_fail: None, alloc_max_x100: 0, last_sent: vec![], seed_tsn };
        if is_client { let s = a.sctp.clone(); let _ = a.rt.block_on(async move { s.verif_send_init().await }); let _ = hk::trace_take(port); a.drain_out(); }
        a
    }
    fn drain_out(&mut self) { while self._out_rx.try_recv().is_ok() {} }
    pub fn cum(&self) -> u32 { self.sctp.verif_snapshot().cumulative_tsn_ack }

    /// one packet; returns (digest text, cookies issued in INIT-ACK replies)
    pub fn feed(&mut self, pkt: &[u8]) -> (String, Vec<Vec<u8>>) {
        // a seed is consumed by the first choice it replaces: re-arm it so that EVERY non-duplicate INIT of the history draws the seeded
        // initial TSN / tag (what the model assumes) instead of a random one
        hk::set_seeds(self.port, hk::Seeds { tag: Some(0x1122_3344), tsn: Some(self.seed_tsn) });
        let s = self.sctp.clone();
        let p = Bytes::copy_from_slice(pkt);
        let a0 = super::alloc_read();
        let r = self.rt.block_on(async move { s.verif_handle_packet(p).await });
        // allocation traffic of this one packet: ≤ 2·(64·len + 32 KiB) + 512 (amortised growth of the channel list; an INIT costs an INIT-ACK with cookie and HMAC, a DCEP OPEN a ≈ 2.6 KB channel + ACK)
        let used = super::alloc_read().saturating_sub(a0);
        let lim = 2 * (64 * pkt.len() as u64 + 32_768) + 512;
        self.alloc_max_x100 = self.alloc_max_x100.max(used * 100 / (64 * pkt.len() as u64 + 32_768));
        if used > lim && self.alloc_fail.is_none() { self.alloc_fail = Some(format!("{used} bytes allocated while handling a packet of {} bytes (limit {lim}): {}", pkt.len(), hex(pkt))); }
        self.drain_out();
        let mut ev: Vec<String> = vec![];
        let mut cookies = vec![];
        self.last_sent.clear();
        for e in hk::trace_take(self.port) {
            // per `transmit()` call (only `handle_sack` makes one inside `handle_packet`): the number of new DATA chunks it sent — each takes a TSN
            if let hk::Ev::Mark(name, v) = &e {
                if *name == "tx_window" { self.last_sent.push(0); }
                else if *name == "tx_new" { if let (Some(l), Some(n)) = (self.last_sent.last_mut(), v.get(1)) { *l = *n; } }
            }
            if let hk::Ev::Tx(b) = e {
                let mut off = 12;
                while off + 4 <= b.len() {
                    let (ct, cl) = (b[off], u16::from_be_bytes([b[off + 2], b[off + 3]]) as usize);
                    if cl < 4 || off + cl > b.len() { break; }
                    let v = &b[off + 4..off + cl];
                    match ct {
                        2 => { ev.push("2".into());
                            // State Cookie parameter of our INIT-ACK
                            let mut po = 16;
                            while po + 4 <= v.len() { let (pt, pl) = (u16::from_be_bytes([v[po], v[po + 1]]), u16::from_be_bytes([v[po + 2], v[po + 3]]) as usize);
                                if pl < 4 || po + pl > v.len() { break; }
                                if pt == 7 { cookies.push(v[po + 4..po + pl].to_vec()); }
                                po += (pl + 3) / 4 * 4; } }
                        10 => ev.push(format!("10,{},{}", fold(v), v.len())),
                        5 => ev.push(format!("5,{},{}", fold(v), v.len())),
                        11 => ev.push("11".into()),
                        8 => ev.push("8".into()),
                        130 => { if v.len() >= 12 && v[0] == 0 && v[1] == 16 { ev.push(format!("130,{},{}", u32::from_be_bytes([v[4], v[5], v[6], v[7]]), u32::from_be_bytes([v[8], v[9], v[10], v[11]]))); } else { ev.push("130,?".into()); } }
                        0 | 3 => {}                                        // DATA (DCEP ACK) / SACK: sender side, not compared
                        other => ev.push(format!("tx{other}")),
                    }
                    off += (cl + 3) / 4 * 4;
                }
            }
        }
        // replies are emitted in handler order; channel creation happens before the DCEP ACK (DATA, not compared)
        let mut created = vec![];
        while let Ok(dc) = self.chan_rx.try_recv() {
            created.push(format!("1000,{},{},{},{},{},{}", dc.id, dc.label.len(), dc.protocol.len(), dc.ordered as u8,
                dc.max_retransmits.map_or(0, |x| x as u64 + 1), dc.max_packet_life_time.map_or(0, |x| x as u64 + 1)));
            self.held.push(dc);
        }
        let snap = self.sctp.verif_snapshot();
        if std::env::var_os("C07_SCTP_DEBUG").is_some() { eprintln!("dbg port={} pkt={} view={:?} next_tsn={} sent={:?}", self.port, &hex(pkt)[..hex(pkt).len().min(60)], self.sctp.verif_sack_view(), snap.next_tsn, self.last_sent); }
        let mut parts = ev;                                  // control replies and channel creations interleave in handler order:
        parts.extend(created);                               // the model emits them in one list; see `order_key` below
        if r.is_err() { parts.push("9999".into()); }
        parts.push(format!("{},{},{}", snap.cumulative_tsn_ack, snap.received_queue.len(), snap.peer_rwnd));
        (parts.join("/"), cookies)
    }
}
impl Drop for Assoc { fn drop(&mut self) { hk::clear(self.port); } }

// ---- packet construction (harness = remote endpoint)
fn crc_fix(p: &mut [u8]) { if p.len() >= 12 { p[8..12].copy_from_slice(&[0; 4]); let c = crc32c::crc32c(p); p[8..12].copy_from_slice(&c.to_le_bytes()); } }
fn chunk(out: &mut Vec<u8>, ct: u8, flags: u8, value: &[u8]) {
    out.push(ct); out.push(flags); out.extend_from_slice(&((4 + value.len()) as u16).to_be_bytes()); out.extend_from_slice(value);
    while out.len() % 4 != 0 { out.push(0); }
}
fn param(out: &mut Vec<u8>, pt: u16, value: &[u8]) {
    out.extend_from_slice(&pt.to_be_bytes()); out.extend_from_slice(&((4 + value.len()) as u16).to_be_bytes()); out.extend_from_slice(value);
    while out.len() % 4 != 0 { out.push(0); }
}
fn header(vtag: u32) -> Vec<u8> { let mut p = vec![0x13, 0x88, 0x13, 0x88]; p.extend_from_slice(&vtag.to_be_bytes()); p.extend_from_slice(&[0; 4]); p }
fn init_value(tag: u32, rwnd: u32, tsn: u32) -> Vec<u8> {
    let mut v = tag.to_be_bytes().to_vec(); v.extend_from_slice(&rwnd.to_be_bytes()); v.extend_from_slice(&[0, 10, 0, 10]); v.extend_from_slice(&tsn.to_be_bytes()); v
}
fn data_value(tsn: u32, sid: u16, ssn: u16, ppid: u32, body: &[u8]) -> Vec<u8> {
    let mut v = tsn.to_be_bytes().to_vec(); v.extend_from_slice(&sid.to_be_bytes()); v.extend_from_slice(&ssn.to_be_bytes()); v.extend_from_slice(&ppid.to_be_bytes()); v.extend_from_slice(body); v
}
fn gen_str(rng: &mut Rng, max: u64) -> String { (0..rng.range(0, max)).map(|_| (b'a' + rng.below(26) as u8) as char).collect() }
fn dcep_open(rng: &mut Rng) -> Vec<u8> {
    let mut b = DataChannelOpen { message_type: 3, channel_type: *rng.pick(&[0u8, 1, 2, 0x80, 0x81, 0x82, 3, 0x83]), priority: rng.next() as u16,
        reliability_parameter: *rng.pick(&[0u32, 5, 65535, 65536, 0xFFFF_FFFF]), label: gen_str(rng, 12), protocol: gen_str(rng, 6) }.marshal();
    match rng.below(8) { 0 => { let n = b.len(); b.truncate(rng.below(n as u64 + 1) as usize); } 1 => { if b.len() > 12 { b[12] = 0xFF; } } 2 => b.push(0x41), _ => {} }
    b
}

/// TSN relative to the association's cumulative TSN
fn pick_tsn(rng: &mut Rng, cum: u32) -> u32 {
    match rng.below(20) {
        0..=9 => cum.wrapping_add(1),
        10 | 11 => cum.wrapping_add(rng.range(2, 5) as u32),
        12 => cum, 13 => cum.wrapping_sub(rng.range(1, 3) as u32),
        14 => cum.wrapping_add(0x8000_0000), 15 => cum.wrapping_add(0x7FFF_FFFF), 16 => cum.wrapping_add(0x8000_0001),
        17 => *rng.pick(&[0u32, 1, 0x7FFF_FFFF, 0x8000_0000, 0xFFFF_FFFE, 0xFFFF_FFFF]),
        _ => rng.next() as u32,
    }
}

/// stream sequence numbers: small values (in order / small gaps) and the 16-bit boundaries
fn pick_ssn(rng: &mut Rng) -> u16 {
    match rng.below(8) { 0..=4 => rng.below(5) as u16, 5 => *rng.pick(&[0x7FFFu16, 0x8000, 0xFFFE, 0xFFFF]), 6 => 0xFFFF, _ => rng.next() as u16 }
}

fn gen_data_chunk(rng: &mut Rng, out: &mut Vec<u8>, tsn: u32) {
    let sid = rng.below(4) as u16;
    let (ppid, body) = match rng.below(6) {
        0 | 1 => (50u32, dcep_open(rng)), 2 => (50, if rng.chance(1, 2) { vec![2] } else { vec![] }), 3 => (50, vec![*rng.pick(&[0u8, 1, 4, 0xFF])]),
        _ => { let n = rng.below(24) as usize; (*rng.pick(&[51u32, 53, 0, 56]), rng.bytes(n)) }
    };
    let mut v = data_value(tsn, sid, pick_ssn(rng), ppid, &body);
    if rng.chance(1, 12) { let n = v.len(); v.truncate(rng.below(n as u64 + 1) as usize); }       // framed truncation (value < 12 bytes included)
    chunk(out, 0, rng.below(8) as u8, &v);
}

fn gen_packet(rng: &mut Rng, cum: u32, local_tsn: u32, cookies: &[Vec<u8>], req_sn: &mut u32, peer_tag: u32) -> Vec<u8> {
    let mut p = header(0x1122_3344);
    let mut next = cum;
    for _ in 0..rng.range(1, 3) {
        match rng.below(24) {
            0..=8 => { let t = if rng.chance(2, 3) { next = next.wrapping_add(1); next } else { pick_tsn(rng, cum) }; gen_data_chunk(rng, &mut p, t); }
            9 => { // a DCEP OPEN split into 2..3 fragments on consecutive TSNs (B … E), sometimes with a piece missing / repeated
                let open = dcep_open(rng); let sid = rng.below(4) as u16; let k = rng.range(2, 3) as usize;
                let cuts: Vec<usize> = (0..=k).map(|i| open.len() * i / k).collect();
                for i in 0..k {
                    if rng.chance(1, 8) { continue; }
                    next = next.wrapping_add(1);
                    let fl = (if i == 0 { 2 } else { 0 }) | (if i == k - 1 { 1 } else { 0 }) | (if rng.chance(1, 2) { 4 } else { 0 });
                    chunk(&mut p, 0, fl, &data_value(next, sid, 0, 50, &open[cuts[i]..cuts[i + 1]]));
                } }
            10 => { // out-of-order pair inside one packet, then the gap filler
                gen_data_chunk(rng, &mut p, cum.wrapping_add(2)); gen_data_chunk(rng, &mut p, cum.wrapping_add(3)); gen_data_chunk(rng, &mut p, cum.wrapping_add(1)); }
            11 | 12 => { // SACK: cumulative ack relative to the endpoint's own TSNs and on the 32-bit boundaries; gap offsets on the 16-bit boundaries
                let r = rng.next() as u32;
                let ca = match rng.below(10) { 0 | 1 => local_tsn.wrapping_sub(1), 2 => local_tsn, 3 => local_tsn.wrapping_add(rng.below(4) as u32), 4 => local_tsn.wrapping_sub(rng.range(2, 5) as u32),
                    5 | 6 => *rng.pick(&[0u32, 1, 0x7FFF_FFFF, 0x8000_0000, 0xFFFF_0000, 0xFFFF_FFF0, 0xFFFF_FFFE, 0xFFFF_FFFF]), 7 => 0xFFFF_FFFFu32.wrapping_sub(rng.below(12) as u32), _ => r };
                let mut v = ca.to_be_bytes().to_vec(); v.extend_from_slice(&(*rng.pick(&[0u32, 1500, 65536, 0xFFFF_FFFF])).to_be_bytes());
                let actual = rng.below(4) as u16; let claimed = *rng.pick(&[actual, actual, actual + 1, 0, 0xFFFF]);
                v.extend_from_slice(&claimed.to_be_bytes()); v.extend_from_slice(&(rng.below(2) as u16).to_be_bytes());
                for _ in 0..actual { for _ in 0..2 { let g = if rng.chance(1, 4) { *rng.pick(&[0u16, 1, 0x7FFF, 0x8000, 0xFFFE, 0xFFFF]) } else { rng.below(9) as u16 }; v.extend_from_slice(&g.to_be_bytes()); } }
                if rng.chance(1, 6) { let n = v.len(); v.truncate(rng.below(n as u64 + 1) as usize); }
                chunk(&mut p, 3, 0, &v); }
            13 | 14 => { let new = match rng.below(5) { 0 => cum, 1 => cum.wrapping_sub(1), 2 => cum.wrapping_add(0x8000_0000), _ => cum.wrapping_add(rng.range(1, 4) as u32) };
                let mut v = new.to_be_bytes().to_vec();
                if rng.chance(1, 3) {
                    // one stream walked up to the 16-bit boundary in serial-number steps (each step < 2^15)
                    let sid = rng.below(4) as u16;
                    for ssn in *rng.pick(&[&[0x7000u16, 0xE000, 0xFFFF][..], &[0x7FFF, 0xFFFE, 0xFFFF, 0], &[0x4000, 0x8000, 0xC000, 0xFFFF, 0x3FFF], &[0xFFFF]]) { v.extend_from_slice(&sid.to_be_bytes()); v.extend_from_slice(&ssn.to_be_bytes()); }
                } else { for _ in 0..rng.below(3) { v.extend_from_slice(&(rng.below(4) as u16).to_be_bytes()); v.extend_from_slice(&pick_ssn(rng).to_be_bytes()); } }
                if rng.chance(1, 5) { v.push(9); } if rng.chance(1, 8) { v.truncate(rng.below(4) as usize); }
                chunk(&mut p, 192, 0, &v); }
            15 | 16 => { let mut v = vec![];
                for _ in 0..rng.range(1, 2) { match rng.below(4) {
                    0 | 1 => { let sn = if rng.chance(2, 3) { *req_sn = req_sn.wrapping_add(1); *req_sn } else { *rng.pick(&[0u32, *req_sn, req_sn.wrapping_sub(1), 0xFFFF_FFFF]) };
                        let mut q = sn.to_be_bytes().to_vec(); q.extend_from_slice(&[0; 8]); for _ in 0..rng.below(3) { q.extend_from_slice(&(rng.below(4) as u16).to_be_bytes()); }
                        if rng.chance(1, 6) { q.push(1); } if rng.chance(1, 6) { let n = q.len(); q.truncate(rng.below(n as u64) as usize); }
                        param(&mut v, 13, &q); }
                    2 => { let n = *rng.pick(&[8usize, 8, 4, 0, 12]); param(&mut v, 16, &rng.bytes(n)); }
                    _ => { let n = rng.below(7) as usize; let t = rng.next() as u16; param(&mut v, t, &rng.bytes(n)); } } }
                chunk(&mut p, 130, 0, &v); }
            17 => { let n = rng.below(20) as usize; chunk(&mut p, 4, 0, &rng.bytes(n)); }
            18 => { let c = if !cookies.is_empty() && rng.chance(2, 3) { rng.pick(cookies).clone() } else { let n = rng.below(40) as usize; rng.bytes(n) };
                let mut c2 = c; if rng.chance(1, 4) && !c2.is_empty() { let k = rng.below(c2.len() as u64) as usize; c2[k] ^= 1; } chunk(&mut p, 10, 0, &c2); }
            19 => { let t = if rng.chance(1, 2) { peer_tag } else { rng.next() as u32 }; let v = init_value(t, *rng.pick(&[0u32, 4096, 1 << 20]), rng.next() as u32); chunk(&mut p, 1, 0, &v); }
            20 => { let mut v = init_value(rng.next() as u32, 9999, rng.next() as u32); param(&mut v, 7, &rng.bytes(8)); chunk(&mut p, 2, 0, &v); }
            21 => chunk(&mut p, *rng.pick(&[5u8, 7, 9, 11, 11, 15, 64, 193]), 0, &[]),
            22 => { let n = rng.below(10) as usize; let t = rng.next() as u8; if t != 6 && t != 8 && t != 14 { chunk(&mut p, t, rng.next() as u8, &rng.bytes(n)); } }
            _ => { let t = cum.wrapping_add(1); gen_data_chunk(rng, &mut p, t); }
        }
    }
    if rng.chance(1, 25) { let n = p.len(); p.truncate(12 + rng.below((n - 12) as u64 + 1) as usize); }
    crc_fix(&mut p);
    if rng.chance(1, 40) { p[9] ^= 0x55; }
    p
}

pub struct Step { pub crc_ok: bool, pub bytes: Vec<u8>, pub issued: Vec<Vec<u8>>, pub sent: Vec<u64> }
fn crc_ok(p: &[u8]) -> bool { p.len() >= 12 && { let mut q = p.to_vec(); let w = [q[8], q[9], q[10], q[11]]; q[8..12].copy_from_slice(&[0; 4]); crc32c::crc32c(&q).to_le_bytes() == w } }

fn case_text(is_client: bool, seed_tsn: u32, steps: &[Step]) -> String {
    format!("{} {} {}", is_client as u8, seed_tsn, steps.iter().map(|s| format!("{}:{}:{}{}", s.crc_ok as u8, hex(&s.bytes),
        if s.issued.is_empty() { "-".to_string() } else { s.issued.iter().map(|c| hex(c)).collect::<Vec<_>>().join("+") },
        // 4th field, only when a `transmit()` call sent something: DATA chunks sent per call (the model advances `next_tsn` by them)
        if s.sent.iter().any(|n| *n > 0) { format!(":{}", s.sent.iter().map(|n| n.to_string()).collect::<Vec<_>>().join(",")) } else { String::new() })).collect::<Vec<_>>().join(" "))
}

/// run one generated session; `script`: None = generate with `rng`, Some = replay these packets
pub fn run_session(run: &mut Run, rng: &mut Rng, is_client: bool, replay: Option<(u32, Vec<Vec<u8>>)>, nt: bool) {
    let seed_tsn = replay.as_ref().map(|r| r.0).unwrap_or_else(|| { let r = rng.next() as u32; *rng.pick(&[1u32, 0, 0xFFFF_FFFF, 0x8000_0000, 0x7FFF_FFFF, r]) });
    let mut steps: Vec<Step> = vec![];
    let mut outs: Vec<String> = vec![];
    let mut panicked: Option<String> = None;
    let total_len; let alloc_fail; let alloc_max;
    {
        let mut a = Assoc::new(is_client, seed_tsn);
        let mut feed = |a: &mut Assoc, p: Vec<u8>, steps: &mut Vec<Step>, outs: &mut Vec<String>| -> Vec<Vec<u8>> {
            if panicked.is_some() { return vec![]; }
            let r = { let mut ar = std::panic::AssertUnwindSafe(&mut *a); let pr = p.clone(); super::catch_ack(move || ar.feed(&pr)) };
            match r {
                Ok((d, issued)) => { steps.push(Step { crc_ok: crc_ok(&p), bytes: p, issued: issued.clone(), sent: a.last_sent.clone() }); outs.push(d); issued }
                Err(msg) => { steps.push(Step { crc_ok: crc_ok(&p), bytes: p, issued: vec![], sent: vec![] }); panicked = Some(msg); vec![] }
            }
        };
        if let Some((_, pk)) = replay { for p in pk { feed(&mut a, p, &mut steps, &mut outs); } }
        else {
            let peer_tag = 0x0A0B_0C0D;
            let r0 = rng.next() as u32; let init_tsn = *rng.pick(&[1u32, 0, 0xFFFF_FFFF, 0xFFFF_FFFE, 0x8000_0000, 0x7FFF_FFFF, r0]);
            let mut cookies: Vec<Vec<u8>> = vec![];
            if is_client {
                // hostile INIT-ACK: parameter walk incl. zero/short lengths, several cookies, truncated tail
                let mut v = init_value(peer_tag, 1 << 16, init_tsn);
                for _ in 0..rng.range(0, 4) { match rng.below(6) {
                    0 | 1 => { let n = rng.below(24) as usize; param(&mut v, 7, &rng.bytes(n)); }
                    2 => { v.extend_from_slice(&[0, 7]); v.extend_from_slice(&(*rng.pick(&[0u16, 1, 3, 4, 5, 0xFFFF])).to_be_bytes()); let k = rng.below(6) as usize; v.extend(rng.bytes(k)); }
                    3 => param(&mut v, 0xC000, &[]), 4 => param(&mut v, 0x8008, &[0xC0]),
                    _ => { let n = rng.below(9) as usize; let t = rng.next() as u16; param(&mut v, t, &rng.bytes(n)); } } }
                if rng.chance(1, 6) { let n = v.len(); v.truncate(rng.below(n as u64 + 1) as usize); }
                let mut p = header(0x1122_3344); chunk(&mut p, 2, 0, &v); crc_fix(&mut p);
                feed(&mut a, p, &mut steps, &mut outs);
                let mut p = header(0x1122_3344); chunk(&mut p, 11, 0, &[]); crc_fix(&mut p);
                feed(&mut a, p, &mut steps, &mut outs);
            } else {
                let mut p = header(0); chunk(&mut p, 1, 0, &init_value(peer_tag, 1 << 16, init_tsn)); crc_fix(&mut p);
                cookies.extend(feed(&mut a, p, &mut steps, &mut outs));
                if rng.chance(1, 5) { let mut p = header(0x1122_3344); chunk(&mut p, 10, 0, &rng.bytes(28)); crc_fix(&mut p); feed(&mut a, p, &mut steps, &mut outs); }
                if let Some(c) = cookies.first().cloned() { let mut p = header(0x1122_3344); chunk(&mut p, 10, 0, &c); crc_fix(&mut p); feed(&mut a, p, &mut steps, &mut outs); }
            }
            let mut req_sn = rng.next() as u32 % 1000;
            for _ in 0..rng.range(3, 14) {
                let cum = a.cum();
                let p = gen_packet(rng, cum, seed_tsn, &cookies, &mut req_sn, peer_tag);
                cookies.extend(feed(&mut a, p, &mut steps, &mut outs));
            }
            if rng.chance(1, 6) { let mut p = header(0x1122_3344); chunk(&mut p, *rng.pick(&[6u8, 8, 14]), 0, &[]); crc_fix(&mut p); feed(&mut a, p, &mut steps, &mut outs);
                let cum = a.cum(); let p = gen_packet(rng, cum, seed_tsn, &cookies, &mut req_sn, peer_tag); feed(&mut a, p, &mut steps, &mut outs); }
        }
        total_len = steps.iter().map(|s| s.bytes.len() as u64).sum::<u64>();
        alloc_fail = a.alloc_fail.take(); alloc_max = a.alloc_max_x100;
    }
    let text = case_text(is_client, seed_tsn, &steps);
    if let Some(msg) = &panicked {
        run.fail(&format!("panic:SctpInner::handle_packet(history):{}", super::panic_site(msg)), &format!("sctpassoc {text}"), msg);
    }
    if let Some(d) = alloc_fail { run.fail("alloc:SctpInner::handle_packet(history)", &format!("sctpassoc {text}"), &d); }
    { let e = run.dist.entry("alloc_max_ratio_x100:sctpassoc".into()).or_insert(0); if alloc_max > *e { *e = alloc_max; } }
    let out = if panicked.is_some() { "panic".to_string() } else { format!("ok {}", outs.join(" ")) };
    // the session already ran (inputs depend on the association's own state); `exec` records it and applies the
    // process-wide panic / time oracles to the recorded run
    let _ = total_len;
    exec(run, "sctpassoc", &text, "SctpInner::handle_packet(history)", nt, None, move || out);
}

/// oracle-only stream `sctpflood`: memory an established association RETAINS after a flood from its (DTLS-authenticated) peer.
/// kind 0: DATA with a TSN gap that is never filled (`received_queue`), `size`-byte payloads; 1: in-order first/middle fragments of a
/// message that never ends (`reassembly_buffer`); 2: DCEP OPEN on a new stream each time (`data_channels`, the channels are kept
/// alive as the PeerConnection does); 3: ordered messages with SSN ahead of the expected one (`InboundStream.pending`);
/// 4: a fragmented DCEP message that never ends (`dcep_reassembly`); 5: 20·count complete in-order messages on one ordered channel
/// (the stream sequence number wraps; nothing may be retained).
/// Oracle: retained ≤ 16·bytes received + 64 KiB, and every packet handled within the per-call deadline.
pub fn run_flood(run: &mut Run, kind: u8, count: u32, size: usize) {
    let case = format!("sctpflood {kind} {count} {size}");
    let mut a = Assoc::new(false, 1);
    let peer_tag = 0x0A0B_0C0Du32;
    let mut p = header(0); chunk(&mut p, 1, 0, &init_value(peer_tag, 1 << 20, 100)); crc_fix(&mut p);
    let (_, cookies) = a.feed(&p);
    if let Some(c) = cookies.first() { let mut p = header(0x1122_3344); chunk(&mut p, 10, 0, c); crc_fix(&mut p); a.feed(&p); }
    // two channels (streams 0 and 1, ordered, reliable) so that user data is reassembled and delivered, not dropped
    for (k, sid) in [(0u32, 0u16), (1, 1)] { let mut p = header(0x1122_3344); chunk(&mut p, 0, 3, &data_value(100 + k, sid, 0, 50, &[3, 0, 0, 0, 0, 0, 0, 0, 0, 1, 0, 0, b'l'])); crc_fix(&mut p); a.feed(&p); }
    let connected = format!("{:?}", a.sctp.verif_snapshot().state) == "Connected" && a.held.len() == 2;
    let mut bytes_in = 0u64;
    let mut slowest = std::time::Duration::ZERO;
    let body = vec![0x55u8; size];
    let panics0 = super::panic_count();
    super::alloc_reset();
    let r = { let mut ar = std::panic::AssertUnwindSafe(&mut a); let body = body.clone(); super::catch_ack(move || {
        let mut bytes = 0u64; let mut slow = std::time::Duration::ZERO;
        for k in 0..count {
            let mut p = header(0x1122_3344);
            match kind {
                0 => chunk(&mut p, 0, 3, &data_value(102 + 2 + k, 0, 0, 53, &body)),
                1 => chunk(&mut p, 0, if k == 0 { 2 } else { 0 }, &data_value(102 + k, 0, 0, 53, &body)),
                2 => { let mut open = vec![3u8, 0, 0, 0, 0, 0, 0, 0, 0, 1, 0, 0]; open.push(b'l'); chunk(&mut p, 0, 3, &data_value(102 + k, ((k + 2) % 65536) as u16, 0, 50, &open)) }
                4 => chunk(&mut p, 0, if k == 0 { 6 } else { 4 }, &data_value(102 + k, 0, 0, 50, &body)),
                // 20 complete ordered messages per packet, SSNs in order from 1 (the OPEN used 0): the 16-bit SSN wraps after 65 535
                5 => for j in 0..20u32 { let i = k * 20 + j; chunk(&mut p, 0, 3, &data_value(102 + i, 0, (i + 1) as u16, 53, &body)); },
                _ => chunk(&mut p, 0, 3, &data_value(102 + k, 1, (k + 1) as u16, 53, &body)),
            }
            crc_fix(&mut p);
            bytes += p.len() as u64;
            let t0 = std::time::Instant::now();
            let s = ar.sctp.clone(); let pk = Bytes::from(p);
            let _ = ar.rt.block_on(async move { s.verif_handle_packet(pk).await });
            slow = slow.max(t0.elapsed());
            ar.drain_out(); let _ = hk::trace_take(ar.port);
            while let Ok(dc) = ar.chan_rx.try_recv() { ar.held.push(dc); }
        }
        (bytes, slow)
    }) };
    match r { Ok((b, s)) => { bytes_in = b; slowest = s; } Err(msg) => run.fail(&format!("panic:SctpInner::handle_packet(flood):{}", super::panic_site(&msg)), &case, &msg) }
    if super::panic_count() != panics0 && r_is_ok(&run.fails, &case) { run.fail("panic:SctpInner::handle_packet(flood)(task)", &case, "a task panicked during the flood"); }
    let retained = super::alloc_retained().max(0) as u64;
    let snap = a.sctp.verif_snapshot();
    run.count_n(&format!("sctpflood:retained_per_input_byte_x100:{kind}:{size}"), retained * 100 / bytes_in.max(1));
    run.count_n(&format!("sctpflood:queue_len:{kind}:{size}"), snap.received_queue.len() as u64);
    run.count(&format!("sctpflood:connected:{connected}"));
    if retained > 16 * bytes_in + 65536 {
        run.fail(&format!("retain:SctpInner::handle_packet:{}", ["tsn-gap", "endless-fragments", "dcep-open-per-stream", "ssn-gap", "endless-dcep-fragments", "in-order-messages"][if kind >= 4 { kind.min(5) as usize } else { kind.min(3) as usize }]), &case,
            &format!("{retained} bytes retained after {count} packets ({bytes_in} bytes received)"));
    }
    if slowest > std::time::Duration::from_secs(2) { run.fail("hang:SctpInner::handle_packet(flood)", &case, &format!("slowest packet took {slowest:?}")); }
    run.case("sctpflood", &format!("{kind} {count} {size}"), "noncompared", true);
}
fn r_is_ok(fails: &[crate::OracleFail], case: &str) -> bool { !fails.iter().any(|f| f.case == case) }

pub fn special(run: &mut Run, rng: &mut Rng, thorough: bool) {
    let k = if thorough { 30_000 } else { 3_000 };
    for (kind, size) in [(0u8, 1usize), (0, 1100), (1, 1), (1, 1100), (3, 1), (3, 1100), (4, 1), (4, 1100)] { run_flood(run, kind, k, size); }
    run_flood(run, 2, 20_000, 0);                          // long enough that the constant cap on channels passes the linear bound while per-OPEN growth would not (each ordered OPEN on a new stream also leaves an `InboundStream` ≈ 470 B, ≤ 65 536 of them)
    // compared: 1030 DCEP OPENs on distinct streams in one session — the model and the code must refuse the same ones
    {
        let pk: Vec<Vec<u8>> = (0..1030u32).map(|k| { let mut p = header(0); chunk(&mut p, 0, 7, &data_value(1 + k, k as u16, 0, 50, &[3, 0, 0, 0, 0, 0, 0, 0, 0, 1, 0, 0, b'l'])); crc_fix(&mut p); p }).collect();
        run_session(run, rng, false, Some((1, pk)), true);
    }
    run_flood(run, 5, 3_400, 1);                           // 68 000 in-order messages on one ordered channel: SSN wrap-around
    let n = if thorough { 30_000 } else { 1_500 };
    for i in 0..n { run_session(run, rng, i % 5 == 4, None, true); }
}

pub fn replay_special(run: &mut Run, stream: &str, a: &[&str]) -> bool {
    if stream == "sctpflood" && a.len() == 3 { run_flood(run, a[0].parse().unwrap_or(0), a[1].parse().unwrap_or(100), a[2].parse().unwrap_or(1)); return true; }
    if stream != "sctpassoc" || a.len() < 2 { return false; }
    let pk: Vec<Vec<u8>> = a[2..].iter().filter_map(|t| t.split(':').nth(1).map(unhex)).collect();
    let mut rng = Rng::new(1);
    run_session(run, &mut rng, a[0] == "1", Some((a[1].parse().unwrap_or(1), pk)), true);
    true
}
