//! C07 — no input crashes, hangs or bloats the stack.
//!
//! For every decoder / walker of the property's anchor list the REAL function is run in-process under
//! `catch_unwind` with a counting global allocator and a per-call deadline, on
//!   (i) inputs produced by the repo's own encoders, (ii) every truncation of those, (iii) boundary
//!   mutations of every byte / 16-bit field (0, 1, 0xFF.., "rest-1", "rest+1"), (iv) all byte strings of
//!   length ≤ 1 (≤ 2 in the thorough tier) and seeded random strings up to 64 KiB.
//! The outcome class (`ok <digest>` / `err <error>` / `panic`) is written as the implementation's line and is
//! diffed against the Lean Cursor-monad model of the same decoder (`RtcModel/C07*.lean`).
//! Property oracles evaluated directly on the implementation: any panic → `panic:<entry>:<file:line>`,
//! call slower than the deadline → `hang:<entry>`, allocation above `2·(a·len+b)+512` → `alloc:<entry>`
//! (a, b are EXACTLY the constants of the `allocBound_*` theorem; factor 2 = `Vec` doubling). In addition the measured
//! bytes of every compared case are sent to the model (`A=<bytes>`), whose own `alloc` counter must cover them.
//!
//! NOTE: this module installs the process-wide `#[global_allocator]` (a pass-through to `System` that adds
//! the requested sizes to a thread-local counter). Only one may exist per binary.
use crate::{Args, Rng, Run, catch, hex, unhex};
use std::cell::Cell;
use std::time::{Duration, Instant};

pub mod rtp;
pub mod ice;
pub mod dtls;
pub mod sctp;
pub mod media;
pub mod sdp;
pub mod dtlslive;
pub mod srtp;
pub mod sctpassoc;
pub mod sharedudp;
pub mod rtprecv;

// ---------------------------------------------------------------------------------------------
// counting allocator
pub struct Counting;
thread_local! { static BYTES: Cell<u64> = const { Cell::new(0) }; static FREED: Cell<u64> = const { Cell::new(0) }; }
unsafe impl std::alloc::GlobalAlloc for Counting {
    unsafe fn alloc(&self, l: std::alloc::Layout) -> *mut u8 {
        let _ = BYTES.try_with(|b| b.set(b.get() + l.size() as u64));
        unsafe { std::alloc::System.alloc(l) }
    }
    unsafe fn dealloc(&self, p: *mut u8, l: std::alloc::Layout) {
        let _ = FREED.try_with(|b| b.set(b.get() + l.size() as u64));
        unsafe { std::alloc::System.dealloc(p, l) }
    }
    unsafe fn alloc_zeroed(&self, l: std::alloc::Layout) -> *mut u8 {
        let _ = BYTES.try_with(|b| b.set(b.get() + l.size() as u64));
        unsafe { std::alloc::System.alloc_zeroed(l) }
    }
    unsafe fn realloc(&self, p: *mut u8, l: std::alloc::Layout, new: usize) -> *mut u8 {
        if new > l.size() { let _ = BYTES.try_with(|b| b.set(b.get() + (new - l.size()) as u64)); }
        else { let _ = FREED.try_with(|b| b.set(b.get() + (l.size() - new) as u64)); }
        unsafe { std::alloc::System.realloc(p, l, new) }
    }
}
#[global_allocator]
static GLOBAL: Counting = Counting;
thread_local! { static LAST_USED: Cell<u64> = const { Cell::new(0) }; static MARK: Cell<u64> = const { Cell::new(u64::MAX) }; static START: Cell<u64> = const { Cell::new(0) }; }
/// called by a stream's closure right after the decoder proper returned: allocation after this point (digest
/// formatting, operations on the parsed value) is not attributed to the decoder
/// called right before the decoder proper (after the harness' own input copies)
pub fn start_alloc() { START.with(|m| m.set(BYTES.with(|b| b.get()))); }
pub fn mark_alloc() { MARK.with(|m| m.set(BYTES.with(|b| b.get()))); }
/// slack of every allocation comparison (error objects, minimum `Vec` capacities) — same constant as `allocSlack` in Drv/C07.lean
pub const ALLOC_SLACK: u64 = 512;
/// bytes the allocator handed out during the most recent `exec` call on this thread
pub fn last_alloc_used() -> u64 { LAST_USED.with(|b| b.get()) }
pub fn alloc_reset() { BYTES.with(|b| b.set(0)); FREED.with(|b| b.set(0)); }
pub fn alloc_read() -> u64 { BYTES.with(|b| b.get()) }
/// bytes allocated minus bytes freed on this thread since the last `alloc_reset` (what a call sequence retains)
/// implementation-side allocation oracle for COMPARED streams whose model stops early (no `A=` tie possible): the allocator traffic of
/// the `exec` call that just returned must stay ≤ 2·(a·len + b) + slack
pub fn alloc_side_check(run: &mut Run, stream: &str, entry: &str, input: &str, len: usize, a: u64, b: u64) {
    let used = last_alloc_used();
    let lim = 2 * (a * len as u64 + b) + ALLOC_SLACK;
    let e = run.dist.entry(format!("alloc_max_ratio_x100:{stream}")).or_insert(0);
    let ratio = used * 100 / (a * len as u64 + b).max(1);
    if ratio > *e { *e = ratio; }
    if used > lim { run.fail(&format!("alloc:{entry}"), &format!("{stream} {input}"), &format!("allocated {used} bytes for {len} input bytes (limit {lim})")); }
}
pub fn alloc_retained() -> i64 { BYTES.with(|b| b.get()) as i64 - FREED.with(|b| b.get()) as i64 }

// ---------------------------------------------------------------------------------------------
// watchdog for genuine non-termination: if one call runs longer than HANG_LIMIT the process writes a
// stats file containing the `hang:<entry>` oracle failure and exits (the thread cannot be killed).
static WATCH: parking_lot::Mutex<Option<(String, String, Instant)>> = parking_lot::Mutex::new(None);
static WATCH_DIR: parking_lot::Mutex<String> = parking_lot::Mutex::new(String::new());
const HANG_LIMIT: Duration = Duration::from_secs(20);
pub const SLOW_LIMIT: Duration = Duration::from_millis(1500);

fn start_watchdog(dir: &str) {
    *WATCH_DIR.lock() = dir.to_string();
    static ONCE: std::sync::Once = std::sync::Once::new();
    ONCE.call_once(|| {
        std::thread::spawn(|| loop {
            std::thread::sleep(Duration::from_millis(250));
            let g = WATCH.lock().clone();
            if let Some((entry, case, t0)) = g {
                if t0.elapsed() > HANG_LIMIT {
                    let j = serde_json::json!({"property": "c07", "cases": 0, "distinct_nontrivial": 0, "distribution": {},
                        "samples": [], "notes": {}, "exhaustive": false,
                        "oracle_failures": [{"signature": format!("hang:{entry}"), "case": case,
                            "detail": format!("call did not return within {:?}", HANG_LIMIT)}]});
                    let dir = WATCH_DIR.lock().clone();
                    let _ = std::fs::write(format!("{dir}/stats.json"), serde_json::to_string_pretty(&j).unwrap());
                    eprintln!("c07: hang in {entry}");
                    std::process::exit(0);
                }
            }
        });
    });
}

// ---------------------------------------------------------------------------------------------
// process-wide panic counter ("no panic in any task"): tokio catches panics of spawned tasks, so a panic that does
// not unwind through `catch_unwind` of `exec` would be lost. The hook below (chained in front of the one installed by
// `crate::catch`) counts EVERY panic of the process and keeps its location; `exec` fails the case when the counter
// moved although the call itself returned.
static PANICS: std::sync::atomic::AtomicU64 = std::sync::atomic::AtomicU64::new(0);
static LAST_PANIC: parking_lot::Mutex<String> = parking_lot::Mutex::new(String::new());
pub fn install_panic_counter() {
    static ONCE: std::sync::Once = std::sync::Once::new();
    ONCE.call_once(|| {
        let _ = catch(|| ());                                   // makes lib.rs install its hook first
        let prev = std::panic::take_hook();
        std::panic::set_hook(Box::new(move |info| {
            PANICS.fetch_add(1, std::sync::atomic::Ordering::SeqCst);
            let loc = info.location().map(|l| format!("{}:{}", l.file(), l.line())).unwrap_or_default();
            let msg = if let Some(s) = info.payload().downcast_ref::<&str>() { s.to_string() }
                      else if let Some(s) = info.payload().downcast_ref::<String>() { s.clone() } else { "?".into() };
            if std::env::var_os("C07_PANIC_TRACE").is_some() { eprintln!("panic at {loc}: {msg}"); }   // debugging aid for harness-side crashes
            *LAST_PANIC.lock() = format!("{loc}: {msg}");
            prev(info);
        }));
    });
}
pub fn panic_count() -> u64 { PANICS.load(std::sync::atomic::Ordering::SeqCst) }
/// panics already attributed to a case (reported as an oracle failure, or caught and handled by harness code)
static SEEN: std::sync::atomic::AtomicU64 = std::sync::atomic::AtomicU64::new(0);
/// A panic that happened in the process since the last accounted one and was attributed to nothing — a task that died while
/// the harness was waiting between two calls (`Session::step`, warm-ups, fixture construction) — becomes a failure of its own.
pub fn check_panics_between(run: &mut Run, next_case: &str) {
    let (c, seen) = (panic_count(), SEEN.load(std::sync::atomic::Ordering::SeqCst));
    if c > seen {
        let msg = LAST_PANIC.lock().clone();
        run.fail(&format!("panic:(task, between calls):{}", panic_site(&msg)), next_case, &format!("{} panic(s) in the process before this case that no call observed; last: {msg}", c - seen));
        SEEN.store(c, std::sync::atomic::Ordering::SeqCst);
    }
}
/// `crate::catch` for harness code that handles the panic itself (records it, or a generator whose failure another stream reports)
pub fn catch_ack<T>(f: impl FnOnce() -> T + std::panic::UnwindSafe) -> Result<T, String> {
    install_panic_counter();
    let r = crate::catch(f);
    if r.is_err() { SEEN.fetch_add(1, std::sync::atomic::Ordering::SeqCst); }
    r
}

/// strip the absolute prefix of a panic location so signatures are stable: `…/src/rtp.rs:231` → `src/rtp.rs:231`
pub fn panic_site(msg: &str) -> String {
    let loc = msg.split(": ").next().unwrap_or("");
    match loc.rfind("/src/") { Some(i) => loc[i + 1..].to_string(), None => loc.to_string() }
}

/// Run one call of the real code: catch panics, measure allocation and time, write the case line and
/// evaluate the property oracles. `bound` = (a, b, len) of the allocation theorem, if one is claimed.
pub fn exec<F: FnOnce() -> String + std::panic::UnwindSafe>(
    run: &mut Run, stream: &str, input: &str, entry: &str, nontrivial: bool, bound: Option<(u64, u64, u64)>, f: F,
) -> String {
    let case = format!("{stream} {input}");
    install_panic_counter();
    check_panics_between(run, &case);
    let panics0 = panic_count();
    *WATCH.lock() = Some((entry.to_string(), case.clone(), Instant::now()));
    alloc_reset();
    MARK.with(|m| m.set(u64::MAX)); START.with(|m| m.set(0));
    let t0 = Instant::now();
    let r = catch(f);
    let dt = t0.elapsed();
    let used = { let m = MARK.with(|m| m.get()); (if m != u64::MAX { m } else { alloc_read() }).saturating_sub(START.with(|m| m.get())) };
    LAST_USED.with(|b| b.set(used));
    *WATCH.lock() = None;
    let out = match r {
        Ok(s) => {
            if panic_count() != panics0 {
                // a panic happened somewhere in the process (a spawned task) while this call ran and did not reach us
                let msg = LAST_PANIC.lock().clone();
                run.fail(&format!("panic:{entry}(task):{}", panic_site(&msg)), &case, &msg);
                "panic".to_string()
            } else { s }
        }
        Err(msg) => {
            run.fail(&format!("panic:{entry}:{}", panic_site(&msg)), &case, &msg);
            "panic".to_string()
        }
    };
    SEEN.store(panic_count(), std::sync::atomic::Ordering::SeqCst);          // every panic during this call has been reported above
    if dt > SLOW_LIMIT { run.fail(&format!("hang:{entry}"), &case, &format!("call took {dt:?}")); }
    if let Some((a, b, len)) = bound {
        let lim = 2 * (a * len + b) + ALLOC_SLACK;
        if used > lim { run.fail(&format!("alloc:{entry}"), &case, &format!("allocated {used} bytes for {len} input bytes (limit {lim})")); }
        let k = format!("alloc_max_ratio_x100:{stream}");
        let ratio = used * 100 / (a * len + b).max(1);
        let e = run.dist.entry(k).or_insert(0);
        if ratio > *e { *e = ratio; }
    }
    let class = out.split(' ').next().unwrap_or("?").to_string();
    run.count(&format!("{stream}:{class}"));
    // allocation tie: the measured bytes travel to the model, which must account for them (see `handle` in Drv/C07.lean)
    if bound.is_some() && (out.starts_with("ok ") || out.starts_with("err ")) {
        run.case(stream, &format!("{input} A={used}"), &format!("{out} a+"), nontrivial);
    } else {
        run.case(stream, input, &out, nontrivial);
    }
    out
}

/// A byte-string decoder under test.
pub struct Target {
    pub stream: &'static str,
    pub entry: &'static str,
    /// outcome text of the real decoder (`ok …` / `err …`); panics propagate to `exec`
    pub call: fn(&[u8]) -> String,
    /// structurally valid input built with the repo's own types / encoders
    pub valid: fn(&mut Rng) -> Vec<u8>,
    /// allocation theorem constants (a, b): model bytes ≤ a·len + b
    pub alloc: Option<(u64, u64)>,
    /// relative weight of this target's sample budget
    pub weight: u64,
}

pub fn run_bytes(run: &mut Run, t: &Target, input: &[u8], nontrivial: bool) -> String {
    let call = t.call;
    let owned = input.to_vec();
    let bound = t.alloc.map(|(a, b)| (a, b, input.len() as u64));
    exec(run, t.stream, &hex(input), t.entry, nontrivial, bound, move || call(&owned))
}

/// boundary mutations of one valid input: every byte and every big-endian 16-bit field set to
/// 0, 1, max, (bytes after the field) ± 1 — this hits every length field whatever the format.
pub fn mutations(v: &[u8], rng: &mut Rng, max_positions: usize) -> Vec<Vec<u8>> {
    let mut out = vec![];
    let n = v.len();
    let positions: Vec<usize> = if n <= max_positions { (0..n).collect() } else {
        let mut p: Vec<usize> = (0..max_positions / 2).collect();          // headers carry the length fields
        while p.len() < max_positions { p.push(rng.below(n as u64) as usize); }
        p
    };
    for &p in &positions {
        let after1 = (n - p - 1) as i64;
        for val in [0i64, 1, 0xFF, after1 - 1, after1, after1 + 1, (after1 / 4) - 1, (after1 / 4) + 1] {
            let b = (val & 0xFF) as u8;
            if b != v[p] { let mut m = v.to_vec(); m[p] = b; out.push(m); }
        }
        if p + 1 < n {
            let after2 = (n - p - 2) as i64;
            for val in [0i64, 1, 0xFFFF, after2 - 1, after2 + 1, after2 / 4, (after2 / 4) + 1, after2 + 4] {
                let w = (val & 0xFFFF) as u16;
                let mut m = v.to_vec(); m[p] = (w >> 8) as u8; m[p + 1] = w as u8;
                if m != v { out.push(m); }
            }
        }
        // single-bit flips
        let bit = 1u8 << rng.below(8);
        let mut m = v.to_vec(); m[p] ^= bit; out.push(m);
    }
    out
}

/// the generic input plan for one byte-string decoder
pub fn fuzz_target(run: &mut Run, t: &Target, rng: &mut Rng, budget: u64, thorough: bool) {
    let before = run.n_cases;
    // (iv-a) exhaustive small scopes
    run_bytes(run, t, &[], false);
    for a in 0..=255u8 { run_bytes(run, t, &[a], false); }
    if thorough {
        for a in 0..=255u8 { for b in 0..=255u8 { run_bytes(run, t, &[a, b], false); } }
    } else {
        for _ in 0..512 { let v = rng.bytes(2); run_bytes(run, t, &v, false); }
    }
    // (i)–(iii) valid, truncations, mutations
    let structured_budget = budget * 8 / 10;
    while run.n_cases - before < structured_budget {
        let v = (t.valid)(rng);
        let out = run_bytes(run, t, &v, true);
        run.count(&format!("{}:valid_input:{}", t.stream, out.split(' ').next().unwrap_or("?")));
        let step = if v.len() > 96 { v.len() / 64 + 1 } else { 1 };
        let mut k = 0;
        while k < v.len() { run_bytes(run, t, &v[..k], true); k += if k < 48 { 1 } else { step }; }
        for m in mutations(&v, rng, 40) { run_bytes(run, t, &m, true); }
        // extension by trailing bytes
        let mut e = v.clone(); let k = 1 + rng.below(8) as usize; e.extend(rng.bytes(k)); run_bytes(run, t, &e, true);
    }
    // (iv-b) random strings: mostly short, a tail up to 64 KiB; half of them with a plausible first bytes
    let mut big = 0;
    while run.n_cases - before < budget {
        let len = match rng.below(100) {
            0..=59 => rng.range(3, 64), 60..=89 => rng.range(65, 1500), 90..=97 => rng.range(1501, 9000),
            _ => { big += 1; if big > (if thorough { 40 } else { 3 }) { rng.range(3, 300) } else { rng.range(9001, 65536) } }
        } as usize;
        let mut v = rng.bytes(len);
        if rng.chance(1, 2) {
            let p = (t.valid)(rng);
            let k = p.len().min(v.len()).min(rng.range(1, 12) as usize);
            v[..k].copy_from_slice(&p[..k]);
        }
        run_bytes(run, t, &v, false);
    }
    // a 64 KiB input with a valid prefix repeated (long walks)
    let p = (t.valid)(rng);
    if !p.is_empty() {
        let mut v = vec![];
        while v.len() + p.len() <= 65536 { v.extend_from_slice(&p); }
        run_bytes(run, t, &v, true);
    }
}

pub fn all_targets() -> Vec<Target> {
    let mut v = vec![];
    v.extend(rtp::targets());
    v.extend(ice::targets());
    v.extend(dtls::targets());
    v.extend(sctp::targets());
    v
}

/// re-run one recorded case: `<stream> <args…>`
fn replay(case: &str) {
    let mut it = case.split(' ');
    let stream = it.next().unwrap_or("");
    let mut args: Vec<&str> = it.collect();
    if args.last().map_or(false, |a| a.starts_with("A=")) { args.pop(); }
    let mut run = Run::new("c07", &crate::scratch("c07-replay"));
    let mut done = false;
    for t in all_targets() {
        if t.stream == stream && args.len() == 1 {
            let out = run_bytes(&mut run, &t, &unhex(args[0]), true);
            println!("impl: {out}");
            done = true;
        }
    }
    if !done { done = rtp::replay_special(&mut run, stream, &args); }
    if !done { done = ice::replay_special(&mut run, stream, &args); }
    if !done { done = sctp::replay_special(&mut run, stream, &args); }
    if !done { done = media::replay_special(&mut run, stream, &args); }
    if !done { done = sdp::replay_special(&mut run, stream, &args); }
    if !done { done = dtlslive::replay_special(&mut run, stream, &args); }
    if !done { done = srtp::replay_special(&mut run, stream, &args); }
    if !done { done = sctpassoc::replay_special(&mut run, stream, &args); }
    if !done { done = sharedudp::replay_special(&mut run, stream, &args); }
    if !done { done = rtprecv::replay_special(&mut run, stream, &args); }
    if !done { println!("unknown stream {stream}"); }
    else if args.len() != 1 || !all_targets().iter().any(|t| t.stream == stream) {
        use std::io::Write;
        let _ = run.imp.flush();
        if let Ok(t) = std::fs::read_to_string(format!("{}/impl.txt", crate::scratch("c07-replay"))) { for l in t.lines() { println!("impl: {}", l.splitn(4, ' ').nth(3).unwrap_or("")); } }
    }
    for f in &run.fails { println!("ORACLE-FAIL {} :: {}", f.signature, f.detail); }
    let _ = std::fs::remove_dir_all(crate::scratch("c07-replay"));
}

pub fn run(args: &Args) {
    // `anyhow` captures a backtrace (≈ 3–4 KB of allocation and a stack walk) for every error when RUST_BACKTRACE /
    // RUST_LIB_BACKTRACE is set; the allocation oracles are calibrated for the default (unset) configuration.
    // Single-threaded at this point.
    unsafe { std::env::set_var("RUST_BACKTRACE", "0"); std::env::set_var("RUST_LIB_BACKTRACE", "0"); }
    if let Some(c) = &args.replay { replay(c); return; }
    let mut run = Run::new("c07", &args.out);
    install_panic_counter();
    start_watchdog(&args.out);
    let mut rng = Rng::new(args.seed);
    let targets = all_targets();
    let per_unit: u64 = if args.tier_thorough { 250_000 } else { 10_000 };
    for t in &targets {
        let mut r = rng.fork();
        fuzz_target(&mut run, t, &mut r, per_unit * t.weight, args.tier_thorough);
    }
    rtp::special(&mut run, &mut rng.fork(), args.tier_thorough);
    ice::special(&mut run, &mut rng.fork(), args.tier_thorough);
    sctp::special(&mut run, &mut rng.fork(), args.tier_thorough);
    media::special(&mut run, &mut rng.fork(), args.tier_thorough);
    sdp::special(&mut run, &mut rng.fork(), args.tier_thorough);
    dtlslive::special(&mut run, &mut rng.fork(), args.tier_thorough);
    srtp::special(&mut run, &mut rng.fork(), args.tier_thorough);
    sctpassoc::special(&mut run, &mut rng.fork(), args.tier_thorough);
    sharedudp::special(&mut run, &mut rng.fork(), args.tier_thorough);
    rtprecv::special(&mut run, &mut rng.fork(), args.tier_thorough);
    check_panics_between(&mut run, "end-of-run");
    run.notes.insert("targets".into(), serde_json::json!(targets.iter().map(|t| t.stream).collect::<Vec<_>>()));
    run.notes.insert("type_sizes".into(), rtp::type_sizes());
    run.notes.insert("type_sizes_media".into(), media::type_sizes());
    run.finish();
}
