//! C07 — the shared (muxed) UDP port (`src/transports/ice/shared_udp.rs`: recv loop + `dispatch`), live and oracle-only
//! (`noncompared`): datagrams are sent over real loopback sockets to a port acquired through
//! `verif_hooks::ice::shared::acquire_udp`. After each test datagram a genuine Binding request for the registered ufrag
//! is sent and must come out of the session's receiver (liveness of the demux task — it serves EVERY session of the
//! port), the process-wide panic counter is checked by `exec`, and a flood of Binding requests for UNREGISTERED ufrags
//! from distinct source addresses must not make the port retain memory.
use super::exec;
use crate::{Rng, Run, hex, unhex};
use rustrtc::transports::ice::IceSocketWrapper;
use rustrtc::transports::ice::stun::{StunAttribute, StunClass, StunMessage, StunMethod};
use std::net::SocketAddr;
use std::time::Duration;

pub struct Port { rt: tokio::runtime::Runtime, addr: SocketAddr, wrapper: IceSocketWrapper, _reg: Box<dyn std::any::Any + Send>, tx: tokio::net::UdpSocket }
const UFRAG: &str = "c07ufrag";
/// bytes one `peers` entry costs (measured 2026-09: see `sharedudpflood:retained_per_source:0` in the evidence) × 1.25
const REGISTERED_PER_SOURCE_MAX: u64 = 110;     // 1.25 × the measured 85–89 B per source (SocketAddr key + ufrag String + slot) at the flood sizes the harness uses (1500 / 6000; other sizes sit differently in the table's doubling cycle)

fn binding(ufrag: &str, tid: u8) -> Vec<u8> {
    StunMessage { class: StunClass::Request, method: StunMethod::Binding, transaction_id: [tid; 12], attributes: vec![StunAttribute::Username(format!("{ufrag}:peer"))] }.encode(None, false).unwrap()
}

impl Port {
    pub fn new() -> Self {
        let rt = tokio::runtime::Builder::new_current_thread().enable_all().build().unwrap();
        let (addr, wrapper, reg, tx) = rt.block_on(async {
            let (addr, wrapper, reg) = rustrtc::verif_hooks::ice::shared::acquire_udp("127.0.0.1:0".parse().unwrap(), UFRAG.to_string()).await.expect("shared udp port");
            let tx = tokio::net::UdpSocket::bind("127.0.0.1:0").await.unwrap();
            (addr, wrapper, reg, tx)
        });
        Port { rt, addr, wrapper, _reg: reg, tx }
    }
    /// send `d` from the harness socket, then the probe; true when the probe came out of the session receiver
    fn send_and_probe(&self, d: &[u8], probe_id: u8) -> bool {
        self.rt.block_on(async {
            let _ = self.tx.send_to(d, self.addr).await;
            let probe = binding(UFRAG, probe_id);
            let _ = self.tx.send_to(&probe, self.addr).await;
            let mut buf = vec![0u8; 2048];
            for _ in 0..50 {
                match tokio::time::timeout(Duration::from_millis(100), self.wrapper.recv_from(&mut buf)).await {
                    Ok(Ok((n, _))) => { if buf[..n] == probe[..] { return true; } }      // earlier datagrams of this source may be forwarded too
                    _ => return false,
                }
            }
            false
        })
    }
}

pub fn run_dgram(run: &mut Run, port: &Port, d: &[u8], id: u8, nt: bool) {
    let p = std::panic::AssertUnwindSafe(port);
    let dd = d.to_vec();
    let case = format!("sharedudp {}", hex(d));
    let mut alive = true;
    {
        let alive_ref = std::panic::AssertUnwindSafe(&mut alive);
        exec(run, "sharedudp", &hex(d), "shared_udp::dispatch", nt, None, move || { let mut a = alive_ref; **a = p.send_and_probe(&dd, id); "noncompared".into() });
    }
    if !alive { run.fail("dead:shared_udp::recv_loop", &case, "the shared UDP demux task no longer forwards a genuine Binding request of a registered session after this datagram"); }
}

/// Binding requests (no MESSAGE-INTEGRITY) from `count` distinct source sockets naming UNREGISTERED ufrags (`ufrag_len` > 0) or the
/// REGISTERED ufrag of a live session (`ufrag_len` = 0): nothing may be retained per source beyond the common limit
pub fn run_flood(run: &mut Run, count: u32, ufrag_len: usize) {
    let port = Port::new();
    let case = format!("sharedudpflood {count} {ufrag_len}");
    let mut bytes_in = 0u64;
    port.rt.block_on(async {
        // warm-up so that lazily created runtime structures are not attributed to the flood
        let s = tokio::net::UdpSocket::bind("127.0.0.1:0").await.unwrap(); let _ = s.send_to(&binding("warm", 1), port.addr).await; tokio::time::sleep(Duration::from_millis(5)).await;
    });
    super::alloc_reset();
    port.rt.block_on(async {
        for k in 0..count {
            let s = tokio::net::UdpSocket::bind("127.0.0.1:0").await.unwrap();
            let u: String = if ufrag_len == 0 { UFRAG.to_string() } else { format!("{k:08}").chars().cycle().take(ufrag_len).collect() };
            let d = binding(&u, 7);
            bytes_in += d.len() as u64;
            let _ = s.send_to(&d, port.addr).await;
            if k % 16 == 15 { tokio::time::sleep(Duration::from_millis(1)).await; }
        }
        tokio::time::sleep(Duration::from_millis(30)).await;
    });
    // what sits in the session's (bounded) channel is not retained by the port: empty it before measuring
    port.rt.block_on(async { let mut buf = vec![0u8; 2048]; while let Ok(Ok(_)) = tokio::time::timeout(Duration::from_millis(20), port.wrapper.recv_from(&mut buf)).await {} });
    let retained = super::alloc_retained().max(0) as u64;
    run.count_n(&format!("sharedudpflood:retained_per_input_byte_x100:{ufrag_len}"), retained * 100 / bytes_in.max(1));
    run.count_n(&format!("sharedudpflood:retained_per_source:{ufrag_len}"), retained / count.max(1) as u64);
    if retained > 65_536 + bytes_in / 8 {
        // the known finding is exactly one `peers` entry per source address: a SocketAddr key, the ufrag String and the table slot.
        // Anything beyond REGISTERED_PER_SOURCE_MAX bytes per source is a different defect and gets its own signature.
        let per_source = retained / count.max(1) as u64;
        let sig = if ufrag_len != 0 { "retain:shared_udp::dispatch:unregistered-ufrag" }
            else if per_source > REGISTERED_PER_SOURCE_MAX { "retain:shared_udp::dispatch:registered-ufrag:beyond-one-peers-entry-per-source" }
            else { "retain:shared_udp::dispatch:registered-ufrag-per-source" };
        run.fail(sig, &case, &format!("{retained} bytes retained ({per_source} per source) after {count} Binding requests from distinct sources ({bytes_in} bytes received)"));
    }
    let alive = port.send_and_probe(&[0, 1], 9);
    if !alive { run.fail("dead:shared_udp::recv_loop", &case, "demux task dead after the flood"); }
    run.case("sharedudp", &format!("flood {count} {ufrag_len}"), "noncompared", true);
}

pub fn special(run: &mut Run, rng: &mut Rng, thorough: bool) {
    let port = Port::new();
    let mut id = 0u8;
    let mut next = || { id = id.wrapping_add(1); id };
    run_dgram(run, &port, &[], next(), true);                       // zero-length datagram
    for a in (0..=255u8).step_by(if thorough { 1 } else { 5 }) { run_dgram(run, &port, &[a], next(), false); }
    for _ in 0..(if thorough { 4_000 } else { 250 }) {
        let d = match rng.below(6) {
            0 => binding(UFRAG, 3), 1 => binding("other", 3), 2 => super::ice::gen_stun(rng),
            3 => { let mut v = super::ice::gen_stun(rng); let k = rng.below(v.len() as u64 + 1) as usize; v.truncate(k); v }
            4 => { let n = rng.below(40) as usize; let mut v = rng.bytes(n); if n > 0 { v[0] = *rng.pick(&[0u8, 1, 2, 22, 128]); } v }
            _ => { let ms = super::mutations(&binding(UFRAG, 3), rng, 8); if ms.is_empty() { vec![0] } else { rng.pick(&ms).clone() } }
        };
        run_dgram(run, &port, &d, next(), true);
    }
    drop(port);
    run_flood(run, if thorough { 6000 } else { 1500 }, 8);
    run_flood(run, if thorough { 1000 } else { 300 }, 400);
    run_flood(run, if thorough { 6000 } else { 1500 }, 0);
}

pub fn replay_special(run: &mut Run, stream: &str, a: &[&str]) -> bool {
    match (stream, a.len()) {
        ("sharedudp", 1) => { let p = Port::new(); run_dgram(run, &p, &unhex(a[0]), 1, true); true }
        ("sharedudpflood", 2) => { run_flood(run, a[0].parse().unwrap_or(600), a[1].parse().unwrap_or(8)); true }
        _ => false,
    }
}
