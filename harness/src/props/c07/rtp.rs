//! C07 — src/rtp.rs: RTP packet parse, get/set_extension, marshal, RTCP compound parse.
use super::{Target, exec};
use crate::{Rng, Run, hex, unhex};
use bytes::Bytes;
use rustrtc::rtp::*;

pub fn err_text<E: std::fmt::Debug>(e: &E) -> String { format!("err {:?}", e).replace(' ', "_").replacen("err_", "err ", 1) }
fn nats(v: &[u64]) -> String { v.iter().map(|x| x.to_string()).collect::<Vec<_>>().join(",") }

pub fn rtp_digest(p: &RtpPacket) -> String {
    let h = &p.header;
    let fold = h.csrcs.iter().fold(7u64, |a, c| (a * 31 + *c as u64) % 4294967296);
    let (he, prof, el) = match &h.extension { Some(e) => (1, e.profile as u64, e.data.len() as u64), None => (0, 0, 0) };
    nats(&[h.marker as u64, h.payload_type as u64, h.sequence_number as u64, h.timestamp as u64, h.ssrc as u64,
        h.csrcs.len() as u64, fold, he, prof, el, p.payload.len() as u64, p.padding_len as u64])
}

/// operations the stack applies to parsed packets must be total (property, 2nd sentence)
fn ops_on_parsed(p: &RtpPacket) {
    let mut p = p.clone();
    for id in 0..=16u8 { let _ = p.header.get_extension(id); }
    let _ = p.marshal();
    let mut buf = Vec::new();
    p.marshal_into(&mut buf);
    let _ = p.header.set_extension(3, &[1, 2, 3]);
    let _ = p.marshal();
    let _ = p.header.set_extension(1, &[9]);
    p.marshal_into(&mut buf);
}

fn call_rtp(b: &[u8]) -> String {
    let r = RtpPacket::parse(b);
    super::mark_alloc();
    match r {
        Ok(p) => { ops_on_parsed(&p); format!("ok {}", rtp_digest(&p)) }
        Err(e) => err_text(&e),
    }
}

fn one_byte_ext(rng: &mut Rng) -> Vec<u8> {
    let mut d = vec![];
    for _ in 0..rng.range(0, 4) {
        let id = rng.range(1, 14) as u8; let len = rng.range(1, 16) as u8;
        d.push((id << 4) | (len - 1)); d.extend(rng.bytes(len as usize));
        if rng.chance(1, 4) { d.push(0); }
    }
    while d.len() % 4 != 0 { d.push(0); }
    d
}
fn two_byte_ext(rng: &mut Rng) -> Vec<u8> {
    let mut d = vec![];
    for _ in 0..rng.range(0, 4) {
        let id = rng.range(1, 40) as u8; let len = rng.range(0, 20) as u8;
        d.push(id); d.push(len); d.extend(rng.bytes(len as usize));
    }
    while d.len() % 4 != 0 { d.push(0); }
    d
}

pub fn gen_rtp_packet(rng: &mut Rng) -> RtpPacket {
    let mut h = RtpHeader::new(rng.below(128) as u8, rng.next() as u16, rng.next() as u32, rng.next() as u32);
    h.marker = rng.chance(1, 2);
    h.csrcs = (0..if rng.chance(1, 2) { 0 } else { rng.range(1, 15) }).map(|_| rng.next() as u32).collect();
    h.extension = match rng.below(5) {
        0 | 1 => None,
        2 | 3 => Some(RtpHeaderExtension::new(0xBEDE, one_byte_ext(rng))),
        _ => if rng.chance(1, 2) { Some(RtpHeaderExtension::new(0x1000, two_byte_ext(rng))) }
             else { let n = 4 * rng.range(0, 3) as usize; let pr = rng.next() as u16; Some(RtpHeaderExtension::new(pr, rng.bytes(n))) },
    };
    let pl = rng.range(0, 200) as usize;
    let mut p = RtpPacket::new(h, rng.bytes(pl));
    if rng.chance(1, 3) { p.padding_len = rng.range(1, 12) as u8; }
    p
}
fn valid_rtp(rng: &mut Rng) -> Vec<u8> { gen_rtp_packet(rng).marshal().expect("valid RTP marshals") }

fn block_digest(bs: &[ReportBlock]) -> u64 {
    bs.iter().fold(7u64, |a, b| (a * 31 + b.ssrc as u64 + b.fraction_lost as u64 + ((b.packets_lost as u32) & 0xFF_FFFF) as u64
        + b.highest_sequence as u64 + b.jitter as u64 + b.last_sender_report as u64 + b.delay_since_last_sender_report as u64) % 4294967296)
}
fn sum32<I: Iterator<Item = u64>>(i: I) -> u64 { i.fold(0u64, |a, x| (a + x) % 4294967296) }

pub fn rtcp_digest(p: &RtcpPacket) -> String {
    match p {
        RtcpPacket::SenderReport(s) => nats(&[200, s.sender_ssrc as u64, s.ntp_most as u64, s.ntp_least as u64, s.rtp_timestamp as u64,
            s.packet_count as u64, s.octet_count as u64, s.report_blocks.len() as u64, block_digest(&s.report_blocks)]),
        RtcpPacket::ReceiverReport(r) => nats(&[201, r.sender_ssrc as u64, r.report_blocks.len() as u64, block_digest(&r.report_blocks)]),
        RtcpPacket::SourceDescription(s) => nats(&[202, s.chunks.len() as u64, s.chunks.iter().map(|c| c.items.len() as u64).sum(),
            s.chunks.iter().flat_map(|c| c.items.iter().map(|i| i.ty as u64)).sum(), sum32(s.chunks.iter().map(|c| c.ssrc as u64))]),
        RtcpPacket::Goodbye(b) => nats(&[203, b.sources.len() as u64, sum32(b.sources.iter().map(|x| *x as u64)), b.reason.is_some() as u64]),
        RtcpPacket::PictureLossIndication(p) => nats(&[2061, p.sender_ssrc as u64, p.media_ssrc as u64]),
        RtcpPacket::FullIntraRequest(f) => nats(&[2064, f.sender_ssrc as u64, f.requests.len() as u64,
            f.requests.iter().fold(7u64, |a, r| (a * 31 + r.ssrc as u64 + r.sequence_number as u64) % 4294967296)]),
        RtcpPacket::GenericNack(n) => nats(&[2051, n.sender_ssrc as u64, n.media_ssrc as u64, n.lost_packets.len() as u64,
            sum32(n.lost_packets.iter().map(|x| *x as u64))]),
        RtcpPacket::RemoteBitrateEstimate(r) => nats(&[2069, r.sender_ssrc as u64, r.bitrate_bps, r.ssrcs.len() as u64,
            sum32(r.ssrcs.iter().map(|x| *x as u64))]),
        RtcpPacket::TransportWideCc(t) => nats(&[2055, t.sender_ssrc as u64, t.media_ssrc as u64, t.base_sequence as u64,
            t.packet_status_count as u64, t.reference_time_64ms as u64, t.feedback_packet_count as u64, t.payload.len() as u64]),
    }
}

fn call_rtcp(b: &[u8]) -> String {
    let r = parse_rtcp_packets(b, Some("127.0.0.1:5004".parse().unwrap()));
    super::mark_alloc();
    match r {
        Ok(ps) => {
            let _ = marshal_rtcp_packets(&ps);          // re-serialising parsed packets must be total
            format!("ok {};{}", ps.len(), ps.iter().map(rtcp_digest).collect::<Vec<_>>().join(";"))
        }
        Err(e) => err_text(&e),
    }
}

fn gen_blocks(rng: &mut Rng) -> Vec<ReportBlock> {
    (0..rng.range(0, 4)).map(|_| ReportBlock { ssrc: rng.next() as u32, fraction_lost: rng.next() as u8,
        packets_lost: (rng.range(0, 1 << 24) as i32) - (1 << 23), highest_sequence: rng.next() as u32, jitter: rng.next() as u32,
        last_sender_report: rng.next() as u32, delay_since_last_sender_report: rng.next() as u32 }).collect()
}
fn gen_text(rng: &mut Rng) -> String {
    match rng.below(8) {
        0 => "é".repeat(rng.range(40, 130) as usize),                       // > 255 bytes of 2-byte characters (cut at a boundary)
        1 => format!("{}€{}", "x".repeat(rng.range(250, 256) as usize), "y".repeat(5)),   // multi-byte character straddling byte 255
        2 => "\u{FFFD}".repeat(rng.range(1, 90) as usize),
        _ => (0..rng.range(0, 20)).map(|_| (b'a' + rng.below(26) as u8) as char).collect(),
    }
}

pub fn gen_rtcp_packet(rng: &mut Rng) -> RtcpPacket {
    match rng.below(9) {
        0 => RtcpPacket::SenderReport(SenderReport { sender_ssrc: rng.next() as u32, ntp_most: rng.next() as u32, ntp_least: rng.next() as u32,
            rtp_timestamp: rng.next() as u32, packet_count: rng.next() as u32, octet_count: rng.next() as u32, report_blocks: gen_blocks(rng) }),
        1 => RtcpPacket::ReceiverReport(ReceiverReport { sender_ssrc: rng.next() as u32, report_blocks: gen_blocks(rng) }),
        2 => RtcpPacket::SourceDescription(SourceDescription { chunks: (0..rng.range(0, 3)).map(|_| SdesChunk { ssrc: rng.next() as u32,
            items: (0..rng.range(0, 3)).map(|_| SdesItem { ty: rng.range(1, 8) as u8, text: gen_text(rng) }).collect() }).collect() }),
        3 => RtcpPacket::Goodbye(Goodbye { sources: (0..rng.range(0, 4)).map(|_| rng.next() as u32).collect(),
            reason: if rng.chance(1, 2) { Some(gen_text(rng)) } else { None } }),
        4 => RtcpPacket::PictureLossIndication(PictureLossIndication { sender_ssrc: rng.next() as u32, media_ssrc: rng.next() as u32 }),
        5 => RtcpPacket::FullIntraRequest(FullIntraRequest { sender_ssrc: rng.next() as u32,
            requests: (0..rng.range(0, 3)).map(|_| FirRequest { ssrc: rng.next() as u32, sequence_number: rng.next() as u8 }).collect() }),
        6 => { let base = rng.next() as u16;
            RtcpPacket::GenericNack(GenericNack { sender_ssrc: rng.next() as u32, media_ssrc: rng.next() as u32,
                lost_packets: (0..rng.range(1, 12)).map(|_| base.wrapping_add(rng.below(40) as u16)).collect() }) }
        7 => RtcpPacket::RemoteBitrateEstimate(RemoteBitrateEstimate { sender_ssrc: rng.next() as u32, bitrate_bps: rng.below(1 << 40),
            ssrcs: (0..rng.range(0, 4)).map(|_| rng.next() as u32).collect() }),
        _ => RtcpPacket::TransportWideCc(TransportWideCc { sender_ssrc: rng.next() as u32, media_ssrc: rng.next() as u32,
            base_sequence: rng.next() as u16, packet_status_count: rng.next() as u16, reference_time_64ms: rng.below(1 << 24) as u32,
            feedback_packet_count: rng.next() as u8, payload: { let n = 4 * rng.range(0, 5) as usize; rng.bytes(n) } }),
    }
}
/// oracle-only stream `rtcpmarshal`: the marshal side of RTCP on structured packets (incl. text that is not ASCII and longer
/// than the one-byte length field): total, output bounded by the packet, and what it writes parses again. Input = generator seed.
fn run_rtcpmarshal(run: &mut Run, seed: u64, nt: bool) {
    let mut r = Rng::new(seed);
    let ps: Vec<RtcpPacket> = (0..r.range(1, 4)).map(|_| gen_rtcp_packet(&mut r)).collect();
    let size: usize = ps.iter().map(|p| match p {
        RtcpPacket::SourceDescription(s) => 64 + s.chunks.iter().map(|c| 8 + c.items.iter().map(|i| 2 + i.text.len()).sum::<usize>()).sum::<usize>(),
        RtcpPacket::Goodbye(b) => 64 + b.reason.as_ref().map(|t| t.len()).unwrap_or(0),
        _ => 256 }).sum();
    let last = super::exec(run, "rtcpmarshal", &seed.to_string(), "rtp::marshal_rtcp_packets", nt, Some((8, 1024, size as u64)), move || {
        match marshal_rtcp_packets(&ps) {
            Ok(v) => match parse_rtcp_packets(&v, None) { Ok(q) if q.len() == ps.len() => "noncompared".into(), Ok(q) => format!("roundtrip-count {} {}", ps.len(), q.len()),
                Err(e) => format!("roundtrip-{}", err_text(&e)) },
            Err(_) => "noncompared".into(),
        }
    });
    if last.starts_with("roundtrip") { run.fail("roundtrip:rtp::marshal_rtcp_packets", &format!("rtcpmarshal {seed}"), &last); }
}

fn valid_rtcp(rng: &mut Rng) -> Vec<u8> {
    let ps: Vec<RtcpPacket> = (0..rng.range(1, 4)).map(|_| gen_rtcp_packet(rng)).collect();
    let ps2 = ps.clone();
    // a panic here is reported by the `rtcpmarshal` stream; the generator itself must survive it
    let mut v = match super::catch_ack(move || marshal_rtcp_packets(&ps2).ok()).unwrap_or(None) { Some(v) => v, None => marshal_rtcp_packets(&[RtcpPacket::PictureLossIndication(PictureLossIndication { sender_ssrc: 1, media_ssrc: 2 })]).unwrap() };
    if rng.chance(1, 5) && !v.is_empty() {
        // RTCP padding on the last packet: set P bit, append pad words
        let mut off = 0; let mut last = 0;
        while off + 4 <= v.len() { last = off; off += (u16::from_be_bytes([v[off + 2], v[off + 3]]) as usize + 1) * 4; }
        let words = u16::from_be_bytes([v[last + 2], v[last + 3]]) + 1;
        v[last] |= 0x20; v[last + 2..last + 4].copy_from_slice(&words.to_be_bytes());
        v.extend_from_slice(&[0, 0, 0, 4]);
    }
    v
}

pub fn targets() -> Vec<Target> {
    vec![
        // rtp: parse copies the input (1·len+60); the parsed-packet operations in the same call (clone, 3×marshal,
        // 2×set_extension) add ≤ 8·len + 2000
        Target { stream: "rtp", entry: "RtpPacket::parse/ops", call: call_rtp, valid: valid_rtp, alloc: Some((1, 60)), weight: 2 },
        // rtcp: theorem 40·len+1280; the re-marshal of the parsed packets in the same call adds ≤ 20·len
        Target { stream: "rtcp", entry: "parse_rtcp_packets", call: call_rtcp, valid: valid_rtcp, alloc: Some((40, 1280)), weight: 3 },
    ]
}

// ---------------------------------------------------------------------------------------------
// get_extension / set_extension / marshal on arbitrary header-extension blocks and packet shapes

fn mk_header(present: bool, profile: u16, block: &[u8]) -> RtpHeader {
    let mut h = RtpHeader::new(96, 1, 2, 3);
    if present { h.extension = Some(RtpHeaderExtension { profile, data: Bytes::copy_from_slice(block) }); }
    h
}

fn run_getext(run: &mut Run, id: u8, present: bool, profile: u16, block: &[u8], nt: bool) {
    let h = mk_header(present, profile, block);
    let input = format!("{id} {} {profile} {}", present as u8, hex(block));
    exec(run, "getext", &input, "RtpHeader::get_extension", nt, Some((0, 0, 0)), move || { let r = h.get_extension(id); super::mark_alloc(); match r {
        None => "ok none".into(), Some(b) => format!("ok some {}", hex(&b)) } });
}
fn run_setext(run: &mut Run, id: u8, data: &[u8], present: bool, profile: u16, block: &[u8], nt: bool) {
    let mut h = mk_header(present, profile, block);
    let input = format!("{id} {} {} {profile} {}", hex(data), present as u8, hex(block));
    let d = data.to_vec();
    exec(run, "setext", &input, "RtpHeader::set_extension", nt, Some((10, 200, block.len() as u64)), move || { super::start_alloc(); let r = h.set_extension(id, &d); super::mark_alloc(); match r {
        Ok(()) => {
            let e = h.extension.as_ref().expect("extension present after set");
            // the rebuilt packet must still marshal (aligned block)
            let p = RtpPacket::new(h.clone(), vec![1, 2, 3]);
            let m = p.marshal();
            format!("ok {}{}", hex(&e.data), if m.is_ok() { "" } else { " marshal-failed" })
        }
        Err(e) => err_text(&e) } });
}
fn run_marshal(run: &mut Run, pt: u8, ncsrc: usize, has_ext: bool, ext_len: usize, payload: usize, pad: u8, nt: bool) {
    let mut h = RtpHeader::new(pt, 1, 2, 3);
    h.csrcs = vec![7; ncsrc];
    if has_ext { h.extension = Some(RtpHeaderExtension::new(0xBEDE, vec![0; ext_len])); }
    let mut p = RtpPacket::new(h, vec![5; payload]);
    p.padding_len = pad;
    let input = format!("{pt} {ncsrc} {} {ext_len} {payload} {pad}", has_ext as u8);
    let total = (12 + 4 * ncsrc + if has_ext { 4 + ext_len } else { 0 } + payload + pad as usize) as u64;
    exec(run, "marshal", &input, "RtpPacket::marshal", nt, Some((1, 0, total)), move || {
        super::start_alloc();
        let r = p.marshal();
        super::mark_alloc();
        let mut buf = Vec::new();
        p.marshal_into(&mut buf);                         // the unchecked fast path must be total as well
        match r { Ok(v) => { assert_eq!(v.len(), buf.len()); format!("ok {}", v.len()) } Err(e) => err_text(&e) } });
}

fn gen_block(rng: &mut Rng) -> Vec<u8> {
    match rng.below(6) {
        0 => one_byte_ext(rng),
        1 => two_byte_ext(rng),
        2 => { let mut d = one_byte_ext(rng); let n = d.len(); if n > 0 { d.truncate(rng.below(n as u64) as usize); } d }   // truncated
        3 => { let mut d = one_byte_ext(rng); d.push(((rng.range(1, 14) as u8) << 4) | rng.below(16) as u8); let k = rng.below(3) as usize; d.extend(rng.bytes(k)); d } // overrunning last element
        4 => { let mut d = one_byte_ext(rng); let e = d.clone(); d.extend(e); d }                                         // duplicate ids
        _ => { let k = rng.below(24) as usize; rng.bytes(k) }
    }
}

/// framed truncations: every sub-packet of a valid compound re-framed alone with its body cut to every length
/// (length field and RTCP padding adjusted so that the *inner* parser sees the short body)
fn rtcp_reframed(v: &[u8]) -> Vec<Vec<u8>> {
    let mut out = vec![];
    let mut off = 0;
    while off + 4 <= v.len() {
        let plen = (u16::from_be_bytes([v[off + 2], v[off + 3]]) as usize + 1) * 4;
        if off + plen > v.len() { break; }
        let body = &v[off + 4..off + plen];
        for k in 0..=body.len() {
            let words = (k + 3) / 4; let pad = words * 4 - k;
            let mut p = vec![(v[off] & 0xDF) | if pad > 0 { 0x20 } else { 0 }, v[off + 1]];
            p.extend_from_slice(&(words as u16).to_be_bytes());
            p.extend_from_slice(&body[..k]);
            if pad > 0 { p.extend(std::iter::repeat(0u8).take(pad - 1)); p.push(pad as u8); }
            out.push(p);
        }
        // count field (fmt) larger / smaller than the body provides
        for fmt in [0u8, 1, 2, 31] { let mut p = v[off..off + plen].to_vec(); p[0] = (p[0] & 0xE0) | fmt; out.push(p); }
        off += plen;
    }
    out
}

pub fn special(run: &mut Run, rng: &mut Rng, thorough: bool) {
    {
        let t = &targets()[1];
        for _ in 0..(if thorough { 3_000 } else { 120 }) {
            let v = valid_rtcp(rng);
            for m in rtcp_reframed(&v) { super::run_bytes(run, t, &m, true); }
        }
    }
    for _ in 0..(if thorough { 60_000 } else { 2_000 }) { let seed = rng.next(); run_rtcpmarshal(run, seed, true); }
    let profiles = [0xBEDEu16, 0x1000, 0x1005, 0x100F, 0x1010, 0x0FFF, 0x1234];
    // exhaustive: every block of length ≤ 1 (≤ 2 thorough) × every id × both profiles
    let mut small: Vec<Vec<u8>> = vec![vec![]];
    for a in 0..=255u8 { small.push(vec![a]); }
    if thorough { for a in 0..=255u8 { for b in (0..=255u8).step_by(3) { small.push(vec![a, b]); } } }
    else { for a in (0..=255u8).step_by(5) { for b in [0u8, 1, 0x10, 0x1f, 0x32, 0xf0, 0xff] { small.push(vec![a, b]); } } }
    for blk in &small {
        for id in [0u8, 1, 3, 14, 15] {
            run_getext(run, id, true, 0xBEDE, blk, false);
            run_getext(run, id, true, 0x1000, blk, false);
            run_setext(run, id, &[0xAA], true, 0xBEDE, blk, false);
        }
    }
    // the design-time witness
    run_setext(run, 2, &[1], true, 0xBEDE, &[0x1F, 0, 0, 0], true);
    let n = if thorough { 200_000 } else { 6_000 };
    for _ in 0..n {
        let blk = gen_block(rng);
        let id = *rng.pick(&[0u8, 1, 2, 3, 5, 14, 15, 16, 200]);
        let profile = *rng.pick(&profiles);
        let present = !rng.chance(1, 10);
        run_getext(run, id, present, profile, &blk, true);
        let dl = *rng.pick(&[0usize, 1, 1, 2, 3, 8, 16, 17]);
        let data = rng.bytes(dl);
        run_setext(run, id, &data, present, profile, &blk, true);
    }
    for _ in 0..(if thorough { 20_000 } else { 1_500 }) {
        let ncsrc = *rng.pick(&[0usize, 0, 1, 2, 15, 16, 17, 40]);
        let has_ext = rng.chance(1, 2);
        let ext_len = *rng.pick(&[0usize, 1, 3, 4, 8, 12, 13, 1024, 262140, 262144, 262148]);
        let pt = *rng.pick(&[0u8, 96, 96, 127, 128, 255]);
        run_marshal(run, pt, ncsrc, has_ext, ext_len, rng.below(300) as usize, *rng.pick(&[0u8, 0, 1, 4, 255]), true);
    }
}

pub fn replay_special(run: &mut Run, stream: &str, a: &[&str]) -> bool {
    let p = |s: &str| s.parse::<u64>().unwrap_or(0);
    match (stream, a.len()) {
        ("rtcpmarshal", 1) => run_rtcpmarshal(run, p(a[0]), true),
        ("getext", 4) => run_getext(run, p(a[0]) as u8, a[1] == "1", p(a[2]) as u16, &unhex(a[3]), true),
        ("setext", 5) => run_setext(run, p(a[0]) as u8, &unhex(a[1]), a[2] == "1", p(a[3]) as u16, &unhex(a[4]), true),
        ("marshal", 6) => run_marshal(run, p(a[0]) as u8, p(a[1]) as usize, a[2] == "1", p(a[3]) as usize, p(a[4]) as usize, p(a[5]) as u8, true),
        _ => return false,
    }
    true
}

/// sizes of the element types the allocation model uses (model constants must be ≥ these)
pub fn type_sizes() -> serde_json::Value {
    serde_json::json!({
        "ReportBlock": std::mem::size_of::<ReportBlock>(), "RtcpPacket": std::mem::size_of::<RtcpPacket>(),
        "SdesChunk": std::mem::size_of::<SdesChunk>(), "SdesItem": std::mem::size_of::<SdesItem>(),
    })
}
