//! C07 — the RTP / RTCP network entry of a connection: `IceConn::receive` (first-byte demux, latching / probation table)
//! handing to `RtpTransport::receive` (RTCP classification, SRTP, RID / MID / SSRC / payload-type routing, SSRC binding).
//! Oracle-only stream `rtprecv` (both lines `noncompared`): a real `IceConn` with a real `RtpTransport` installed as its
//! RTP receiver, listeners of every kind registered and drained; datagrams come from the RTP / RTCP generators (valid,
//! truncated, mutated), every datagram of ≤ 2 bytes (1 byte exhaustive), SRTP-protected genuine packets and their
//! mutations, from several source addresses. Oracles: panic (process-wide), per-call deadline, allocation
//! ≤ 2·(64·len + 32 KiB) + 512 (an authentic packet with a new SSRC creates an SRTP context).
//! `rtpflood`: what the entry RETAINS and how long it takes when every packet carries a new SSRC (payload-type route → the SSRC
//! is bound) or comes from a new source address while latching (probation table).
use super::exec;
use crate::{Rng, Run, hex, unhex};
use bytes::Bytes;
use rustrtc::rtp::{RtcpPacket, RtpPacket};
use rustrtc::srtp::{SrtpKeyingMaterial, SrtpProfile, SrtpSession};
use rustrtc::transports::PacketReceiver;
use rustrtc::transports::ice::conn::IceConn;
use rustrtc::transports::rtp::RtpTransport;
use std::net::SocketAddr;
use std::sync::Arc;
use tokio::sync::mpsc;

/// fixture variants: bit 0 = SRTP session installed (AES_CM_128_HMAC_SHA1_80), bit 1 = latching with a probation window,
/// bit 2 = latching without probation, bit 3 = an expected SSRC is set, bit 4 = a rewrite bridge to a second transport is installed
/// (relay: SSRC / PT / DTMF rewrite, sequence and timestamp continuation, MID stamping, re-serialisation), bit 5 = the bridge strips extensions,
/// bit 6 = the destination protects with SRTP
pub struct Fix {
    rt: tokio::runtime::Runtime,
    conn: Arc<IceConn>,
    pub tr: Arc<RtpTransport>,
    rtp_rx: Vec<mpsc::Receiver<(RtpPacket, SocketAddr)>>,
    rtcp_rx: mpsc::Receiver<Vec<RtcpPacket>>,
    pub tx: Option<SrtpSession>,
    _sock_tx: tokio::sync::watch::Sender<Option<rustrtc::transports::ice::IceSocketWrapper>>,
    pub variant: u8,
    _dst: Option<(Arc<RtpTransport>, tokio::sync::watch::Sender<Option<rustrtc::transports::ice::IceSocketWrapper>>)>,
}
fn km(dir: u8) -> SrtpKeyingMaterial { SrtpKeyingMaterial::new((0..16).map(|k| k as u8 ^ (0x30 + dir)).collect(), (0..14).map(|k| k as u8 ^ (0x70 + dir)).collect()) }

impl Fix {
    pub fn new(variant: u8) -> Self {
        let rt = tokio::runtime::Builder::new_current_thread().enable_all().build().unwrap();
        let (sock_tx, sock_rx) = tokio::sync::watch::channel(None);
        let conn = IceConn::new(sock_rx, "127.0.0.1:4000".parse().unwrap(), Some("c07".into()));
        if variant & 2 != 0 { conn.set_probation_max_packets(Some(5)); conn.enable_latch_on_rtp(); }
        else if variant & 4 != 0 { conn.enable_latch_on_rtp(); }
        if variant & 8 != 0 { conn.set_expected_ssrc(0x1000); }
        let srtp = variant & 1 != 0;
        let tr = Arc::new(RtpTransport::new(conn.clone(), srtp));
        let mut rtp_rx = vec![];
        let mut mk = || { let (tx, rx) = mpsc::channel(4); rtp_rx.push(rx); tx };
        tr.register_listener_sync(0x1000, mk());
        tr.register_pt_listener(96, mk());
        tr.register_pt_listener(97, mk());
        tr.register_rid_listener("hi".into(), mk());
        tr.register_mid_listener("0".into(), mk());
        tr.set_rid_extension_id(Some(3));
        tr.set_sdes_mid_extension_id(Some(1));
        tr.set_abs_send_time_extension_id(Some(2));
        let (ctx, rtcp_rx) = mpsc::channel(4);
        tr.register_rtcp_listener(ctx);
        let mut tx = None;
        if srtp {
            tr.start_srtp(SrtpSession::new(SrtpProfile::Aes128Sha1_80, km(2), km(1)).unwrap());
            tx = Some(SrtpSession::new(SrtpProfile::Aes128Sha1_80, km(1), km(2)).unwrap());
        }
        conn.set_rtp_receiver(tr.clone() as Arc<dyn PacketReceiver>);
        let mut dst = None;
        if variant & 16 != 0 {
            use rustrtc::transports::rtp::{RtpRewriteBridgeOptions, RtpRewriteRule};
            let (dtx, drx) = tokio::sync::watch::channel(None);
            let dconn = IceConn::new(drx, "127.0.0.1:4100".parse().unwrap(), Some("c07-dst".into()));
            let d = Arc::new(RtpTransport::new(dconn, variant & 64 != 0));
            if variant & 64 != 0 { d.start_srtp(SrtpSession::new(SrtpProfile::Aes128Sha1_80, km(3), km(4)).unwrap()); }
            let options = RtpRewriteBridgeOptions { strip_extensions: variant & 32 != 0, initial_sequence_number: Some(0xFFF8), initial_timestamp_offset: Some(0xFFFF_FF00), initial_output_timestamp: None };
            let rules = vec![
                RtpRewriteRule { match_payload_type: Some(96), fixed_out_ssrc: Some(0x7000), ssrc_offset: 0, out_payload_type: Some(100), sdes_mid_extension_id: Some(1), sdes_mid: Some("0".into()) },
                RtpRewriteRule { match_payload_type: Some(97), fixed_out_ssrc: None, ssrc_offset: 0xFFFF_FFFF, out_payload_type: None, sdes_mid_extension_id: Some(14), sdes_mid: Some("a-rather-long-mid".into()) },
                RtpRewriteRule { match_payload_type: None, fixed_out_ssrc: None, ssrc_offset: 7, out_payload_type: Some(8), sdes_mid_extension_id: None, sdes_mid: None },
            ];
            tr.bridge_rewrite_rules_to(d.clone(), options, rules);
            dst = Some((d, dtx));
        }
        Fix { rt, conn, tr, rtp_rx, rtcp_rx, tx, _sock_tx: sock_tx, variant, _dst: dst }
    }
    fn drain(&mut self) -> usize {
        let mut n = 0;
        for r in self.rtp_rx.iter_mut() { while r.try_recv().is_ok() { n += 1; } }
        while self.rtcp_rx.try_recv().is_ok() { n += 1; }
        n
    }
    pub fn feed(&mut self, pkt: &[u8], from: SocketAddr) {
        let c = self.conn.clone();
        let p = Bytes::copy_from_slice(pkt);
        self.rt.block_on(async move { let mut mb = Vec::new(); c.receive(p, from, &mut mb).await; });
    }
}

fn src(i: u8) -> SocketAddr { match i { 0 => "127.0.0.1:4000".parse().unwrap(), 1 => "127.0.0.1:4001".parse().unwrap(), 2 => "10.9.8.7:4000".parse().unwrap(), _ => "[::1]:4000".parse().unwrap() } }

pub fn run_rtprecv(run: &mut Run, fix: &mut Fix, from: u8, pkt: &[u8], nt: bool) {
    let d = pkt.to_vec();
    let variant = fix.variant;
    let mut f = std::panic::AssertUnwindSafe(&mut *fix);
    // with an SRTP-protected destination leg every new output SSRC adds a ≈ 7 KB protect context to a hash table that stores them inline: a
    // rehash of a table of k contexts allocates ≈ 2k·7 KB in one call (amortised; the table is capped at 1024). The per-call bound of these
    // variants allows for a table of ≈ 256 contexts; growth itself is judged by the retained-memory flood (`rtpflood 4`).
    let b = if variant & 64 != 0 { 4 << 20 } else { 32768 };
    exec(run, "rtprecv", &format!("{variant} {from} {}", hex(pkt)), "IceConn::receive→RtpTransport::receive", nt, Some((64, b, pkt.len() as u64)), move || {
        f.feed(&d, src(from));
        super::mark_alloc();
        let n = f.drain();
        let _ = n;
        "noncompared".into()
    });
}

fn protect(fix: &mut Fix, rng: &mut Rng) -> Vec<u8> {
    let Some(tx) = fix.tx.as_mut() else { return vec![] };
    if rng.chance(1, 3) {
        let mut c = super::catch_ack({ let p = super::rtp::gen_rtcp_packet(rng); move || rustrtc::rtp::marshal_rtcp_packets(&[p]).unwrap_or_default() }).unwrap_or_default();
        if c.len() >= 8 { c[4..8].copy_from_slice(&(0x2000u32 + rng.below(3) as u32).to_be_bytes()); }
        if tx.protect_rtcp(&mut c).is_ok() { c } else { vec![] }
    } else {
        let mut pk = super::rtp::gen_rtp_packet(rng);
        pk.header.ssrc = *rng.pick(&[0x1000u32, 0x1001, 0x1002]);
        pk.header.payload_type = *rng.pick(&[96u8, 97, 0, 111]);
        let mut out = vec![0u8; tx.protected_rtp_len(&pk)];
        match tx.protect_rtp(&pk, &mut out) { Ok(_) => out, Err(_) => vec![] }
    }
}

fn cpu_time() -> f64 {
    // utime + stime of this thread in seconds (clock ticks of 10 ms); robust against a loaded machine
    if let Ok(s) = std::fs::read_to_string("/proc/thread-self/stat") {
        if let Some(rest) = s.rsplit(')').next() { let f: Vec<&str> = rest.split_whitespace().collect();
            if f.len() > 13 { if let (Ok(u), Ok(k)) = (f[11].parse::<f64>(), f[12].parse::<f64>()) { return (u + k) / 100.0; } } }
    }
    0.0
}

/// kind 0: plain RTP, a new SSRC per packet on a uniquely routed payload type (each is bound: `bind_ssrc_route`);
/// kind 1: latching with probation, a new source address per packet (`probation.candidates`);
/// kind 2: plain RTP, new SSRC per packet with a RID extension naming a registered rid (bound through the RID route);
/// kind 4: relay into an SRTP-protected leg with a new source SSRC per packet (bridge stream state + one SRTP protect context per SSRC);
/// kind 3: 72 000 packets relayed through a rewrite bridge (`RewriteBridge.streams`, output sequence / timestamp continuation).
/// Oracles: retained ≤ 16·bytes received + 64 KiB; CPU time of the flood must not grow faster than linearly:
/// flood(4n) ≤ 8·flood(n) once flood(4n) ≥ 0.4 s (a per-packet scan of everything received so far is quadratic).
pub fn run_rtpflood(run: &mut Run, kind: u8, count: u32) {
    let case = format!("rtpflood {kind} {count}");
    let mut times = [0f64; 2];
    let mut retained = 0u64; let mut bytes_in = 0u64;
    let r = super::catch_ack(move || {
        let mut out = (0u64, 0u64, [0f64; 2]);
        for (round, n) in [count / 4, count].into_iter().enumerate() {
            let mut fix = Fix::new(match kind { 1 => 2, 3 => 16, 4 => 16 + 64, _ => 0 });
            super::alloc_reset();
            let t0 = cpu_time();
            let mut bytes = 0u64;
            for k in 0..n {
                let mut p = vec![0x80u8, 96, (k >> 8) as u8, k as u8, 0, 0, 0, 1];
                // kind 3: one source stream relayed through the bridge for longer than the 16-bit sequence space; every 64th packet a new source SSRC
                let ssrc = if kind == 1 { 0x1000 } else if kind == 3 { 0x5000_0000 + k / 64 * (k % 64 == 0) as u32 } else { 0x4000_0000 + k };
                p.extend_from_slice(&ssrc.to_be_bytes());
                if kind == 2 { p[0] = 0x90; p.extend_from_slice(&[0xBE, 0xDE, 0, 1, 0x31, b'h', b'i', 0]); }
                if kind == 4 { p[1] = 98; }                      // catch-all rule: output SSRC = source SSRC + 7
                p.push(0x55);
                bytes += p.len() as u64;
                let from: SocketAddr = if kind == 1 { SocketAddr::new(std::net::IpAddr::V4(std::net::Ipv4Addr::from(0x0A00_0000 + k)), 5000) } else { src(0) };
                fix.feed(&p, from);
                if k % 2 == 0 { fix.drain(); }
            }
            out.2[round] = cpu_time() - t0;
            if round == 1 { out.0 = super::alloc_retained().max(0) as u64; out.1 = bytes; }
            drop(fix);
        }
        out
    });
    match r {
        Ok((ret, b, t)) => { retained = ret; bytes_in = b; times = t; }
        Err(msg) => run.fail(&format!("panic:RtpTransport::receive(flood):{}", super::panic_site(&msg)), &case, &msg),
    }
    run.count_n(&format!("rtpflood:retained_per_input_byte_x100:{kind}"), retained * 100 / bytes_in.max(1));
    run.count_n(&format!("rtpflood:cpu_ms:{kind}"), (times[1] * 1000.0) as u64);
    if retained > 16 * bytes_in + 65536 {
        run.fail(&format!("retain:RtpTransport::receive:{}", ["ssrc-bind-per-packet", "probation-per-source", "ssrc-bind-per-packet(rid)", "bridge-stream-per-ssrc", "bridge-srtp-context-per-ssrc"][kind.min(4) as usize]), &case,
            &format!("{retained} bytes retained after {count} packets ({bytes_in} bytes received)"));
    }
    if times[1] >= 0.4 && times[1] > 8.0 * times[0].max(0.01) {
        run.fail(&format!("slow:RtpTransport::receive:{}", ["ssrc-bind-scan", "probation-scan", "ssrc-bind-scan(rid)", "bridge", "bridge-srtp"][kind.min(4) as usize]), &case,
            &format!("{} packets took {:.2} s CPU, {} packets {:.2} s: super-linear in the number of packets received", count / 4, times[0], count, times[1]));
    }
    run.case("rtpflood", &format!("{kind} {count}"), "noncompared", true);
}

pub fn special(run: &mut Run, rng: &mut Rng, thorough: bool) {
    let variants: &[u8] = if thorough { &[0, 1, 2, 3, 4, 6 + 4, 8 + 2, 8 + 4 + 1, 16, 16 + 32, 16 + 64, 16 + 1, 16 + 64 + 1] } else { &[0, 1, 2, 8 + 4, 16, 16 + 32 + 64] };
    for &v in variants {
        let mut fix = Fix::new(v);
        // every datagram of length 0 and 1; 2-byte datagrams on the classification boundaries
        run_rtprecv(run, &mut fix, 0, &[], false);
        for a in 0..=255u8 { run_rtprecv(run, &mut fix, (a % 3) as u8, &[a], false); }
        for a in [0u8, 1, 2, 19, 20, 63, 64, 127, 128, 129, 144, 160, 191, 192, 255] { for b in [0u8, 72, 95, 96, 127, 191, 192, 199, 200, 204, 208, 209, 211, 212, 224, 255] { run_rtprecv(run, &mut fix, 0, &[a, b], false); } }
        let n = if thorough { 6_000 } else { 350 };
        for _ in 0..n {
            let from = *rng.pick(&[0u8, 0, 0, 1, 2, 3]);
            let base: Vec<u8> = match rng.below(6) {
                0 | 1 => { let mut pk = super::rtp::gen_rtp_packet(rng); let rs = rng.next() as u32; pk.header.ssrc = *rng.pick(&[0x1000u32, 0x1001, rs]); pk.header.payload_type = *rng.pick(&[96u8, 97, 98, 0, 72, 80]);
                    super::catch_ack(move || pk.marshal().unwrap_or_default()).unwrap_or_default() }
                2 => { let p = super::rtp::gen_rtcp_packet(rng); super::catch_ack(move || rustrtc::rtp::marshal_rtcp_packets(&[p]).unwrap_or_default()).unwrap_or_default() }
                3 | 4 => protect(&mut fix, rng),
                _ => { let n = rng.below(40) as usize; let mut b = rng.bytes(n); if !b.is_empty() { b[0] = 0x80 | (b[0] & 0x3F); } b }
            };
            run_rtprecv(run, &mut fix, from, &base, true);
            if base.is_empty() { continue; }
            // truncations at the structural boundaries and a few mutations
            for cut in [1usize, 2, 3, 4, 8, 11, 12, 13, 15, 16, base.len() - 1] { if cut < base.len() { run_rtprecv(run, &mut fix, from, &base[..cut], true); } }
            for _ in 0..3 { let mut m = base.clone(); let i = rng.below(m.len().min(24) as u64) as usize; m[i] = *rng.pick(&[0u8, 1, 0x0F, 0x10, 0x80, 0x90, 0xBE, 0xFF, 200, 201]); run_rtprecv(run, &mut fix, from, &m, true); }
        }
    }
    let n = if thorough { 80_000 } else { 40_000 };
    for kind in 0..3u8 { run_rtpflood(run, kind, n); }
    run_rtpflood(run, 4, 60_000);                          // relay into an SRTP leg, a new source SSRC per packet: long enough that the constant cap on protect contexts (1024 × ≈ 7 KB) passes the linear bound and per-SSRC growth does not
    chain_special(run, rng, thorough);
    run_rtpflood(run, 3, 72_000);                          // relay: the rewritten sequence number passes 0xFFFF (seeded 0xFFF8) and a full 16-bit cycle
}

pub fn replay_special(run: &mut Run, stream: &str, a: &[&str]) -> bool {
    let p = |s: &str| s.parse::<u64>().unwrap_or(0);
    match (stream, a.len()) {
        ("rtprecv", 3) => { let mut f = Fix::new(p(a[0]) as u8); run_rtprecv(run, &mut f, p(a[1]) as u8, &unhex(a[2]), true); true }
        ("rtprecv", 2) => { let mut f = Fix::new(p(a[0]) as u8); run_rtprecv(run, &mut f, p(a[1]) as u8, &[], true); true }
        ("rtpflood", 2) => { run_rtpflood(run, p(a[0]) as u8, p(a[1]) as u32); true }
        ("rtpchain", _) => chain_replay(run, a),
        _ => false,
    }
}

// ---------------------------------------------------------------------------------------------------------------------
/// oracle-only stream `rtpchain`: what happens to RTP / RTCP AFTER `RtpTransport::receive` handed it on — a live
/// `PeerConnection` in plain-RTP mode (video transceiver with NACK and RTX negotiated, `enable_latching` on or off) whose
/// receive task (`RtpReceiver::run_loop`: RTX unwrap, interceptor chain with the receiver NACK generator, `StatsCollector`
/// sequence / cycle / jitter arithmetic, depacketizer) and RTCP loop (`process_rtcp`, sender NACK handler) run as in production.
/// A case is a short packet HISTORY on a fresh connection (sequence numbers and timestamps on and across the 16- / 32-bit
/// boundaries, gaps, reordering, duplicates, RTX with original sequence numbers, RTCP compounds). The tasks are the
/// connection's own: a panic in any of them is seen by the process-wide panic counter.
#[derive(Clone)]
pub enum ChainPk { Rtp { rtx: bool, other_pt: bool, seq: u16, ts: u32, ssrc: u8, marker: bool, len: usize }, Rtcp(Vec<u8>) }
fn chain_text(h: &[ChainPk]) -> String {
    h.iter().map(|p| match p {
        ChainPk::Rtp { rtx, other_pt, seq, ts, ssrc, marker, len } => format!("{}{seq}.{ts}.{ssrc}.{}.{len}", if *rtx { "x" } else if *other_pt { "a" } else { "v" }, *marker as u8),
        ChainPk::Rtcp(b) => format!("c{}", hex(b)) }).collect::<Vec<_>>().join(" ")
}
fn chain_parse(a: &[&str]) -> Vec<ChainPk> {
    a.iter().filter_map(|t| {
        let (k, rest) = t.split_at(1);
        if k == "c" { return Some(ChainPk::Rtcp(unhex(rest))); }
        let f: Vec<&str> = rest.split('.').collect(); if f.len() != 5 { return None; }
        Some(ChainPk::Rtp { rtx: k == "x", other_pt: k == "a", seq: f[0].parse().ok()?, ts: f[1].parse().ok()?, ssrc: f[2].parse().ok()?, marker: f[3] == "1", len: f[4].parse().ok()? })
    }).collect()
}
pub fn run_rtpchain(run: &mut Run, latching: bool, hist: &[ChainPk], nt: bool) {
    let h = hist.to_vec();
    let input = format!("{} {}", latching as u8, chain_text(hist));
    exec(run, "rtpchain", &input, "RtpReceiver::run_loop / rtcp loop", nt, None, move || {
        let rt = tokio::runtime::Builder::new_current_thread().enable_all().build().unwrap();
        rt.block_on(async {
            use rustrtc::{PeerConnection, SdpType, SessionDescription};
            let peer = tokio::net::UdpSocket::bind("127.0.0.1:0").await.expect("bind");
            let port = peer.local_addr().unwrap().port();
            let mut c = rustrtc::RtcConfiguration::default();
            c.transport_mode = rustrtc::TransportMode::Rtp; c.bind_ip = Some("127.0.0.1".into()); c.disable_ipv6 = true; c.enable_latching = latching;
            let pc = PeerConnection::new(c);
            let _ = pc.add_transceiver(rustrtc::MediaKind::Video, rustrtc::TransceiverDirection::SendRecv);
            let Ok(offer) = pc.create_offer().await else { pc.close(); return };
            let text = offer.to_sdp_string();
            let _ = pc.set_local_description(offer);
            // payload types of the offer: first video codec and its rtx
            let pt_of = |name: &str| text.lines().filter_map(|l| l.strip_prefix("a=rtpmap:")).find(|l| l.to_ascii_lowercase().contains(name)).and_then(|l| l.split(' ').next().and_then(|x| x.parse::<u8>().ok()));
            let vpt = text.lines().find(|l| l.starts_with("m=video")).and_then(|l| l.split(' ').nth(3).and_then(|x| x.parse::<u8>().ok())).unwrap_or(96);
            let xpt = pt_of("rtx/").unwrap_or(97);
            let mut ans = String::new();
            for line in text.lines() {
                if line.starts_with("m=video ") { let mut p: Vec<&str> = line.split(' ').collect(); let ps = port.to_string(); p[1] = &ps; ans.push_str(&p.join(" ")); ans.push_str("\r\n"); }
                else if line.starts_with("c=") { ans.push_str("c=IN IP4 127.0.0.1\r\n"); }
                else if line.starts_with("a=candidate") || line.starts_with("a=ssrc") {}
                else { ans.push_str(line); ans.push_str("\r\n"); }
            }
            ans.push_str("a=ssrc-group:FID 11 12\r\na=ssrc:11 cname:r\r\na=ssrc:12 cname:r\r\n");
            let Ok(d) = SessionDescription::parse(SdpType::Answer, &ans) else { pc.close(); return };
            if tokio::time::timeout(std::time::Duration::from_secs(5), pc.set_remote_description(d)).await.is_err() { panic!("set_remote_description(answer) did not return within 5 s"); }
            let up = pc.wait_for_rtp_transport_ready(std::time::Duration::from_millis(500)).await.is_ok();
            CHAIN_UP.with(|u| u.set(up));
            if let Some(tr) = pc.verif_lc_rtp_transport() {
                let conn = tr.ice_conn();
                let from: SocketAddr = format!("127.0.0.1:{port}").parse().unwrap();
                let mut mb = Vec::new();
                for p in &h {
                    let bytes = match p {
                        ChainPk::Rtcp(b) => b.clone(),
                        ChainPk::Rtp { rtx, other_pt, seq, ts, ssrc, marker, len } => {
                            let pt = if *rtx { xpt } else if *other_pt { 0 } else { vpt };
                            let ssrc32 = match ssrc { 0 => 11u32, 1 => 12, 2 => 0xFFFF_FFFF, _ => 0x2000 + *ssrc as u32 };
                            let mut v = vec![0x80u8, pt | if *marker { 0x80 } else { 0 }]; v.extend_from_slice(&seq.to_be_bytes()); v.extend_from_slice(&ts.to_be_bytes()); v.extend_from_slice(&ssrc32.to_be_bytes());
                            if *rtx { v.extend_from_slice(&((*ts & 0xFFFF) as u16).to_be_bytes()); }
                            v.extend(std::iter::repeat(0x65).take(*len)); v }
                    };
                    conn.receive(Bytes::from(bytes), from, &mut mb).await;
                    for _ in 0..4 { tokio::task::yield_now().await; }
                }
                tokio::time::sleep(std::time::Duration::from_millis(3)).await;
            }
            pc.close();
            tokio::time::sleep(std::time::Duration::from_millis(2)).await;
        });
        "noncompared".into()
    });
    run.count(&format!("rtpchain:transport_up:{}", CHAIN_UP.with(|u| u.get())));
}
thread_local! { static CHAIN_UP: std::cell::Cell<bool> = const { std::cell::Cell::new(false) }; }

fn gen_chain(rng: &mut Rng) -> Vec<ChainPk> {
    let mut out = vec![];
    let r16 = rng.next() as u16; let r32 = rng.next() as u32;
    let mut seq = *rng.pick(&[65533u16, 65534, 65535, 0, 1, 32767, 32768, 100, r16]);
    let mut ts = *rng.pick(&[0xFFFF_FF00u32, 0xFFFF_FFFF, 0, 0x7FFF_FFFF, 0x8000_0000, 90_000, r32]);
    for _ in 0..rng.range(2, 12) {
        match rng.below(12) {
            0 => { let p = super::rtp::gen_rtcp_packet(rng); let b = super::catch_ack(move || rustrtc::rtp::marshal_rtcp_packets(&[p]).unwrap_or_default()).unwrap_or_default(); if !b.is_empty() { out.push(ChainPk::Rtcp(b)); } continue; }
            1 => { // a NACK / PLI for our own sender, SSRCs on the boundaries
                let nack = RtcpPacket::GenericNack(rustrtc::rtp::GenericNack { sender_ssrc: 11, media_ssrc: *rng.pick(&[0u32, 11, 0xFFFF_FFFF]), lost_packets: (0..rng.range(1, 20)).map(|i| (*rng.pick(&[65530u16, 0, 32760])).wrapping_add(i as u16 * rng.range(1, 3) as u16)).collect() });
                let b = super::catch_ack(move || rustrtc::rtp::marshal_rtcp_packets(&[nack]).unwrap_or_default()).unwrap_or_default(); if !b.is_empty() { out.push(ChainPk::Rtcp(b)); } continue; }
            2 => seq = seq.wrapping_add(rng.range(2, 4) as u16),                       // a small gap (NACK generated), possibly across the wrap
            3 => seq = seq.wrapping_sub(rng.range(1, 3) as u16),                       // reordering / duplicate
            4 => seq = seq.wrapping_add(*rng.pick(&[300u16, 0x7FFF, 0x8000, 0x8001, 0xFFFE])), // gap beyond every cap
            5 => ts = ts.wrapping_add(*rng.pick(&[0x8000_0000u32, 0xFFFF_FFFF, 0x7FFF_FFFF])),
            _ => {}
        }
        let kind = rng.below(10);
        out.push(ChainPk::Rtp { rtx: kind == 0, other_pt: kind == 1, seq, ts, ssrc: *rng.pick(&[0u8, 0, 0, 0, 1, 2, 3]), marker: rng.chance(1, 4), len: *rng.pick(&[0usize, 1, 2, 20, 1200]) });
        seq = seq.wrapping_add(1); ts = ts.wrapping_add(*rng.pick(&[0u32, 3000, 3000, 90_000]));
    }
    out
}
pub fn chain_special(run: &mut Run, rng: &mut Rng, thorough: bool) {
    let v = |seq: u16, ts: u32| ChainPk::Rtp { rtx: false, other_pt: false, seq, ts, ssrc: 0, marker: false, len: 20 };
    // one packet lost exactly at the 16-bit wrap; a timestamp wrap; an RTX packet whose original sequence number is the lost one
    run_rtpchain(run, false, &[v(65534, 1000), v(65535, 4000), v(1, 10_000)], true);
    run_rtpchain(run, true, &[v(65533, 0xFFFF_F000), v(65535, 0xFFFF_FF00), v(2, 0x100), ChainPk::Rtp { rtx: true, other_pt: false, seq: 7, ts: 0, ssrc: 1, marker: false, len: 20 }], true);
    run_rtpchain(run, false, &[v(0, 0), v(0x8000, 0x8000_0000), v(0xFFFF, 0xFFFF_FFFF), v(0x7FFF, 1)], true);
    for i in 0..(if thorough { 6_000 } else { 250 }) { let h = gen_chain(rng); run_rtpchain(run, i % 3 == 0, &h, true); }
}
pub fn chain_replay(run: &mut Run, a: &[&str]) -> bool {
    if a.is_empty() { return false; }
    run_rtpchain(run, a[0] == "1", &chain_parse(&a[1..]), true); true
}
