//! C07 — SRTP / SRTCP unprotect totality (oracle-only stream `srtp`, lines are `noncompared`): the byte handling of
//! `SrtpPacket::parse` + `SrtpSession::unprotect_rtp` / `unprotect_rtcp` for all four profiles on genuine protected
//! packets (so the authenticated paths, replay window and roll-over logic run), their truncations / mutations, forged
//! SSRCs and random bytes. (Round-trip and forgery properties belong to C04/C05; here only panic / hang / allocation.)
use super::exec;
use crate::{Rng, Run, hex, unhex};
use bytes::BytesMut;
use rustrtc::rtp::marshal_rtcp_packets;
use rustrtc::srtp::{SrtpKeyingMaterial, SrtpPacket, SrtpProfile, SrtpSession};

fn profile(i: u8) -> SrtpProfile {
    match i { 0 => SrtpProfile::Aes128Sha1_80, 1 => SrtpProfile::Aes128Sha1_32, 2 => SrtpProfile::AeadAes128Gcm, _ => SrtpProfile::NullCipherHmac }
}
fn keys(i: u8, dir: u8) -> SrtpKeyingMaterial {
    let salt = if i == 2 { 12 } else { 14 };
    SrtpKeyingMaterial::new((0..16).map(|k| k as u8 ^ (0x30 + dir)).collect(), (0..salt).map(|k| k as u8 ^ (0x70 + dir)).collect())
}
pub struct Pair { tx: SrtpSession, rx: SrtpSession, prof: u8 }
fn pair(i: u8) -> Pair {
    Pair { tx: SrtpSession::new(profile(i), keys(i, 1), keys(i, 2)).unwrap(), rx: SrtpSession::new(profile(i), keys(i, 2), keys(i, 1)).unwrap(), prof: i }
}

fn run_one(run: &mut Run, p: &mut Pair, rtcp: bool, pkt: &[u8], nt: bool) {
    let d = pkt.to_vec();
    let mut pr = std::panic::AssertUnwindSafe(p);
    let prof = pr.prof;
    exec(run, "srtp", &format!("{prof} {} {}", rtcp as u8, hex(pkt)), if rtcp { "SrtpSession::unprotect_rtcp" } else { "SrtpSession::unprotect_rtp" }, nt,
        Some((8, 32768, pkt.len() as u64)), move || {
        if rtcp { let mut v = d.clone(); if pr.rx.unprotect_rtcp(&mut v).is_ok() { let _ = rustrtc::rtp::parse_rtcp_packets(&v, None); } }
        else if let Ok(sp) = SrtpPacket::parse(BytesMut::from(&d[..])) { if let Ok(r) = pr.rx.unprotect_rtp(sp) { let _ = r.marshal(); } }
        "noncompared".into()
    });
}

/// memory a receiver RETAINS after `count` packets that all fail authentication (fresh session, forged SSRCs):
/// the property allows memory proportional to the bytes received; the oracle flags more than 16·bytes + 64 KiB.
pub fn run_flood(run: &mut Run, prof: u8, count: u32, distinct_ssrc: bool) {
    let mut p = pair(prof);
    let case = format!("srtpflood {prof} {count} {}", distinct_ssrc as u8);
    let mut bytes_in = 0u64;
    super::alloc_reset();
    for k in 0..count {
        let mut pkt = vec![0x80u8, 96, (k >> 8) as u8, k as u8, 0, 0, 0, 1];
        pkt.extend_from_slice(&(if distinct_ssrc { 0x5000_0000 + k } else { 0x5000_0000 }).to_be_bytes());
        pkt.extend_from_slice(&[0u8; 24]);
        bytes_in += pkt.len() as u64;
        if let Ok(sp) = SrtpPacket::parse(BytesMut::from(&pkt[..])) { let _ = p.rx.unprotect_rtp(sp); }
        // the same forged SSRC as an SRTCP packet (RR header + index + tag bytes)
        let mut rtcp = vec![0x80u8, 201, 0, 1];
        rtcp.extend_from_slice(&(if distinct_ssrc { 0x5800_0000 + k } else { 0x5800_0000 }).to_be_bytes());
        rtcp.extend_from_slice(&[0u8; 20]);
        bytes_in += rtcp.len() as u64;
        let _ = p.rx.unprotect_rtcp(&mut rtcp);
    }
    let retained = super::alloc_retained().max(0) as u64;
    run.count_n(&format!("srtpflood:retained_per_input_byte_x100:{prof}:{}", distinct_ssrc as u8), retained * 100 / bytes_in.max(1));
    if retained > 16 * bytes_in + 65536 {
        run.fail("retain:SrtpSession::unprotect(forged-ssrc)", &case, &format!("{retained} bytes retained after {count} unauthenticated packets ({bytes_in} bytes received)"));
    }
    run.case("srtpflood", &format!("{prof} {count} {}", distinct_ssrc as u8), "noncompared", true);
    drop(p);
}

/// the same measurement for AUTHENTICATED packets that each use a new SSRC (a misbehaving but keyed peer)
pub fn run_flood_auth(run: &mut Run, prof: u8, count: u32) {
    let mut p = pair(prof);
    let case = format!("srtpfloodauth {prof} {count}");
    let mut pkts = vec![];
    for k in 0..count {
        let mut h = rustrtc::rtp::RtpHeader::new(96, k as u16, k, 0x6000_0000 + k);
        h.marker = false;
        let pk = rustrtc::rtp::RtpPacket::new(h, vec![0u8; 24]);
        let mut out = vec![0u8; p.tx.protected_rtp_len(&pk)];
        // the sending side has its own cap on live contexts: a fresh sender (same keys) for every 1000 SSRCs
        if k % 1000 == 0 { p.tx = pair(prof).tx; }
        if p.tx.protect_rtp(&pk, &mut out).is_ok() { pkts.push(out); }
    }
    let bytes_in: u64 = pkts.iter().map(|x| x.len() as u64).sum();
    super::alloc_reset();
    let mut accepted = 0u32;
    for pkt in &pkts { if let Ok(sp) = SrtpPacket::parse(BytesMut::from(&pkt[..])) { if p.rx.unprotect_rtp(sp).is_ok() { accepted += 1; } } }
    let retained = super::alloc_retained().max(0) as u64;
    run.count_n(&format!("srtpfloodauth:retained_per_input_byte_x100:{prof}"), retained * 100 / bytes_in.max(1));
    run.count_n(&format!("srtpfloodauth:accepted:{prof}"), accepted as u64);
    if retained > 16 * bytes_in + 65536 {
        run.fail("retain:SrtpSession::unprotect_rtp:authenticated-ssrc-churn", &case, &format!("{retained} bytes retained after {accepted} authenticated packets with distinct SSRCs ({bytes_in} bytes received)"));
    }
    run.case("srtpflood", &format!("auth {prof} {count}"), "noncompared", true);
    drop(p);
}

pub fn special(run: &mut Run, rng: &mut Rng, thorough: bool) {
    for prof in 0..4u8 { run_flood(run, prof, 2000, false); run_flood(run, prof, 2000, true); run_flood_auth(run, prof, 20_000); }
    for i in 0..4u8 {
        let mut p = pair(i);
        for rtcp in [false, true] { run_one(run, &mut p, rtcp, &[], false); for a in (0..=255u8).step_by(3) { run_one(run, &mut p, rtcp, &[a], false); } }
        let mut seq: u16 = 65_500;                               // crosses the sequence roll-over
        for _ in 0..(if thorough { 6_000 } else { 300 }) {
            // genuine SRTP
            let mut pk = super::rtp::gen_rtp_packet(rng);
            pk.header.ssrc = 0x1000 + rng.below(3) as u32; pk.header.sequence_number = seq; seq = seq.wrapping_add(rng.range(1, 3) as u16);
            let mut out = vec![0u8; p.tx.protected_rtp_len(&pk)];
            if p.tx.protect_rtp(&pk, &mut out).is_ok() {
                run_one(run, &mut p, false, &out, true);
                if rng.chance(1, 3) { run_one(run, &mut p, false, &out, true); }                 // replay
                let k = rng.below(out.len() as u64 + 1) as usize; run_one(run, &mut p, false, &out[..k], true);
                for m in super::mutations(&out, rng, 4) { run_one(run, &mut p, false, &m, true); }
            }
            // genuine SRTCP
            let mut c = { let p = super::rtp::gen_rtcp_packet(rng); super::catch_ack(move || marshal_rtcp_packets(&[p]).unwrap_or_default()).unwrap_or_default() };
            // pin the sender SSRC to the same small set as the RTP side: the per-call oracle is about one packet, the
            // growth of the context table with new authenticated SSRCs is measured separately (`srtpfloodauth`)
            if c.len() >= 8 { let ss = 0x1000u32 + rng.below(3) as u32; c[4..8].copy_from_slice(&ss.to_be_bytes()); }
            if c.len() >= 8 && p.tx.protect_rtcp(&mut c).is_ok() {
                run_one(run, &mut p, true, &c, true);
                let k = rng.below(c.len() as u64 + 1) as usize; run_one(run, &mut p, true, &c[..k], true);
                for m in super::mutations(&c, rng, 4) { run_one(run, &mut p, true, &m, true); }
            }
            // forged SSRC / random
            let n = rng.range(0, 80) as usize; let mut r = rng.bytes(n); if n > 1 { r[0] = 0x80; }
            run_one(run, &mut p, rng.chance(1, 2), &r, false);
        }
    }
}

pub fn replay_special(run: &mut Run, stream: &str, a: &[&str]) -> bool {
    if stream == "srtpfloodauth" && a.len() == 2 { run_flood_auth(run, a[0].parse().unwrap_or(0), a[1].parse().unwrap_or(2000)); return true; }
    if stream == "srtpflood" && a.len() == 3 { run_flood(run, a[0].parse().unwrap_or(0), a[1].parse().unwrap_or(2000), a[2] == "1"); return true; }
    if stream != "srtp" || a.len() != 3 { return false; }
    let mut p = pair(a[0].parse().unwrap_or(0));
    run_one(run, &mut p, a[1] == "1", &unhex(a[2]), true);
    true
}
