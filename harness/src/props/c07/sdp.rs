//! C07 — signaling side. Compared with the Lean model: `IceCandidate::from_sdp` on ASCII candidate lines (`cand`) and
//! the remote-mid arithmetic through a live `PeerConnection::set_remote_description` (`sdpmid`).
//! Oracle-only streams (implementation line and model line are both the literal `noncompared`; only the property
//! oracles panic / hang / allocation are evaluated): `sdpparse` = `SessionDescription::parse` + `to_sdp_string` +
//! `Rid/Simulcast/CryptoAttribute::parse` + candidate parse of every `a=` value; `sdpset` = the same text through
//! `set_remote_description` of a fresh PeerConnection (WebRTC / SRTP-SDES / plain RTP modes).
use super::exec;
use crate::{Rng, Run, hex, unhex};
use rustrtc::transports::ice::IceCandidate;
use rustrtc::{PeerConnection, RtcConfiguration, SdpType, SessionDescription};

fn typ_code(c: &IceCandidate) -> u64 {
    use rustrtc::transports::ice::IceCandidateType::*;
    match c.typ { Host => 1, ServerReflexive => 2, PeerReflexive => 3, Relay => 4 }
}

pub fn run_cand(run: &mut Run, s: &str, nt: bool) {
    let t = s.to_string();
    exec(run, "cand", &hex(s.as_bytes()), "IceCandidate::from_sdp", nt, None, move || { let r = IceCandidate::from_sdp(&t); super::mark_alloc(); match r {
        Ok(c) => {
            let _ = c.to_sdp();                                     // re-serialising must be total
            let tt = match c.tcp_type { None => 0, Some(x) => match format!("{x:?}").as_str() { "Active" => 1, "Passive" => 2, _ => 3 } };
            format!("ok {},{},{},{},{},{},{}", c.component, c.priority, c.address.port(), typ_code(&c), tt, (c.transport == "tcp") as u8,
                c.related_address.map_or(0, |a| a.port() as u64 + 1))
        }
        Err(_) => "err e".into(),
    } });
}

/// oracle-only stream `candutf` (lines `noncompared`): candidate strings with multi-byte characters INSIDE tokens (the compared
/// `cand` stream and its model are ASCII): any byte-offset operation on a `&str` (slice, truncate, split_at, index) is a char-boundary panic site
pub fn run_candutf(run: &mut Run, s: &str, nt: bool) {
    let t = s.to_string();
    exec(run, "candutf", &hex(s.as_bytes()), "IceCandidate::from_sdp", nt, Some((16, 1024, s.len() as u64)), move || {
        if let Ok(c) = IceCandidate::from_sdp(&t) { let _ = c.to_sdp(); }
        "noncompared".into()
    });
}
/// `line` with a 2-, 3- or 4-byte character inserted into / substituted in each space-separated token at the offsets where length
/// caps and prefix strips sit (0, 1, 2, 7, 8, 15, 16, 31, 32, 33, 63, 64, len-1, len)
pub fn utf8_variants(line: &str) -> Vec<String> {
    let toks: Vec<&str> = line.split(' ').collect();
    let mut out = vec![];
    for (ti, t) in toks.iter().enumerate() {
        if !t.is_ascii() { continue; }
        let n = t.len();
        let mut offs = vec![0usize, 1, 2, 7, 8, 15, 16, 31, 32, 33, 63, 64, n.saturating_sub(1), n];
        if let Some(c) = t.find(':') { offs.push(c); offs.push(c + 1); offs.push(c + 2); offs.push(c + 32); offs.push(c + 33); }
        offs.sort(); offs.dedup();
        for &o in offs.iter().filter(|&&o| o <= n) {
            for ch in ["é", "€", "😀"] {
                let ins = format!("{}{}{}", &t[..o], ch, &t[o..]);
                let mut v: Vec<String> = toks.iter().map(|x| x.to_string()).collect(); v[ti] = ins; out.push(v.join(" "));
                if o < n { let sub = format!("{}{}{}", &t[..o], ch, &t[o + 1..]); let mut v: Vec<String> = toks.iter().map(|x| x.to_string()).collect(); v[ti] = sub; out.push(v.join(" ")); }
            }
        }
    }
    out
}

fn gen_cand(rng: &mut Rng) -> String {
    let num = |rng: &mut Rng, max: u64| -> String { match rng.below(12) {
        0 => (max + 1).to_string(), 1 => max.to_string(), 2 => "0".into(), 3 => format!("+{}", rng.below(max + 1)), 4 => "-1".into(),
        5 => "".into(), 6 => format!("0{}", rng.below(100)), 7 => "99999999999999999999999".into(), 8 => "1x".into(), _ => rng.below(max + 1).to_string() } };
    let ip = match rng.below(8) { 0 => "256.1.1.1".into(), 1 => "1.2.3".into(), 2 => "01.2.3.4".into(), 3 => "host.local".into(), 4 => "1.2.3.4.5".into(),
        _ => format!("{}.{}.{}.{}", rng.below(256), rng.below(256), rng.below(256), rng.below(256)) };
    let mut parts: Vec<String> = vec![
        if rng.chance(1, 2) { format!("candidate:{}", rng.below(1 << 32)) } else { rng.below(1 << 32).to_string() },
        if rng.chance(3, 4) { rng.range(1, 2).to_string() } else { num(rng, 65535) },
        rng.pick(&["udp", "UDP", "tcp", "TCP", "Tcp", "sctp"]).to_string(),
        if rng.chance(3, 4) { rng.below(1 << 32).to_string() } else { num(rng, 4294967295) },
        ip,
        if rng.chance(3, 4) { rng.below(65536).to_string() } else { num(rng, 65535) },
        rng.pick(&["typ", "typ", "x"]).to_string(),
        rng.pick(&["host", "srflx", "prflx", "relay", "relay", "bogus", "HOST"]).to_string(),
    ];
    for _ in 0..rng.below(5) {
        match rng.below(5) {
            0 => { parts.push("tcptype".into()); parts.push(rng.pick(&["active", "passive", "so", "xx"]).to_string()); }
            1 => parts.push("tcptype".into()),
            2 => { parts.push("raddr".into()); parts.push(rng.pick(&["1.2.3.4", "10.0.0.256", "x", "0.0.0.0"]).to_string());
                   if rng.chance(4, 5) { parts.push("rport".into()); parts.push(rng.pick(&["0", "9", "65535", "65536", "+7", "x", ""]).to_string()); } }
            3 => { parts.push("generation".into()); parts.push("0".into()); }
            _ => parts.push("x".into()),
        }
    }
    if rng.chance(1, 6) { let k = rng.below(parts.len() as u64) as usize; parts.truncate(k); }
    let sep = *rng.pick(&[" ", " ", "  ", "\t"]);
    let mut s = parts.join(sep);
    if rng.chance(1, 8) { s = format!(" {s}\r\n"); }
    s
}

// ---------------------------------------------------------------------------------------------
const TEMPLATE: &str = "v=0\r\no=- 4611731400430051336 2 IN IP4 127.0.0.1\r\ns=-\r\nt=0 0\r\na=group:BUNDLE 0 1 2\r\na=msid-semantic: WMS\r\n\
m=audio 9 UDP/TLS/RTP/SAVPF 111 0 8\r\nc=IN IP4 0.0.0.0\r\na=rtcp:9 IN IP4 0.0.0.0\r\na=ice-ufrag:abcd\r\na=ice-pwd:0123456789abcdefghijklmn\r\n\
a=fingerprint:sha-256 00:11:22:33:44:55:66:77:88:99:AA:BB:CC:DD:EE:FF:00:11:22:33:44:55:66:77:88:99:AA:BB:CC:DD:EE:FF\r\na=setup:actpass\r\na=mid:0\r\n\
a=extmap:1 urn:ietf:params:rtp-hdrext:ssrc-audio-level\r\na=sendrecv\r\na=rtcp-mux\r\na=rtpmap:111 opus/48000/2\r\na=fmtp:111 minptime=10;useinbandfec=1\r\n\
a=rtpmap:0 PCMU/8000\r\na=ssrc:1001 cname:x\r\na=candidate:1 1 udp 2130706431 127.0.0.1 50000 typ host\r\n\
m=video 9 UDP/TLS/RTP/SAVPF 96 97\r\nc=IN IP4 0.0.0.0\r\na=ice-ufrag:abcd\r\na=ice-pwd:0123456789abcdefghijklmn\r\n\
a=fingerprint:sha-256 00:11:22:33:44:55:66:77:88:99:AA:BB:CC:DD:EE:FF:00:11:22:33:44:55:66:77:88:99:AA:BB:CC:DD:EE:FF\r\na=setup:actpass\r\na=mid:1\r\n\
a=sendrecv\r\na=rtcp-mux\r\na=rtpmap:96 H264/90000\r\na=fmtp:96 level-asymmetry-allowed=1;packetization-mode=1;profile-level-id=42e01f\r\na=rtpmap:97 rtx/90000\r\na=fmtp:97 apt=96\r\n\
a=rid:1 send pt=96;max-width=1280\r\na=rid:2 send\r\na=simulcast:send 1;2 recv 3\r\na=ssrc-group:FID 2001 2002\r\na=ssrc:2001 cname:y\r\n\
m=application 9 UDP/DTLS/SCTP webrtc-datachannel\r\nc=IN IP4 0.0.0.0\r\na=ice-ufrag:abcd\r\na=ice-pwd:0123456789abcdefghijklmn\r\n\
a=fingerprint:sha-256 00:11:22:33:44:55:66:77:88:99:AA:BB:CC:DD:EE:FF:00:11:22:33:44:55:66:77:88:99:AA:BB:CC:DD:EE:FF\r\na=setup:actpass\r\na=mid:2\r\na=sctp-port:5000\r\na=max-message-size:262144\r\n";
const TEMPLATE_SDES: &str = "v=0\r\no=- 1 1 IN IP4 10.0.0.1\r\ns=call\r\nc=IN IP4 10.0.0.1\r\nt=0 0\r\nm=audio 40000 RTP/SAVP 0 8 101\r\na=mid:0\r\n\
a=rtpmap:0 PCMU/8000\r\na=rtpmap:101 telephone-event/8000\r\na=crypto:1 AES_CM_128_HMAC_SHA1_80 inline:MTIzNDU2Nzg5MDEyMzQ1Njc4OTAxMjM0NTY3ODkw|2^31 UNENCRYPTED_SRTCP\r\na=sendrecv\r\n";

/// every line of `base` with its value cut to 0..n tokens and with one token more (n = its token count): the attribute parsers
/// index `parts[k]` after a length check — each count on each attribute is a different check
fn token_variants(base: &str) -> Vec<String> {
    let lines: Vec<&str> = base.split("\r\n").filter(|l| !l.is_empty()).collect();
    let mut out = vec![];
    for (i, l) in lines.iter().enumerate() {
        let toks: Vec<&str> = l.split(' ').collect();
        let mut vars: Vec<String> = (1..toks.len()).map(|k| toks[..k].join(" ")).collect();
        vars.push(format!("{l} 7"));
        // the first token itself cut after the attribute name's colon (`a=ssrc-group:` / `a=ssrc-group`)
        if let Some(c) = toks[0].find(':') { vars.push(toks[0][..=c].to_string()); vars.push(toks[0][..c].to_string()); }
        // sub-tokens of `;`- and `/`-separated values
        for sep in [';', '/', '|'] { if let Some(c) = l.rfind(sep) { vars.push(l[..c].to_string()); vars.push(l[..=c].to_string()); } }
        for v in vars { if v != *l { let mut ls: Vec<String> = lines.iter().map(|x| x.to_string()).collect(); ls[i] = v; out.push(ls.join("\r\n") + "\r\n"); } }
    }
    out
}

fn mutate_sdp(rng: &mut Rng, base: &str) -> String {
    let mut lines: Vec<String> = base.split("\r\n").filter(|l| !l.is_empty()).map(|s| s.to_string()).collect();
    let nums = ["0", "1", "65535", "65536", "4294967295", "4294967296", "18446744073709551615", "18446744073709551616", "-1", "+5", "", "99999999999999999999999999", "1e9", " 7"];
    for _ in 0..rng.range(1, 3) {
        let i = rng.below(lines.len() as u64) as usize;
        match rng.below(10) {
            0 => { lines.remove(i); }
            1 => { let l = lines[i].clone(); lines.insert(i, l); }
            2 => { // replace one run of digits by a boundary number
                let l = lines[i].clone(); let b = l.as_bytes();
                let starts: Vec<usize> = (0..b.len()).filter(|&k| b[k].is_ascii_digit() && (k == 0 || !b[k - 1].is_ascii_digit())).collect();
                if !starts.is_empty() { let s = *rng.pick(&starts); let mut e = s; while e < b.len() && b[e].is_ascii_digit() { e += 1; }
                    lines[i] = format!("{}{}{}", &l[..s], rng.pick(&nums), &l[e..]); } }
            3 => { let l = lines[i].clone(); let k = rng.below(l.len() as u64 + 1) as usize; lines[i] = l.chars().take(k).collect(); }
            4 => { lines[i] = lines[i].replacen('=', "", 1); }
            5 => { lines[i] = format!("{}{}", lines[i], *rng.pick(&[" ", ";", ";;", "=", " \u{a0}", "\u{2028}x", "é"])); }
            6 => { lines[i] = rng.pick(&["a=mid:65535", "a=mid:65536", "a=mid:", "a=mid:-1", "a=mid:+7", "a=mid:00065535", "m=audio 9 RTP/AVP", "m=video", "m=audio x RTP/AVP 0",
                    "m=audio 65536 RTP/AVP 0", "a=rid:", "a=rid:1", "a=rid:1 bogus", "a=simulcast:", "a=simulcast:send", "a=simulcast:recv ;;;", "a=crypto:", "a=crypto:70000 X inline:",
                    "a=crypto:1 AES_CM_128_HMAC_SHA1_80 inline:", "a=crypto:1 AES_CM_128_HMAC_SHA1_80 inline:|", "a=crypto:1 AES_CM_128_HMAC_SHA1_80 notinline", "a=crypto:1 AES_CM_128_HMAC_SHA1_80 inline:%%%%",
                    "a=candidate:1 1 udp 1 1.2.3.4 5 typ", "a=candidate:1 1 tcp 1 1.2.3.4 5 typ host tcptype", "a=candidate:1 1 udp 1 ::1 5 typ host", "o=- x 2 IN IP4 1.1.1.1", "o=-", "t=0", "t=a b", "v=1", "v=",
                    "a=fingerprint:sha-256", "a=fingerprint:", "a=setup:", "a=setup:bogus", "a=sctp-port:99999", "a=max-message-size:-5", "a=extmap:99999 x", "a=extmap:", "a=rtpmap:300 x/0", "a=rtpmap:96", "a=rtpmap:96 H264/",
                    "a=fmtp:97 apt=300", "a=fmtp:97 apt=", "a=ssrc:99999999999 cname:x", "a=ssrc:", "a=ssrc-group:FID", "a=group:BUNDLE", "a=ice-ufrag:", "a=rtcp:99999", "c=IN IP4", "a=ptime:0", "a=ptime:x"]).to_string(); }
            7 => { let j = rng.below(lines.len() as u64) as usize; lines.swap(i, j); }
            8 => { lines[i] = lines[i].replace(' ', "  "); }
            _ => { let n = rng.below(12) as usize; let junk: String = rng.bytes(n).iter().map(|b| (b % 95 + 32) as char).collect(); lines.insert(i, junk); }
        }
        if lines.is_empty() { break; }
    }
    let sep = *rng.pick(&["\r\n", "\r\n", "\n", "\r"]);
    let mut s = lines.join(sep);
    if rng.chance(3, 4) { s.push_str(sep); }
    s
}

fn run_sdpparse(run: &mut Run, s: &str, nt: bool) {
    let t = s.to_string();
    exec(run, "sdpparse", &hex(s.as_bytes()), "SessionDescription::parse", nt, Some((60, 8192, s.len() as u64)), move || {
        if let Ok(d) = SessionDescription::parse(SdpType::Offer, &t) {
            let again = d.to_sdp_string();
            let _ = SessionDescription::parse(SdpType::Answer, &again);
            for m in &d.media_sections {
                for a in &m.attributes {
                    if let Some(v) = &a.value {
                        match a.key.as_str() {
                            "rid" => { let _ = rustrtc::sdp::Rid::parse(v); }
                            "simulcast" => { let _ = rustrtc::sdp::Simulcast::parse(v); }
                            "crypto" => { let _ = rustrtc::sdp::CryptoAttribute::parse(v); }
                            "candidate" => { let _ = IceCandidate::from_sdp(v); }
                            "fmtp" => { let _ = rustrtc::rtx::parse_apt(v); }
                            _ => {}
                        }
                    }
                }
            }
        }
        for l in t.lines() { if let Some(v) = l.strip_prefix("a=candidate:") { let _ = IceCandidate::from_sdp(v); } }
        "noncompared".into()
    });
}

pub struct LivePc { rt: tokio::runtime::Runtime }
impl LivePc {
    pub fn new() -> Self { LivePc { rt: tokio::runtime::Builder::new_current_thread().enable_all().build().unwrap() } }
}
fn cfg(mode: u8) -> RtcConfiguration {
    let mut c = RtcConfiguration::default();
    c.transport_mode = match mode { 1 => rustrtc::TransportMode::Srtp, 2 => rustrtc::TransportMode::Rtp, _ => rustrtc::TransportMode::WebRtc };
    c
}
/// remote SDP through the live signaling entry point of a fresh PeerConnection (state `stable`), then an answer attempt
fn set_remote(l: &LivePc, mode: u8, text: &str) -> &'static str { set_remote_mid(l, mode, text).0 }
/// also returns `next_mid` of the connection afterwards (hook `verif_snapshot`)
fn set_remote_mid(l: &LivePc, mode: u8, text: &str) -> (&'static str, u16) {
    l.rt.block_on(async {
        let pc = PeerConnection::new(cfg(mode));
        let r = match SessionDescription::parse(SdpType::Offer, text) {
            Ok(d) => match tokio::time::timeout(std::time::Duration::from_secs(5), pc.set_remote_description(d)).await {
                Ok(Ok(())) => { let _ = tokio::time::timeout(std::time::Duration::from_secs(5), pc.create_answer()).await; "ret" }
                Ok(Err(_)) => "ret", Err(_) => "timeout" },
            Err(_) => "ret",
        };
        let nm = pc.verif_snapshot().next_mid;
        pc.close();
        (r, nm)
    })
}
/// big remote descriptions: `k` media sections (distinct mids), many candidates / rids / ssrc lines, one very long line
fn big_sdp(rng: &mut Rng, k: usize) -> String {
    let head: String = TEMPLATE.split("m=audio").next().unwrap().to_string();
    let mut s = head.replace("a=group:BUNDLE 0 1 2\r\n", "");
    for i in 0..k {
        let kind = *rng.pick(&["audio", "video", "application"]);
        match kind {
            "application" => s.push_str(&format!("m=application 9 UDP/DTLS/SCTP webrtc-datachannel\r\nc=IN IP4 0.0.0.0\r\na=mid:{i}\r\na=sctp-port:5000\r\n")),
            _ => {
                s.push_str(&format!("m={kind} 9 UDP/TLS/RTP/SAVPF 96 97\r\nc=IN IP4 0.0.0.0\r\na=mid:{i}\r\na=sendrecv\r\na=rtcp-mux\r\na=rtpmap:96 {}/90000\r\na=rtpmap:97 rtx/90000\r\na=fmtp:97 apt=96\r\n", if kind == "audio" { "opus" } else { "H264" }));
                for j in 0..rng.below(4) { s.push_str(&format!("a=rid:{j} send pt=96\r\na=ssrc:{} cname:c\r\na=candidate:{j} 1 udp {} 10.0.{}.{} {} typ host\r\n", 1000 * i + j as usize, rng.below(1 << 31), i % 250, j, 1024 + j)); }
            }
        }
        s.push_str("a=ice-ufrag:abcd\r\na=ice-pwd:0123456789abcdefghijklmn\r\na=fingerprint:sha-256 00:11:22:33:44:55:66:77:88:99:AA:BB:CC:DD:EE:FF:00:11:22:33:44:55:66:77:88:99:AA:BB:CC:DD:EE:FF\r\na=setup:actpass\r\n");
    }
    if rng.chance(1, 3) { s.push_str(&format!("a=x-long:{}\r\n", "y".repeat(60_000))); }
    s
}

/// Offerer side: our own offer is applied locally, then a (mutated) ANSWER / PRANSWER derived from it arrives, then a re-INVITE
/// (a second, mutated offer on the now-stable connection) — in WebRTC, SDES and plain-RTP mode (the latter two read `c=` / `m=`
/// addresses of the re-offer). Input = `answer <seed>`; everything is derived from the seed.
fn run_sdpanswer_seed(run: &mut Run, live: &LivePc, seed: u64, nt: bool) {
    let l = std::panic::AssertUnwindSafe(live);
    let mut r2 = Rng::new(seed);
    exec(run, "sdpset", &format!("answer {seed}"), "PeerConnection::set_remote_description(answer)", nt, Some((256, 1 << 20, 4096)), move || {
        l.rt.block_on(async {
            let mode = r2.below(3) as u8;
            let pc = PeerConnection::new(cfg(mode));
            let _ = pc.add_transceiver(rustrtc::MediaKind::Audio, rustrtc::TransceiverDirection::SendRecv);
            if mode == 0 { let _ = pc.add_transceiver(rustrtc::MediaKind::Video, rustrtc::TransceiverDirection::SendRecv); let _ = pc.create_data_channel("x", None); }
            if let Ok(offer) = pc.create_offer().await {
                let text = offer.to_sdp_string();
                let _ = pc.set_local_description(offer);
                let ans_text = mutate_sdp(&mut r2, &text.replace("a=setup:actpass", "a=setup:active"));
                let ty = if r2.chance(1, 4) { SdpType::Pranswer } else { SdpType::Answer };
                if let Ok(d) = SessionDescription::parse(ty, &ans_text) {
                    if tokio::time::timeout(std::time::Duration::from_secs(5), pc.set_remote_description(d)).await.is_err() { panic!("set_remote_description(answer) did not return within 5 s"); }
                    // re-INVITE: a mutated offer, or the offer with one line cut to fewer / more tokens
                    let re = if r2.chance(1, 2) { mutate_sdp(&mut r2, &text) } else { let tv = token_variants(&text); if tv.is_empty() { text.clone() } else { r2.pick(&tv).clone() } };
                    if let Ok(d2) = SessionDescription::parse(SdpType::Offer, &re) { let _ = tokio::time::timeout(std::time::Duration::from_secs(5), pc.set_remote_description(d2)).await; }
                }
            }
            pc.close();
        });
        "noncompared".into()
    });
}
fn run_sdpanswer(run: &mut Run, live: &LivePc, rng: &mut Rng, nt: bool) { let seed = rng.next(); run_sdpanswer_seed(run, live, seed, nt); }

/// SDES (`TransportMode::Srtp`): our offer applied locally, then an answer whose `a=crypto` line is attacker-chosen; the connection
/// is left to bring its transport up (`setup_sdes` runs in the connection's own task — a panic there is seen by the process-wide counter)
const SDES_KEYS: [&str; 12] = ["inline:MTIzNDU2Nzg5MDEyMzQ1Njc4OTAxMjM0NTY3ODkw", "inline:MTIzNDU2Nzg5MA==", "inline:", "inline:MTIzNDU2Nzg5MDEyMzQ1Njc4OTAxMjM0NTY3OA==",
    "inline:MTIzNDU2Nzg5MDEyMzQ1Njc4OTAxMjM0NTY3ODkw|2^20|1:4", "inline:|", "inlin", "inline:MQ==", "inline:!!!!", "inline:MTIzNDU2Nzg5MDEyMzQ1Njc4OTAxMjM0NTY3ODkwMTIzNDU2Nzg5MDEyMzQ1Njc4OTAxMjM0NTY3ODkw",
    "inline:MTIzNDU2Nzg5MDEyMzQ1Ng==", "inline:é"];
const SDES_SUITES: [&str; 5] = ["AES_CM_128_HMAC_SHA1_80", "AES_CM_128_HMAC_SHA1_32", "AEAD_AES_128_GCM", "AEAD_AES_256_GCM", "X"];
fn run_sdpsdes(run: &mut Run, live: &LivePc, key: usize, suite: usize, wait_ms: u64, nt: bool) {
    let l = std::panic::AssertUnwindSafe(live);
    UP.with(|u| u.set(false));
    exec(run, "sdpsdes", &format!("{key} {suite} {wait_ms}"), "PeerConnection::setup_sdes", nt, None, move || {
        l.rt.block_on(async {
            let peer = tokio::net::UdpSocket::bind("127.0.0.1:0").await.expect("bind");
            let port = peer.local_addr().unwrap().port();
            let mut c = cfg(1); c.bind_ip = Some("127.0.0.1".into()); c.disable_ipv6 = true;
            let pc = PeerConnection::new(c);
            let _ = pc.add_transceiver(rustrtc::MediaKind::Audio, rustrtc::TransceiverDirection::SendRecv);
            let offer = match pc.create_offer().await { Ok(o) => o, Err(_) => { pc.close(); return; } };
            let text = offer.to_sdp_string();
            let _ = pc.set_local_description(offer);
            let mut ans = String::new();
            for line in text.lines() {
                if line.starts_with("a=crypto:") { ans.push_str(&format!("a=crypto:1 {} {}\r\n", SDES_SUITES[suite % SDES_SUITES.len()], SDES_KEYS[key % SDES_KEYS.len()])); }
                else if line.starts_with("m=audio ") { let mut p: Vec<&str> = line.split(' ').collect(); let ps = port.to_string(); p[1] = &ps; ans.push_str(&p.join(" ")); ans.push_str("\r\n"); }
                else if line.starts_with("c=") { ans.push_str("c=IN IP4 127.0.0.1\r\n"); }
                else if line.starts_with("a=candidate") {}
                else { ans.push_str(line); ans.push_str("\r\n"); }
            }
            if let Ok(d) = SessionDescription::parse(SdpType::Answer, &ans) {
                if tokio::time::timeout(std::time::Duration::from_secs(5), pc.set_remote_description(d)).await.is_err() { panic!("set_remote_description(answer) did not return within 5 s"); }
                let up = pc.wait_for_rtp_transport_ready(std::time::Duration::from_millis(wait_ms)).await.is_ok();
                UP.with(|u| u.set(up));
                tokio::time::sleep(std::time::Duration::from_millis(30)).await;
            }
            pc.close();
            tokio::time::sleep(std::time::Duration::from_millis(5)).await;
        });
        "noncompared".into()
    });
    run.count(&format!("sdpsdes:transport_up:{}", UP.with(|u| u.get())));
}
thread_local! { static UP: std::cell::Cell<bool> = const { std::cell::Cell::new(false) }; }

fn run_sdpset(run: &mut Run, live: &LivePc, mode: u8, s: &str, nt: bool) {
    let t = s.to_string();
    let l = std::panic::AssertUnwindSafe(live);
    // allocation oracle: 2·(256·len + 1 MiB) + 512 — a media section costs a transceiver, receiver, track ring …
    // (tens of KB), so the constant is large; what it excludes is growth that is super-linear in the description
    exec(run, "sdpset", &format!("{mode} {}", hex(s.as_bytes())), "PeerConnection::set_remote_description", nt, Some((256, 1 << 20, s.len() as u64)), move || {
        let r = set_remote(&l, mode, &t);
        if r == "timeout" { panic!("set_remote_description did not return within 5 s"); }
        "noncompared".into()
    });
}
pub fn run_sdpmid(run: &mut Run, live: &LivePc, mid: &str, nt: bool) {
    let text = TEMPLATE.replace("a=mid:1\r\n", &format!("a=mid:{mid}\r\n")).replace("BUNDLE 0 1 2", &format!("BUNDLE 0 {mid} 2"));
    let l = std::panic::AssertUnwindSafe(live);
    exec(run, "sdpmid", mid, "PeerConnection::set_remote_description", nt, None, move || {
        let (r, nm) = set_remote_mid(&l, 0, &text);
        if r == "timeout" { panic!("set_remote_description did not return within 5 s"); }
        format!("{r} {nm}")
    });
}

pub fn special(run: &mut Run, rng: &mut Rng, thorough: bool) {
    // candidate lines (compared)
    for s in ["", " ", "1 1 udp 1 1.2.3.4 5 typ host", "candidate:1 1 tcp 1 1.2.3.4 5 typ host tcptype", "1 1 TCP 1 1.2.3.4 5 typ host x tcptype active",
        "1 1 tcp 1 1.2.3.4 5 typ host x y tcptype so", "1 1 udp 1 1.2.3.4 5 typ", "1 65536 udp 1 1.2.3.4 5 typ host", "1 1 udp 4294967296 1.2.3.4 5 typ host"] { run_cand(run, s, true); }
    for _ in 0..(if thorough { 200_000 } else { 8_000 }) { let s = gen_cand(rng); run_cand(run, &s, true); }
    // multi-byte characters inside candidate tokens (oracle-only)
    for base in ["candidate:1 1 udp 2130706431 192.0.2.1 50000 typ host", "candidate:aaaaaaaaaaaaaaaaaaaaaaaaaaaaaaa 1 udp 2130706431 192.0.2.1 50000 typ host",
        "1 1 tcp 1 1.2.3.4 5 typ srflx raddr 10.0.0.1 rport 9 tcptype passive generation 0 ufrag abcd network-id 1"] {
        for v in utf8_variants(base) { run_candutf(run, &v, true); }
    }
    for _ in 0..(if thorough { 2_000 } else { 40 }) { let c = gen_cand(rng); let vs = utf8_variants(&c); for _ in 0..8 { if !vs.is_empty() { let v = rng.pick(&vs).clone(); run_candutf(run, &v, true); } } }
    // mid arithmetic through the live signaling entry
    let live = LivePc::new();
    for mid in ["0", "1", "7", "65534", "65535", "65536", "x", "", "-1", "00065535", "4294967295"] { run_sdpmid(run, &live, mid, true); }
    for _ in 0..(if thorough { 300 } else { 20 }) { let m = rng.below(70000).to_string(); run_sdpmid(run, &live, &m, false); }
    // oracle-only SDP fuzz
    for (mode, base) in [(0u8, TEMPLATE), (1, TEMPLATE_SDES), (2, TEMPLATE_SDES), (0, TEMPLATE_SDES), (1, TEMPLATE)] { run_sdpparse(run, base, true); run_sdpset(run, &live, mode, base, true); }
    for _ in 0..(if thorough { 60_000 } else { 2_500 }) {
        let base = if rng.chance(2, 3) { TEMPLATE } else { TEMPLATE_SDES };
        let s = mutate_sdp(rng, base);
        run_sdpparse(run, &s, true);
    }
    for _ in 0..(if thorough { 6_000 } else { 250 }) {
        let sdes = rng.chance(1, 3);
        let s = mutate_sdp(rng, if sdes { TEMPLATE_SDES } else { TEMPLATE });
        run_sdpset(run, &live, if sdes { rng.range(1, 2) as u8 } else { rng.below(3) as u8 }, &s, true);
    }
    for (mode, base) in [(0u8, TEMPLATE), (1, TEMPLATE_SDES), (2, TEMPLATE_SDES)] {
        for v in token_variants(base) { run_sdpparse(run, &v, true); run_sdpset(run, &live, mode, &v, true); }
    }
    // multi-byte characters inside the tokens of every line (byte-offset operations on `&str`)
    for (mode, base) in [(0u8, TEMPLATE), (1, TEMPLATE_SDES)] {
        let lines: Vec<&str> = base.split("\r\n").filter(|l| !l.is_empty()).collect();
        for (i, l) in lines.iter().enumerate() {
            let vs = utf8_variants(l);
            let step = if thorough { 1 } else { 5 };
            for (k, v) in vs.iter().enumerate() {
                if (k + i) % step != 0 { continue; }
                let mut ls: Vec<String> = lines.iter().map(|x| x.to_string()).collect(); ls[i] = v.clone();
                let text = ls.join("\r\n") + "\r\n";
                run_sdpparse(run, &text, true);
                if (k + i) % (step * 8) == 0 { run_sdpset(run, &live, if mode == 1 && k % 2 == 0 { 2 } else { mode }, &text, true); }
            }
        }
    }
    // large descriptions (many sections / candidates / rids, 60 KB lines) and the answer / re-INVITE paths
    for k in if thorough { vec![1usize, 8, 64, 300, 1000] } else { vec![1usize, 8, 64, 200] } {
        let s = big_sdp(rng, k);
        run_sdpparse(run, &s, true);
        run_sdpset(run, &live, 0, &s, true);
        let m = mutate_sdp(rng, &s);
        run_sdpset(run, &live, rng.below(3) as u8, &m, true);
    }
    for _ in 0..(if thorough { 3_000 } else { 400 }) { run_sdpanswer(run, &live, rng, true); }
    for key in 0..SDES_KEYS.len() { for suite in 0..(if thorough { SDES_SUITES.len() } else { 3 }) { run_sdpsdes(run, &live, key, suite, 400, true); } }
    for _ in 0..(if thorough { 20_000 } else { 800 }) {
        let n = rng.below(200) as usize;
        let s = String::from_utf8_lossy(&rng.bytes(n)).to_string();
        run_sdpparse(run, &s, false);
        let a: String = rng.bytes(n).iter().map(|b| if b % 11 == 0 { '\n' } else if b % 7 == 0 { '=' } else { (b % 95 + 32) as char }).collect();
        run_sdpparse(run, &a, false);
    }
}

pub fn replay_special(run: &mut Run, stream: &str, a: &[&str]) -> bool {
    if stream == "sdpsdes" && a.len() == 3 { let p = |s: &str| s.parse::<u64>().unwrap_or(0); let live = LivePc::new(); run_sdpsdes(run, &live, p(a[0]) as usize, p(a[1]) as usize, p(a[2]), true); return true; }
    match (stream, a.len()) {
        ("candutf", 1) => { run_candutf(run, &String::from_utf8_lossy(&unhex(a[0])), true); true }
        ("cand", 1) => { run_cand(run, &String::from_utf8_lossy(&unhex(a[0])), true); true }
        ("sdpmid", 1) => { let l = LivePc::new(); run_sdpmid(run, &l, a[0], true); true }
        ("sdpparse", 1) => { run_sdpparse(run, &String::from_utf8_lossy(&unhex(a[0])), true); true }
        ("sdpset", 2) if a[0] == "answer" => { let l = LivePc::new(); run_sdpanswer_seed(run, &l, a[1].parse().unwrap_or(0), true); true }
        ("sdpset", 2) => { let l = LivePc::new(); run_sdpset(run, &l, a[0].parse().unwrap_or(0), &String::from_utf8_lossy(&unhex(a[1])), true); true }
        _ => false,
    }
}
