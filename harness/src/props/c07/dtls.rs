//! C07 — DTLS record / handshake byte decoders (src/transports/dtls/{record,handshake}.rs).
//! The record loop of `handle_incoming_packet` and the message loop of `process_handshake_payload` are compared through
//! the REAL run loop (stream `dtlsctx` in dtlslive.rs, hook-published context); the extension walks are private inline
//! code and are exercised by the live-endpoint exploration only.
use super::Target;
use crate::Rng;
use bytes::{Bytes, BytesMut};
use rustrtc::transports::dtls::handshake::*;
use rustrtc::transports::dtls::record::*;

fn nats(v: &[u64]) -> String { v.iter().map(|x| x.to_string()).collect::<Vec<_>>().join(",") }
fn fold(b: &[u8]) -> u64 { b.iter().fold(7u64, |a, x| (a * 31 + *x as u64) % 4294967296) }
fn fold_l<I: Iterator<Item = u64>>(i: I) -> u64 { i.fold(7u64, |a, x| (a * 31 + x) % 4294967296) }
fn et(e: &anyhow::Error) -> String { format!("err {}", e.to_string().replace(' ', "_")) }

fn rec_digest(r: &DtlsRecord) -> Vec<u64> {
    vec![r.content_type as u64, r.version.major as u64, r.version.minor as u64, r.epoch as u64, r.sequence_number, r.payload.len() as u64, fold(&r.payload)]
}
fn hs_digest(m: &HandshakeMessage) -> Vec<u64> {
    vec![m.msg_type as u64, m.total_length as u64, m.message_seq as u64, m.fragment_offset as u64, m.fragment_length as u64, fold(&m.body)]
}

fn call_record(b: &[u8]) -> String {
    let mut buf = Bytes::copy_from_slice(b);
    super::start_alloc(); let r = DtlsRecord::decode(&mut buf); super::mark_alloc();
    match r { Ok(None) => "ok ".into(), Ok(Some(r)) => format!("ok {}", nats(&rec_digest(&r))), Err(e) => et(&e) }
}
fn call_hs(b: &[u8]) -> String {
    let mut buf = Bytes::copy_from_slice(b);
    super::start_alloc(); let r = HandshakeMessage::decode(&mut buf); super::mark_alloc();
    match r { Ok(None) => "ok ".into(), Ok(Some(r)) => format!("ok {}", nats(&hs_digest(&r))), Err(e) => et(&e) }
}
fn call_client_hello(b: &[u8]) -> String {
    let mut buf = Bytes::copy_from_slice(b);
    super::start_alloc(); let r = ClientHello::decode(&mut buf); super::mark_alloc();
    match r {
        Ok(h) => {
            let mut re = BytesMut::new(); h.encode(&mut re);          // re-serialising the parsed hello must be total
            format!("ok {}", nats(&[h.version.major as u64, h.version.minor as u64, h.random.gmt_unix_time as u64, fold(&h.random.random_bytes),
            h.session_id.len() as u64, fold(&h.session_id), h.cookie.len() as u64, fold(&h.cookie), h.cipher_suites.len() as u64,
            fold_l(h.cipher_suites.iter().map(|x| *x as u64)), h.compression_methods.len() as u64, fold(&h.compression_methods),
            h.extensions.len() as u64, fold(&h.extensions)])) }
        Err(e) => et(&e),
    }
}
fn call_server_hello(b: &[u8]) -> String {
    let mut buf = Bytes::copy_from_slice(b);
    super::start_alloc(); let r = ServerHello::decode(&mut buf); super::mark_alloc();
    match r {
        Ok(h) => { let mut re = BytesMut::new(); h.encode(&mut re);
            format!("ok {}", nats(&[h.version.major as u64, h.version.minor as u64, h.random.gmt_unix_time as u64, fold(&h.random.random_bytes),
            h.session_id.len() as u64, fold(&h.session_id), h.cipher_suite as u64, h.compression_method as u64, h.extensions.len() as u64, fold(&h.extensions)])) }
        Err(e) => et(&e),
    }
}
fn call_hvr(b: &[u8]) -> String {
    let mut buf = Bytes::copy_from_slice(b);
    super::start_alloc(); let r = HelloVerifyRequest::decode(&mut buf); super::mark_alloc();
    match r {
        Ok(h) => format!("ok {}", nats(&[h.version.major as u64, h.version.minor as u64, h.cookie.len() as u64, fold(&h.cookie)])), Err(e) => et(&e) }
}
fn call_ske(b: &[u8]) -> String {
    let mut buf = Bytes::copy_from_slice(b);
    super::start_alloc(); let r = ServerKeyExchange::decode(&mut buf); super::mark_alloc();
    match r {
        Ok(h) => format!("ok {}", nats(&[h.curve_type as u64, h.named_curve as u64, h.public_key.len() as u64, fold(&h.public_key), h.signature.len() as u64, fold(&h.signature)])),
        Err(e) => et(&e) }
}
fn call_cert(b: &[u8]) -> String {
    let mut buf = Bytes::copy_from_slice(b);
    super::start_alloc(); let r = CertificateMessage::decode(&mut buf); super::mark_alloc();
    match r {
        Ok(h) => format!("ok {}", nats(&[h.certificates.len() as u64, h.certificates.iter().map(|c| c.len() as u64).sum(),
            h.certificates.iter().fold(7u64, |a, c| (a * 31 + fold(c)) % 4294967296)])),
        Err(e) => et(&e) }
}
fn call_cke(b: &[u8]) -> String {
    let mut buf = Bytes::copy_from_slice(b);
    super::start_alloc(); let r = ClientKeyExchange::decode(&mut buf); super::mark_alloc();
    match r { Ok(h) => format!("ok {}", nats(&[h.public_key.len() as u64, fold(&h.public_key)])), Err(e) => et(&e) }
}
fn call_finished(b: &[u8]) -> String {
    let mut buf = Bytes::copy_from_slice(b);
    super::start_alloc(); let r = Finished::decode(&mut buf); super::mark_alloc();
    match r { Ok(h) => format!("ok {}", nats(&[h.verify_data.len() as u64, fold(&h.verify_data)])), Err(e) => et(&e) }
}

// ---- generators from the repo's own encoders
fn rnd(rng: &mut Rng) -> Random { let mut r = [0u8; 28]; r.copy_from_slice(&rng.bytes(28)); Random { gmt_unix_time: rng.next() as u32, random_bytes: r } }
fn gen_exts(rng: &mut Rng) -> Vec<u8> {
    if rng.chance(1, 4) { return vec![]; }
    if rng.chance(1, 3) { return rustrtc::transports::dtls::get_client_hello_extensions(); }
    let mut v = vec![];
    for _ in 0..rng.range(1, 4) {
        let t = *rng.pick(&[10u16, 11, 13, 14, 14, 23, 0xff01, 77]);
        let body = if t == 14 { let n = rng.range(0, 3) as u16; let mut b = (2 * n).to_be_bytes().to_vec(); for _ in 0..n { b.extend_from_slice(&[0, rng.range(1, 8) as u8]); } b.push(0); b }
                   else { let n = rng.below(6) as usize; rng.bytes(n) };
        v.extend_from_slice(&t.to_be_bytes()); v.extend_from_slice(&(body.len() as u16).to_be_bytes()); v.extend(body);
    }
    v
}
/// extension blocks aimed at the walks in `handle_client_hello` / `handle_server_hello`: use_srtp (14) with list-length
/// fields that disagree with the body (0, 1, odd, larger than the data, 0xFFFF), short bodies, length overruns
pub fn gen_exts_hostile(rng: &mut Rng) -> Vec<u8> {
    let mut v = vec![];
    for _ in 0..rng.range(1, 3) {
        let t = *rng.pick(&[14u16, 14, 14, 23, 13, 10]);
        let body: Vec<u8> = if t == 14 {
            let n = rng.below(7) as usize;
            let claimed = *rng.pick(&[0u16, 1, 2, 3, n as u16, n as u16 + 1, n as u16 + 2, 2 * n as u16, 0xFFFF]);
            let mut b = claimed.to_be_bytes().to_vec(); b.extend(rng.bytes(n));
            if rng.chance(1, 5) { b.truncate(rng.below(3) as usize); }
            b
        } else { let n = rng.below(5) as usize; rng.bytes(n) };
        v.extend_from_slice(&t.to_be_bytes());
        let l = match rng.below(8) { 0 => body.len() as u16 + 1, 1 => 0xFFFF, _ => body.len() as u16 };
        v.extend_from_slice(&l.to_be_bytes()); v.extend(body);
    }
    if rng.chance(1, 6) { v.truncate(rng.below(v.len() as u64 + 1) as usize); }
    v
}
pub fn hostile_client_hello(rng: &mut Rng) -> Vec<u8> {
    let h = ClientHello { version: ProtocolVersion::DTLS_1_2, random: rnd(rng), session_id: vec![], cookie: vec![],
        cipher_suites: vec![0xC02B, 0xC02F], compression_methods: vec![0], extensions: gen_exts_hostile(rng) };
    let mut b = BytesMut::new(); h.encode(&mut b); b.to_vec()
}
pub fn hostile_server_hello(rng: &mut Rng) -> Vec<u8> {
    let h = ServerHello { version: ProtocolVersion::DTLS_1_2, random: rnd(rng), session_id: vec![], cipher_suite: 0xC02B, compression_method: 0, extensions: gen_exts_hostile(rng) };
    let mut b = BytesMut::new(); h.encode(&mut b); b.to_vec()
}
/// one epoch-0 handshake record carrying the given (type, message_seq, body) messages unfragmented
pub fn handshake_record(msgs: &[(HandshakeType, u16, Vec<u8>)], rec_seq: u64) -> Vec<u8> {
    let mut body = BytesMut::new();
    for (t, seq, b) in msgs {
        HandshakeMessage { msg_type: *t, total_length: b.len() as u32, message_seq: *seq, fragment_offset: 0, fragment_length: b.len() as u32, body: Bytes::from(b.clone()) }.encode(&mut body);
    }
    let mut out = BytesMut::new();
    DtlsRecord { content_type: ContentType::Handshake, version: ProtocolVersion::DTLS_1_2, epoch: 0, sequence_number: rec_seq, payload: body.freeze() }.encode(&mut out);
    out.to_vec()
}
pub fn gen_cert_pub(rng: &mut Rng) -> Vec<u8> { gen_cert(rng) }
pub fn gen_ske_pub(rng: &mut Rng) -> Vec<u8> { gen_ske(rng) }

pub fn gen_client_hello(rng: &mut Rng) -> Vec<u8> {
    let sl = *rng.pick(&[0usize, 0, 8, 32]); let cl = *rng.pick(&[0usize, 0, 20, 32]);
    let h = ClientHello { version: ProtocolVersion::DTLS_1_2, random: rnd(rng), session_id: rng.bytes(sl), cookie: rng.bytes(cl),
        cipher_suites: (0..rng.range(0, 5)).map(|_| rng.next() as u16).collect(), compression_methods: vec![0; rng.range(0, 2) as usize], extensions: gen_exts(rng) };
    let mut b = BytesMut::new(); h.encode(&mut b); b.to_vec()
}
pub fn gen_server_hello(rng: &mut Rng) -> Vec<u8> {
    let sl = *rng.pick(&[0usize, 0, 8, 32]);
    let h = ServerHello { version: ProtocolVersion::DTLS_1_2, random: rnd(rng), session_id: rng.bytes(sl), cipher_suite: rng.next() as u16, compression_method: 0, extensions: gen_exts(rng) };
    let mut b = BytesMut::new(); h.encode(&mut b); b.to_vec()
}
fn gen_hvr(rng: &mut Rng) -> Vec<u8> { let n = rng.below(33) as usize; let h = HelloVerifyRequest { version: ProtocolVersion::DTLS_1_0, cookie: rng.bytes(n) }; let mut b = BytesMut::new(); h.encode(&mut b); b.to_vec() }
fn gen_ske(rng: &mut Rng) -> Vec<u8> { let a = rng.below(70) as usize; let c = rng.below(80) as usize;
    let h = ServerKeyExchange { curve_type: 3, named_curve: 23, public_key: rng.bytes(a), signature: rng.bytes(c) }; let mut b = BytesMut::new(); h.encode(&mut b); b.to_vec() }
fn gen_cert(rng: &mut Rng) -> Vec<u8> { let h = CertificateMessage { certificates: (0..rng.range(0, 3)).map(|_| { let n = rng.below(90) as usize; rng.bytes(n) }).collect() };
    let mut b = BytesMut::new(); h.encode(&mut b); b.to_vec() }
fn gen_cke(rng: &mut Rng) -> Vec<u8> { let n = rng.below(70) as usize; let h = ClientKeyExchange { identity_hint: vec![], public_key: rng.bytes(n) }; let mut b = BytesMut::new(); h.encode(&mut b); b.to_vec() }
fn gen_finished(rng: &mut Rng) -> Vec<u8> { rng.bytes(12) }

fn gen_hs_body(rng: &mut Rng) -> (HandshakeType, Vec<u8>) {
    match rng.below(8) {
        0 => (HandshakeType::ClientHello, gen_client_hello(rng)), 1 => (HandshakeType::ServerHello, gen_server_hello(rng)),
        2 => (HandshakeType::HelloVerifyRequest, gen_hvr(rng)), 3 => (HandshakeType::Certificate, gen_cert(rng)),
        4 => (HandshakeType::ServerKeyExchange, gen_ske(rng)), 5 => (HandshakeType::ClientKeyExchange, gen_cke(rng)),
        6 => (HandshakeType::ServerHelloDone, vec![]), _ => (HandshakeType::Finished, gen_finished(rng)),
    }
}
pub fn gen_handshake_msgs(rng: &mut Rng) -> Vec<u8> {
    let mut out = BytesMut::new();
    for i in 0..rng.range(1, 3) {
        let (t, body) = gen_hs_body(rng);
        if rng.chance(1, 4) && body.len() > 4 {
            // two fragments
            let cut = rng.range(1, body.len() as u64 - 1) as usize;
            for (off, part) in [(0usize, &body[..cut]), (cut, &body[cut..])] {
                let m = HandshakeMessage { msg_type: t, total_length: body.len() as u32, message_seq: i as u16, fragment_offset: off as u32,
                    fragment_length: part.len() as u32, body: Bytes::copy_from_slice(part) };
                let start = out.len(); m.encode(&mut out);
                // encode() writes body.len() as total length: patch the real total
                let tl = (body.len() as u32).to_be_bytes(); out[start + 1..start + 4].copy_from_slice(&tl[1..]);
            }
        } else {
            let m = HandshakeMessage { msg_type: t, total_length: body.len() as u32, message_seq: i as u16, fragment_offset: 0, fragment_length: body.len() as u32, body: Bytes::from(body) };
            m.encode(&mut out);
        }
    }
    out.to_vec()
}
pub fn gen_records(rng: &mut Rng) -> Vec<u8> {
    let mut out = BytesMut::new();
    for _ in 0..rng.range(1, 3) {
        let (ct, payload) = match rng.below(5) {
            0 | 1 => (ContentType::Handshake, gen_handshake_msgs(rng)),
            2 => (ContentType::ChangeCipherSpec, vec![1]), 3 => (ContentType::Alert, vec![rng.range(1, 2) as u8, rng.next() as u8]),
            _ => { let n = rng.below(60) as usize; (ContentType::ApplicationData, rng.bytes(n)) }
        };
        let r = DtlsRecord { content_type: ct, version: ProtocolVersion::DTLS_1_2, epoch: rng.below(3) as u16, sequence_number: rng.below(1 << 48), payload: Bytes::from(payload) };
        r.encode(&mut out);
    }
    out.to_vec()
}

pub fn targets() -> Vec<Target> {
    vec![
        Target { stream: "dtlsrec", entry: "DtlsRecord::decode", call: call_record, valid: gen_records, alloc: Some((0, 0)), weight: 2 },
        Target { stream: "dtlshs", entry: "HandshakeMessage::decode", call: call_hs, valid: gen_handshake_msgs, alloc: Some((0, 0)), weight: 2 },
        Target { stream: "chello", entry: "ClientHello::decode", call: call_client_hello, valid: gen_client_hello, alloc: Some((1, 0)), weight: 3 },
        Target { stream: "shello", entry: "ServerHello::decode", call: call_server_hello, valid: gen_server_hello, alloc: Some((1, 0)), weight: 2 },
        Target { stream: "hvr", entry: "HelloVerifyRequest::decode", call: call_hvr, valid: gen_hvr, alloc: Some((1, 0)), weight: 1 },
        Target { stream: "ske", entry: "ServerKeyExchange::decode", call: call_ske, valid: gen_ske, alloc: Some((1, 0)), weight: 1 },
        Target { stream: "cert", entry: "CertificateMessage::decode", call: call_cert, valid: gen_cert, alloc: Some((8, 0)), weight: 2 },
        Target { stream: "cke", entry: "ClientKeyExchange::decode", call: call_cke, valid: gen_cke, alloc: Some((1, 0)), weight: 1 },
        Target { stream: "finished", entry: "Finished::decode", call: call_finished, valid: gen_finished, alloc: Some((1, 0)), weight: 1 },
    ]
}
