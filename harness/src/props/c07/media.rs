//! C07 — H.264 depacketizer (packet histories through one `H264Depacketizer`) and the UDPTL datagram parse
//! (`UdtlTransport::recv` over a real loopback UDP socket with a fresh `UdtlReceiveBuffer`).
use super::exec;
use crate::{Rng, Run, hex, unhex};
use rustrtc::media::{Depacketizer, H264Depacketizer, MediaKind, MediaSample};
use rustrtc::rtp::{RtpHeader, RtpPacket};
use std::sync::Arc;

fn fold(b: &[u8]) -> u64 { b.iter().fold(7u64, |a, x| (a * 31 + *x as u64) % 4294967296) }

#[derive(Clone)]
pub struct Pk { seq: u16, ts: u32, marker: bool, payload: Vec<u8> }
fn pk_text(p: &Pk) -> String { format!("{},{},{},{}", p.seq, p.ts, p.marker as u8, hex(&p.payload)) }

pub fn run_h264(run: &mut Run, pkts: &[Pk], nt: bool) {
    let input = pkts.iter().map(pk_text).collect::<Vec<_>>().join(" ");
    let total: usize = pkts.iter().map(|p| p.payload.len()).sum();
    let ps = pkts.to_vec();
    exec(run, "h264", &input, "H264Depacketizer::push", nt, Some((258, 1024 * pkts.len() as u64, total as u64)), move || {
        let mut d = H264Depacketizer::new();
        let mut out = vec![];
        let pkts: Vec<RtpPacket> = ps.iter().map(|p| { let mut h = RtpHeader::new(96, p.seq, p.ts, 77); h.marker = p.marker; RtpPacket::new(h, p.payload.clone()) }).collect();
        let mut results = Vec::with_capacity(pkts.len());
        super::start_alloc();
        for pkt in pkts { results.push(d.push(pkt, 90000, "127.0.0.1:9".parse().unwrap(), MediaKind::Video).expect("push returns Ok")); }
        super::mark_alloc();
        for samples in results {
            let s: Vec<String> = samples.iter().map(|s| match s {
                MediaSample::Video(v) if v.raw_packet.as_ref().map_or(false, |r| r.payload.is_empty()) && v.data.is_empty() => format!("0/7/{}/2", v.rtp_timestamp),
                MediaSample::Video(v) => format!("{}/{}/{}/{}", v.data.len(), fold(&v.data), v.rtp_timestamp, v.is_last_packet as u8),
                MediaSample::Audio(_) => "audio".into() }).collect();
            out.push(format!("{}:{}", s.len(), s.join(";")));
        }
        format!("ok {}", out.join(" "))
    });
}

/// oracle-only stream `mediaflood`: memory RETAINED by the media-side reassembly state after a flood.
/// kind 0: an FU-A start followed by `count` continuation fragments that never end (`fua_buffer`); kind 1: `count` samples with
/// hostile sequence numbers / timestamps pushed into a `JitterBuffer` of capacity 64 and never popped; kind 2: the same with pops.
/// Oracle: retained ≤ 16·bytes received + 64 KiB; every call returns (no panic, deadline).
pub fn run_mediaflood(run: &mut Run, kind: u8, count: u32, size: usize, seed: u64) {
    let case = format!("mediaflood {kind} {count} {size} {seed}");
    let mut bytes_in = 0u64;
    let r = super::catch_ack(move || {
        let mut rng = Rng::new(seed);
        let mut bytes = 0u64;
        super::alloc_reset();
        let retained;
        if kind == 0 {
            let mut d = H264Depacketizer::new();
            for k in 0..=count {
                let mut p = vec![28u8 | 0x60, if k == 0 { 0x80 | 5 } else { 5 }]; p.extend(std::iter::repeat(0xAB).take(size));
                bytes += p.len() as u64 + 12;
                let h = RtpHeader::new(96, 1000u16.wrapping_add(k as u16), 90_000, 77);
                let _ = d.push(RtpPacket::new(h, p), 90000, "127.0.0.1:9".parse().unwrap(), MediaKind::Video);
            }
            retained = super::alloc_retained().max(0) as u64;
            drop(d);
        } else {
            let mut jb = rustrtc::media::jitter_buffer::JitterBuffer::new(std::time::Duration::from_millis(20), std::time::Duration::from_millis(200), 64);
            for k in 0..count {
                let seq = match rng.below(6) { 0 => rng.next() as u16, 1 => (k as u16).wrapping_add(0x8000), 2 => 0, _ => k as u16 };
                let ts = match rng.below(5) { 0 => rng.next() as u32, 1 => 0xFFFF_FFFF, _ => k.wrapping_mul(160) };
                let mut h = RtpHeader::new(0, seq, ts, if rng.chance(1, 50) { rng.next() as u32 } else { 9 }); h.marker = rng.chance(1, 20);
                let pkt = RtpPacket::new(h, vec![0x11; size]);
                bytes += size as u64 + 12;
                let f = rustrtc::media::frame::AudioFrame { rtp_timestamp: ts, clock_rate: *rng.pick(&[0u32, 8000, 48000, 1]), data: bytes::Bytes::from(vec![0x11u8; size]),
                    sequence_number: if rng.chance(1, 40) { None } else { Some(seq) }, payload_type: Some(0), marker: pkt.header.marker, header_extension: None, source_addr: None, raw_packet: Some(pkt) };
                jb.push(MediaSample::Audio(f));
                if kind == 2 && rng.chance(1, 3) { let _ = jb.pop(); let _ = jb.next_pop_wait(); let _ = jb.awaiting_next(); }
            }
            retained = super::alloc_retained().max(0) as u64;
            drop(jb);
        }
        (bytes, retained)
    });
    match r {
        Ok((b, retained)) => { bytes_in = b;
            run.count_n(&format!("mediaflood:retained_per_input_byte_x100:{kind}:{size}"), retained * 100 / bytes_in.max(1));
            if retained > 16 * bytes_in + 65536 { run.fail(&format!("retain:{}", ["H264Depacketizer::push:endless-fu-a", "JitterBuffer::push", "JitterBuffer::push"][kind.min(2) as usize]), &case, &format!("{retained} bytes retained after {count} packets ({bytes_in} bytes)")); }
            // a bounded buffer must stay bounded: the jitter buffer has a capacity of 64 samples
            if kind >= 1 && retained > 64 * (size as u64 + 1024) + 65536 { run.fail("retain:JitterBuffer::push:beyond-capacity", &case, &format!("{retained} bytes retained by a jitter buffer of capacity 64 after {count} samples of {size} bytes")); } }
        Err(msg) => run.fail(&format!("panic:{}:{}", if kind == 0 { "H264Depacketizer::push" } else { "JitterBuffer::push" }, super::panic_site(&msg)), &case, &msg),
    }
    let _ = bytes_in;
    run.case("mediaflood", &format!("{kind} {count} {size} {seed}"), "noncompared", true);
}

fn stap(rng: &mut Rng) -> Vec<u8> {
    let mut v = vec![24 | ((rng.below(4) as u8) << 5)];
    for _ in 0..rng.range(0, 4) { let n = rng.below(12) as usize; let claimed = if rng.chance(1, 6) { n as u16 + rng.range(1, 3) as u16 } else { n as u16 };
        v.extend_from_slice(&claimed.to_be_bytes()); v.extend(rng.bytes(n)); }
    if rng.chance(1, 5) { v.push(0); }
    v
}
fn fua(rng: &mut Rng, s: bool, e: bool) -> Vec<u8> {
    let mut v = vec![28 | ((rng.below(4) as u8) << 5), ((s as u8) << 7) | ((e as u8) << 6) | rng.range(1, 23) as u8];
    let n = rng.below(20) as usize; v.extend(rng.bytes(n)); v
}
fn gen_history(rng: &mut Rng) -> Vec<Pk> {
    let mut seq = rng.next() as u16; let ts = rng.next() as u32;
    let mut out = vec![];
    match rng.below(6) {
        0 => for _ in 0..rng.range(1, 3) { let n = rng.below(30) as usize; let mut p = rng.bytes(n); if !p.is_empty() { p[0] = (p[0] & 0xE0) | rng.range(1, 23) as u8; }
                out.push(Pk { seq, ts, marker: rng.chance(1, 2), payload: p }); seq = seq.wrapping_add(1); },
        1 => out.push(Pk { seq, ts, marker: rng.chance(1, 2), payload: stap(rng) }),
        2 | 3 => { // FU-A start, continuations, end — with optional seq/timestamp faults
            let n = rng.range(2, 5);
            for i in 0..n {
                let p = fua(rng, i == 0, i == n - 1);
                let fault = rng.below(10);
                out.push(Pk { seq: if fault == 0 { seq.wrapping_add(3) } else { seq }, ts: if fault == 1 { ts.wrapping_add(1) } else { ts }, marker: i == n - 1, payload: p });
                seq = seq.wrapping_add(1);
            }
            if rng.chance(1, 3) { out.remove(0); } }
        4 => { out.push(Pk { seq: 65535, ts, marker: false, payload: fua(rng, true, false) }); out.push(Pk { seq: 0, ts, marker: true, payload: fua(rng, false, true) }); }
        _ => for _ in 0..rng.range(1, 3) { let n = rng.below(6) as usize; out.push(Pk { seq, ts, marker: false, payload: rng.bytes(n) }); seq = seq.wrapping_add(1); },
    }
    out
}

// ---- UDPTL
pub struct LiveUdptl { rt: tokio::runtime::Runtime, t: rustrtc::UdtlTransport, tx: tokio::net::UdpSocket, dst: std::net::SocketAddr }
impl LiveUdptl {
    pub fn new() -> Self {
        let rt = tokio::runtime::Builder::new_current_thread().enable_all().build().unwrap();
        let (t, tx, dst) = rt.block_on(async {
            let rx = Arc::new(tokio::net::UdpSocket::bind("127.0.0.1:0").await.unwrap());
            let dst = rx.local_addr().unwrap();
            let tx = tokio::net::UdpSocket::bind("127.0.0.1:0").await.unwrap();
            (rustrtc::UdtlTransport::new(rx, tx.local_addr().unwrap()), tx, dst)
        });
        LiveUdptl { rt, t, tx, dst }
    }
}
pub fn run_udptl(run: &mut Run, live: &LiveUdptl, dgram: &[u8], nt: bool) {
    let d = dgram.to_vec();
    let l = std::panic::AssertUnwindSafe(live);
    // the receive buffer is 1400 bytes: a longer datagram is truncated by the socket before the parser sees it
    let seen = &dgram[..dgram.len().min(1400)];
    exec(run, "udptl", &hex(seen), "UdtlTransport::recv", nt, Some((17, 1400, seen.len() as u64)), move || {
        l.rt.block_on(async {
            l.tx.send_to(&d, l.dst).await.expect("loopback send");
            let mut rb = rustrtc::UdtlReceiveBuffer::new();
            super::start_alloc();
            let r = l.t.recv(&mut rb).await;
            super::mark_alloc();
            match r { Ok(None) => "ok ".to_string(), Ok(Some(p)) => format!("ok {},{}", p.len(), fold(&p)), Err(e) => format!("err {e:?}") }
        })
    });
}
fn gen_udptl(rng: &mut Rng) -> Vec<u8> {
    let mut v = (if rng.chance(2, 3) { 1u16 } else { rng.next() as u16 }).to_be_bytes().to_vec();
    let n = rng.below(40) as usize; v.extend_from_slice(&(n as u16).to_be_bytes()); v.extend(rng.bytes(n));
    for _ in 0..rng.below(4) { let n = rng.below(20) as usize; let c = if rng.chance(1, 6) { n + 2 } else { n }; v.extend_from_slice(&(c as u16).to_be_bytes()); v.extend(rng.bytes(n)); }
    v
}

/// whole delivery histories through one `UdtlReceiveBuffer` (pure pub API): `max_size`, initial `expected_seq`, ops
pub fn run_udptlbuf(run: &mut Run, max_size: u16, expected0: u16, ops: &[(u16, usize)], nt: bool) {
    let input = format!("{max_size} {expected0} {}", ops.iter().map(|(s, l)| format!("{s},{l}")).collect::<Vec<_>>().join(" "));
    let o = ops.to_vec();
    exec(run, "udptlbuf", &input, "UdtlReceiveBuffer::try_deliver", nt, None, move || {
        let mut b = rustrtc::UdtlReceiveBuffer::with_max_size(max_size);
        b.reset(expected0);
        let mut out = vec![];
        for (seq, len) in &o {
            let r = b.try_deliver(*seq, vec![7u8; *len], vec![]).expect("try_deliver returns Ok");
            out.push(format!("{},{},{},{},{}", r.map_or(0, |d| d.len() + 1), b.expected_seq(), b.buffered_count(), b.packets_lost, b.packets_recovered));
        }
        format!("ok {}", out.join(" "))
    });
}
fn gen_udptl_history(rng: &mut Rng) -> (u16, u16, Vec<(u16, usize)>) {
    let max_size = *rng.pick(&[0u16, 1, 2, 4, 8, 128]);
    let e0 = *rng.pick(&[0u16, 1, 1, 100, 32760, 65500, 65530, 65535]);
    let mut cur = e0; let mut ops = vec![];
    for _ in 0..rng.range(1, 40) {
        let seq = match rng.below(10) {
            0 | 1 | 2 => { let s = cur; cur = cur.wrapping_add(1); s }
            3 => cur.wrapping_add(rng.range(1, 6) as u16),
            4 => cur.wrapping_add(rng.range(30, 40) as u16),
            5 => cur.wrapping_sub(rng.range(1, 5) as u16),
            6 => cur.wrapping_add(*rng.pick(&[16383u16, 16384, 16385, 32767, 32768, 32769])),
            7 => { cur = cur.wrapping_add(2); cur.wrapping_sub(1) }
            8 => rng.next() as u16,
            _ => cur,
        };
        ops.push((seq, rng.below(5) as usize));
    }
    (max_size, e0, ops)
}

/// one op of the compared `jitter` stream
#[derive(Clone, Debug)]
pub enum JOp { Push { seq: Option<u16>, ts: u32, ssrc: Option<u32>, marker: bool, clock: u32, video: bool, id: u32 }, Pop, Reset, Drain }
fn jop_token(o: &JOp) -> String {
    let on = |v: Option<u64>| v.map_or("-".to_string(), |x| x.to_string());
    match o {
        JOp::Push { seq, ts, ssrc, marker, clock, video, id } => format!("p,{},{ts},{},{},{clock},{},{id}", on(seq.map(|x| x as u64)), on(ssrc.map(|x| x as u64)), *marker as u8, *video as u8),
        JOp::Pop => "o".into(), JOp::Reset => "r".into(), JOp::Drain => "d".into(),
    }
}
fn sample_id(s: &MediaSample) -> u32 {
    let d = match s { MediaSample::Audio(f) => &f.data, MediaSample::Video(f) => &f.data };
    if d.len() == 4 { u32::from_be_bytes([d[0], d[1], d[2], d[3]]) } else { u32::MAX }
}
/// whole push / pop / reset histories through one `JitterBuffer` (pure pub API). `mode` 0: `min_delay = max_delay = 0` (every head
/// sample is old enough); mode 1: `min_delay = 0`, `max_delay = 1 h` (only the next-in-order sample is delivered). After each op the
/// public observers are compared: `is_empty`, `last_ssrc`, `awaiting_next`, class of `next_pop_wait`; pops and drains compare the
/// identity (payload tag) of every delivered sample. Implementation-side oracle: a drain never delivers more than max(capacity, 1) samples.
pub fn run_jitter(run: &mut Run, cap: usize, mode: u8, ops: &[JOp], nt: bool) {
    use rustrtc::media::frame::{AudioFrame, VideoFrame};
    let input = format!("{cap} {mode} {}", ops.iter().map(jop_token).collect::<Vec<_>>().join(" "));
    let o = ops.to_vec();
    let mut over: Option<usize> = None;
    let over_ref = std::sync::Arc::new(std::sync::Mutex::new(None::<usize>));
    let over_w = over_ref.clone();
    exec(run, "jitter", &input, "JitterBuffer::push/pop", nt, None, move || {
        let maxd = if mode == 0 { std::time::Duration::ZERO } else { std::time::Duration::from_secs(3600) };
        let mut jb = rustrtc::media::jitter_buffer::JitterBuffer::new(std::time::Duration::ZERO, maxd, cap);
        let obs = |jb: &rustrtc::media::jitter_buffer::JitterBuffer| {
            let w = match jb.next_pop_wait() { None => "n", Some(d) if d.is_zero() => "z", Some(_) => "p" };
            format!("/{}/{}/{}/{w}", jb.is_empty() as u8, jb.last_ssrc().map_or("-".to_string(), |x| x.to_string()), jb.awaiting_next() as u8)
        };
        let mut out = vec![];
        for op in &o {
            match op {
                JOp::Push { seq, ts, ssrc, marker, clock, video, id } => {
                    let raw = ssrc.map(|ss| { let mut h = RtpHeader::new(0, seq.unwrap_or(0), *ts, ss); h.marker = *marker; RtpPacket::new(h, vec![]) });
                    let data = bytes::Bytes::from(id.to_be_bytes().to_vec());
                    let smp = if *video {
                        MediaSample::Video(VideoFrame { rtp_timestamp: *ts, is_last_packet: *marker, data, sequence_number: *seq, raw_packet: raw, ..Default::default() })
                    } else {
                        MediaSample::Audio(AudioFrame { rtp_timestamp: *ts, clock_rate: *clock, data, sequence_number: *seq, marker: *marker, raw_packet: raw, ..Default::default() })
                    };
                    jb.push(smp);
                    out.push(format!("P{}", obs(&jb)));
                }
                JOp::Pop => { let r = jb.pop(); out.push(format!("O{}{}", r.as_ref().map_or("-".to_string(), |s| sample_id(s).to_string()), obs(&jb))); }
                JOp::Reset => { jb.reset(); out.push(format!("R{}", obs(&jb))); }
                JOp::Drain => {
                    let mut ids = vec![];
                    while let Some(s) = jb.pop() { ids.push(sample_id(&s).to_string()); if ids.len() > cap.max(1) + 4 { break; } }
                    if ids.len() > cap.max(1) { *over_w.lock().unwrap() = Some(ids.len()); }
                    out.push(format!("D{}{}", ids.join("+"), obs(&jb)));
                }
            }
        }
        format!("ok {}", out.join(" "))
    });
    if let Some(n) = over_ref.lock().unwrap().take() { over = Some(n); }
    if let Some(n) = over { run.fail("retain:JitterBuffer::push:beyond-capacity", &format!("jitter {input}"), &format!("a drain delivered {n} samples from a jitter buffer of capacity {cap}")); }
}
fn gen_jitter(rng: &mut Rng) -> (usize, u8, Vec<JOp>) {
    let cap = *rng.pick(&[0usize, 1, 2, 3, 3, 8, 8, 64]);
    let mode = if rng.chance(2, 3) { 0u8 } else { 1 };
    let video = rng.chance(1, 5);
    let clock = *rng.pick(&[0u32, 8000, 8000, 48000, 1, 0x8000_0000, 0xFFFF_FFFF]);
    let eff = if video { 90000u32 } else if clock == 0 { 8000 } else { clock };
    let mut seq = *rng.pick(&[0u16, 1, 100, 32760, 65500, 65530, 65535]);
    let mut ts = *rng.pick(&[0u32, 160, 0x7FFF_FF00, 0xFFFF_FF00, 0xFFFF_FFFF]);
    let mut ssrc = if rng.chance(1, 4) { None } else { Some(9u32) };
    let mut ops = vec![]; let mut id = 0u32;
    for _ in 0..rng.range(1, 60) {
        match rng.below(20) {
            0..=5 => ops.push(JOp::Pop),
            6 => if mode == 0 { ops.push(JOp::Drain) } else { ops.push(JOp::Pop) },
            7 => if rng.chance(1, 4) { ops.push(JOp::Reset) },
            _ => {
                let s = match rng.below(14) {
                    0..=5 => { seq = seq.wrapping_add(1); seq }
                    6 => seq,
                    7 => seq.wrapping_sub(rng.range(1, 5) as u16),
                    8 => { seq = seq.wrapping_add(rng.range(2, 6) as u16); seq }
                    9 => seq.wrapping_add(*rng.pick(&[63u16, 64, 65, 66, 32767, 32768, 32769])),
                    10 => { seq = seq.wrapping_add(*rng.pick(&[64u16, 65, 200, 32767])); seq }
                    11 => rng.next() as u16,
                    12 => { seq = seq.wrapping_add(2); seq.wrapping_sub(1) }
                    _ => seq.wrapping_add(rng.range(1, 4) as u16),
                };
                let jump = if video { 450_000u32 } else { eff.saturating_mul(2) };
                let t = match rng.below(12) {
                    0..=5 => { ts = ts.wrapping_add(160); ts }
                    6 => { ts = ts.wrapping_add(jump.wrapping_add(*rng.pick(&[0u32, 1, 0xFFFF_FFFF]))); ts }
                    7 => ts.wrapping_sub(jump.wrapping_add(*rng.pick(&[0u32, 1, 0xFFFF_FFFF]))),
                    8 => { ts = ts.wrapping_add((eff / 2).wrapping_add(*rng.pick(&[0u32, 1, 0xFFFF_FFFF]))); ts }
                    9 => ts.wrapping_add(*rng.pick(&[0x7FFF_FFFEu32, 0x7FFF_FFFF, 0x8000_0000, 0x8000_0001])),
                    10 => rng.next() as u32,
                    _ => ts,
                };
                if rng.chance(1, 25) { ssrc = match rng.below(3) { 0 => None, 1 => Some(9), _ => Some(10 + rng.below(3) as u32) }; }
                id += 1;
                ops.push(JOp::Push { seq: if rng.chance(1, 30) { None } else { Some(s) }, ts: t, ssrc, marker: rng.chance(1, 6), clock, video, id });
            }
        }
    }
    if mode == 0 { ops.push(JOp::Drain); }
    (cap, mode, ops)
}
fn parse_jop(t: &str) -> Option<JOp> {
    let f: Vec<&str> = t.split(',').collect();
    match f.as_slice() {
        ["o"] => Some(JOp::Pop), ["r"] => Some(JOp::Reset), ["d"] => Some(JOp::Drain),
        ["p", sq, ts, ss, mk, ck, vd, id] => Some(JOp::Push { seq: if *sq == "-" { None } else { Some(sq.parse().ok()?) }, ts: ts.parse().ok()?, ssrc: if *ss == "-" { None } else { Some(ss.parse().ok()?) },
            marker: *mk == "1", clock: ck.parse().ok()?, video: *vd == "1", id: id.parse().ok()? }),
        _ => None,
    }
}

pub fn special(run: &mut Run, rng: &mut Rng, thorough: bool) {
    let n = if thorough { 40_000 } else { 4_000 };
    for size in [1usize, 1100] { run_mediaflood(run, 0, n, size, 0); for kind in [1u8, 2] { let seed = rng.next(); run_mediaflood(run, kind, n, size, seed); } }
    for _ in 0..(if thorough { 80_000 } else { 4_000 }) { let (m, e, ops) = gen_udptl_history(rng); run_udptlbuf(run, m, e, &ops, true); }
    for _ in 0..(if thorough { 120_000 } else { 6_000 }) { let (c, m, ops) = gen_jitter(rng); run_jitter(run, c, m, &ops, true); }
    // H.264: every 1-byte payload, then histories + truncations/mutations of their payloads
    run_h264(run, &[Pk { seq: 1, ts: 2, marker: false, payload: vec![] }], false);
    for a in 0..=255u8 { run_h264(run, &[Pk { seq: 1, ts: 2, marker: true, payload: vec![a] }], false); }
    for a in 0..=255u8 { run_h264(run, &[Pk { seq: 1, ts: 2, marker: true, payload: vec![28, a] }, Pk { seq: 2, ts: 2, marker: true, payload: vec![28, a ^ 0xC0, 9] }], false); }
    for _ in 0..(if thorough { 60_000 } else { 2_500 }) {
        let h = gen_history(rng);
        run_h264(run, &h, true);
        if rng.chance(1, 2) && !h.is_empty() {
            let mut m = h.clone(); let i = rng.below(m.len() as u64) as usize;
            let n = m[i].payload.len(); if n > 0 { if rng.chance(1, 2) { m[i].payload.truncate(rng.below(n as u64) as usize); } else { let k = rng.below(n as u64) as usize; m[i].payload[k] = *rng.pick(&[0u8, 1, 0xFF, 24, 28, 0x7C, 0x9C]); } }
            run_h264(run, &m, true);
        }
    }
    let mut big = vec![24u8]; while big.len() < 1400 { big.extend_from_slice(&[0, 0]); }
    run_h264(run, &[Pk { seq: 1, ts: 2, marker: true, payload: big }], true);
    // UDPTL
    let live = LiveUdptl::new();
    run_udptl(run, &live, &[], false);
    for a in 0..=255u8 { run_udptl(run, &live, &[a], false); run_udptl(run, &live, &[0, 1, 0, a], false); }
    // datagrams around and above the 1400-byte receive buffer (the socket truncates; the model sees the first 1400 bytes)
    for n in [1396usize, 1398, 1399, 1400, 1401, 1404, 2000] {
        for fill in [0u8, 0xFF] {
            let mut v = vec![0u8, 1]; v.extend_from_slice(&((n - 4 - 2) as u16).to_be_bytes()); v.extend(std::iter::repeat(fill).take(n - 4 - 2)); v.extend_from_slice(&[0, 0]);
            run_udptl(run, &live, &v, true);
            let mut w = vec![0u8, 1, 0, 2, 9, 9]; while w.len() + 3 <= n { w.extend_from_slice(&[0, 1, 7]); } while w.len() < n { w.push(0); }
            run_udptl(run, &live, &w, true);
        }
    }
    for _ in 0..(if thorough { 30_000 } else { 1_500 }) {
        let v = gen_udptl(rng);
        run_udptl(run, &live, &v, true);
        if rng.chance(1, 2) { let k = rng.below(v.len() as u64 + 1) as usize; run_udptl(run, &live, &v[..k], true); }
        if rng.chance(1, 3) { for m in super::mutations(&v, rng, 6) { run_udptl(run, &live, &m, true); } }
    }
}

pub fn replay_special(run: &mut Run, stream: &str, a: &[&str]) -> bool {
    match stream {
        "mediaflood" if a.len() == 4 => { let p = |s: &str| s.parse::<u64>().unwrap_or(0); run_mediaflood(run, p(a[0]) as u8, p(a[1]) as u32, p(a[2]) as usize, p(a[3])); true }
        "h264" => {
            let pk: Vec<Pk> = a.iter().filter_map(|t| { let f: Vec<&str> = t.split(',').collect(); if f.len() != 4 { return None; }
                Some(Pk { seq: f[0].parse().ok()?, ts: f[1].parse().ok()?, marker: f[2] == "1", payload: unhex(f[3]) }) }).collect();
            run_h264(run, &pk, true); true }
        "udptl" if a.len() == 1 => { let l = LiveUdptl::new(); run_udptl(run, &l, &unhex(a[0]), true); true }
        "jitter" if a.len() >= 2 => {
            let ops: Vec<JOp> = a[2..].iter().filter_map(|t| parse_jop(t)).collect();
            run_jitter(run, a[0].parse().unwrap_or(8), a[1].parse().unwrap_or(0), &ops, true); true }
        "udptlbuf" if a.len() >= 2 => {
            let ops: Vec<(u16, usize)> = a[2..].iter().filter_map(|t| { let (x, y) = t.split_once(',')?; Some((x.parse().ok()?, y.parse().ok()?)) }).collect();
            run_udptlbuf(run, a[0].parse().unwrap_or(128), a[1].parse().unwrap_or(1), &ops, true); true }
        _ => false,
    }
}
pub fn type_sizes() -> serde_json::Value { serde_json::json!({ "MediaSample": std::mem::size_of::<MediaSample>(), "RtpPacket": std::mem::size_of::<RtpPacket>() }) }
