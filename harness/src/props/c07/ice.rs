//! C07 — STUN decode, shared-demux byte walkers, ICE `handle_packet` / `handle_turn_packet` (via hooks, real
//! tokio sockets on loopback), TURN/TCP frame read, RTX unwrap.
use super::{Target, exec};
use crate::{Rng, Run, hex, unhex};
use async_trait::async_trait;
use bytes::Bytes;
use parking_lot::Mutex;
use rustrtc::transports::PacketReceiver;
use rustrtc::transports::ice::IceTransport;
use rustrtc::transports::ice::stun::*;
use rustrtc::transports::ice::turn::TurnClient;
use std::net::{IpAddr, Ipv4Addr, Ipv6Addr, SocketAddr};
use std::sync::Arc;

fn nats(v: &[u64]) -> String { v.iter().map(|x| x.to_string()).collect::<Vec<_>>().join(",") }
fn fold_bytes(b: &[u8]) -> u64 { b.iter().fold(7u64, |a, x| (a * 31 + *x as u64) % 4294967296) }
fn anyhow_text(e: &anyhow::Error) -> String { format!("err {}", e.to_string().replace(' ', "_")) }

fn addr_digest(a: &Option<SocketAddr>, out: &mut Vec<u64>) {
    match a {
        None => out.push(0),
        Some(a) => {
            out.push(2); out.push(a.port() as u64);
            out.push(match a.ip() { IpAddr::V4(v) => fold_bytes(&v.octets()), IpAddr::V6(v) => fold_bytes(&v.octets()) });
        }
    }
}
fn method_code(m: StunMethod) -> u64 {
    match m { StunMethod::Binding => 1, StunMethod::Allocate => 3, StunMethod::Refresh => 4, StunMethod::CreatePermission => 8,
        StunMethod::ChannelBind => 9, StunMethod::Send => 6, StunMethod::Data => 7 }
}
fn class_code(c: StunClass) -> u64 {
    match c { StunClass::Request => 0, StunClass::Indication => 0x10, StunClass::SuccessResponse => 0x100, StunClass::ErrorResponse => 0x110 }
}

fn call_stun(b: &[u8]) -> String {
    let r = StunMessage::decode(b);
    super::mark_alloc();
    match r {
        Ok(d) => {
            let mut v = vec![method_code(d.method), class_code(d.class), fold_bytes(&d.transaction_id)];
            addr_digest(&d.xor_mapped_address, &mut v);
            addr_digest(&d.xor_relayed_address, &mut v);
            addr_digest(&d.xor_peer_address, &mut v);
            v.push(d.error_code.map_or(0, |c| c as u64 + 1));
            v.push(d.realm.as_ref().map_or(0, |s| s.len() as u64 + 1));
            v.push(d.nonce.as_ref().map_or(0, |s| s.len() as u64 + 1));
            v.push(d.data.as_ref().map_or(0, |s| s.len() as u64 + 1));
            v.push(d.use_candidate as u64);
            v.push(d.lifetime.map_or(0, |l| l as u64 + 1));
            format!("ok {}", nats(&v))
        }
        Err(e) => anyhow_text(&e),
    }
}
fn call_stunmi(b: &[u8]) -> String {
    // key = the one `gen_stun` signs with when it signs; outcome class only
    let _ = verify_message_integrity(b, &MI_KEY);
    super::mark_alloc();
    "ok ".into()
}
const MI_KEY: [u8; 16] = [7; 16];
fn gen_stun_mi(rng: &mut Rng) -> Vec<u8> {
    let mut tid = [0u8; 12]; tid.copy_from_slice(&rng.bytes(12));
    let mut attrs = vec![StunAttribute::Username(format!("{}:{}", gen_str(rng, 6), gen_str(rng, 6)))];
    if rng.chance(1, 2) { attrs.push(StunAttribute::Priority(rng.next() as u32)); }
    if rng.chance(1, 2) { attrs.push(StunAttribute::UseCandidate); }
    let msg = StunMessage { class: StunClass::Request, method: StunMethod::Binding, transaction_id: tid, attributes: attrs };
    let v = msg.encode(Some(&MI_KEY), rng.chance(1, 2)).expect("stun encodes");
    assert!(verify_message_integrity(&v, &MI_KEY), "genuine MESSAGE-INTEGRITY verifies");
    v
}
/// hand-framed Binding requests whose MESSAGE-INTEGRITY (type 8) declares every interesting length and sits at every
/// position including the very end of the message (so that fewer than 20 bytes follow its TLV header), optionally
/// followed only by FINGERPRINT; `ufrag` is the USERNAME prefix (the live agent's own ufrag, or a foreign one)
pub fn mi_framed(rng: &mut Rng, ufrag: &str) -> Vec<Vec<u8>> {
    let mut out = vec![];
    for mi_len in [0u16, 1, 4, 8, 12, 16, 19, 20, 21, 24] {
        for present in [0usize, 1, 4, mi_len as usize, 20, 24] {       // bytes actually present after the MI header
            for pos in 0..3 {                                           // MI first / after USERNAME / after USERNAME+PRIORITY
                for tail in 0..2 {                                      // nothing after it, or a FINGERPRINT
                    let mut v = vec![0u8, 1, 0, 0, 0x21, 0x12, 0xA4, 0x42]; v.extend(rng.bytes(12));
                    let user = format!("{ufrag}:peer");
                    if pos >= 1 { tlv(&mut v, 0x0006, user.as_bytes()); }
                    if pos >= 2 { tlv(&mut v, 0x0024, &[0, 0, 1, 0]); }
                    v.extend_from_slice(&[0, 8]); v.extend_from_slice(&mi_len.to_be_bytes()); v.extend(std::iter::repeat(0x5A).take(present));
                    if pos == 0 { while v.len() % 4 != 0 { v.push(0); } tlv(&mut v, 0x0006, user.as_bytes()); }
                    if tail == 1 { while v.len() % 4 != 0 { v.push(0); } tlv(&mut v, 0x8028, &[1, 2, 3, 4]); }
                    let l = (v.len() - 20) as u16; v[2..4].copy_from_slice(&l.to_be_bytes());
                    out.push(v);
                }
            }
        }
    }
    out
}
fn call_ufrag(b: &[u8]) -> String {
    let r = rustrtc::verif_hooks::decoders::peer_ufrag_from_binding_request(b); super::mark_alloc();
    match r { None => "ok none".into(), Some(s) => format!("ok some {}", hex(s.as_bytes())) }
}
fn call_uname(b: &[u8]) -> String {
    let r = rustrtc::verif_hooks::decoders::username_from_stun_bytes(b); super::mark_alloc();
    match r { None => "ok none".into(), Some(s) => format!("ok some {}", hex(s.as_bytes())) }
}

fn gen_addr(rng: &mut Rng) -> SocketAddr {
    if rng.chance(2, 3) { SocketAddr::new(IpAddr::V4(Ipv4Addr::from(rng.next() as u32)), rng.next() as u16) }
    else { SocketAddr::new(IpAddr::V6(Ipv6Addr::from(((rng.next() as u128) << 64) | rng.next() as u128)), rng.next() as u16) }
}
fn gen_str(rng: &mut Rng, max: u64) -> String { (0..rng.range(0, max)).map(|_| (b'a' + rng.below(26) as u8) as char).collect() }
fn tlv(v: &mut Vec<u8>, typ: u16, val: &[u8]) {
    v.extend_from_slice(&typ.to_be_bytes()); v.extend_from_slice(&(val.len() as u16).to_be_bytes()); v.extend_from_slice(val);
    while v.len() % 4 != 0 { v.push(0); }
}
fn xor_addr_value(a: SocketAddr, tid: &[u8]) -> Vec<u8> {
    let mut v = vec![0u8, if a.is_ipv4() { 1 } else { 2 }];
    v.extend_from_slice(&(a.port() ^ 0x2112).to_be_bytes());
    let cookie = [0x21u8, 0x12, 0xA4, 0x42];
    match a.ip() {
        IpAddr::V4(i) => v.extend(i.octets().iter().zip(cookie.iter()).map(|(x, y)| x ^ y)),
        IpAddr::V6(i) => { let k: Vec<u8> = cookie.iter().chain(tid.iter()).cloned().collect(); v.extend(i.octets().iter().zip(k.iter()).map(|(x, y)| x ^ y)) }
    }
    v
}

pub fn gen_stun(rng: &mut Rng) -> Vec<u8> {
    let mut tid = [0u8; 12]; tid.copy_from_slice(&rng.bytes(12));
    let class = *rng.pick(&[StunClass::Request, StunClass::Indication, StunClass::SuccessResponse, StunClass::ErrorResponse]);
    let method = *rng.pick(&[StunMethod::Binding, StunMethod::Binding, StunMethod::Allocate, StunMethod::Refresh, StunMethod::CreatePermission,
        StunMethod::ChannelBind, StunMethod::Send, StunMethod::Data]);
    let mut attrs = vec![];
    for _ in 0..rng.range(0, 5) {
        attrs.push(match rng.below(11) {
            0 => StunAttribute::Username(format!("{}:{}", gen_str(rng, 8), gen_str(rng, 8))),
            1 => StunAttribute::Realm(gen_str(rng, 12)), 2 => StunAttribute::Nonce(gen_str(rng, 16)),
            3 => StunAttribute::Software(gen_str(rng, 10)), 4 => StunAttribute::Lifetime(rng.next() as u32),
            5 => StunAttribute::Priority(rng.next() as u32), 6 => StunAttribute::IceControlling(rng.next()),
            7 => StunAttribute::UseCandidate, 8 => StunAttribute::XorPeerAddress(gen_addr(rng)),
            9 => StunAttribute::XorMappedAddress(gen_addr(rng)),
            _ => { let n = rng.range(0, 40) as usize; StunAttribute::Data(rng.bytes(n)) }
        });
    }
    let msg = StunMessage { class, method, transaction_id: tid, attributes: attrs };
    let key = rng.bytes(16);
    let with_key = rng.chance(1, 3);
    let mut v = msg.encode(if with_key { Some(&key) } else { None }, with_key && rng.chance(1, 2)).expect("stun encodes");
    if !with_key {
        // attributes the encoder cannot produce: ERROR-CODE, XOR-RELAYED-ADDRESS, non-UTF-8 REALM, short values
        for _ in 0..rng.range(0, 3) {
            match rng.below(6) {
                0 => tlv(&mut v, 0x0009, &[0, 0, rng.range(3, 6) as u8, rng.below(100) as u8, b'x']),
                1 => { let a = gen_addr(rng); tlv(&mut v, 0x0016, &xor_addr_value(a, &tid)) }
                2 => tlv(&mut v, 0x0014, &[0xff, 0xfe, 0x41]),
                3 => { let a = gen_addr(rng); let mut x = xor_addr_value(a, &tid); let n = x.len(); x.truncate(rng.below(n as u64) as usize); tlv(&mut v, 0x0020, &x) }
                4 => tlv(&mut v, 0x000D, &rng.bytes(3)),
                _ => { let t = rng.next() as u16; let n = rng.below(9) as usize; tlv(&mut v, t, &rng.bytes(n)) }
            }
        }
        let l = (v.len() - 20) as u16; v[2..4].copy_from_slice(&l.to_be_bytes());
    }
    v
}
/// a TURN server's response as the client code expects it — and as it does not: Allocate / CreatePermission success and
/// error responses with ERROR-CODE 401/438/other, REALM / NONCE present, absent, empty or not UTF-8, XOR-RELAYED-ADDRESS of
/// both families or cut short, LIFETIME 0 / huge / 3 bytes, trailing unknown attributes, truncation. The transaction id
/// (bytes 8..20) is overwritten with the request's by the fake server unless byte 8 is 0xEE.
fn gen_turn_resp(rng: &mut Rng, method: u16) -> Vec<u8> {
    if rng.chance(1, 12) { let mut g = gen_stun(rng); if g.len() > 8 && rng.chance(1, 2) { g[8] = 0xEE; } return g; }
    let tid = rng.bytes(12);
    let m = if rng.chance(1, 10) { *rng.pick(&[0x001u16, 0x003, 0x004, 0x008, 0x009]) } else { method };
    let class_bits: u16 = match rng.below(10) { 0..=3 => 0x0100, 4..=8 => 0x0110, _ => *rng.pick(&[0x0000u16, 0x0010]) };
    let mut v = vec![]; v.extend_from_slice(&(m | class_bits).to_be_bytes()); v.extend_from_slice(&[0, 0, 0x21, 0x12, 0xA4, 0x42]); v.extend_from_slice(&tid);
    if rng.chance(1, 12) { v[8] = 0xEE; }
    for _ in 0..rng.range(0, 5) {
        match rng.below(9) {
            0 | 1 => { let (c, n) = *rng.pick(&[(4u8, 1u8), (4, 1), (4, 38), (4, 0), (4, 37), (3, 0), (6, 99), (7, 255), (0, 0)]); let mut e = vec![0, 0, c, n]; e.extend(gen_str(rng, 12).bytes()); tlv(&mut v, 0x0009, &e) }
            2 => { let n = rng.below(4) as usize; tlv(&mut v, 0x0009, &rng.bytes(n)) }
            3 => match rng.below(4) { 0 => tlv(&mut v, 0x0014, &[]), 1 => tlv(&mut v, 0x0014, &[0xff, 0xfe, 0x41]), _ => tlv(&mut v, 0x0014, gen_str(rng, 130).as_bytes()) },
            4 => match rng.below(4) { 0 => tlv(&mut v, 0x0015, &[]), 1 => tlv(&mut v, 0x0015, &[0xc3]), _ => tlv(&mut v, 0x0015, gen_str(rng, 130).as_bytes()) },
            5 => { let a = gen_addr(rng); let mut x = xor_addr_value(a, &tid); if rng.chance(1, 4) { let n = x.len(); x.truncate(rng.below(n as u64 + 1) as usize); } if rng.chance(1, 8) && x.len() > 1 { x[1] = rng.next() as u8; } tlv(&mut v, 0x0016, &x) }
            6 => match rng.below(3) { 0 => tlv(&mut v, 0x000D, &[0, 0, 0, 0]), 1 => tlv(&mut v, 0x000D, &[0xff; 4]), _ => { let n = rng.below(6) as usize; tlv(&mut v, 0x000D, &rng.bytes(n)) } },
            7 => tlv(&mut v, 0x0008, &rng.bytes(20)),
            _ => { let t = rng.next() as u16; let n = rng.below(9) as usize; tlv(&mut v, t, &rng.bytes(n)) }
        }
    }
    let l = (v.len() - 20) as u16; v[2..4].copy_from_slice(&l.to_be_bytes());
    if rng.chance(1, 10) { let n = v.len(); v.truncate(rng.below(n as u64 + 1) as usize); }
    if rng.chance(1, 20) && v.len() >= 4 { v[2..4].copy_from_slice(&(rng.next() as u16).to_be_bytes()); }
    v
}

/// oracle-only stream `turnclient`: the TURN client's request/response exchanges (`allocate`, then `create_permission`)
/// against a fake server on a loopback UDP socket that answers each request with the next scripted response.
/// `auth`: the client already holds long-term credentials (as after an earlier allocation).
pub fn run_turnclient(run: &mut Run, live: &Live, op: u8, auth: bool, script: &[Vec<u8>], nt: bool) {
    let l = std::panic::AssertUnwindSafe(live);
    let sc: Vec<Vec<u8>> = script.to_vec();
    let total: u64 = script.iter().map(|x| x.len() as u64).sum();
    let input = format!("{op} {} {}", auth as u8, script.iter().map(|x| if x.is_empty() { "-".to_string() } else { hex(x) }).collect::<Vec<_>>().join(" "));
    // op bit 1: once the script is used up the server repeats its LAST entry for ever (a server that keeps answering the same thing);
    // otherwise it ends the exchange with a plain 400
    let (permission_only, repeat) = (op & 1 == 1, op & 2 == 2);
    let requests = Arc::new(std::sync::atomic::AtomicUsize::new(0));
    let rq = requests.clone();
    exec(run, "turnclient", &input, "TurnClient::allocate/create_permission", nt, Some((64, 16384, total)), move || {
        l.rt.block_on(async {
            let client_sock = Arc::new(tokio::net::UdpSocket::bind("127.0.0.1:0").await.expect("bind"));
            let server = tokio::net::UdpSocket::bind("127.0.0.1:0").await.expect("bind");
            let server_addr = server.local_addr().unwrap();
            let turn = TurnClient::verif_new_udp(client_sock, server_addr);
            if auth { turn.verif_set_auth("user", "pass", "realm", "nonce"); }
            let srv = tokio::spawn(async move {
                let mut buf = [0u8; 2048];
                let last = sc.last().cloned();
                let mut it = sc.into_iter();
                loop {
                    let Ok((n, from)) = server.recv_from(&mut buf).await else { break };
                    rq.fetch_add(1, std::sync::atomic::Ordering::SeqCst);
                    let mut resp = it.next().or_else(|| if repeat { last.clone() } else { None }).unwrap_or_else(|| { let t = u16::from_be_bytes([buf[0], buf[1]]) | 0x0110; let mut v = t.to_be_bytes().to_vec(); v.extend_from_slice(&[0, 8, 0x21, 0x12, 0xA4, 0x42]); v.extend_from_slice(&[0; 12]); v.extend_from_slice(&[0, 9, 0, 4, 0, 0, 4, 0]); v });
                    if n >= 20 && resp.len() >= 20 && resp[8] != 0xEE { resp[8..20].copy_from_slice(&buf[8..20]); }
                    let _ = server.send_to(&resp, from).await;
                }
            });
            let fut = async {
                if !permission_only { let _ = turn.verif_allocate("user", "pass").await; if turn.verif_auth_key().is_some() { let _ = turn.verif_create_permission("127.0.0.1:9".parse().unwrap()).await; } }
                else { let _ = turn.verif_create_permission("127.0.0.1:9".parse().unwrap()).await; }
            };
            let timed_out = tokio::time::timeout(std::time::Duration::from_secs(if repeat { 3 } else { 15 }), fut).await.is_err();
            srv.abort();
            let _ = srv.await;
            if timed_out { panic!("TURN exchange did not end within its deadline"); }
        });
        "noncompared".into()
    });
    // one call = at most 3 Allocate attempts + 3 CreatePermission attempts: what the client SENDS is bounded whatever the server answers
    let n = requests.load(std::sync::atomic::Ordering::SeqCst);
    { let e = run.dist.entry("turnclient:max_requests_per_call".into()).or_insert(0); if n as u64 > *e { *e = n as u64; } }
    if n > 6 { run.fail("flood:TurnClient::allocate/create_permission:requests-per-call", &format!("turnclient {input}"), &format!("the client sent {n} requests in one call (at most 3 attempts per operation are allowed)")); }
}

fn gen_binding_req(rng: &mut Rng) -> Vec<u8> {
    if rng.chance(1, 4) { return gen_stun(rng); }
    let mut tid = [0u8; 12]; tid.copy_from_slice(&rng.bytes(12));
    let mut attrs = vec![];
    if rng.chance(1, 3) { attrs.push(StunAttribute::Priority(7)); }
    attrs.push(StunAttribute::Username(match rng.below(4) { 0 => gen_str(rng, 8), 1 => format!(":{}", gen_str(rng, 4)), _ => format!("{}:{}", gen_str(rng, 8), gen_str(rng, 8)) }));
    let msg = StunMessage { class: if rng.chance(5, 6) { StunClass::Request } else { StunClass::Indication }, method: StunMethod::Binding, transaction_id: tid, attributes: attrs };
    msg.encode(None, false).unwrap()
}

pub fn targets() -> Vec<Target> {
    vec![
        Target { stream: "stun", entry: "StunMessage::decode", call: call_stun, valid: gen_stun, alloc: Some((1, 0)), weight: 3 },
        Target { stream: "stunmi", entry: "verify_message_integrity", call: call_stunmi, valid: gen_stun_mi, alloc: Some((1, 20)), weight: 1 },
        Target { stream: "ufrag", entry: "peer_ufrag_from_binding_request", call: call_ufrag, valid: gen_binding_req, alloc: Some((2, 0)), weight: 1 },
        Target { stream: "uname", entry: "username_from_stun_bytes", call: call_uname, valid: gen_binding_req, alloc: Some((1, 0)), weight: 1 },
    ]
}

// ---------------------------------------------------------------------------------------------
// live entry points through the hooks

struct Rec(Mutex<Vec<usize>>);
#[async_trait]
impl PacketReceiver for Rec {
    async fn receive(&self, p: Bytes, _a: SocketAddr, _m: &mut Vec<u8>) { self.0.lock().push(p.len()); }
}

pub struct Live {
    rt: tokio::runtime::Runtime,
    ice: IceTransport,
    rec: Arc<Rec>,
    sock: Arc<tokio::net::UdpSocket>,
    sink: SocketAddr,
    turn: Arc<TurnClient>,
    peer: SocketAddr,
}
pub const BOUND_CHANNEL: u16 = 0x4001;

impl Live {
    pub fn new() -> Self { Self::with(0, true, None) }
    /// `mode`: 0 WebRTC, 1 SRTP(SDES), 2 plain RTP; `receiver`: a data receiver is installed (otherwise media is
    /// buffered); `state`: ICE transport state forced through the hook
    pub fn with(mode: u8, receiver: bool, state: Option<rustrtc::transports::ice::IceTransportState>) -> Self {
        let rt = tokio::runtime::Builder::new_current_thread().enable_all().build().unwrap();
        let (ice, rec, sock, sink, turn, peer) = rt.block_on(async {
            let mut cfg = rustrtc::RtcConfiguration::default();
            cfg.transport_mode = match mode { 1 => rustrtc::TransportMode::Srtp, 2 => rustrtc::TransportMode::Rtp, _ => rustrtc::TransportMode::WebRtc };
            let (ice, _runner) = IceTransport::new(cfg);
            let rec = Arc::new(Rec(Mutex::new(vec![])));
            if receiver { ice.set_data_receiver(rec.clone()).await; }
            if let Some(st) = state { ice.verif_set_state(st); }
            let sock = Arc::new(tokio::net::UdpSocket::bind("127.0.0.1:0").await.unwrap());
            let sink_sock = tokio::net::UdpSocket::bind("127.0.0.1:0").await.unwrap();
            let sink = sink_sock.local_addr().unwrap();
            std::mem::forget(sink_sock); // keeps the port open; replies land in its queue and are dropped
            let turn = Arc::new(TurnClient::verif_new_udp(sock.clone(), sink));
            let peer: SocketAddr = "127.0.0.1:9".parse().unwrap();
            turn.verif_add_channel(peer, BOUND_CHANNEL).await;
            (ice, rec, sock, sink, turn, peer)
        });
        Live { rt, ice, rec, sock, sink, turn, peer }
    }
    fn observed(&self) -> String {
        let v: Vec<usize> = std::mem::take(&mut *self.rec.0.lock());
        match v.as_slice() { [] => "ok nofwd".into(), [n] => format!("ok fwd {n}"), _ => format!("ok multi {}", v.len()) }
    }
}

pub fn run_hpkt(run: &mut Run, live: &Live, pkt: &[u8], nt: bool) {
    let p = pkt.to_vec();
    let l = std::panic::AssertUnwindSafe(live);
    exec(run, "hpkt", &hex(pkt), "ice::handle_packet", nt, None, move || {
        l.rt.block_on(l.ice.verif_handle_packet(&p, l.sink, rustrtc::transports::ice::IceSocketWrapper::Udp(l.sock.clone())));
        l.observed()
    });
    // the model stops at the first byte: the STUN branch (second decode, authentication, reply encoding) is bounded on this side only
    super::alloc_side_check(run, "hpkt", "ice::handle_packet", &hex(pkt), pkt.len(), 64, 2048);
}
fn cpu_time() -> f64 {
    if let Ok(s) = std::fs::read_to_string("/proc/thread-self/stat") {
        if let Some(rest) = s.rsplit(')').next() { let f: Vec<&str> = rest.split_whitespace().collect();
            if f.len() > 13 { if let (Ok(u), Ok(k)) = (f[11].parse::<f64>(), f[12].parse::<f64>()) { return (u + k) / 100.0; } } }
    }
    0.0
}
/// oracle-only stream `iceflood`: what an ICE agent RETAINS, and how long it takes, when `count` Binding requests (no
/// MESSAGE-INTEGRITY, any ufrag) arrive from `count` distinct source addresses. mode 0 WebRTC, 1 SDES, 2 plain RTP.
/// Oracles: retained ≤ 16·bytes received + 64 KiB; CPU(4n) ≤ 8·CPU(n) once CPU(4n) ≥ 0.4 s.
pub fn run_iceflood(run: &mut Run, mode: u8, count: u32) {
    let case = format!("iceflood {mode} {count}");
    let r = super::catch_ack(move || {
        let mut out = (0u64, 0u64, [0f64; 2], 0usize, true);
        for (round, n) in [count / 4, count].into_iter().enumerate() {
            let live = Live::with(mode, true, None);
            let mut bytes = 0u64;
            super::alloc_reset();
            let t0 = cpu_time();
            for k in 0..n {
                let mut p = vec![0u8, 1, 0, 8, 0x21, 0x12, 0xA4, 0x42]; p.extend_from_slice(&[0; 8]); p.extend_from_slice(&k.to_be_bytes());
                p.extend_from_slice(&[0, 6, 0, 3, b'a', b':', b'b', 0]);
                bytes += p.len() as u64;
                let from = SocketAddr::new(IpAddr::V4(Ipv4Addr::from(0x7F01_0000 + k)), 40000);
                live.rt.block_on(live.ice.verif_handle_packet(&p, from, rustrtc::transports::ice::IceSocketWrapper::Udp(live.sock.clone())));
            }
            out.2[round] = cpu_time() - t0;
            if round == 1 {
                out.0 = super::alloc_retained().max(0) as u64; out.1 = bytes; out.3 = live.ice.remote_candidates().len();
                // after the flood the agent must still learn a NEW source (the genuine peer behind a new NAT binding): latching and
                // nomination work only for addresses in the candidate table
                let mut p = vec![0u8, 1, 0, 8, 0x21, 0x12, 0xA4, 0x42]; p.extend_from_slice(&[9; 12]); p.extend_from_slice(&[0, 6, 0, 3, b'a', b':', b'b', 0]);
                let genuine: SocketAddr = "127.9.9.9:40001".parse().unwrap();
                live.rt.block_on(live.ice.verif_handle_packet(&p, genuine, rustrtc::transports::ice::IceSocketWrapper::Udp(live.sock.clone())));
                out.4 = mode == 0 || live.ice.remote_candidates().iter().any(|c| c.address == genuine);
            }
            drop(live);
        }
        out
    });
    match r {
        Ok((retained, bytes_in, t, cands, learns)) => {
            if !learns { run.fail("lockout:ice::handle_stun_request:learned-candidate-table-full", &case, &format!("after {count} Binding requests from distinct sources ({cands} remote candidates) a request from a new source is no longer learned: no latching or nomination from a new address for the rest of the session")); }
            run.count_n(&format!("iceflood:retained_per_input_byte_x100:{mode}"), retained * 100 / bytes_in.max(1));
            run.count_n(&format!("iceflood:cpu_ms:{mode}"), (t[1] * 1000.0) as u64);
            run.count_n(&format!("iceflood:remote_candidates:{mode}"), cands as u64);
            if retained > 16 * bytes_in + 65536 {
                run.fail("retain:ice::handle_stun_request:candidate-per-source", &case, &format!("{retained} bytes retained ({cands} remote candidates) after {count} unauthenticated Binding requests from distinct sources ({bytes_in} bytes received)")); }
            if t[1] >= 0.4 && t[1] > 8.0 * t[0].max(0.01) {
                run.fail("slow:ice::handle_stun_request:candidate-scan", &case, &format!("{} requests took {:.2} s CPU, {} requests {:.2} s: super-linear", count / 4, t[0], count, t[1])); }
        }
        Err(msg) => run.fail(&format!("panic:ice::handle_packet(flood):{}", super::panic_site(&msg)), &case, &msg),
    }
    run.case("iceflood", &format!("{mode} {count}"), "noncompared", true);
}

pub fn run_turnpkt(run: &mut Run, live: &Live, pkt: &[u8], nt: bool) {
    let p = pkt.to_vec();
    let l = std::panic::AssertUnwindSafe(live);
    // peerKnown for ChannelData = the channel number is the bound one
    let known = pkt.len() >= 2 && u16::from_be_bytes([pkt[0], pkt[1]]) == BOUND_CHANNEL;
    exec(run, "turnpkt", &format!("{} {}", known as u8, hex(pkt)), "IceTransport::handle_turn_packet", nt, None, move || {
        l.rt.block_on(l.ice.verif_handle_turn_packet(&p, &l.turn, l.peer));
        l.observed()
    });
    super::alloc_side_check(run, "turnpkt", "IceTransport::handle_turn_packet", &format!("{} {}", known as u8, hex(pkt)), pkt.len(), 64, 4096);
}

/// one TURN/TCP message read over a real loopback connection: the server side writes `stream` and closes
pub fn run_turntcp(run: &mut Run, live: &Live, buf_len: usize, stream: &[u8], nt: bool) {
    let l = std::panic::AssertUnwindSafe(live);
    let data = stream.to_vec();
    exec(run, "turntcp", &format!("{buf_len} {}", hex(stream)), "TurnClient::recv", nt, None, move || {
        l.rt.block_on(async {
            use tokio::io::AsyncWriteExt;
            let lis = tokio::net::TcpListener::bind("127.0.0.1:0").await.unwrap();
            let addr = lis.local_addr().unwrap();
            let writer = tokio::spawn(async move {
                let (mut s, _) = lis.accept().await.unwrap();
                let _ = s.write_all(&data).await;
                let _ = s.shutdown().await;
            });
            let stream = tokio::net::TcpStream::connect(addr).await.unwrap();
            let client = TurnClient::verif_new_tcp(stream);
            let mut buf = vec![0u8; buf_len];
            let r = client.verif_recv(&mut buf).await;
            let _ = writer.await;
            match r { Ok(n) => format!("ok {n}"), Err(e) => anyhow_text(&e) }
        })
    });
}

/// RFC 4571 framing of `IceSocketWrapper::TcpStream(..).recv_from` over a real loopback connection
/// the first frame of an inbound connection on the shared passive TCP listener (`read_tcp_framed_packet`), over a real connection
pub fn run_sharedtcp(run: &mut Run, live: &Live, stream: &[u8], nt: bool) {
    let l = std::panic::AssertUnwindSafe(live);
    let data = stream.to_vec();
    exec(run, "sharedtcp", &hex(stream), "shared_tcp::read_tcp_framed_packet", nt, Some((0, 1500, 0)), move || {
        l.rt.block_on(async {
            use tokio::io::AsyncWriteExt;
            let lis = tokio::net::TcpListener::bind("127.0.0.1:0").await.unwrap();
            let addr = lis.local_addr().unwrap();
            let writer = tokio::spawn(async move { let mut s = tokio::net::TcpStream::connect(addr).await.unwrap(); let _ = s.write_all(&data).await; let _ = s.shutdown().await; });
            let (mut accepted, _) = lis.accept().await.unwrap();
            super::start_alloc();
            let r = rustrtc::verif_hooks::decoders::read_tcp_framed_packet(&mut accepted).await;
            super::mark_alloc();
            let _ = writer.await;
            match r { Ok(v) => format!("ok {}", v.len()), Err(e) => { let t = e.to_string();
                if t.starts_with("invalid TCP STUN frame length") { "err invalid_TCP_STUN_frame_length".into() } else if t.starts_with("read TCP STUN frame") { "err early_eof".into() } else { anyhow_text(&e) } } }
        })
    });
}

pub fn run_tcp4571(run: &mut Run, live: &Live, buf_len: usize, stream: &[u8], nt: bool) {
    let l = std::panic::AssertUnwindSafe(live);
    let data = stream.to_vec();
    exec(run, "tcp4571", &format!("{buf_len} {}", hex(stream)), "IceSocketWrapper::recv_from(tcp)", nt, None, move || {
        l.rt.block_on(async {
            use tokio::io::AsyncWriteExt;
            let lis = tokio::net::TcpListener::bind("127.0.0.1:0").await.unwrap();
            let addr = lis.local_addr().unwrap();
            let writer = tokio::spawn(async move { let (mut s, _) = lis.accept().await.unwrap(); let _ = s.write_all(&data).await; let _ = s.shutdown().await; });
            let stream = tokio::net::TcpStream::connect(addr).await.unwrap();
            let (r, w) = stream.into_split();
            let wrapper = rustrtc::transports::ice::IceSocketWrapper::TcpStream(Arc::new(tokio::sync::Mutex::new(r)), Arc::new(tokio::sync::Mutex::new(w)), addr);
            let mut buf = vec![0u8; buf_len];
            let r = wrapper.recv_from(&mut buf).await;
            let _ = writer.await;
            match r { Ok((n, _)) => format!("ok {n}"), Err(e) => { let t = e.to_string(); if t.starts_with("TCP STUN message too large") { "err TCP_STUN_message_too_large".into() } else { anyhow_text(&e) } } }
        })
    });
}

fn run_rtx(run: &mut Run, payload: &[u8], nt: bool) {
    let p = payload.to_vec();
    exec(run, "rtx", &hex(payload), "unwrap_rtx_packet", nt, Some((0, 0, 0)), move || {
        let pkt = rustrtc::rtp::RtpPacket::new(rustrtc::rtp::RtpHeader::new(97, 5, 6, 7), p);
        super::start_alloc();
        let r = rustrtc::rtx::unwrap_rtx_packet(&pkt, 1234, 96);
        super::mark_alloc();
        match r {
            None => "ok none".into(),
            Some(o) => { assert_eq!(rustrtc::rtx::decode_osn(&pkt.payload), Some(o.header.sequence_number)); format!("ok {} {}", o.header.sequence_number, o.payload.len()) }
        }
    });
}

fn channel_data(ch: u16, len: u16, body: &[u8]) -> Vec<u8> {
    let mut v = ch.to_be_bytes().to_vec(); v.extend_from_slice(&len.to_be_bytes()); v.extend_from_slice(body); v
}
fn data_indication(rng: &mut Rng, data: Option<&[u8]>, peer: bool) -> Vec<u8> {
    let mut tid = [0u8; 12]; tid.copy_from_slice(&rng.bytes(12));
    let mut attrs = vec![];
    if peer { attrs.push(StunAttribute::XorPeerAddress(gen_addr(rng))); }
    if let Some(d) = data { attrs.push(StunAttribute::Data(d.to_vec())); }
    StunMessage { class: StunClass::Indication, method: StunMethod::Data, transaction_id: tid, attributes: attrs }.encode(None, false).unwrap()
}
fn gen_inner(rng: &mut Rng) -> Vec<u8> {
    match rng.below(6) {
        0 => vec![],
        1 => gen_stun(rng),
        2 => { let mut v = vec![*rng.pick(&[20u8, 22, 23, 63])]; let n = rng.below(40) as usize; v.extend(rng.bytes(n)); v }
        3 => super::rtp::gen_rtp_packet(rng).marshal().unwrap(),
        4 => vec![rng.next() as u8],
        _ => { let n = rng.below(30) as usize; rng.bytes(n) }
    }
}

pub fn special(run: &mut Run, rng: &mut Rng, thorough: bool) {
    for mode in 0..3u8 { run_iceflood(run, mode, if thorough { 40_000 } else { 20_000 }); }
    {
        let live = Live::new();
        // the canonical exchange: 401 with REALM + NONCE, then success with a relayed address; then the same without REALM / NONCE
        let tid = [0u8; 12];
        let mk = |class: u16, method: u16, attrs: &[(u16, Vec<u8>)]| { let mut v = (method | class).to_be_bytes().to_vec(); v.extend_from_slice(&[0, 0, 0x21, 0x12, 0xA4, 0x42]); v.extend_from_slice(&tid);
            for (t, a) in attrs { tlv(&mut v, *t, a); } let l = (v.len() - 20) as u16; v[2..4].copy_from_slice(&l.to_be_bytes()); v };
        let relayed = xor_addr_value("10.0.0.1:5000".parse().unwrap(), &tid);
        for code in [(4u8, 1u8), (4, 38)] { for (realm, nonce) in [(true, true), (false, true), (true, false), (false, false)] {
            let mut at = vec![(0x0009u16, vec![0, 0, code.0, code.1, b'x'])];
            if realm { at.push((0x0014, b"realm".to_vec())); } if nonce { at.push((0x0015, b"nonce".to_vec())); }
            let e401 = mk(0x0110, 0x003, &at);
            let ok = mk(0x0100, 0x003, &[(0x0016, relayed.clone()), (0x000D, vec![0, 0, 2, 88])]);
            let mut atp = at.clone(); atp[0].1[3] = code.1;
            let p401 = mk(0x0110, 0x008, &atp);
            let pok = mk(0x0100, 0x008, &[]);
            run_turnclient(run, &live, 0, false, &[e401.clone(), ok.clone(), p401.clone(), pok.clone()], true);
            run_turnclient(run, &live, 1, true, &[p401.clone(), pok.clone()], true);
            run_turnclient(run, &live, 1, true, &[p401.clone(), p401.clone(), p401], true);
            run_turnclient(run, &live, 0, false, &[e401.clone(), e401.clone(), e401], true);
        } }
        run_turnclient(run, &live, 0, false, &[vec![], vec![1], vec![0; 20]], true);
        // a server that answers every request with the same response for ever: foreign transaction id, other method, 401 again, indication, garbage
        {
            let mut foreign = mk(0x0100, 0x003, &[(0x0016, relayed.clone())]); foreign[8] = 0xEE;
            let mut foreign_err = mk(0x0110, 0x003, &[(0x0009u16, vec![0, 0, 4, 1, b'x']), (0x0014, b"realm".to_vec()), (0x0015, b"nonce".to_vec())]); foreign_err[8] = 0xEE;
            let e401 = mk(0x0110, 0x003, &[(0x0009u16, vec![0, 0, 4, 1, b'x']), (0x0014, b"realm".to_vec()), (0x0015, b"nonce".to_vec())]);
            let p438 = mk(0x0110, 0x008, &[(0x0009u16, vec![0, 0, 4, 38, b'x']), (0x0014, b"realm".to_vec()), (0x0015, b"nonce".to_vec())]);
            let mut pforeign = mk(0x0100, 0x008, &[]); pforeign[8] = 0xEE;
            for sc in [vec![foreign.clone()], vec![foreign_err], vec![e401.clone()], vec![e401.clone(), foreign]] { run_turnclient(run, &live, 2, false, &sc, true); }
            for sc in [vec![p438], vec![pforeign]] { run_turnclient(run, &live, 3, true, &sc, true); }
        }
        for _ in 0..(if thorough { 20_000 } else { 700 }) {
            let op = (rng.below(3) as u8 % 2) | if rng.chance(1, 6) { 2 } else { 0 };
            let auth = op & 1 == 1 || rng.chance(1, 3);
            let sc: Vec<Vec<u8>> = (0..rng.range(1, 6)).map(|i| gen_turn_resp(rng, if op & 1 == 1 || i >= 2 { 0x008 } else { 0x003 })).collect();
            run_turnclient(run, &live, op, auth, &sc, true);
        }
    }
    {
        // framed truncations: attributes cut at every length with the STUN length field adjusted
        let ts = targets();
        for _ in 0..(if thorough { 3_000 } else { 150 }) {
            let v = gen_stun(rng);
            for k in 0..=(v.len() - 20) {
                let mut m = v[..20 + k].to_vec(); m[2..4].copy_from_slice(&(k as u16).to_be_bytes());
                super::run_bytes(run, &ts[0], &m, true);
            }
            let g = gen_stun_mi(rng);
            for k in 0..=(g.len() - 20) { let mut m = g[..20 + k].to_vec(); m[2..4].copy_from_slice(&(k as u16).to_be_bytes()); super::run_bytes(run, &ts[1], &m, true); }
            let b = gen_binding_req(rng);
            for k in 0..=(b.len() - 20) {
                let mut m = b[..20 + k].to_vec(); m[2..4].copy_from_slice(&(k as u16).to_be_bytes());
                super::run_bytes(run, &ts[2], &m, true); super::run_bytes(run, &ts[3], &m, true);
            }
        }
    }
    let live = Live::new();
    {
        // MESSAGE-INTEGRITY framing: the direct verifier and the live agent (the verifier runs only for our own ufrag)
        let own = live.ice.local_parameters().username_fragment;
        let ts = targets();
        for ufrag in [own.as_str(), "zzzz"] {
            for m in mi_framed(rng, ufrag) {
                super::run_bytes(run, &ts[1], &m, true);
                run_hpkt(run, &live, &m, true);
                run_turnpkt(run, &live, &m, true);
            }
        }
    }
    // other agent configurations: plain-RTP mode in state Connected (every request counts as authenticated and a new
    // source becomes a remote candidate), SDES mode while Checking, and WebRTC without a data receiver (media is buffered)
    {
        use rustrtc::transports::ice::IceTransportState as S;
        for (mode, recv, st) in [(2u8, true, Some(S::Connected)), (1, true, Some(S::Checking)), (0, false, Some(S::Checking)), (0, true, Some(S::Closed))] {
            let l2 = Live::with(mode, recv, st);
            let own = l2.ice.local_parameters().username_fragment;
            run_hpkt(run, &l2, &[], true);
            for _ in 0..(if thorough { 3_000 } else { 150 }) {
                let p = match rng.below(4) { 0 => { let m = mi_framed(rng, &own); rng.pick(&m).clone() } 1 => gen_binding_req(rng), _ => gen_inner(rng) };
                if recv { run_hpkt(run, &l2, &p, true); run_turnpkt(run, &l2, &p, true); }
                else {
                    // no receiver: the model's `fwd` cases are buffered instead — compare nothing, keep the oracles
                    let pp = p.clone(); let lr = std::panic::AssertUnwindSafe(&l2);
                    exec(run, "hpktbuf", &hex(&p), "ice::handle_packet(buffering)", true, None, move || { lr.rt.block_on(lr.ice.verif_handle_packet(&pp, lr.sink, rustrtc::transports::ice::IceSocketWrapper::Udp(lr.sock.clone()))); "noncompared".into() });
                }
            }
        }
    }
    // handle_packet: empty, every 1-byte datagram, valid STUN / DTLS-ish / RTP, mutations
    run_hpkt(run, &live, &[], true);
    for a in 0..=255u8 { run_hpkt(run, &live, &[a], false); }
    for _ in 0..(if thorough { 30_000 } else { 1_500 }) {
        let p = gen_inner(rng);
        run_hpkt(run, &live, &p, true);
        if !p.is_empty() && rng.chance(1, 2) { let k = rng.below(p.len() as u64) as usize; run_hpkt(run, &live, &p[..k], true); }
    }
    // handle_turn_packet: ChannelData with every boundary length, Data indications with/without DATA / peer, other STUN
    for ch in [0x3FFFu16, 0x4000, BOUND_CHANNEL, 0x7FFF, 0x8000] {
        for body in [0usize, 1, 2, 5] {
            for dl in [-1i64, 0, 1] {
                let len = (body as i64 + dl).max(0) as u16;
                run_turnpkt(run, &live, &channel_data(ch, len, &vec![0x80; body]), true);
            }
        }
    }
    run_turnpkt(run, &live, &[], true);
    for a in 0..=255u8 { run_turnpkt(run, &live, &[a], false); run_turnpkt(run, &live, &[0x40, 0x01, 0, a], false); }
    for _ in 0..(if thorough { 30_000 } else { 2_000 }) {
        let inner = gen_inner(rng);
        let p = match rng.below(6) {
            0 => channel_data(BOUND_CHANNEL, inner.len() as u16, &inner),
            1 => channel_data(*rng.pick(&[0x4000u16, 0x4002, 0x7FFF]), inner.len() as u16, &inner),
            2 => { let l = (inner.len() as i64 + rng.range(0, 4) as i64 - 2).max(0) as u16; channel_data(BOUND_CHANNEL, l, &inner) }
            3 => data_indication(rng, Some(&inner), true),
            4 => { let d = rng.chance(1, 2); let pr = rng.chance(1, 2); data_indication(rng, if d { Some(&inner) } else { None }, pr) }
            _ => gen_stun(rng),
        };
        run_turnpkt(run, &live, &p, true);
        if rng.chance(1, 4) && !p.is_empty() { let k = rng.below(p.len() as u64) as usize; run_turnpkt(run, &live, &p[..k], true); }
    }
    // TURN/TCP messages: STUN / ChannelData headers with lengths around the receive buffer, truncated streams
    for bl in [1500usize, 24, 20, 8, 4, 3, 0] {
        for h0 in [0x00u8, 0x01, 0x40, 0x41, 0x7F, 0x80, 0xC0] {
            for body in [0u16, 1, 3, 4, 5, (bl as u16).wrapping_sub(20), (bl as u16).wrapping_sub(19), (bl as u16).wrapping_sub(4), (bl as u16).wrapping_sub(3), 1476, 1480, 1481, 1496, 1497, 65535] {
                let on_wire = if h0 & 0xC0 == 0x40 { 4 + (body as usize).div_ceil(4) * 4 } else { 20 + body as usize };
                for prov in [on_wire, on_wire.saturating_sub(1), 4, 3, 0] {
                    let mut st = vec![h0, 1]; st.extend_from_slice(&body.to_be_bytes()); st.extend(std::iter::repeat(0x5a).take(on_wire.saturating_sub(4)));
                    st.truncate(prov.min(st.len()));
                    if st.len() <= 3000 { run_turntcp(run, &live, bl, &st, true); }
                }
            }
        }
    }
    for _ in 0..(if thorough { 3_000 } else { 200 }) {
        let bl = *rng.pick(&[1500usize, 1500, 64, 2048]);
        let inner = if rng.chance(1, 2) { gen_stun(rng) } else { let n = rng.below(60) as usize; channel_data(0x4001, n as u16, &rng.bytes(n.div_ceil(4) * 4)) };
        let mut st = inner; if rng.chance(1, 3) { let k = rng.below(st.len() as u64 + 1) as usize; st.truncate(k); } if rng.chance(1, 3) { st.extend(rng.bytes(7)); }
        run_turntcp(run, &live, bl, &st, true);
    }
    for bl in [1500usize, 8, 2, 1, 0] {
        for len in [0u16, 1, 2, 7, 8, 9, 1499, 1500, 1501, 65535] {
            for prov in [len as usize, (len as usize).saturating_sub(1), 0] {
                if prov > 3000 { continue; }
                let mut st = len.to_be_bytes().to_vec(); st.extend(std::iter::repeat(0x33).take(prov));
                run_tcp4571(run, &live, bl, &st, true);
                run_tcp4571(run, &live, bl, &st[..1.min(st.len())], true);
            }
        }
    }
    run_tcp4571(run, &live, 1500, &[], true);
    // shared passive TCP listener: first frame of an inbound connection
    {
        let max = 1500usize;                 // MAX_STUN_MESSAGE (the model takes it from the generated constant; boundary cases around it)
        run_sharedtcp(run, &live, &[], true); run_sharedtcp(run, &live, &[0], true); run_sharedtcp(run, &live, &[0xFF], true);
        for len in [0usize, 1, 2, 19, 20, 28, max - 1, max, max + 1, 65535] {
            for prov in [len, len.saturating_sub(1), 0, len + 3, len / 2] {
                let mut st = (len as u16).to_be_bytes().to_vec(); st.extend(std::iter::repeat(0x44).take(prov.min(70_000)));
                run_sharedtcp(run, &live, &st, true);
            }
        }
        for _ in 0..(if thorough { 2_000 } else { 150 }) {
            let body = if rng.chance(1, 2) { gen_binding_req(rng) } else { gen_stun(rng) };
            let claimed = match rng.below(5) { 0 => body.len() + 1, 1 => body.len().saturating_sub(1), 2 => rng.below(70_000) as usize % 65536, _ => body.len() };
            let mut st = (claimed as u16).to_be_bytes().to_vec(); st.extend_from_slice(&body);
            if rng.chance(1, 4) { let k = rng.below(st.len() as u64 + 1) as usize; st.truncate(k); }
            run_sharedtcp(run, &live, &st, true);
        }
    }
    // RTX unwrap
    run_rtx(run, &[], false);
    for a in 0..=255u8 { run_rtx(run, &[a], false); }
    for _ in 0..(if thorough { 20_000 } else { 1_000 }) { let n = rng.below(40) as usize; let p = rng.bytes(n); run_rtx(run, &p, true); }
}

pub fn replay_special(run: &mut Run, stream: &str, a: &[&str]) -> bool {
    let p = |s: &str| s.parse::<u64>().unwrap_or(0);
    match (stream, a.len()) {
        ("hpkt", 1) => { let l = Live::new(); run_hpkt(run, &l, &unhex(a[0]), true) }
        ("turnpkt", 2) => { let l = Live::new(); run_turnpkt(run, &l, &unhex(a[1]), true) }
        ("tcp4571", 2) => { let l = Live::new(); run_tcp4571(run, &l, p(a[0]) as usize, &unhex(a[1]), true) }
        ("turntcp", 2) => { let l = Live::new(); run_turntcp(run, &l, p(a[0]) as usize, &unhex(a[1]), true) }
        ("rtx", 1) => run_rtx(run, &unhex(a[0]), true),
        ("sharedtcp", 1) => { let l = Live::new(); run_sharedtcp(run, &l, &unhex(a[0]), true) }
        ("sharedtcp", 0) => { let l = Live::new(); run_sharedtcp(run, &l, &[], true) }
        ("iceflood", 2) => run_iceflood(run, p(a[0]) as u8, p(a[1]) as u32),
        ("turnclient", n) if n >= 2 => { let l = Live::new(); let sc: Vec<Vec<u8>> = a[2..].iter().map(|x| if *x == "-" { vec![] } else { unhex(x) }).collect(); run_turnclient(run, &l, p(a[0]) as u8, a[1] == "1", &sc, true) }
        _ => return false,
    }
    true
}
