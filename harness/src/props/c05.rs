//! C05 — forged SRTP/SRTCP is rejected and a rejection never disturbs the receiver.
//! Script sessions: 0 = sender, 1 = receiver A (genuine ⊎ forged traffic), 2 = receiver B (genuine
//! only); the receivers' rx keys are the sender's tx keys (the other direction uses different keying material). The oracle (on the REAL `SrtpSession`s): every forged packet is
//! rejected, A and B give the same answer on every genuine packet, and their context tables agree.
use super::c04::script::*;
use crate::{Args, Rng, Run};

const S: usize = 0;
const A: usize = 1;
const B: usize = 2;

fn keys(rng: &mut Rng, i: usize, prof: &str) -> (Vec<u8>, Vec<u8>) {
    let sl = salt_len(prof);
    match i % 3 { 0 => (vec![0; 16], vec![0; sl]), 1 => (vec![0xff; 16], vec![0xff; sl]), _ => (rng.bytes(16), rng.bytes(sl)) }
}
fn new_three(rng: &mut Rng, i: usize, prof: &str) -> Vec<Op> {
    let (mk, ms) = keys(rng, i, prof);
    // the two directions use different keying material (sender.tx = receivers.rx ≠ sender.rx = receivers.tx)
    let (bk, bs) = (mk.iter().map(|x| x ^ 0x5a).collect::<Vec<u8>>(), ms.iter().map(|x| x ^ 0xa5).collect::<Vec<u8>>());
    vec![Op::New(prof.into(), mk.clone(), ms.clone(), bk.clone(), bs.clone()),
         Op::New(prof.into(), bk.clone(), bs.clone(), mk.clone(), ms.clone()),
         Op::New(prof.into(), bk, bs, mk, ms)]
}

fn mut_kind(m: &Mut) -> &'static str {
    match m { Mut::Flip(_) => "bitflip", Mut::Trunc(_) => "truncation", Mut::Seq(_) => "sequence", Mut::Ssrc(_) | Mut::RtcpSsrc(_) => "ssrc",
              Mut::Append(_) => "append", Mut::Xor(..) => "multibit" }
}

/// which part of a protected packet a byte offset lies in (for the evidence counters)
fn region(is_rtcp: bool, prof: &str, hdr_len: usize, len: usize, off: usize) -> &'static str {
    if len < 24 { return "short-or-empty"; }
    if is_rtcp {
        let t = rtcp_tag_len(prof);
        if off < 8 { "rtcp-header" }
        else if prof == "gcm" { if off >= len - 4 { "srtcp-index" } else if off >= len - 4 - t { "tag" } else { "payload" } }
        else if off >= len - t { "tag" } else if off >= len - t - 4 { "srtcp-index" } else { "payload" }
    } else {
        let t = tag_len(prof);
        if off < 12 { "rtp-fixed-header" } else if off < hdr_len { "csrc-or-extension" } else if off >= len - t { "tag" } else { "payload" }
    }
}

struct Case { ops: Vec<Op>, kind: &'static str }

/// context ages are real time + back-dating in whole seconds: differences below this are scheduling noise
const AGE_TOLERANCE_MS: u64 = 800;
fn ages_differ(a: &[(u32, u64)], b: &[(u32, u64)]) -> bool {
    a.len() != b.len() || a.iter().zip(b.iter()).any(|(x, y)| x.0 != y.0 || x.1.abs_diff(y.1) > AGE_TOLERANCE_MS)
}

/// Generator hygiene: a "forged" op whose mutation happens to leave the bytes equal to a genuine
/// protected packet (flip beyond the end, truncation to full length, same sequence number…) is a
/// genuine delivery to A only — not a forgery. Such ops are dropped. (Protect outputs do not depend
/// on unprotect ops, so they are computed on a scratch sender.)
fn sanitize(ops: Vec<Op>) -> Vec<Op> {
    let mut w = World::new(false);
    for op in &ops { if matches!(op, Op::New(..) | Op::ProtectRtp(..) | Op::ProtectRtcp(..) | Op::ExtRtp(..) | Op::ExtRaw(..) | Op::ExtRtcp(..)) { w.exec(op, false); } }
    let all = w.slots.clone();
    let kinds = w.slot_rtcp.clone();
    ops.into_iter().filter(|op| match op {
        Op::UnprotectRtp(_, Src::Mutated(k, m)) | Op::UnprotectRtcp(_, Src::Mutated(k, m)) => {
            let rtcp = matches!(op, Op::UnprotectRtcp(..));
            let b = m.apply(&all[*k]);
            !all.iter().zip(kinds.iter()).any(|(g, kd)| g[..] == b[..] && *kd == rtcp)
        }
        _ => true,
    }).collect()
}

/// Runs a case on the implementation, writes the correspondence line and evaluates the property.
fn emit(run: &mut Run, stream: &str, c: &Case) {
    let c = &Case { ops: sanitize(c.ops.clone()), kind: c.kind };
    let mut w = World::new(false);
    let input = script_text(&c.ops);
    let case = format!("{stream} {input}");
    let mut res: Vec<Res> = vec![];
    let mut last_forged: &'static str = "none";
    // genuine ops come in pairs (A then B) on the same source; remember A's answer
    let mut pending: Option<(Src, bool, Res)> = None;
    for (i, op) in c.ops.iter().enumerate() {
        let before = match op { Op::UnprotectRtp(s, _) | Op::UnprotectRtcp(s, _) => Some((w.sess[*s].verif_rx_snapshot(), w.sess[*s].verif_tx_snapshot())), _ => None };
        let ages_before = match op { Op::UnprotectRtp(s, _) | Op::UnprotectRtcp(s, _) => Some(w.sess[*s].verif_ctx_ages_ms(false)), _ => None };
        let r = w.exec(op, false);
        // PROPERTY (2'), evaluated directly: an operation that returned an error changed NOTHING in the session
        if let (Some((rx0, tx0)), Op::UnprotectRtp(s, src) | Op::UnprotectRtcp(s, src)) = (before, op) {
            if !r.is_ok() {
                let (rx1, tx1) = (w.sess[*s].verif_rx_snapshot(), w.sess[*s].verif_tx_snapshot());
                if rx0 != rx1 || tx0 != tx1 {
                    let kind = match src { Src::Mutated(_, m) => mut_kind(m), Src::Lit(_) => "literal", Src::Slot(_) => "authentic" };
                    run.fail(&format!("state-changed-by-rejected:{}:{}:{kind}", if matches!(op, Op::UnprotectRtcp(..)) { "rtcp" } else { "rtp" }, w.prof[*s]),
                        &case, &format!("op {i}: {} → {} ; rx {:?} → {:?}", op.text(), r.text(), rx0, rx1));
                }
                // … including the time stamps: a rejected packet neither refreshes nor ages a context
                // (ages are wall-clock + back-dating; anything beyond scheduling noise is a change)
                if let Some(a0) = &ages_before {
                    let a1 = w.sess[*s].verif_ctx_ages_ms(false);
                    if a0.len() == a1.len() && a0.iter().zip(a1.iter()).any(|(x, y)| x.0 != y.0 || x.1.abs_diff(y.1) > AGE_TOLERANCE_MS) {
                        run.fail(&format!("last-use-changed-by-rejected:{}:{}", if matches!(op, Op::UnprotectRtcp(..)) { "rtcp" } else { "rtp" }, w.prof[*s]),
                            &case, &format!("op {i}: {} → {}", op.text(), r.text()));
                    }
                }
                run.count("rejections_checked_state_unchanged");
            }
        }
        let (sess, src, is_rtcp) = match op {
            Op::UnprotectRtp(s, src) => (*s, Some(src.clone()), false),
            Op::UnprotectRtcp(s, src) => (*s, Some(src.clone()), true),
            _ => (usize::MAX, None, false),
        };
        if let Some(src) = src {
            let prof = w.prof[sess].clone();
            let bytes = w.input(&src);
            let genuine = w.slots.iter().zip(w.slot_rtcp.iter()).any(|(g, k)| !g.is_empty() && g[..] == bytes[..] && *k == is_rtcp);
            let what = if is_rtcp { "rtcp" } else { "rtp" };
            if !genuine {
                let kind = match &src { Src::Mutated(_, m) => mut_kind(m), Src::Slot(_) => "cross-protocol", _ => "literal" };
                last_forged = kind;
                run.count(&format!("forged:{what}:{prof}:{kind}"));
                if let Src::Mutated(k, Mut::Flip(bit)) = &src {
                    let hdr_len = w.slot_pkt[*k].as_ref().map(|p| rustrtc::verif_hooks::srtp::header_encoded_len(&p.header)).unwrap_or(8);
                    run.count(&format!("bitflip_region:{}", region(is_rtcp, &prof, hdr_len, w.slots[*k].len(), bit / 8)));
                }
                // PROPERTY (1): a packet that differs from every genuine one is rejected, no media
                if r.is_ok() {
                    run.fail(&format!("forged-accepted:{what}:{prof}:{kind}"), &case, &format!("op {i}: {} accepted as {}", op.text(), r.text()));
                }
            } else if sess == A {
                pending = Some((src, is_rtcp, r.clone()));
            } else if sess == B {
                if let Some((asrc, artcp, ares)) = pending.take() {
                    if asrc == src && artcp == is_rtcp {
                        run.count(&format!("genuine_pairs:{what}:{prof}:{}", if r.is_ok() { "accepted" } else { "rejected" }));
                        // PROPERTY (2): interleaved forgeries do not change what happens to genuine packets
                        if ares != r {
                            run.fail(&format!("genuine-outcome-differs:{what}:{prof}:after-{last_forged}"), &case,
                                &format!("op {i}: {} → A {} / B {}", op.text(), ares.text(), r.text()));
                        }
                    }
                }
            }
        }
        if let (Op::Snap(s), Res::Snap(rx, _)) = (op, &r) {
            if *s == B {
                // PROPERTY (3): receiver cryptographic state — every field, every profile
                if let Some(Res::Snap(arx, _)) = res.iter().rev().find(|x| matches!(x, Res::Snap(..))) {
                    let strip = |v: &Vec<(u32, u32, Option<u16>, u32)>| v.iter().map(|(a, b, c, _)| (*a, *b, *c)).collect::<Vec<_>>();
                    if strip(arx) != strip(rx) {
                        run.fail(&format!("state-differs:{}:rollover-or-table:after-{last_forged}", w.prof[B]), &case, &format!("A {:?} / B {:?}", arx, rx));
                    } else if ages_differ(&w.sess[A].verif_ctx_ages_ms(false), &w.sess[B].verif_ctx_ages_ms(false)) {
                        run.fail(&format!("state-differs:{}:last-use-times:after-{last_forged}", w.prof[B]), &case,
                            &format!("A {:?} / B {:?}", w.sess[A].verif_ctx_ages_ms(false), w.sess[B].verif_ctx_ages_ms(false)));
                    } else if arx != rx {
                        run.fail(&format!("state-differs:{}:srtcp-index:after-{last_forged}", w.prof[B]), &case, &format!("A {:?} / B {:?}", arx, rx));
                    }
                }
            }
        }
        res.push(r);
    }
    // the A/B comparison means nothing if the receivers accept no genuine traffic at all (e.g. wrong keys):
    // every case delivers its first genuine packets in order, so B must have accepted something
    let b_genuine = c.ops.iter().filter(|o| matches!(o, Op::UnprotectRtp(s, Src::Slot(_)) | Op::UnprotectRtcp(s, Src::Slot(_)) if *s == B)).count();
    let b_accepted = c.ops.iter().zip(res.iter()).filter(|(o, r)| matches!(o, Op::UnprotectRtp(s, _) | Op::UnprotectRtcp(s, _) if *s == B) && r.is_ok()).count();
    run.count_n(&format!("clean_receiver_genuine_deliveries:{}", w.prof[B]), b_genuine as u64);
    run.count_n(&format!("clean_receiver_accepted:{}", w.prof[B]), b_accepted as u64);
    if b_genuine > 0 && b_accepted == 0 && c.kind == "exhaustive-bitflip-truncation" {
        // these cases deliver the stream's first packets in order: nothing accepted means the receivers cannot decode genuine traffic at all
        run.fail(&format!("genuine-traffic-never-accepted:{}", w.prof[B]), &case, &format!("{b_genuine} genuine deliveries to the clean receiver, none accepted"));
    }
    let nontrivial = res.iter().any(|r| matches!(r, Res::Rtp(_) | Res::Rtcp(_))) && res.iter().any(|r| matches!(r, Res::Err(e) if *e != "ok"));
    run.case(stream, &input, &results_text(&res), nontrivial);
    run.count(&format!("case_kind:{}", c.kind));
}

fn rtcp_packet(rng: &mut Rng, ssrc: u32, len: usize) -> Vec<u8> {
    let mut b = vec![0x80, *rng.pick(&[200u8, 201, 205]), 0, ((len / 4).max(1) - 1) as u8];
    b.extend(ssrc.to_be_bytes());
    b.extend(rng.bytes(len.saturating_sub(8)));
    b
}

fn rich_packet(rng: &mut Rng, seq: u16, ssrc: u32, plen: usize) -> PktSpec {
    PktSpec { marker: rng.chance(1, 2), pt: 96 + rng.below(30) as u8, seq, ts: rng.next() as u32, ssrc,
        csrcs: if rng.chance(1, 2) { vec![rng.next() as u32] } else { vec![] },
        ext: if rng.chance(1, 2) { Some((0xbede, vec![0x10, rng.next() as u8, 0, 0])) } else { None },
        payload: PayloadSpec::Lit(rng.bytes(plen)), pad: *rng.pick(&[0u8, 0, 4]) }
}

fn both(ops: &mut Vec<Op>, rtcp: bool, k: usize) {
    for s in [A, B] { ops.push(if rtcp { Op::UnprotectRtcp(s, Src::Slot(k)) } else { Op::UnprotectRtp(s, Src::Slot(k)) }); }
}
fn forged(ops: &mut Vec<Op>, rtcp: bool, k: usize, m: Mut) {
    ops.push(if rtcp { Op::UnprotectRtcp(A, Src::Mutated(k, m)) } else { Op::UnprotectRtp(A, Src::Mutated(k, m)) });
}

/// EVERY single-bit flip and EVERY truncation of one protected RTP and one protected RTCP packet,
/// in chunks; each chunk: genuine packet 0, forged variants of packet 1 (before and after the
/// genuine packet 1 is delivered), then genuine packets 1 and 2.
fn exhaustive_mutations(run: &mut Run, rng: &mut Rng, prof: &str, i: usize, plen: usize, rtcp: bool) {
    let ssrc = 0x0102_0304u32;
    let base = |rng: &mut Rng| {
        let mut ops = new_three(rng, i, prof);
        let mut r2 = Rng::new(1000 + i as u64 + plen as u64);   // same packets in every chunk of this (prof, i, plen)
        for n in 0..3u16 {
            if rtcp { ops.push(Op::ProtectRtcp(S, Src::Lit(rtcp_packet(&mut r2, ssrc, 8 + plen / 4 * 4)))); }
            else {
                // CSRC + one-byte-header extension + padding in EVERY profile, every tier
                let mut sp = rich_packet(&mut r2, 65534u16.wrapping_add(n), ssrc, plen);
                sp.csrcs = vec![0x0c0c_0c0c];
                sp.ext = Some((0xbede, vec![0x10, 0xaa, 0, 0]));
                sp.pad = 4;
                ops.push(Op::ProtectRtp(S, sp));
            }
        }
        ops
    };
    // learn the protected length
    let probe = base(rng);
    let (_, w) = run_script(&probe, false);
    let len = w.slots[1].len();
    let mut muts: Vec<Mut> = (0..len * 8).map(Mut::Flip).collect();
    muts.extend((0..len).map(Mut::Trunc));
    for chunk in muts.chunks(48) {
        let mut ops = base(rng);
        both(&mut ops, rtcp, 0);
        let half = chunk.len() / 2;
        for m in &chunk[..half] { forged(&mut ops, rtcp, 1, m.clone()); }
        both(&mut ops, rtcp, 1);
        for m in &chunk[half..] { forged(&mut ops, rtcp, 1, m.clone()); }
        both(&mut ops, rtcp, 2);
        ops.push(Op::Snap(A)); ops.push(Op::Snap(B));
        emit(run, "forge", &Case { ops, kind: "exhaustive-bitflip-truncation" });
    }
    run.count_n(&format!("exhaustive_mutations:{}:{prof}:len{len}", if rtcp { "rtcp" } else { "rtp" }), muts.len() as u64);
}

/// genuine histories (rollovers, several SSRCs, RTP and RTCP) interleaved with random forgeries,
/// including forged sequence numbers far ahead (aimed at the rollover estimate) and forged SSRCs
fn interleaved(rng: &mut Rng, i: usize, prof: &str) -> Case {
    let mut ops = new_three(rng, i, prof);
    let ssrcs = [0x51u32, 0x52, 0xfeed_0001];
    let nss = rng.range(1, 3) as usize;
    let mut idx: Vec<u64> = vec![];
    for _ in 0..nss { let r = rng.below(65536); idx.push(*rng.pick(&[65530u64, 0, 32767, r])); }
    let mut slot = 0usize;
    let mut slots: Vec<(usize, bool)> = vec![];
    let n = rng.range(6, 22) as usize;
    for _ in 0..n {
        let k = rng.below(nss as u64) as usize;
        let rtcp = rng.chance(1, 4);
        if rtcp { let l = *rng.pick(&[8usize, 12, 32]); ops.push(Op::ProtectRtcp(S, Src::Lit(rtcp_packet(rng, ssrcs[k], l)))); }
        else {
            let pl = rng.below(24) as usize;
            ops.push(Op::ProtectRtp(S, rich_packet(rng, (idx[k] & 0xffff) as u16, ssrcs[k], pl)));
            idx[k] += *rng.pick(&[1u64, 1, 2, 7, 3000, 20000]);
        }
        slots.push((slot, rtcp)); slot += 1;
        // forged traffic before the genuine packet reaches the receiver
        for _ in 0..rng.below(4) {
            let (fk, frtcp) = *rng.pick(&slots);
            let flen = 60;
            let m = match rng.below(9) {
                0 | 1 => Mut::Flip(rng.below(flen * 8) as usize),
                2 => Mut::Trunc(rng.below(flen) as usize),
                3 if !frtcp => Mut::Seq(((idx[k] & 0xffff) as u16).wrapping_add(*rng.pick(&[1u16, 100, 32767, 32768, 32769, 40000, 65535]))),
                4 => if frtcp { Mut::RtcpSsrc(0x7000_0000 + rng.below(5) as u32) } else { Mut::Ssrc(0x7000_0000 + rng.below(5) as u32) },
                5 => { let l = rng.range(1, 5) as usize; Mut::Append(rng.bytes(l)) }
                6 => Mut::Xor(rng.below(flen) as usize, rng.range(1, 255) as u8),
                7 if frtcp => Mut::Xor(rng.below(4) as usize + 40, 0x80),
                _ => Mut::Flip(rng.below(96) as usize),
            };
            forged(&mut ops, frtcp, fk, m);
        }
        if rng.chance(1, 10) { let l = rng.range(0, 40) as usize; let mut b = rng.bytes(l); if l > 0 { b[0] = 0x80; } ops.push(Op::UnprotectRtp(A, Src::Lit(b))); }
        if rng.chance(9, 10) { both(&mut ops, rtcp, slot - 1); }
        if rng.chance(1, 8) { let (rk, rr) = *rng.pick(&slots); both(&mut ops, rr, rk); }       // genuine replay / reordering
        if rng.chance(1, 8) { ops.push(Op::Tick(rng.range(1, 40))); }
    }
    ops.push(Op::Snap(A)); ops.push(Op::Snap(B));
    Case { ops, kind: "interleaved" }
}

/// forged far-ahead / far-behind sequence numbers at every rollover-relevant distance, then the
/// genuine stream continues (a receiver that updated its rollover state before authenticating
/// would lose it)
fn roc_attack(run: &mut Run, rng: &mut Rng, prof: &str, i: usize) {
    for start in [0u64, 32760, 65530, 65536 + 65530] {
        let mut ops = new_three(rng, i, prof);
        let ssrc = 0x99u32;
        let mut idx = if start >= 65536 { 65530 } else { start };
        let mut slot = 0;
        // bring the stream to `start` in window-sized steps
        loop {
            ops.push(Op::ProtectRtp(S, PktSpec::simple((idx & 0xffff) as u16, ssrc, vec![idx as u8, 1, 2, 3])));
            both(&mut ops, false, slot); slot += 1;
            if idx >= start { break; }
            idx = (idx + 30000).min(start);
        }
        for d in [1u16, 2, 100, 16384, 32766, 32767, 32768, 32769, 32770, 40000, 65535 - 100, 65535] {
            forged(&mut ops, false, slot - 1, Mut::Seq(((idx & 0xffff) as u16).wrapping_add(d)));
            // and the same with a flipped tag bit on top (double forgery)
            idx += 1;
            ops.push(Op::ProtectRtp(S, PktSpec::simple((idx & 0xffff) as u16, ssrc, vec![idx as u8, 9])));
            both(&mut ops, false, slot); slot += 1;
        }
        ops.push(Op::Snap(A)); ops.push(Op::Snap(B));
        emit(run, "forge", &Case { ops, kind: "roc-attack" });
    }
}

/// The eviction scenario: a genuine stream with ROC 1 goes idle for `idle` seconds, `nforged`
/// forged packets with fresh SSRCs arrive (RTP or RTCP), then the genuine stream resumes.
fn eviction(run: &mut Run, rng: &mut Rng, prof: &str, i: usize, idle: u64, nforged: u32, via_rtcp: bool, prefill: u32) {
    let mut ops = new_three(rng, i, prof);
    let g = 0x0a0b_0c0du32;
    let mut slot = 0;
    // other genuine SSRCs already in the table (kept active)
    for k in 0..prefill {
        ops.push(Op::ProtectRtp(S, PktSpec::simple(5, 0x2000 + k, vec![1, 2, 3]))); both(&mut ops, false, slot); slot += 1;
    }
    for seq in [65000u16, 65500, 100, 200] {
        ops.push(Op::ProtectRtp(S, PktSpec::simple(seq, g, vec![seq as u8, 2, 3]))); both(&mut ops, false, slot); slot += 1;
    }
    ops.push(Op::ProtectRtcp(S, Src::Lit(rtcp_packet(rng, g, 12)))); both(&mut ops, true, slot); let rtcp_slot = slot; slot += 1;
    ops.push(Op::Snap(A)); ops.push(Op::Snap(B));
    ops.push(Op::Tick(idle));
    // keep the other SSRCs fresh on both receivers
    for k in 0..prefill {
        ops.push(Op::ProtectRtp(S, PktSpec::simple(6, 0x2000 + k, vec![4, 5, 6]))); both(&mut ops, false, slot); slot += 1;
    }
    for n in 0..nforged {
        if via_rtcp { forged(&mut ops, true, rtcp_slot, Mut::RtcpSsrc(0x6000_0000 + n)); }
        else { forged(&mut ops, false, rtcp_slot - 1, Mut::Ssrc(0x6000_0000 + n)); }
    }
    ops.push(Op::Snap(A)); ops.push(Op::Snap(B));
    for seq in [300u16, 301] {
        ops.push(Op::ProtectRtp(S, PktSpec::simple(seq, g, vec![seq as u8, 7]))); both(&mut ops, false, slot); slot += 1;
    }
    ops.push(Op::ProtectRtcp(S, Src::Lit(rtcp_packet(rng, g, 12)))); both(&mut ops, true, slot);
    ops.push(Op::Snap(A)); ops.push(Op::Snap(B));
    emit(run, "evict", &Case { ops, kind: "eviction-by-forged-ssrcs" });
}

/// A forged packet that carries a KNOWN (live, visible in clear) SSRC while OTHER contexts are stale: the
/// table is above the high-water mark, G (ROC 1) and everything else idled 61 s, then forged copies of a
/// known stream's RTP / RTCP packet reach A, then G resumes first on both receivers. If a packet could run
/// the idle eviction before it is authenticated, A would have lost G.
fn known_ssrc_forgery_when_stale(run: &mut Run, rng: &mut Rng, prof: &str, i: usize, via_rtcp: bool) {
    let mut ops = new_three(rng, i, prof);
    let g = 0x0a0b_0c0du32;
    let mut slot = 0;
    for k in 0..33u32 { ops.push(Op::ProtectRtp(S, PktSpec::simple(5, 0x2000 + k, vec![1, 2, 3]))); both(&mut ops, false, slot); slot += 1; }
    ops.push(Op::ProtectRtcp(S, Src::Lit(rtcp_packet(rng, 0x2000, 12)))); both(&mut ops, true, slot); let known_rtcp = slot; slot += 1;
    for seq in [65000u16, 65500, 100, 200] { ops.push(Op::ProtectRtp(S, PktSpec::simple(seq, g, vec![seq as u8, 2, 3]))); both(&mut ops, false, slot); slot += 1; }
    ops.push(Op::Snap(A)); ops.push(Op::Snap(B));
    ops.push(Op::Tick(61));
    for n in 0..3usize {
        if via_rtcp { forged(&mut ops, true, known_rtcp, Mut::Flip(70 + n)); } else { forged(&mut ops, false, n, Mut::Flip(100 + n)); forged(&mut ops, false, n, Mut::Seq(900 + n as u16)); }
    }
    ops.push(Op::Snap(A)); ops.push(Op::Snap(B));
    for seq in [300u16, 301] { ops.push(Op::ProtectRtp(S, PktSpec::simple(seq, g, vec![seq as u8, 7]))); both(&mut ops, false, slot); slot += 1; }
    ops.push(Op::Snap(A)); ops.push(Op::Snap(B));
    emit(run, "evict", &Case { ops, kind: "forged-known-ssrc-while-others-stale" });
}

/// Forged packets addressed to a KNOWN SSRC must not keep its context alive: the table is above the
/// high-water mark, the genuine stream G (ROC 1) is idle for 61 s in total, but A sees forged G
/// packets half-way. When another stream's packet triggers the eviction, A and B must agree on G.
fn refresh_attack(run: &mut Run, rng: &mut Rng, prof: &str, i: usize, via_rtcp: bool) {
    let mut ops = new_three(rng, i, prof);
    let g = 0x0a0b_0c0du32;
    let mut slot = 0;
    for k in 0..33u32 { ops.push(Op::ProtectRtp(S, PktSpec::simple(5, 0x2000 + k, vec![1, 2, 3]))); both(&mut ops, false, slot); slot += 1; }
    for seq in [65000u16, 65500, 100, 200] { ops.push(Op::ProtectRtp(S, PktSpec::simple(seq, g, vec![seq as u8, 2, 3]))); both(&mut ops, false, slot); slot += 1; }
    let g_rtp = slot - 1;
    ops.push(Op::ProtectRtcp(S, Src::Lit(rtcp_packet(rng, g, 12)))); both(&mut ops, true, slot); let g_rtcp = slot; slot += 1;
    ops.push(Op::Tick(30));
    for n in 0..4usize {
        if via_rtcp { forged(&mut ops, true, g_rtcp, Mut::Flip(70 + n)); } else { forged(&mut ops, false, g_rtp, Mut::Flip(100 + n)); }
    }
    ops.push(Op::Tick(31));
    // the other streams carry on and trigger the idle eviction on both receivers
    for k in 0..33u32 { ops.push(Op::ProtectRtp(S, PktSpec::simple(6, 0x2000 + k, vec![4, 5, 6]))); both(&mut ops, false, slot); slot += 1; }
    ops.push(Op::Snap(A)); ops.push(Op::Snap(B));
    for seq in [300u16, 301] { ops.push(Op::ProtectRtp(S, PktSpec::simple(seq, g, vec![seq as u8, 7]))); both(&mut ops, false, slot); slot += 1; }
    ops.push(Op::Snap(A)); ops.push(Op::Snap(B));
    emit(run, "evict", &Case { ops, kind: "keep-alive-by-forged-packets" });
}

/// (a) a protected RTCP packet handed to `unprotect_rtp` and a protected RTP packet handed to
/// `unprotect_rtcp` are forgeries; (b) AUTHENTIC packets (valid tag, made by an independent sender
/// holding the keys) whose clear P bit disagrees with the decrypted padding are rejected after
/// authentication — that rejection, too, must leave every field of the receiver alone.
fn cross_and_padding(run: &mut Run, rng: &mut Rng, prof: &str, i: usize) {
    let mut ops = new_three(rng, i, prof);
    let ssrc = 0x0d0d_0001u32;
    let mut slot = 0;
    for seq in [65534u16, 65535, 0] { ops.push(Op::ProtectRtp(S, PktSpec::simple(seq, ssrc, vec![seq as u8, 1, 2, 3]))); both(&mut ops, false, slot); slot += 1; }
    ops.push(Op::ProtectRtcp(S, Src::Lit(rtcp_packet(rng, ssrc, 28)))); both(&mut ops, true, slot); let rtcp_slot = slot; slot += 1;
    // (a) wrong protocol, A only
    ops.push(Op::UnprotectRtp(A, Src::Slot(rtcp_slot)));
    ops.push(Op::UnprotectRtcp(A, Src::Slot(0)));
    // (b) authentic, inconsistent padding: P bit set and last byte 0 / larger than the body / empty body —
    // after 30 s, so that a refreshed time stamp shows
    ops.push(Op::Tick(30));
    for (seq, body) in [(1u16, vec![9u8, 9, 9, 0]), (2, vec![9, 9, 200]), (3, vec![]), (40000, vec![1, 2, 5])] {
        let mut plain = vec![0xa0, 96];
        plain.extend(seq.to_be_bytes()); plain.extend(7u32.to_be_bytes()); plain.extend(ssrc.to_be_bytes());
        plain.extend(&body);
        ops.push(Op::ExtRaw(S, 1, plain)); both(&mut ops, false, slot); slot += 1;
    }
    // the genuine stream goes on
    for seq in [4u16, 5] { ops.push(Op::ProtectRtp(S, PktSpec::simple(seq, ssrc, vec![seq as u8]))); both(&mut ops, false, slot); slot += 1; }
    ops.push(Op::Snap(A)); ops.push(Op::Snap(B));
    emit(run, "forge", &Case { ops, kind: "cross-protocol-and-authentic-bad-padding" });
}

/// At the `MAX_RX_CONTEXTS` cap: forged packets with new SSRCs and AUTHENTIC packets of new SSRCs
/// (refused: table full) must leave both receivers exactly as they were; known streams go on.
fn at_the_cap(run: &mut Run, rng: &mut Rng, prof: &str, i: usize) {
    let mut ops = new_three(rng, i, prof);
    // session 3: a second sender with the sender's keys — session 0's own transmit table is full after the
    // 1024 fill streams (`MAX_TX_CONTEXTS`), the NEW streams aimed at the receivers' cap come from here
    const S2: usize = 3;
    let second = ops[0].clone();
    ops.push(second);
    ops.push(Op::Fill(S, A, 0x5000, 1024));
    ops.push(Op::Fill(S, B, 0x5000, 1024));
    let mut slot = 0;
    // a known stream, a new stream (authentic, refused), forged variants of both
    ops.push(Op::ProtectRtp(S, PktSpec::simple(2, 0x5000, vec![7, 7]))); both(&mut ops, false, slot); let known = slot; slot += 1;
    ops.push(Op::ProtectRtp(S2, PktSpec::simple(1, 0x9999, vec![8, 8]))); both(&mut ops, false, slot); let fresh = slot; slot += 1;
    for n in 0..6u32 { forged(&mut ops, false, fresh, Mut::Ssrc(0x7000_0000 + n)); forged(&mut ops, false, known, Mut::Flip(100 + n as usize)); }
    ops.push(Op::ProtectRtcp(S2, Src::Lit(rtcp_packet(rng, 0x9998, 12)))); both(&mut ops, true, slot); let rtcp_new = slot; slot += 1;
    for n in 0..4u32 { forged(&mut ops, true, rtcp_new, Mut::RtcpSsrc(0x7100_0000 + n)); forged(&mut ops, true, rtcp_new, Mut::Flip(66 + n as usize)); }
    ops.push(Op::ProtectRtp(S, PktSpec::simple(3, 0x5000, vec![9]))); both(&mut ops, false, slot);
    emit(run, "forge", &Case { ops, kind: "at-the-context-cap" });
}

/// Full table × idle contexts × packets that get REJECTED: the receivers hold G (ROC 1) and 1023 other
/// streams (1024 contexts), then everything idles for `idle` seconds (`idle_part` of the 1023 were created
/// `idle` s ago, the rest 30 s later). Forged packets with fresh SSRCs (RTP and RTCP) and forged packets of a
/// known SSRC then reach A only. Nothing may be evicted, inserted or re-stamped by them; G resumes on A and B.
fn cap_idle_forged(run: &mut Run, rng: &mut Rng, prof: &str, i: usize, idle_part: u32) {
    let mut ops = new_three(rng, i, prof);
    let g = 0x0a0b_0c0du32;
    let mut slot = 0;
    for seq in [65000u16, 65500, 100, 200] { ops.push(Op::ProtectRtp(S, PktSpec::simple(seq, g, vec![seq as u8, 2, 3]))); both(&mut ops, false, slot); slot += 1; }
    let g_last = slot - 1;
    ops.push(Op::ProtectRtcp(S, Src::Lit(rtcp_packet(rng, g, 12)))); both(&mut ops, true, slot); let g_rtcp = slot; slot += 1;
    ops.push(Op::Fill(S, A, 0x5000, idle_part)); ops.push(Op::Fill(S, B, 0x5000, idle_part));
    if idle_part < 1023 {
        ops.push(Op::Tick(30));
        ops.push(Op::Fill(S, A, 0x5000 + idle_part, 1023 - idle_part)); ops.push(Op::Fill(S, B, 0x5000 + idle_part, 1023 - idle_part));
        ops.push(Op::Tick(31));
    } else { ops.push(Op::Tick(61)); }
    for n in 0..3u32 {
        forged(&mut ops, false, g_last, Mut::Ssrc(0x6000_0000 + n));
        forged(&mut ops, true, g_rtcp, Mut::RtcpSsrc(0x6100_0000 + n));
        forged(&mut ops, false, g_last, Mut::Flip(100 + n as usize));
    }
    for seq in [300u16, 301] { ops.push(Op::ProtectRtp(S, PktSpec::simple(seq, g, vec![seq as u8, 7]))); both(&mut ops, false, slot); slot += 1; }
    // a new genuine stream afterwards: accepted on both (idle contexts make room)
    ops.push(Op::ProtectRtp(S, PktSpec::simple(1, 0x9999, vec![8, 8]))); both(&mut ops, false, slot);
    emit(run, "forge", &Case { ops, kind: "full-table-idle-forged" });
}

/// AUTHENTIC but rejected packets (valid tag, inconsistent padding) after time has passed, table above the
/// high-water mark: they must not refresh the context they address. G (ROC 1) and 33 other streams; 30 s
/// later the sender uses G (packet lost) and an authentic malformed G packet reaches A only; 31 s later
/// another stream runs the eviction on A and B; then G resumes — A and B must agree.
fn authentic_reject_does_not_stamp(run: &mut Run, rng: &mut Rng, prof: &str, i: usize) {
    let mut ops = new_three(rng, i, prof);
    let g = 0x0a0b_0c0du32;
    let mut slot = 0;
    for k in 0..33u32 { ops.push(Op::ProtectRtp(S, PktSpec::simple(5, 0x2000 + k, vec![1, 2, 3]))); both(&mut ops, false, slot); slot += 1; }
    for seq in [65000u16, 65500, 100, 200] { ops.push(Op::ProtectRtp(S, PktSpec::simple(seq, g, vec![seq as u8, 2, 3]))); both(&mut ops, false, slot); slot += 1; }
    ops.push(Op::Tick(30));
    ops.push(Op::ProtectRtp(S, PktSpec::simple(250, g, vec![1]))); slot += 1;                 // lost; keeps the sender's context alive
    let mut plain = vec![0xa0, 96]; plain.extend(251u16.to_be_bytes()); plain.extend(7u32.to_be_bytes()); plain.extend(g.to_be_bytes()); plain.extend([9u8, 9, 9, 0]);
    ops.push(Op::ExtRaw(S, 1, plain)); ops.push(Op::UnprotectRtp(A, Src::Slot(slot))); slot += 1;
    ops.push(Op::Tick(31));
    ops.push(Op::ProtectRtp(S, PktSpec::simple(6, 0x2000, vec![4]))); both(&mut ops, false, slot); slot += 1;
    ops.push(Op::Snap(A)); ops.push(Op::Snap(B));
    for seq in [300u16, 301] { ops.push(Op::ProtectRtp(S, PktSpec::simple(seq, g, vec![seq as u8, 7]))); both(&mut ops, false, slot); slot += 1; }
    ops.push(Op::Snap(A)); ops.push(Op::Snap(B));
    let _ = rng;
    emit(run, "evict", &Case { ops, kind: "authentic-reject-after-time" });
}

/// the eviction rule itself on genuine SSRC churn (model correspondence of the table logic)
fn churn(rng: &mut Rng, i: usize, prof: &str) -> Case {
    let mut ops = new_three(rng, i, prof);
    let mut slot = 0;
    let n = rng.range(30, 45) as u32;
    for k in 0..n {
        let ssrc = 0x3000 + k;
        if rng.chance(1, 5) { ops.push(Op::ProtectRtcp(S, Src::Lit(rtcp_packet(rng, ssrc, 12)))); both(&mut ops, true, slot); }
        else { ops.push(Op::ProtectRtp(S, PktSpec::simple(k as u16, ssrc, vec![k as u8]))); both(&mut ops, false, slot); }
        slot += 1;
        if rng.chance(1, 3) { ops.push(Op::Tick(*rng.pick(&[1u64, 10, 29, 30, 31, 59, 60, 61]))); }
        if rng.chance(1, 6) && slot > 1 { let k2 = rng.below(slot as u64) as usize; both(&mut ops, false, k2); }
    }
    ops.push(Op::Snap(S)); ops.push(Op::Snap(A)); ops.push(Op::Snap(B));
    Case { ops, kind: "genuine-ssrc-churn" }
}

pub fn run(args: &Args) {
    if let Some(case) = &args.replay {
        let (stream, rest) = case.split_once(' ').unwrap_or(("forge", case));
        let (stream, rest) = if stream == "forge" || stream == "evict" { (stream, rest) } else { ("forge", case.as_str()) };
        let ops = parse_script(rest);
        let mut run = Run::new("c05", &crate::scratch("c05-replay"));
        let (res, _) = run_script(&ops, false);
        println!("impl: {}", results_text(&res));
        emit(&mut run, stream, &Case { ops, kind: "replay" });
        for f in &run.fails { println!("ORACLE-FAIL {} {}", f.signature, f.detail); }
        return;
    }
    let mut run = Run::new("c05", &args.out);
    let mut rng = Rng::new(args.seed);
    let t = args.tier_thorough;
    for (pi, prof) in PROFILES.iter().enumerate() {
        // every bit, every truncation
        let sizes: &[usize] = if t { &[0, 1, 16, 33, 100, 300] } else { &[0, 9] };
        for &plen in sizes {
            exhaustive_mutations(&mut run, &mut rng, prof, pi, plen, false);
            exhaustive_mutations(&mut run, &mut rng, prof, pi, plen, true);
        }
        for i in 0..(if t { 3 } else { 1 }) { roc_attack(&mut run, &mut rng, prof, pi + i); }
        // eviction: the attack (61 s idle, > watermark forged SSRCs), and its neighbours
        for (idle, nf, rtcp, pre) in [(61u64, 40u32, false, 0u32), (61, 40, true, 0), (61, 33, false, 0), (60, 34, false, 0), (59, 40, false, 0),
                                      (61, 3, false, 31), (61, 3, true, 32), (3600, 64, false, 0), (61, 32, false, 0)] {
            eviction(&mut run, &mut rng, prof, pi, idle, nf, rtcp, pre);
        }
        refresh_attack(&mut run, &mut rng, prof, pi, false);
        refresh_attack(&mut run, &mut rng, prof, pi, true);
        known_ssrc_forgery_when_stale(&mut run, &mut rng, prof, pi, false);
        known_ssrc_forgery_when_stale(&mut run, &mut rng, prof, pi, true);
        cross_and_padding(&mut run, &mut rng, prof, pi);
        at_the_cap(&mut run, &mut rng, prof, pi);
        cap_idle_forged(&mut run, &mut rng, prof, pi, 1023);
        if pi % 2 == 0 || t { cap_idle_forged(&mut run, &mut rng, prof, pi, 500); }
        authentic_reject_does_not_stamp(&mut run, &mut rng, prof, pi);
    }
    let ni = if t { 30000 } else { 600 };
    for i in 0..ni { let c = interleaved(&mut rng, i, PROFILES[i % 4]); emit(&mut run, "forge", &c); }
    let nc = if t { 2000 } else { 40 };
    for i in 0..nc { let c = churn(&mut rng, i, PROFILES[i % 4]); emit(&mut run, "evict", &c); }
    run.notes.insert("sessions".into(), serde_json::json!("0 sender, 1 receiver A (genuine + forged), 2 receiver B (genuine only); sender.tx = receivers.rx, the other direction keyed differently"));
    run.notes.insert("clock".into(), serde_json::json!("time is driven through SrtpSession::verif_advance_clock (back-dates last_used); the 61 s eviction scenario therefore runs in both tiers"));
    run.finish();
}
