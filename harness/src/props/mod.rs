pub mod c18;
