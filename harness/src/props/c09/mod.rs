//! C09 — signaling state follows the JSEP state machine; rejected calls change nothing.
//! Drives the REAL `PeerConnection::{create_offer, create_answer, set_local_description,
//! set_remote_description, close}` with call sequences, writes one op line per sequence for the Lean
//! model (`RtcModel.Jsep`), and evaluates the property's own oracles on the implementation:
//!   * spec oracle   — an independent JSEP table (written from RFC 8829 §3.2 / the API docs);
//!   * atomicity     — snapshot before an erring call == snapshot after it.
pub mod sdpgen;

use crate::{Args, Rng, Run, hex};
use rustrtc::verif_hooks::peer::PeerSnapshot;
use rustrtc::{
    MediaKind, PeerConnection, RtcConfiguration, RtcError, SdpType, SessionDescription, SignalingState,
    TransceiverDirection, TransportMode,
};
use sdpgen::*;
use std::collections::BTreeMap;

// ------------------------------------------------------------------------------------------------
// symbolic scripts (replayable): `<mode>/<trx,trx,…>/<call;call;…>`

#[derive(Clone, Debug, PartialEq)]
pub enum Src { Last, Pool(usize), AnswerTo(u8), Modified(u8) }

#[derive(Clone, Debug, PartialEq)]
pub enum Call {
    CreateOffer,
    CreateAnswer,
    SetLocal(Src, SdpType),
    SetRemote(Src, SdpType),
    Close,
    AddTrx(MediaKind, TransceiverDirection),
    DtlsStart,
    /// environment: the transport tasks report this peer state (F = Failed, D = Disconnected, C = Connected, G = Connecting)
    PeerState(char),
}

#[derive(Clone, Debug)]
/// `trxs`: pre-added transceivers `(kind, direction, with_track)`; with_track = added through `add_track` (a sender exists)
pub struct Script { pub mode: TransportMode, pub bad_bind: bool, pub trxs: Vec<(MediaKind, TransceiverDirection, bool)>, pub calls: Vec<Call> }

fn mode_ch(m: &TransportMode) -> char { match m { TransportMode::WebRtc => 'w', TransportMode::Srtp => 's', TransportMode::Rtp => 'r' } }
fn kind_ch(k: MediaKind) -> char { match k { MediaKind::Audio => 'a', MediaKind::Video => 'v', MediaKind::Application => 'd', MediaKind::Image => 'i' } }
fn dir_ch(d: TransceiverDirection) -> char {
    match d { TransceiverDirection::SendRecv => '0', TransceiverDirection::SendOnly => '1', TransceiverDirection::RecvOnly => '2', TransceiverDirection::Inactive => '3' }
}
fn ty_ch(t: SdpType) -> char { match t { SdpType::Offer => 'o', SdpType::Answer => 'a', SdpType::Pranswer => 'p', SdpType::Rollback => 'r' } }
fn parse_kind(c: char) -> MediaKind { match c { 'a' => MediaKind::Audio, 'v' => MediaKind::Video, 'd' => MediaKind::Application, _ => MediaKind::Image } }
fn parse_dir(c: char) -> TransceiverDirection {
    match c { '0' => TransceiverDirection::SendRecv, '1' => TransceiverDirection::SendOnly, '2' => TransceiverDirection::RecvOnly, _ => TransceiverDirection::Inactive }
}
fn parse_ty(c: char) -> SdpType { match c { 'o' => SdpType::Offer, 'a' => SdpType::Answer, 'p' => SdpType::Pranswer, _ => SdpType::Rollback } }

fn src_text(s: &Src) -> String {
    match s { Src::Last => "L".into(), Src::Pool(n) => format!("P{n}"), Src::AnswerTo(v) => format!("A{v}"), Src::Modified(v) => format!("M{v}") }
}
pub fn call_text(c: &Call) -> String {
    match c {
        Call::CreateOffer => "co".into(), Call::CreateAnswer => "ca".into(), Call::Close => "cl".into(), Call::DtlsStart => "ds".into(), Call::PeerState(c) => format!("ps{c}"),
        Call::AddTrx(k, d) => format!("at{}{}", kind_ch(*k), dir_ch(*d)),
        Call::SetLocal(s, t) => format!("sl{}{}", src_text(s), ty_ch(*t)),
        Call::SetRemote(s, t) => format!("sr{}{}", src_text(s), ty_ch(*t)),
    }
}
pub fn script_text(s: &Script) -> String {
    format!("{}{}/{}/{}", mode_ch(&s.mode), if s.bad_bind { "!" } else { "" },
        s.trxs.iter().map(|(k, d, t)| format!("{}{}{}", kind_ch(*k), dir_ch(*d), if *t { "t" } else { "" })).collect::<Vec<_>>().join(","),
        s.calls.iter().map(call_text).collect::<Vec<_>>().join(";"))
}
pub fn parse_call(t: &str) -> Call {
    let cs: Vec<char> = t.chars().collect();
    match &t[..2] {
        "co" => Call::CreateOffer, "ca" => Call::CreateAnswer, "cl" => Call::Close, "ds" => Call::DtlsStart, "ps" => Call::PeerState(cs[2]),
        "at" => Call::AddTrx(parse_kind(cs[2]), parse_dir(cs[3])),
        "sl" | "sr" => {
            let ty = parse_ty(*cs.last().unwrap());
            let body: String = cs[2..cs.len() - 1].iter().collect();
            let src = match cs[2] {
                'L' => Src::Last,
                'P' => Src::Pool(body[1..].parse().unwrap()),
                'A' => Src::AnswerTo(body[1..].parse().unwrap()),
                _ => Src::Modified(body[1..].parse().unwrap()),
            };
            if &t[..2] == "sl" { Call::SetLocal(src, ty) } else { Call::SetRemote(src, ty) }
        }
        x => panic!("bad call {x}"),
    }
}
pub fn parse_script(s: &str) -> Script {
    let s = s.split_whitespace().next().unwrap_or("");
    let p: Vec<&str> = s.split('/').collect();
    let mode = match &p[0][..1] { "w" => TransportMode::WebRtc, "s" => TransportMode::Srtp, _ => TransportMode::Rtp };
    let bad_bind = p[0].ends_with('!');
    // `#` (replay only, e.g. `vh c09 --replay 'r#/a0,v0/co'`): an exhausted port range — ONE even RTP port is free — in LegacySip mode
    // (no BUNDLE: every further m-line binds a socket of its own). Not part of the tiers: the one free port would have to be free on
    // a shared machine in every run, and the model has no second bind site (known finding atom:create_offer:S:*:section-socket-bind)
    PORTS_EXHAUSTED.store(p[0].ends_with('#'), std::sync::atomic::Ordering::SeqCst);
    let trxs = p[1].split(',').filter(|x| !x.is_empty()).map(|x| { let c: Vec<char> = x.chars().collect(); (parse_kind(c[0]), parse_dir(c[1]), c.len() > 2 && c[2] == 't') }).collect();
    let calls = p[2].split(';').filter(|x| !x.is_empty()).map(parse_call).collect();
    Script { mode, bad_bind, trxs, calls }
}

// ------------------------------------------------------------------------------------------------
// description pool (remote descriptions as a peer would send them)

pub fn pool(_mode: &TransportMode) -> Vec<DescSpec> {
    let ext_a = vec![("1".to_string(), URI_AUDIO_LEVEL.to_string()), ("4".to_string(), URI_SDES_MID.to_string())];
    let ext_v = vec![("2".to_string(), URI_ABS_SEND_TIME.to_string()), ("4".to_string(), URI_SDES_MID.to_string()), ("10".to_string(), URI_RID.to_string())];
    let mut a0 = audio(Some("0"), vec![opus(), pcmu()]); a0.extmaps = ext_a.clone(); a0.ssrc = Some(1111);
    let mut v1 = video(Some("1"), vec![vp8(96), h264(102)]); v1.extmaps = ext_v.clone(); v1.rtx = vec![(97, 96)]; v1.dir = "recvonly";
    let mut a_changed = audio(Some("0"), vec![pcma(), telephone_event()]); a_changed.dir = "sendonly"; a_changed.extmaps = vec![("3".to_string(), URI_AUDIO_LEVEL.to_string())];
    let a_nomid = audio(None, vec![pcmu(), g722_static()]);
    let mut named = vec![audio(Some("audio"), vec![opus()]), video(Some("video"), vec![vp8(100)]), application(Some("data"))];
    named[1].simulcast = true; named[1].extmaps = ext_v.clone();
    let mut two = vec![audio(Some("7"), vec![opus()]), audio(Some("12"), vec![pcmu()])];
    two[1].dir = "inactive";
    let with_fp = |mut d: DescSpec, fp: FpSpec| { d.fp = fp; d };
    vec![
        /* 0 */ DescSpec::new(vec![a0.clone()]),
        /* 1 */ DescSpec::new(vec![a0.clone(), v1.clone()]),
        /* 2 */ DescSpec::new(vec![a_changed.clone()]),
        /* 3 */ { let mut d = DescSpec::new(vec![a_nomid.clone()]); d.bundle = false; d },
        /* 4 */ DescSpec::new(named),
        /* 5 */ with_fp(DescSpec::new(vec![a0.clone()]), FpSpec::Missing),
        /* 6 */ with_fp(DescSpec::new(vec![a0.clone()]), FpSpec::Sha1),
        /* 7 */ with_fp(DescSpec::new(vec![a0.clone()]), FpSpec::Conflict),
        /* 8 */ with_fp(DescSpec::new(vec![a0.clone()]), FpSpec::B),
        /* 9 */ { let mut d = DescSpec::new(two); d.bundle = false; d },
        /* 10 */ with_fp(DescSpec::new(vec![a0.clone()]), FpSpec::BadHex),
        /* 11 */ { let mut d = DescSpec::new(vec![a0.clone(), v1.clone()]); d.session_version = 3; d.sections[1].dir = "inactive"; d.sections[0].codecs = vec![pcmu()]; d },
        /* 12 */ DescSpec::new(vec![application(Some("0"))]),
        /* 13 */ DescSpec::new(vec![]),
        /* 14 */ { let mut a = a0.clone(); a.mid = Some("65535".into()); let mut b = audio(Some("3"), vec![pcmu()]); b.dir = "recvonly";
                   let mut d = DescSpec::new(vec![a, b]); d.bundle = false; d },
        /* 15 */ { let mut a = a0.clone(); a.setup = None; let mut d = DescSpec::new(vec![a]); d.session_setup = Some("passive"); d.session_version = 4; d }, // a=setup at session level only
        /* 16 */ { let mut a = a0.clone(); a.setup = Some("passive"); let mut d = DescSpec::new(vec![a]); d.session_version = 5; d },  // the offerer takes the other DTLS role
        /* 17 */ { let mut v = v1.clone(); v.extmaps.push(("15".to_string(), URI_TWCC.to_string())); v.dir = "sendrecv";
                   let mut d = DescSpec::new(vec![a_changed.clone(), v]); d.session_version = 6; d }, // re-offer: first section changed, second with extension id 15
        /* 18 */ { let mut a = a_changed.clone(); a.codecs.push(CodecSpec::new(200, "X", 8000, 0)); a.codecs.push(CodecSpec::new(128, "Y", 16000, 0)); a.ssrc = Some(2222);
                   a.extmaps = vec![("0".to_string(), URI_AUDIO_LEVEL.to_string()), ("255".to_string(), URI_SDES_MID.to_string()), ("15".to_string(), URI_ABS_SEND_TIME.to_string())];
                   let mut v = v1.clone(); v.codecs.push(CodecSpec::new(255, "Z", 90000, 0)); v.ssrc = Some(3333);
                   let mut d = DescSpec::new(vec![a, v]); d.session_version = 7; d }, // payload types 128 / 200 / 255, extension ids 0 / 15 / 255, new SSRCs
    ]
}
pub const NPOOL: usize = 19;

fn parse_desc(ty: SdpType, text: &str) -> SessionDescription {
    SessionDescription::parse(ty, text).expect("harness-generated SDP must parse")
}

/// Remote answer to `offer` (one answer section per offer section; same kinds and mids).
fn answer_to(mode: &TransportMode, offer: &SessionDescription, variant: u8) -> SessionDescription {
    let mut secs = vec![];
    for (i, m) in offer.media_sections.iter().enumerate() {
        let mid = if m.mid.is_empty() { None } else { Some(m.mid.as_str()) };
        let mut s = match m.kind {
            MediaKind::Audio => audio(mid, if variant == 1 { vec![pcma()] } else { vec![opus()] }),
            MediaKind::Video => video(mid, if variant == 1 { vec![h264(102)] } else { vec![vp8(96)] }),
            k => SecSpec::new(k, mid),
        };
        s.setup = Some("active");
        s.dir = match (m.direction, variant) {
            (_, 2) => "inactive",
            (rustrtc::Direction::SendRecv, _) => "sendrecv",
            (rustrtc::Direction::SendOnly, _) => "recvonly",
            (rustrtc::Direction::RecvOnly, _) => "sendonly",
            (rustrtc::Direction::Inactive, _) => "inactive",
        };
        if variant != 1 && matches!(m.kind, MediaKind::Audio | MediaKind::Video) {
            s.extmaps = vec![("4".to_string(), URI_SDES_MID.to_string())];
        }
        s.ssrc = Some(2000 + i as u32);
        secs.push(s);
    }
    let mut d = DescSpec::new(secs);
    d.bundle = offer.session.attributes.iter().any(|a| a.key == "group");
    if variant == 3 { d.fp = FpSpec::B; }
    parse_desc(SdpType::Answer, &render(mode, &d))
}

/// A locally edited copy of a description ("changed" local descriptions).
fn modified(base: &SessionDescription, variant: u8) -> SessionDescription {
    let mut d = base.clone();
    if let Some(m) = d.media_sections.iter_mut().find(|m| matches!(m.kind, MediaKind::Audio | MediaKind::Video)) {
        match variant {
            0 => {
                m.formats = vec!["0".into()];
                m.attributes.retain(|a| !matches!(a.key.as_str(), "rtpmap" | "fmtp" | "rtcp-fb" | "extmap"));
                m.attributes.push(rustrtc::Attribute::new("rtpmap", Some("0 PCMU/8000".into())));
                m.attributes.push(rustrtc::Attribute::new("extmap", Some(format!("5 {URI_TOFFSET}"))));
            }
            1 => { m.mid = "9".into(); }
            _ => { m.direction = rustrtc::Direction::SendOnly; }
        }
    }
    d
}

// ------------------------------------------------------------------------------------------------
// canonical observation of the implementation

fn esc(s: &str) -> String {
    let mut o = String::new();
    for b in s.bytes() {
        if b.is_ascii_alphanumeric() || matches!(b, b'_' | b'.' | b'/' | b'-') { o.push(b as char); }
        else { o.push_str(&format!("%{:02X}", b)); }
    }
    o
}
fn sig_text(s: SignalingState) -> &'static str {
    match s { SignalingState::Stable => "S", SignalingState::HaveLocalOffer => "HL", SignalingState::HaveRemoteOffer => "HR", SignalingState::Closed => "C" }
}
fn err_text(e: &RtcError) -> &'static str {
    match e {
        RtcError::InvalidState(_) => "eIS", RtcError::NotImplemented(_) => "eNI", RtcError::InvalidConfiguration(_) => "eIC",
        RtcError::Internal(_) => "eIN", RtcError::Protocol(_) => "ePR", RtcError::Transport(_) => "eTR",
    }
}
fn kind_name(k: MediaKind) -> &'static str { match k { MediaKind::Audio => "a", MediaKind::Video => "v", MediaKind::Application => "d", MediaKind::Image => "i" } }
fn tdir_name(d: TransceiverDirection) -> &'static str {
    match d { TransceiverDirection::SendRecv => "sr", TransceiverDirection::SendOnly => "so", TransceiverDirection::RecvOnly => "ro", TransceiverDirection::Inactive => "in" }
}
fn sdir_name(d: rustrtc::Direction) -> &'static str {
    match d { rustrtc::Direction::SendRecv => "sr", rustrtc::Direction::SendOnly => "so", rustrtc::Direction::RecvOnly => "ro", rustrtc::Direction::Inactive => "in" }
}

/// Description text without the lines the gathering task appends asynchronously.
pub fn canon_desc(d: &SessionDescription) -> String {
    let mut c = d.clone();
    for m in &mut c.media_sections { m.attributes.retain(|a| a.key != "candidate" && a.key != "end-of-candidates"); }
    format!("{}\n{}", c.sdp_type.as_str(), c.to_sdp_string())
}

/// Per-case tables giving small numbers to description texts, media-equality classes and fingerprints.
#[derive(Default)]
struct Tables { desc: BTreeMap<String, usize>, eq: BTreeMap<String, usize>, fp: BTreeMap<String, usize>, sent: Vec<usize> }
impl Tables {
    fn id(m: &mut BTreeMap<String, usize>, k: String) -> usize { let n = m.len(); *m.entry(k).or_insert(n) }
    fn desc_id(&mut self, d: &SessionDescription) -> usize { Self::id(&mut self.desc, canon_desc(d)) }
    fn desc_lookup(&self, d: &SessionDescription) -> String { self.desc.get(&canon_desc(d)).map(|n| n.to_string()).unwrap_or("?".into()) }
    fn eq_id(&mut self, d: &SessionDescription) -> usize {
        Self::id(&mut self.eq, format!("{:?}|{:?}|{:?}", d.session.connection, d.session.attributes, d.media_sections))
    }
    fn fp_id(&mut self, v: &str) -> usize { Self::id(&mut self.fp, v.to_string()) }
}

fn hx(s: &str) -> String { hex(s.as_bytes()) }

/// The abstract description token for the model: `ty|id|eq|fp|groups|sec;sec…`,
/// sec = `kind,mid,dir,formats,rtpmaps,extmaps,addr4,addrAny` (strings in hex, lists joined by `+`).
fn desc_token(t: &mut Tables, d: &SessionDescription) -> String {
    let fp = match d.dtls_fingerprint() {
        Ok(Some(f)) if f.algorithm == "sha-256" => format!("s{}", t.fp_id(&f.value)),
        Ok(Some(_)) => "o".into(),
        Ok(None) => "m".into(),
        Err(_) => "i".into(),
    };
    let secs: Vec<String> = d.media_sections.iter().map(|m| {
        let vals = |key: &str| -> String {
            let v: Vec<String> = m.attributes.iter().filter(|a| a.key == key).filter_map(|a| a.value.as_ref()).map(|v| hx(v)).collect();
            if v.is_empty() { "_".into() } else { v.join("+") }
        };
        let fmts: Vec<String> = m.formats.iter().map(|f| hx(f)).collect();
        // the two address tests of the code (`set_remote_description` section loop / `remote_rtp_addr_from_section`)
        let conn = m.connection.as_ref().or(d.session.connection.as_ref());
        let parts: Vec<&str> = conn.map(|c| c.split_whitespace().collect()).unwrap_or_default();
        let ip_ok = parts.len() >= 3 && parts[0] == "IN" && parts[2].parse::<std::net::IpAddr>().is_ok();
        let a4 = ip_ok && parts[1] == "IP4";
        let aa = ip_ok && matches!(parts[1], "IP4" | "IP6");
        let su = m.attributes.iter().find(|a| a.key == "setup" && a.value.is_some()).and_then(|a| a.value.as_ref()).map(|v| hx(v)).unwrap_or("~".into());
        format!("{},{},{},{},{},{},{},{},{}", kind_name(m.kind), hx(&m.mid), sdir_name(m.direction),
            if fmts.is_empty() { "_".into() } else { fmts.join("+") }, vals("rtpmap"), vals("extmap"), a4 as u8, aa as u8, su)
    }).collect();
    let groups: Vec<String> = d.session.attributes.iter().filter(|a| a.key == "group")
        .map(|a| match &a.value { Some(v) => hx(v), None => "~".into() }).collect();
    let id = t.desc_id(d);
    if t.sent.contains(&id) { return format!("@{id}"); }
    t.sent.push(id);
    let ssu = d.session.attributes.iter().find(|a| a.key == "setup" && a.value.is_some()).and_then(|a| a.value.as_ref()).map(|v| hx(v)).unwrap_or("~".into());
    format!("{}|{}|{}|{}|{}|{}|{}", ty_ch(d.sdp_type), id, t.eq_id(d), fp, if groups.is_empty() { "_".into() } else { groups.join("+") }, ssu,
        if secs.is_empty() { "_".into() } else { secs.join(";") })
}

fn snap_text(t: &mut Tables, res: &str, s: &PeerSnapshot) -> String {
    let l = s.local_description.as_ref().map(|d| t.desc_lookup(d)).unwrap_or("-".into());
    let r = s.remote_description.as_ref().map(|d| t.desc_lookup(d)).unwrap_or("-".into());
    let fp = s.remote_dtls_fingerprint.as_ref().map(|v| t.fp_id(v).to_string()).unwrap_or("-".into());
    let trx: Vec<String> = s.transceivers.iter().map(|x| {
        let pm: Vec<String> = x.payload_map.iter().map(|(pt, c)| format!("{}~{}~{}~{}", pt, esc(&c.name), c.clock_rate, c.channels)).collect();
        let em: Vec<String> = x.extmap.iter().map(|(id, u)| format!("{}~{}", id, esc(u))).collect();
        format!("{}:{}:{}:{}:{}", kind_name(x.kind),
            match &x.mid { None => "-".to_string(), Some(m) => format!("={}", esc(m)) },
            tdir_name(x.direction), pm.join(","), em.join(","))
    }).collect();
    let role = match s.dtls_role { None => "-", Some(true) => "c", Some(false) => "s" };
    format!("{}|{}|{}|{}|{}|{}:{}:{}|{}", res, sig_text(s.signaling_state), l, r, s.next_mid, s.dtls_started as u8, fp, role, trx.join(";"))
}

// ------------------------------------------------------------------------------------------------
// oracles (written from the property text, independent of the Lean model)

/// JSEP machine restricted as the API documents (pranswer keeps the state, rollback refused).
/// `None` = the call is forbidden in that state.
fn spec_step(s: SignalingState, c: &Call) -> Option<SignalingState> {
    use SignalingState::*;
    match (s, c) {
        (_, Call::Close) => Some(Closed),
        (_, Call::AddTrx(..)) | (_, Call::DtlsStart) | (_, Call::PeerState(_)) => Some(s),
        (Closed, _) => None,
        (Stable, Call::CreateOffer) | (HaveLocalOffer, Call::CreateOffer) => Some(s),
        (HaveRemoteOffer, Call::CreateAnswer) => Some(s),
        (Stable, Call::SetLocal(_, SdpType::Offer)) | (HaveLocalOffer, Call::SetLocal(_, SdpType::Offer)) => Some(HaveLocalOffer),
        (HaveRemoteOffer, Call::SetLocal(_, SdpType::Answer)) => Some(Stable),
        (HaveRemoteOffer, Call::SetLocal(_, SdpType::Pranswer)) => Some(HaveRemoteOffer),
        (Stable, Call::SetRemote(_, SdpType::Offer)) | (HaveRemoteOffer, Call::SetRemote(_, SdpType::Offer)) => Some(HaveRemoteOffer),
        (HaveLocalOffer, Call::SetRemote(_, SdpType::Answer)) => Some(Stable),
        (HaveLocalOffer, Call::SetRemote(_, SdpType::Pranswer)) => Some(HaveLocalOffer),
        _ => None,
    }
}

fn call_class(c: &Call) -> String {
    match c {
        Call::CreateOffer => "create_offer".into(), Call::CreateAnswer => "create_answer".into(), Call::Close => "close".into(),
        Call::AddTrx(..) => "add_transceiver".into(), Call::DtlsStart => "dtls_started".into(), Call::PeerState(_) => "peer_state".into(),
        Call::SetLocal(_, t) => format!("set_local({})", t.as_str()),
        Call::SetRemote(_, t) => format!("set_remote({})", t.as_str()),
    }
}

/// Everything observed of a connection: the H5 snapshot + the negotiated parameters held by senders / receivers.
pub struct Observation { pub snap: PeerSnapshot, pub neg: Vec<rustrtc::verif_hooks::peer::NegotiatedSnapshot> }
fn observe(pc: &PeerConnection) -> Observation { Observation { snap: pc.verif_snapshot(), neg: pc.verif_negotiated() } }

/// The items the property names (signaling state, both descriptions, every transceiver's negotiated
/// parameters incl. those held by its sender / receiver) and the connection-level negotiation state a
/// rejected call must equally leave alone (mid counter, cached remote fingerprint, DTLS role).
/// Returns the names of the fields that differ.
fn diff_fields(a: &Observation, b: &Observation) -> Vec<&'static str> {
    let mut v = vec![];
    let mut add = |c: bool, n: &'static str| if c && !v.contains(&n) { v.push(n); };
    let (x, y) = (&a.snap, &b.snap);
    add(x.signaling_state != y.signaling_state, "signaling_state");
    add(x.local_description.as_ref().map(canon_desc) != y.local_description.as_ref().map(canon_desc), "local_description");
    add(x.remote_description != y.remote_description, "remote_description");
    add(x.transceivers.len() != y.transceivers.len(), "transceivers");
    for (p, q) in x.transceivers.iter().zip(y.transceivers.iter()) {
        add(p.id != q.id, "transceivers");
        add(p.mid != q.mid, "transceiver.mid");
        add(p.direction != q.direction, "transceiver.direction");
        add(p.payload_map != q.payload_map, "transceiver.payload_map");
        add(p.extmap != q.extmap, "transceiver.extmap");
    }
    for (p, q) in a.neg.iter().zip(b.neg.iter()) {
        add(p.sender_params != q.sender_params, "sender.params");
        add(p.receiver_ssrc != q.receiver_ssrc, "receiver.ssrc");
        add(p.receiver_rtx_ssrc != q.receiver_rtx_ssrc, "receiver.rtx_ssrc");
        add(p.receiver_rtx_apt != q.receiver_rtx_apt, "receiver.rtx_apt");
        add(p.receiver_simulcast_rids != q.receiver_simulcast_rids, "receiver.simulcast");
        add(p.sender_ssrc != q.sender_ssrc, "sender.ssrc");
        add(p.sender_rtx_ssrc != q.sender_rtx_ssrc || p.sender_rtx_payload_type != q.sender_rtx_payload_type, "sender.rtx");
        add(p.sender_stream_id != q.sender_stream_id || p.sender_track_id != q.sender_track_id, "sender.stream");
        add(p.pending_sdes_mid != q.pending_sdes_mid, "sender.pending_sdes_mid");
    }
    add(x.next_mid != y.next_mid, "next_mid");
    add(x.remote_dtls_fingerprint != y.remote_dtls_fingerprint, "remote_dtls_fingerprint");
    add(x.dtls_role != y.dtls_role, "dtls_role");
    v
}

/// Where an environment (socket / ICE layer) error was raised — part of the signature, so that a new
/// failure site in the same (call, state) cell is a different signature.
fn env_site(e: &RtcError) -> Option<&'static str> {
    let m = e.to_string();
    if m.contains("RTP socket bind failed") && m.contains("No available even RTP ports") { Some("section-socket-bind") }
    else if m.contains("RTP socket bind failed") { Some("offer-socket-bind") }
    else if m.contains("RTP direct error") { Some("rtp-media-transport-bind") }
    else if m.contains("ICE direct error: No local candidates") { Some("srtp-start-direct-no-candidate") }
    else if m.contains("os error") || m.contains("direct error") { Some("other-io") }
    else { None }
}

// ------------------------------------------------------------------------------------------------
// execution

pub struct Outcome { pub input: String, pub output: String, pub fails: Vec<(String, String)>, pub n_err: usize, pub n_ok: usize, pub states: Vec<SignalingState> }

static PORTS_EXHAUSTED: std::sync::atomic::AtomicBool = std::sync::atomic::AtomicBool::new(false);

fn config(mode: &TransportMode, bad_bind: bool) -> RtcConfiguration {
    let mut c = RtcConfiguration::default();
    if PORTS_EXHAUSTED.load(std::sync::atomic::Ordering::SeqCst) {
        c.sdp_compatibility = rustrtc::SdpCompatibilityMode::LegacySip;
        c.rtp_start_port = Some(47916);
        c.rtp_end_port = Some(47916);
    }
    c.transport_mode = mode.clone();
    // `bad_bind`: an address this host does not own (TEST-NET-3) — every socket bind fails
    c.bind_ip = Some(if bad_bind { "203.0.113.77".into() } else { "127.0.0.1".into() });
    c.disable_ipv6 = true;
    c.enable_upnp = false;
    c
}

pub async fn exec(sc: &Script) -> Outcome {
    let pc = PeerConnection::new(config(&sc.mode, sc.bad_bind));
    let mut t = Tables::default();
    let pool = pool(&sc.mode);
    let mut last_created: Option<SessionDescription> = None;
    let mut toks: Vec<String> = vec![];
    let mut outs: Vec<String> = vec![];
    let mut fails = vec![];
    let (mut n_err, mut n_ok) = (0, 0);
    let mut states = vec![];
    let mut keep = vec![];
    for (k, d, with_track) in &sc.trxs {
        if *with_track {
            let (src, track, fb) = rustrtc::media::track::sample_track(
                if *k == MediaKind::Video { rustrtc::media::frame::MediaKind::Video } else { rustrtc::media::frame::MediaKind::Audio }, 16);
            let params = if *k == MediaKind::Video { rustrtc::RtpCodecParameters { payload_type: 96, name: "VP8".into(), clock_rate: 90000, channels: 0 } }
                         else { rustrtc::RtpCodecParameters { payload_type: 111, name: "opus".into(), clock_rate: 48000, channels: 2 } };
            let _ = pc.add_track(track, params);
            keep.push((src, fb));
        } else { pc.add_transceiver(*k, *d); }
    }
    let init = pc.verif_snapshot();
    outs.push(snap_text(&mut t, "ok", &init));
    let mut spec = SignalingState::Stable;
    for (i, call) in sc.calls.iter().enumerate() {
        let before = observe(&pc);
        let resolve = |src: &Src, ty: SdpType, pc: &PeerConnection, last: &Option<SessionDescription>| -> SessionDescription {
            let mut d = match src {
                Src::Last => last.clone().unwrap_or_else(|| parse_desc(ty, &render(&sc.mode, &pool[0]))),
                Src::Pool(n) => parse_desc(ty, &render(&sc.mode, &pool[*n % pool.len()])),
                Src::AnswerTo(v) => {
                    let base = pc.local_description().or_else(|| last.clone()).unwrap_or_else(|| parse_desc(SdpType::Offer, &render(&sc.mode, &pool[0])));
                    answer_to(&sc.mode, &base, *v)
                }
                Src::Modified(v) => {
                    let base = last.clone().or_else(|| pc.local_description()).unwrap_or_else(|| parse_desc(ty, &render(&sc.mode, &pool[0])));
                    modified(&base, *v)
                }
            };
            d.sdp_type = ty;
            d
        };
        let (tok, res): (String, Result<(), RtcError>) = match call {
            Call::CreateOffer => ("co".into(), pc.create_offer().await.map(|d| { last_created = Some(d); })),
            Call::CreateAnswer => ("ca".into(), pc.create_answer().await.map(|d| { last_created = Some(d); })),
            Call::Close => { pc.close(); ("cl".into(), Ok(())) }
            Call::AddTrx(k, d) => { pc.add_transceiver(*k, *d); (format!("at,{},{}", kind_name(*k), tdir_name(*d)), Ok(())) }
            Call::DtlsStart => ("ds".into(), pc.verif_mark_dtls_started().await),
            Call::PeerState(c) => {
                use rustrtc::PeerConnectionState as P;
                pc.verif_set_peer_state(match c { 'F' => P::Failed, 'D' => P::Disconnected, 'C' => P::Connected, _ => P::Connecting });
                (format!("ps,{c}"), Ok(()))
            }
            Call::SetLocal(src, ty) => {
                let d = resolve(src, *ty, &pc, &last_created);
                (format!("sl,{}", desc_token(&mut t, &d)), pc.set_local_description(d))
            }
            Call::SetRemote(src, ty) => {
                let d = resolve(src, *ty, &pc, &last_created);
                (format!("sr,{}", desc_token(&mut t, &d)), pc.set_remote_description(d).await)
            }
        };
        if let Some(d) = &last_created { t.desc_id(d); }
        let after = observe(&pc);
        let rtxt = match &res { Ok(()) => "ok", Err(e) => err_text(e) };
        toks.push(tok);
        outs.push(snap_text(&mut t, rtxt, &after.snap));
        states.push(after.snap.signaling_state);
        // ---- oracles
        let cls = call_class(call);
        let st = sig_text(before.snap.signaling_state);
        match &res {
            Err(e) => {
                n_err += 1;
                let changed = diff_fields(&before, &after);
                if let Some(site) = env_site(e) {
                    // environment failure: one signature per call, state, transport mode, failure site AND exact set of fields left changed
                    if !changed.is_empty() {
                        // which groups of state were left changed (fixed order): the signature of a failure site
                        let group = |f: &str| match f {
                            "signaling_state" => "state", "local_description" => "local", "remote_description" => "remote",
                            "next_mid" | "remote_dtls_fingerprint" | "dtls_role" => "conn",
                            x if x.starts_with("sender.") || x.starts_with("receiver.") => "senders-receivers",
                            _ => "transceivers" };
                        let groups: Vec<&str> = ["state", "local", "remote", "transceivers", "senders-receivers", "conn"].into_iter()
                            .filter(|g| changed.iter().any(|f| group(f) == *g)).collect();
                        // what each failing site is KNOWN to leave behind (an upper bound: which of these groups actually differ
                        // depends on the history). Anything outside the bound — in particular the signaling state and the local
                        // description, or more than the connection counters for the SRTP site — is a new defect.
                        let allowed: &[&str] = match site {
                            "rtp-media-transport-bind" => &["remote", "transceivers", "senders-receivers", "conn"],
                            // since the round-3 fixes both SDES-SRTP sites fail before anything is recorded
                            "srtp-start-direct-no-candidate" => &[],
                            "offer-socket-bind" => &[],
                            // exhausted port range, non-bundled offer (replay-only environment `#`): the per-section bind follows the mid assignment
                            "section-socket-bind" => &["transceivers", "conn"],
                            _ => &[] };
                        let extra: Vec<&str> = groups.iter().copied().filter(|g| !allowed.contains(g)).collect();
                        let sig = if extra.is_empty() { format!("atom:{cls}:{st}:{}:{site}", mode_ch(&sc.mode)) }
                                  else { format!("atom:{cls}:{st}:{}:{site}:unexpected:{}", mode_ch(&sc.mode), extra.join("+")) };
                        fails.push((sig, format!("call #{i} `{}` returned Err({e}) but {} changed", call_text(call), changed.join(", "))));
                    }
                } else {
                    for f in changed {
                        fails.push((format!("atom:{cls}:{st}:{f}"), format!("call #{i} `{}` returned Err({e}) but {f} changed", call_text(call))));
                    }
                }
            }
            Ok(()) => {
                n_ok += 1;
                match spec_step(spec, call) {
                    None => fails.push((format!("spec:forbidden-call-accepted:{cls}:{st}"), format!("call #{i} `{}` is forbidden in {st} but returned Ok", call_text(call)))),
                    Some(n) => spec = n,
                }
            }
        }
        if after.snap.signaling_state != spec {
            fails.push((format!("spec:state-differs:{cls}:{st}"), format!("after call #{i} `{}` the reported state is {} but the JSEP machine is in {}",
                call_text(call), sig_text(after.snap.signaling_state), sig_text(spec))));
            spec = after.snap.signaling_state; // resynchronise: report each divergence once
        }
    }
    pc.close();
    drop(keep);
    let input = format!("{} {}{} {} {}", script_text(sc), mode_ch(&sc.mode), if sc.bad_bind { "!" } else { "" },
        if sc.trxs.is_empty() { "_".to_string() } else { sc.trxs.iter().map(|(k, d, t)| format!("{},{}", kind_name(*k), if *t { "sr" } else { tdir_name(*d) })).collect::<Vec<_>>().join(";") },
        toks.join(" "));
    Outcome { input, output: outs.join(" "), fails, n_err, n_ok, states }
}

// ------------------------------------------------------------------------------------------------
// generators

fn alphabet() -> Vec<Call> {
    use SdpType::*;
    vec![
        Call::CreateOffer,
        Call::CreateAnswer,
        Call::SetLocal(Src::Last, Offer),
        Call::SetLocal(Src::Last, Answer),
        Call::SetLocal(Src::Last, Pranswer),
        Call::SetRemote(Src::Pool(0), Offer),
        Call::SetRemote(Src::AnswerTo(0), Answer),
        Call::SetRemote(Src::AnswerTo(0), Pranswer),
        Call::SetRemote(Src::Pool(2), Offer),
        Call::SetLocal(Src::Modified(0), Offer),
        Call::SetRemote(Src::AnswerTo(1), Answer),
        Call::SetLocal(Src::Last, Rollback),
        Call::SetRemote(Src::Pool(8), Offer),
        Call::Close,
    ]
}

/// second exhaustive family: three pre-added transceivers (one with a sender), multi-section / mid-less / named-mid /
/// data / simulcast / RTX / SSRC descriptions — `used_indices`, all three matching stages, transceiver creation,
/// `answerOrder = none`, the mid-less re-offer branch, BUNDLE-tag selection, the u16 edge of the mid counter
fn alphabet_b() -> Vec<Call> {
    use SdpType::*;
    vec![
        Call::CreateOffer,
        Call::CreateAnswer,
        Call::SetLocal(Src::Last, Offer),
        Call::SetLocal(Src::Last, Answer),
        Call::SetRemote(Src::Pool(1), Offer),
        Call::SetRemote(Src::AnswerTo(0), Answer),
        Call::SetRemote(Src::Pool(11), Offer),
        Call::SetRemote(Src::Pool(3), Offer),
        Call::SetRemote(Src::Pool(4), Offer),
        Call::SetRemote(Src::Pool(9), Offer),
        Call::SetLocal(Src::Modified(1), Offer),
        Call::SetRemote(Src::Pool(14), Offer),
        Call::SetRemote(Src::Pool(15), Offer),
        Call::SetRemote(Src::Pool(16), Offer),
        Call::Close,
    ]
}
fn trxs_b() -> Vec<(MediaKind, TransceiverDirection, bool)> {
    vec![(MediaKind::Audio, TransceiverDirection::SendRecv, true), (MediaKind::Video, TransceiverDirection::RecvOnly, false),
         (MediaKind::Audio, TransceiverDirection::Inactive, false)]
}
fn prefixes_b() -> Vec<(&'static str, Vec<Call>)> {
    use SdpType::*;
    vec![
        ("fresh", vec![]),
        ("negotiated_answerer", vec![Call::SetRemote(Src::Pool(1), Offer), Call::CreateAnswer, Call::SetLocal(Src::Last, Answer)]),
        ("negotiated_offerer", vec![Call::CreateOffer, Call::SetLocal(Src::Last, Offer), Call::SetRemote(Src::AnswerTo(0), Answer)]),
    ]
}

fn prefixes() -> Vec<(&'static str, Vec<Call>)> {
    use SdpType::*;
    vec![
        ("fresh", vec![]),
        ("negotiated_offerer", vec![Call::CreateOffer, Call::SetLocal(Src::Last, Offer), Call::SetRemote(Src::AnswerTo(0), Answer)]),
        ("negotiated_answerer", vec![Call::SetRemote(Src::Pool(0), Offer), Call::CreateAnswer, Call::SetLocal(Src::Last, Answer)]),
        ("negotiated_started", vec![Call::SetRemote(Src::Pool(0), Offer), Call::CreateAnswer, Call::SetLocal(Src::Last, Answer), Call::DtlsStart]),
    ]
}

fn random_call(rng: &mut Rng) -> Call {
    use SdpType::*;
    let ty = |rng: &mut Rng| *rng.pick(&[Offer, Offer, Offer, Answer, Answer, Pranswer, Rollback]);
    match rng.below(100) {
        0..=13 => Call::CreateOffer,
        14..=23 => Call::CreateAnswer,
        24..=43 => { let s = match rng.below(10) { 0..=5 => Src::Last, 6..=7 => Src::Modified(rng.below(3) as u8), 8 => Src::Pool(rng.below(NPOOL as u64) as usize), _ => Src::AnswerTo(rng.below(4) as u8) }; let t = ty(rng); Call::SetLocal(s, t) }
        44..=78 => { let s = match rng.below(10) { 0..=4 => Src::Pool(rng.below(NPOOL as u64) as usize), 5..=8 => Src::AnswerTo(rng.below(4) as u8), _ => Src::Last }; let t = ty(rng); Call::SetRemote(s, t) }
        79..=84 => Call::Close,
        85..=92 => Call::AddTrx(*rng.pick(&[MediaKind::Audio, MediaKind::Video, MediaKind::Application]), parse_dir(*rng.pick(&['0', '1', '2', '3']))),
        93..=96 => Call::DtlsStart,
        _ => Call::PeerState(*rng.pick(&['F', 'F', 'D', 'C', 'G'])),
    }
}

/// The runtime is replaced every few hundred cases: dropping it drops the tasks (and sockets) of the
/// closed connections, which a current-thread runtime would otherwise only reap when polled.
pub struct Rt { rt: Option<tokio::runtime::Runtime>, n: usize }
impl Rt {
    pub fn new() -> Self { Rt { rt: None, n: 0 } }
    pub fn get(&mut self) -> &tokio::runtime::Runtime {
        self.n += 1;
        if self.rt.is_none() || self.n % 300 == 0 {
            self.rt = None;
            self.rt = Some(tokio::runtime::Builder::new_current_thread().enable_all().build().unwrap());
        }
        self.rt.as_ref().unwrap()
    }
}

fn emit(run: &mut Run, rt: &mut Rt, sc: &Script) {
    let rt = rt.get();
    let text = script_text(sc);
    let o = match crate::catch(std::panic::AssertUnwindSafe(|| rt.block_on(exec(sc)))) {
        Ok(o) => o,
        Err(p) => { run.fail(&format!("panic:{}", p.split(": ").next().unwrap_or("?")), &text, &p); return; }
    };
    let moved = o.states.iter().any(|s| *s != SignalingState::Stable);
    run.case("seq", &o.input, &o.output, moved && o.n_err > 0);
    run.count_n("calls_ok", o.n_ok as u64);
    run.count_n("calls_err", o.n_err as u64);
    run.count(&format!("mode_{}", mode_ch(&sc.mode)));
    for s in [SignalingState::HaveLocalOffer, SignalingState::HaveRemoteOffer, SignalingState::Closed] {
        if o.states.contains(&s) { run.count(&format!("reached_{}", sig_text(s))); }
    }
    for (sig, detail) in o.fails { run.fail(&sig, &text, &detail); }
}

pub fn run(args: &Args) {
    let mut rt = Rt::new();
    if let Some(case) = &args.replay {
        let rt = rt.get();
        let sc = parse_script(case);
        let o = rt.block_on(exec(&sc));
        println!("script: {}", script_text(&sc));
        println!("op:   {}", o.input);
        println!("impl: {}", o.output);
        for (s, d) in o.fails { println!("ORACLE-FAIL {s} {d}"); }
        return;
    }
    let mut run = Run::new("c09", &args.out);
    let modes = [TransportMode::WebRtc, TransportMode::Srtp, TransportMode::Rtp];
    let base_trx = vec![(MediaKind::Audio, TransceiverDirection::SendRecv, false)];
    // (1) exhaustive call sequences over the alphabet, on fresh and negotiated connections, 3 modes
    let al = alphabet();
    let len = if args.tier_thorough { 4 } else { 3 };
    let n = al.len().pow(len as u32);
    for mode in &modes {
        for (pname, pre) in prefixes() {
            if args.tier_thorough && pname != "fresh" && *mode != TransportMode::WebRtc && len == 4 {
                // negotiated prefixes at length 4 only in WebRTC mode (cost); length 3 below covers the others
                for idx in 0..al.len().pow(3) {
                    let mut calls = pre.clone();
                    let mut k = idx;
                    for _ in 0..3 { calls.push(al[k % al.len()].clone()); k /= al.len(); }
                    emit(&mut run, &mut rt, &Script { mode: mode.clone(), bad_bind: false, trxs: base_trx.clone(), calls });
                }
                run.count_n(&format!("exhaustive_len3_{}_{}", mode_ch(mode), pname), al.len().pow(3) as u64);
                continue;
            }
            for idx in 0..n {
                let mut calls = pre.clone();
                let mut k = idx;
                for _ in 0..len { calls.push(al[k % al.len()].clone()); k /= al.len(); }
                emit(&mut run, &mut rt, &Script { mode: mode.clone(), bad_bind: false, trxs: base_trx.clone(), calls });
            }
            run.count_n(&format!("exhaustive_len{}_{}_{}", len, mode_ch(mode), pname), n as u64);
        }
    }
    // (1b) second exhaustive family (length 3; WebRTC and RTP modes)
    let alb = alphabet_b();
    let nb = alb.len().pow(3);
    for mode in [TransportMode::WebRtc, TransportMode::Rtp, TransportMode::Srtp] {
        for (pname, pre) in prefixes_b() {
            // quick tier: SDES-SRTP with the fresh prefix only, and the third prefix (negotiated as offerer) in the thorough tier only
            if !args.tier_thorough && ((mode == TransportMode::Srtp && pname != "fresh") || pname == "negotiated_offerer") { continue; }
            for idx in 0..nb {
                let mut calls = pre.clone();
                let mut k = idx;
                for _ in 0..3 { calls.push(alb[k % alb.len()].clone()); k /= alb.len(); }
                emit(&mut run, &mut rt, &Script { mode: mode.clone(), bad_bind: false, trxs: trxs_b(), calls });
            }
            run.count_n(&format!("exhaustiveB_len3_{}_{}", mode_ch(&mode), pname), nb as u64);
        }
    }
    // (2) random longer sequences: all pool descriptions, changed / malformed descriptions, transceiver
    //     configurations, transport-started condition
    let mut rng = Rng::new(args.seed);
    let nrand = if args.tier_thorough { 6000 } else { 600 };
    let cfgs: Vec<Vec<(MediaKind, TransceiverDirection, bool)>> = vec![
        vec![], base_trx.clone(), trxs_b(),
        vec![(MediaKind::Audio, TransceiverDirection::SendRecv, true), (MediaKind::Video, TransceiverDirection::SendRecv, true)],
        vec![(MediaKind::Video, TransceiverDirection::RecvOnly, false), (MediaKind::Application, TransceiverDirection::SendRecv, false)],
        vec![(MediaKind::Audio, TransceiverDirection::SendOnly, false), (MediaKind::Audio, TransceiverDirection::Inactive, false), (MediaKind::Video, TransceiverDirection::SendRecv, false)],
    ];
    for _ in 0..nrand {
        let mode = rng.pick(&modes).clone();
        let trxs = rng.pick(&cfgs).clone();
        let mut calls = rng.pick(&prefixes()).1.clone();
        if trxs.is_empty() && !calls.is_empty() && calls[0] == Call::CreateOffer { calls.clear(); }
        let n = rng.range(1, 10) as usize;
        for _ in 0..n { calls.push(random_call(&mut rng)); }
        emit(&mut run, &mut rt, &Script { mode, bad_bind: false, trxs, calls });
    }
    run.count_n("random_sequences", nrand);
    // (3) environment failure: every socket bind fails (bind address not owned by the host). The direct
    //     modes bind inside the signaling calls and report the failure after applying the description.
    let blen = if args.tier_thorough { 3 } else { 2 };
    for idx in 0..al.len().pow(blen as u32) {
        let mut calls = vec![];
        let mut k = idx;
        for _ in 0..blen { calls.push(al[k % al.len()].clone()); k /= al.len(); }
        emit(&mut run, &mut rt, &Script { mode: TransportMode::Rtp, bad_bind: true, trxs: base_trx.clone(), calls });
    }
    run.count_n(&format!("bind_fails_exhaustive_len{blen}_r"), al.len().pow(blen as u32) as u64);
    for idx in 0..alb.len().pow(2) {
        let calls = vec![alb[idx % alb.len()].clone(), alb[idx / alb.len()].clone()];
        emit(&mut run, &mut rt, &Script { mode: TransportMode::Rtp, bad_bind: true, trxs: trxs_b(), calls });
    }
    run.count_n("bind_fails_exhaustiveB_len2_r", alb.len().pow(2) as u64);
    for sc in ["r!/a0,v0/srP1o;ca", "r!/a0/slP0o;srA0a", "r!/a0/slP0o;srA0p;srA0a", "r!//srP12o;ca", "r!/a0/srP13o", "r!/a0/srP3o;ca",
               "r!/a0,a0/srP9o;ca", "r!/v0/srP4o;ca", "r!/a0/slP0o;srA0a;srP11o", "s!/a0/co", "s!/a0/srP0o;ca", "s!/a0/slP0o;srA0a",
               "s!/a0t,v2/co", "s!/a0t,v2/srP1o", "s!/a0/slP0o;srA0p", "s!/a0t,v2,a3/srP11o", "s!/a0t,v2,a3/srP4o", "s!/a0t,v2,a3/co;co", "w!/a0/co;slLo;srA0a", "w!/a0/srP0o;ca;slLa",
               "w/a0/srP0o;ca;slLa;ds;srP16o;ca", "w/a0/srP0o;ca;slLa;srP16o;ca", "w/a0/srP15o;ca;slLa;srP0o", "w/a0/co;slLo;srA0p;srA0a",
               "w/a0t,v2,a3/srP1o;ca;slLa;srP17o;ca", "s/a0t,v2,a3/srP1o;ca;slLa;srP17o", "w/a0t,v2,a3/srP1o;srP17o",
               // close() from every peer state the transport tasks can leave behind
               "w/a0/psF;cl;co", "w/a0/co;slLo;psF;cl;slLo", "r/a0/srP0o;psD;cl;ca", "w/a0/psC;cl;srP0o", "s/a0/psG;cl;co", "w/a0/psF;co;cl;cl",
               // a re-INVITE whose rtpmap / extmap numbers lie outside everything the other pool entries use
               "w/a0t,v2,a3/srP1o;ca;slLa;srP18o;ca", "r/a0t,v2,a3/srP1o;ca;slLa;srP18o", "w/a0t,v2,a3/srP1o;srP18o", "w/a0/srP0o;ca;slLa;srP18o"] {
        emit(&mut run, &mut rt, &parse_script(sc));
        run.count("bind_fails_directed");
    }
    run.exhaustive = true;
    run.notes.insert("exhaustive_scope".into(), serde_json::json!(format!(
        "family A (one audio transceiver): all {}^{} call sequences over a {}-symbol alphabet after each of 4 prefixes (fresh / negotiated as offerer / negotiated as answerer / negotiated and transport started) in 3 transport modes; family B (three transceivers, one with a sender; multi-section, mid-less, named-mid, data, RTX, simulcast, SSRC, mid 65535 descriptions): all {}^3 sequences after 2 prefixes in WebRTC and RTP mode, and in SDES-SRTP mode after the fresh prefix (quick) / all three prefixes (thorough); failing-bind environment: RTP mode, both alphabets",
        al.len(), len, al.len(), alb.len())));
    run.finish();
}
