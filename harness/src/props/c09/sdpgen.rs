//! Structured SDP text generator shared by the C09 and C08 harnesses: a description is first a small
//! specification (`DescSpec`), rendered to SDP text the way browsers / SIP phones write it, and then
//! parsed by the REAL `SessionDescription::parse`.
use rustrtc::{MediaKind, TransportMode};

#[derive(Clone, Debug, PartialEq)]
pub struct CodecSpec {
    pub pt: u8,
    pub name: String,
    pub clock: u32,
    pub channels: u8,          // 0 = no channel suffix
    pub fmtp: Option<String>,
    pub fbs: Vec<String>,
    pub rtpmap: bool,          // false: static payload type listed on the m-line only
}

impl CodecSpec {
    pub fn new(pt: u8, name: &str, clock: u32, channels: u8) -> Self {
        CodecSpec { pt, name: name.into(), clock, channels, fmtp: None, fbs: vec![], rtpmap: true }
    }
    pub fn fmtp(mut self, f: &str) -> Self { self.fmtp = Some(f.into()); self }
    pub fn fb(mut self, f: &str) -> Self { self.fbs.push(f.into()); self }
    pub fn no_rtpmap(mut self) -> Self { self.rtpmap = false; self }
}

#[derive(Clone, Debug, PartialEq)]
pub struct SecSpec {
    pub kind: MediaKind,
    pub mid: Option<String>,
    pub dir: &'static str,                 // sendrecv | sendonly | recvonly | inactive | "" (absent)
    pub codecs: Vec<CodecSpec>,
    pub rtx: Vec<(u8, u8)>,                // (rtx pt, apt)
    pub extmaps: Vec<(String, String)>,    // (id text, uri)
    pub rtcp_mux: bool,
    pub setup: Option<&'static str>,
    pub ssrc: Option<u32>,
    pub simulcast: bool,
    pub port: u16,
    pub extra: Vec<String>,                // raw extra attribute lines (without "a=")
}

impl SecSpec {
    pub fn new(kind: MediaKind, mid: Option<&str>) -> Self {
        SecSpec { kind, mid: mid.map(|s| s.to_string()), dir: "sendrecv", codecs: vec![], rtx: vec![], extmaps: vec![],
                  rtcp_mux: true, setup: Some("actpass"), ssrc: None, simulcast: false, port: 9, extra: vec![] }
    }
}

#[derive(Clone, Debug, PartialEq)]
pub enum FpSpec { A, B, Sha1, Missing, Conflict, BadHex }

#[derive(Clone, Debug, PartialEq)]
pub struct DescSpec {
    pub bundle: bool,
    pub fp: FpSpec,
    pub session_level_fp: bool,
    pub sections: Vec<SecSpec>,
    pub session_version: u64,
    pub ice: bool,
    /// section indices left OUT of the `a=group:BUNDLE` line (a partial group)
    pub bundle_omit: Vec<usize>,
    /// `a=setup` written at session level (WebRTC mode)
    pub session_setup: Option<&'static str>,
    /// a direction attribute at session level (`sendonly` | `recvonly` | `inactive` | `sendrecv`)
    pub session_dir: Option<&'static str>,
    /// raw extra session-level lines (complete, e.g. "b=AS:128")
    pub session_extra: Vec<String>,
}

impl DescSpec {
    pub fn new(sections: Vec<SecSpec>) -> Self {
        DescSpec { bundle: sections.len() > 1, fp: FpSpec::A, session_level_fp: false, sections, session_version: 2, ice: true, bundle_omit: vec![], session_setup: None, session_dir: None, session_extra: vec![] }
    }
}

pub const FP_A: &str = "AA:BB:CC:DD:EE:FF:00:11:22:33:44:55:66:77:88:99:AA:BB:CC:DD:EE:FF:00:11:22:33:44:55:66:77:88:99";
pub const FP_B: &str = "11:22:33:44:55:66:77:88:99:00:AA:BB:CC:DD:EE:FF:11:22:33:44:55:66:77:88:99:00:AA:BB:CC:DD:EE:FF";

pub const URI_AUDIO_LEVEL: &str = "urn:ietf:params:rtp-hdrext:ssrc-audio-level";
pub const URI_ABS_SEND_TIME: &str = "http://www.webrtc.org/experiments/rtp-hdrext/abs-send-time";
pub const URI_SDES_MID: &str = "urn:ietf:params:rtp-hdrext:sdes:mid";
pub const URI_RID: &str = "urn:ietf:params:rtp-hdrext:sdes:rtp-stream-id";
pub const URI_RRID: &str = "urn:ietf:params:rtp-hdrext:sdes:repaired-rtp-stream-id";
pub const URI_TWCC: &str = "http://www.ietf.org/id/draft-holmer-rmcat-transport-wide-cc-extensions-01";
pub const URI_TOFFSET: &str = "urn:ietf:params:rtp-hdrext:toffset";

fn kind_str(k: MediaKind) -> &'static str {
    match k { MediaKind::Audio => "audio", MediaKind::Video => "video", MediaKind::Application => "application", MediaKind::Image => "image" }
}

fn fp_lines(fp: &FpSpec) -> Vec<String> {
    match fp {
        FpSpec::A => vec![format!("a=fingerprint:sha-256 {FP_A}")],
        FpSpec::B => vec![format!("a=fingerprint:sha-256 {FP_B}")],
        FpSpec::Sha1 => vec!["a=fingerprint:sha-1 AA:BB:CC:DD:EE:FF:00:11:22:33:44:55:66:77:88:99:AA:BB:CC:DD".into()],
        FpSpec::Missing => vec![],
        FpSpec::Conflict => vec![format!("a=fingerprint:sha-256 {FP_A}"), format!("a=fingerprint:sha-256 {FP_B}")],
        FpSpec::BadHex => vec!["a=fingerprint:sha-256 ZZ:11:22".into()],
    }
}

/// Render the description as SDP text for the given transport mode.
pub fn render(mode: &TransportMode, d: &DescSpec) -> String {
    let webrtc = *mode == TransportMode::WebRtc;
    let mut o = String::new();
    o.push_str("v=0\r\n");
    o.push_str(&format!("o=- 4611731400430051336 {} IN IP4 127.0.0.1\r\n", d.session_version));
    o.push_str("s=-\r\n");
    if !webrtc { o.push_str("c=IN IP4 127.0.0.1\r\n"); }
    o.push_str("t=0 0\r\n");
    if d.bundle {
        let mids: Vec<String> = d.sections.iter().enumerate().filter(|(i, _)| !d.bundle_omit.contains(i)).filter_map(|(_, s)| s.mid.clone()).collect();
        o.push_str(&format!("a=group:BUNDLE {}\r\n", mids.join(" ")));
    }
    if webrtc {
        o.push_str("a=msid-semantic: WMS\r\n");
        if d.session_level_fp { for l in fp_lines(&d.fp) { o.push_str(&l); o.push_str("\r\n"); } }
        if let Some(su) = d.session_setup { o.push_str(&format!("a=setup:{su}\r\n")); }
    }
    if let Some(sd) = d.session_dir { o.push_str(&format!("a={sd}\r\n")); }
    for l in &d.session_extra { o.push_str(l); o.push_str("\r\n"); }
    for (i, s) in d.sections.iter().enumerate() {
        let rtp = matches!(s.kind, MediaKind::Audio | MediaKind::Video);
        let proto = match (s.kind, mode) {
            (MediaKind::Application, _) => "UDP/DTLS/SCTP",
            (MediaKind::Image, _) => "udptl",
            (_, TransportMode::WebRtc) => "UDP/TLS/RTP/SAVPF",
            (_, TransportMode::Srtp) => "RTP/SAVP",
            (_, TransportMode::Rtp) => "RTP/AVP",
        };
        let fmts: Vec<String> = if s.kind == MediaKind::Application { vec!["webrtc-datachannel".into()] }
            else if s.kind == MediaKind::Image { vec!["t38".into()] }
            else {
                let mut v: Vec<String> = s.codecs.iter().map(|c| c.pt.to_string()).collect();
                for (r, _) in &s.rtx { v.push(r.to_string()); }
                if v.is_empty() { v.push("0".into()); }
                v
            };
        let port = if webrtc { s.port } else if s.port == 9 { 40000 + 2 * i as u16 } else { s.port };
        o.push_str(&format!("m={} {} {} {}\r\n", kind_str(s.kind), port, proto, fmts.join(" ")));
        if webrtc {
            o.push_str("c=IN IP4 0.0.0.0\r\n");
            if d.ice {
                o.push_str("a=ice-ufrag:rmt1\r\n");
                o.push_str("a=ice-pwd:remotepasswordremotepassw\r\n");
            }
            if !d.session_level_fp { for l in fp_lines(&d.fp) { o.push_str(&l); o.push_str("\r\n"); } }
            if let Some(su) = s.setup { o.push_str(&format!("a=setup:{su}\r\n")); }
        }
        if let Some(m) = &s.mid { o.push_str(&format!("a=mid:{m}\r\n")); }
        if !s.dir.is_empty() { o.push_str(&format!("a={}\r\n", s.dir)); }
        if s.rtcp_mux && s.kind != MediaKind::Image { o.push_str("a=rtcp-mux\r\n"); }
        if s.kind == MediaKind::Application { o.push_str("a=sctp-port:5000\r\n"); }
        if rtp {
            for (id, uri) in &s.extmaps {
                if id.is_empty() && uri.is_empty() { o.push_str("a=extmap\r\n"); } // a value-less attribute among the others
                else { o.push_str(&format!("a=extmap:{id} {uri}\r\n")); }
            }
            for c in &s.codecs {
                if c.rtpmap {
                    if c.channels == 0 { o.push_str(&format!("a=rtpmap:{} {}/{}\r\n", c.pt, c.name, c.clock)); }
                    else { o.push_str(&format!("a=rtpmap:{} {}/{}/{}\r\n", c.pt, c.name, c.clock, c.channels)); }
                }
                if let Some(f) = &c.fmtp { o.push_str(&format!("a=fmtp:{} {}\r\n", c.pt, f)); }
                for fb in &c.fbs { o.push_str(&format!("a=rtcp-fb:{} {}\r\n", c.pt, fb)); }
            }
            for (r, apt) in &s.rtx {
                o.push_str(&format!("a=rtpmap:{r} rtx/90000\r\n"));
                o.push_str(&format!("a=fmtp:{r} apt={apt}\r\n"));
            }
            if s.simulcast {
                o.push_str("a=rid:hi send\r\na=rid:lo send\r\na=simulcast:send hi;lo\r\n");
            }
            if let Some(ssrc) = s.ssrc { o.push_str(&format!("a=ssrc:{ssrc} cname:remote\r\n")); }
            if *mode == TransportMode::Srtp {
                o.push_str("a=crypto:1 AES_CM_128_HMAC_SHA1_80 inline:MTIzNDU2Nzg5MDEyMzQ1Njc4OTAxMjM0NTY3ODkw\r\n");
            }
        }
        for e in &s.extra { o.push_str(&format!("a={e}\r\n")); }
    }
    o
}

pub fn opus() -> CodecSpec { CodecSpec::new(111, "opus", 48000, 2).fmtp("minptime=10;useinbandfec=1") }
pub fn pcmu() -> CodecSpec { CodecSpec::new(0, "PCMU", 8000, 0) }
pub fn pcma() -> CodecSpec { CodecSpec::new(8, "PCMA", 8000, 0) }
pub fn g722_static() -> CodecSpec { CodecSpec::new(9, "G722", 8000, 0).no_rtpmap() }
pub fn telephone_event() -> CodecSpec { CodecSpec::new(101, "telephone-event", 8000, 0).fmtp("0-16") }
pub fn vp8(pt: u8) -> CodecSpec { CodecSpec::new(pt, "VP8", 90000, 0).fb("nack").fb("nack pli").fb("goog-remb") }
pub fn h264(pt: u8) -> CodecSpec {
    CodecSpec::new(pt, "H264", 90000, 0).fmtp("level-asymmetry-allowed=1;packetization-mode=1;profile-level-id=42e01f").fb("nack")
}
pub fn vp9(pt: u8) -> CodecSpec { CodecSpec::new(pt, "VP9", 90000, 0).fb("nack") }

pub fn audio(mid: Option<&str>, codecs: Vec<CodecSpec>) -> SecSpec {
    let mut s = SecSpec::new(MediaKind::Audio, mid);
    s.codecs = codecs;
    s
}
pub fn video(mid: Option<&str>, codecs: Vec<CodecSpec>) -> SecSpec {
    let mut s = SecSpec::new(MediaKind::Video, mid);
    s.codecs = codecs;
    s
}
pub fn application(mid: Option<&str>) -> SecSpec { SecSpec::new(MediaKind::Application, mid) }
