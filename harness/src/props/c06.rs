//! C06 — only authenticated STUN connectivity checks can influence ICE state.
//! Drives the real `handle_packet` / `handle_stun_request` / response dispatch of an `IceTransport`
//! in-process (hook `verif_handle_packet`) over real loopback sockets, for the request matrix
//! {no / wrong / correct USERNAME} x {no / corrupted / wrong-key / correct MESSAGE-INTEGRITY} x ±USE-CANDIDATE
//! x known / unknown source x states x roles x socket kinds (UDP, accepted TCP stream, TURN relay), plus
//! solicited / unsolicited / replayed responses, indications, garbage, empty and data datagrams.
//! Observations are diffed with `RtcModel.IceAuth`; the property's own oracle runs on the implementation.
use crate::{Args, Rng, Run, hex, unhex};
use async_trait::async_trait;
use bytes::Bytes;
use parking_lot::Mutex as PlMutex;
use rustrtc::transports::PacketReceiver;
use rustrtc::transports::ice::stun::{StunAttribute, StunClass, StunMessage, StunMethod};
use rustrtc::transports::ice::turn::TurnClient;
use rustrtc::transports::ice::{IceCandidate, IceCandidatePair, IceCandidateType, IceRole, IceSocketWrapper, IceTransport, IceTransportState, TcpType};
use rustrtc::verif_hooks::ice::candidate as chook;
use std::net::{IpAddr, SocketAddr};
use std::sync::Arc;
use std::time::Duration;
use tokio::net::{TcpListener, TcpStream, UdpSocket};
use tokio::sync::Mutex as TkMutex;

fn addr3(a: &SocketAddr) -> String {
    match a.ip() { IpAddr::V4(v) => format!("4,{},{}", hex(&v.octets()), a.port()), IpAddr::V6(v) => format!("6,{},{}", hex(&v.octets()), a.port()) }
}
fn addr_dot(a: &SocketAddr) -> String {
    match a.ip() { IpAddr::V4(v) => format!("4.{}.{}", hex(&v.octets()), a.port()), IpAddr::V6(v) => format!("6.{}.{}", hex(&v.octets()), a.port()) }
}
fn typ_name(t: IceCandidateType) -> &'static str {
    match t { IceCandidateType::Host => "host", IceCandidateType::ServerReflexive => "srflx", IceCandidateType::PeerReflexive => "prflx", IceCandidateType::Relay => "relay" }
}

// ---------------------------------------------------------------------------------------------
// symbolic cases (replayable: no addresses inside)

/// `Near(k)`: a USERNAME that is close to, but not, `<ufrag>:<anything>` (see `near_user`)
#[derive(Clone, Copy, Debug, PartialEq)] pub enum User { None, Wrong, Ok, Near(u8) }
/// `NearKey(k)`: a full, well-placed 20-byte HMAC under a key close to, but not equivalent to, the local password (see `near_key`)
#[derive(Clone, Copy, Debug, PartialEq)] pub enum Mi { None, Corrupt, WrongKey, Ok, RemoteKey, NearKey(u8),
    /// the right 20-byte HMAC with byte `k` (0..20) changed: the class "full-length tag, wrong value"
    WrongByte(u8) }
pub const NEAR_USERS: u8 = 10;
pub const NEAR_KEYS: u8 = 12;
impl User {
    pub fn code(self) -> u8 { match self { User::None => 0, User::Wrong => 1, User::Ok => 2, User::Near(k) => 3 + k } }
    pub fn from_code(c: usize) -> Option<User> { Some(match c { 0 => User::None, 1 => User::Wrong, 2 => User::Ok, k if k < 3 + NEAR_USERS as usize => User::Near(k as u8 - 3), _ => return None }) }
}
impl Mi {
    pub fn code(self) -> u8 { match self { Mi::None => 0, Mi::Corrupt => 1, Mi::WrongKey => 2, Mi::Ok => 3, Mi::RemoteKey => 4, Mi::NearKey(k) => 5 + k, Mi::WrongByte(k) => 5 + NEAR_KEYS + k } }
    pub fn from_code(c: usize) -> Option<Mi> { Some(match c { 0 => Mi::None, 1 => Mi::Corrupt, 2 => Mi::WrongKey, 3 => Mi::Ok, 4 => Mi::RemoteKey, k if k < 5 + NEAR_KEYS as usize => Mi::NearKey(k as u8 - 5), k if k < 25 + NEAR_KEYS as usize => Mi::WrongByte(k as u8 - 5 - NEAR_KEYS), _ => return None }) }
}
fn flip_case(s: &str) -> String { s.chars().map(|c| if c.is_ascii_lowercase() { c.to_ascii_uppercase() } else if c.is_ascii_uppercase() { c.to_ascii_lowercase() } else { c }).collect() }
/// the class "any key other than the local password": keys an implementation slip would plausibly also accept.
/// (HMAC pads a short key with zero bytes, so `pwd ++ 00` is the SAME key and is not in the pool.)
pub fn near_key(k: u8, ufrag: &str, pwd: &str) -> Vec<u8> {
    let p = pwd.as_bytes();
    match k {
        0 => vec![], 1 => p[..1].to_vec(), 2 => ufrag.as_bytes().to_vec(), 3 => p[..p.len() - 1].to_vec(), 4 => p[1..].to_vec(),
        5 => { let f = flip_case(pwd); if f == pwd { format!("{pwd}x").into_bytes() } else { f.into_bytes() } }
        6 => [p, p].concat(), 7 => REMOTE_UFRAG.as_bytes().to_vec(), 8 => format!("{pwd} ").into_bytes(), 9 => format!("{ufrag}:{pwd}").into_bytes(),
        10 => vec![0x20], _ => format!(" {pwd}").into_bytes(),
    }
}
/// the class "any USERNAME whose part before the first colon is not exactly the local ufrag"
pub fn near_user(k: u8, ufrag: &str) -> String {
    match k {
        0 => { let f = flip_case(ufrag); if f == ufrag { format!("{ufrag}X:remoteufrag") } else { format!("{f}:remoteufrag") } }
        1 => format!(" {ufrag}:remoteufrag"), 2 => format!("{ufrag} :remoteufrag"), 3 => format!("{}:remoteufrag", &ufrag[..ufrag.len() - 1]),
        4 => format!("{ufrag}x:remoteufrag"), 5 => format!("{REMOTE_UFRAG}:{ufrag}"), 6 => ufrag.to_string(), 7 => format!("{ufrag};remoteufrag"),
        8 => format!("{ufrag}\u{0}:remoteufrag"), _ => format!("remoteufrag:{ufrag}:x"),
    }
}
#[derive(Clone, Copy, Debug, PartialEq)] pub enum Sk { Udp0, Udp1, Tcp, Turn, Shared, Listener }
#[derive(Clone, Debug, PartialEq)]
pub enum What {
    Req { user: User, mi: Mi, uc: bool, method: u8 },
    Resp { tx: u8, error: bool, method: u8 },     // tx: index into pending (0..) or 200+ = unknown id
    Ind, Garbage(Vec<u8>), Empty, Data(Vec<u8>),
    /// hand-laid-out Binding request with a malformed / unusual credential layout (index into `LAYOUTS`)
    Raw { layout: u8, uc: bool },
    /// one `run_keepalive_tick` of the runner
    Tick,
}
#[derive(Clone, Debug)] pub struct Pkt { pub sock: Sk, pub src: u8, pub what: What }
#[derive(Clone, Debug)]
pub struct Case {
    pub controlling: bool, pub state: u8, pub latching: bool, pub nominated: bool, pub webrtc: bool,
    pub tmo: u8,                 // 0: ice_connection_timeout 1 h, 1: 1.5 s (an aged, never-refreshed transport is past it)
    pub rp: bool,                // remote ICE parameters are set (credentialed keepalives; requests signed with the REMOTE password must not pass)
    pub locals: u8,              // bit0 udp0 host, bit1 udp1 host, bit2 tcp passive host, bit3 relay
    pub remotes: u8,             // bit i: peer i known (host, udp); bit3: tcp peer known (host, tcp); bit 4: peer0 entry is srflx with low priority
    pub selected: Option<(u8, u8)>,
    pub pending: u8,
    pub pkts: Vec<Pkt>,
}

impl Case {
    pub fn text(&self) -> String {
        let mut s = format!("c{},s{},l{},n{},L{},R{},S{},P{},w{},t{},r{}", self.controlling as u8, self.state, self.latching as u8, self.nominated as u8,
            self.locals, self.remotes, self.selected.map(|(a, b)| format!("{a}.{b}")).unwrap_or_else(|| "-".into()), self.pending, self.webrtc as u8, self.tmo, self.rp as u8);
        for p in &self.pkts {
            let sk = match p.sock { Sk::Udp0 => "u0", Sk::Udp1 => "u1", Sk::Tcp => "tcp", Sk::Turn => "turn", Sk::Shared => "sh", Sk::Listener => "li" };
            let w = match &p.what {
                What::Req { user, mi, uc, method } => format!("req.{}.{}.{}.{}", user.code(), mi.code(), *uc as u8, method),
                What::Resp { tx, error, method } => format!("resp.{tx}.{}.{method}", *error as u8),
                What::Ind => "ind".into(), What::Garbage(b) => format!("gar.{}", hex(b)), What::Empty => "empty".into(), What::Data(b) => format!("data.{}", hex(b)),
                What::Raw { layout, uc } => format!("raw.{layout}.{}", *uc as u8),
                What::Tick => "tick".into(),
            };
            s.push_str(&format!(" {sk}<{}:{w}", p.src));
        }
        s
    }
    pub fn parse(t: &str) -> Option<Case> {
        let mut it = t.split_whitespace();
        let head: Vec<&str> = it.next()?.split(',').collect();
        let n = |s: &str| s[1..].parse::<u8>().ok();
        let selected = if &head[6][1..] == "-" { None } else { let (a, b) = head[6][1..].split_once('.')?; Some((a.parse().ok()?, b.parse().ok()?)) };
        let mut pkts = vec![];
        for p in it {
            let (sk, rest) = p.split_once('<')?;
            let (src, w) = rest.split_once(':')?;
            let f: Vec<&str> = w.split('.').collect();
            let sock = match sk { "u0" => Sk::Udp0, "u1" => Sk::Udp1, "tcp" => Sk::Tcp, "sh" => Sk::Shared, "li" => Sk::Listener, _ => Sk::Turn };
            let what = match f[0] {
                "req" => What::Req { user: User::from_code(f[1].parse::<usize>().ok()?)?, mi: Mi::from_code(f[2].parse::<usize>().ok()?)?, uc: f[3] == "1", method: f[4].parse().ok()? },
                "resp" => What::Resp { tx: f[1].parse().ok()?, error: f[2] == "1", method: f[3].parse().ok()? },
                "raw" => What::Raw { layout: f[1].parse().ok()?, uc: f[2] == "1" },
                "tick" => What::Tick,
                "ind" => What::Ind, "gar" => What::Garbage(unhex(f[1])), "empty" => What::Empty, _ => What::Data(unhex(f[1])),
            };
            pkts.push(Pkt { sock, src: src.parse().ok()?, what });
        }
        Some(Case { controlling: n(head[0])? == 1, state: n(head[1])?, latching: n(head[2])? == 1, nominated: n(head[3])? == 1, locals: n(head[4])?,
            remotes: n(head[5])?, selected, pending: n(head[7])?, webrtc: head.get(8).and_then(|h| n(h)).unwrap_or(1) == 1,
            tmo: head.get(9).and_then(|h| n(h)).unwrap_or(0), rp: head.get(10).and_then(|h| n(h)).unwrap_or(0) == 1, pkts })
    }
}

// ---------------------------------------------------------------------------------------------
// environment: loopback sockets shared by all cases

struct Capture(PlMutex<usize>);
#[async_trait]
impl PacketReceiver for Capture { async fn receive(&self, _p: Bytes, _a: SocketAddr, _m: &mut Vec<u8>) { *self.0.lock() += 1; } }

pub struct Env {
    rt: tokio::runtime::Runtime,
    locals: [Arc<UdpSocket>; 2],
    peers: [std::net::UdpSocket; 4],
    tcp_peer_udp: Option<std::net::UdpSocket>,    // peers[3]: same port as peers[0] on 127.0.0.2 (the latching condition)
    tcp_server: IceSocketWrapper, tcp_client: std::net::TcpStream, tcp_local: SocketAddr, tcp_peer: SocketAddr,
    turn_client: Arc<TurnClient>, turn_server: std::net::UdpSocket, relayed: SocketAddr,
    shared: IceSocketWrapper, shared_addr: SocketAddr, _shared_reg: Box<dyn std::any::Any + Send>, listener: Arc<TcpListener>,
}

impl Env {
    pub fn new() -> Env {
        let rt = tokio::runtime::Builder::new_current_thread().enable_all().build().unwrap();
        let (locals, peers, tcp_server, tcp_client, tcp_local, tcp_peer, turn_client, turn_server, shared, shared_addr, shared_reg, listener) = rt.block_on(async {
            let locals = [Arc::new(UdpSocket::bind("127.0.0.1:0").await.unwrap()), Arc::new(UdpSocket::bind("127.0.0.1:0").await.unwrap())];
            let sp = || { let s = std::net::UdpSocket::bind("127.0.0.1:0").unwrap(); s.set_nonblocking(true).unwrap(); s };
            // peer 3 = same port as peer 0 on another loopback address (retry until such a pair can be bound)
            let (p0, p3) = loop {
                let p0 = sp();
                if let Ok(s) = std::net::UdpSocket::bind(("127.0.0.2", p0.local_addr().unwrap().port())) { s.set_nonblocking(true).unwrap(); break (p0, s); }
            };
            let peers = [p0, sp(), sp(), p3];
            let listener = TcpListener::bind("127.0.0.1:0").await.unwrap();
            let tcp_local = listener.local_addr().unwrap();
            let tcp_client = TcpStream::connect(tcp_local).await.unwrap().into_std().unwrap();
            tcp_client.set_nonblocking(true).unwrap();
            let (server_stream, tcp_peer) = listener.accept().await.unwrap();
            let (r, w) = server_stream.into_split();
            let tcp_server = IceSocketWrapper::TcpStream(Arc::new(TkMutex::new(r)), Arc::new(TkMutex::new(w)), tcp_peer);
            let turn_server = sp();
            let tsock = Arc::new(UdpSocket::bind("127.0.0.1:0").await.unwrap());
            let turn_client = Arc::new(TurnClient::verif_new_udp(tsock, turn_server.local_addr().unwrap()));
            // channels bound for peers 0 and 1: their datagrams travel as ChannelData, those of peers 2 and 3 as Data indications
            for i in 0..2u16 { turn_client.verif_add_channel(peers[i as usize].local_addr().unwrap(), 0x4000 + i).await; }
            let (shared_addr, shared, shared_reg) = rustrtc::verif_hooks::ice::shared::acquire_udp("127.0.0.1:0".parse().unwrap(), "verifmuxufrag".into()).await.unwrap();
            (locals, peers, tcp_server, tcp_client, tcp_local, tcp_peer, turn_client, turn_server, shared, shared_addr, shared_reg, Arc::new(listener))
        });
        let relayed: SocketAddr = "198.51.100.4:49152".parse().unwrap();
        let tcp_peer_udp = std::net::UdpSocket::bind(tcp_peer).ok().map(|s| { s.set_nonblocking(true).unwrap(); s });
        Env { rt, locals, peers, tcp_peer_udp, tcp_server, tcp_client, tcp_local, tcp_peer, turn_client, turn_server, relayed, shared, shared_addr, _shared_reg: shared_reg, listener }
    }
    fn peer_addr(&self, i: u8, sock: Sk) -> SocketAddr {
        if sock == Sk::Tcp { self.tcp_peer } else { self.peers[(i % 4) as usize].local_addr().unwrap() }
    }
    fn local_addr_of(&self, sock: Sk) -> SocketAddr {
        match sock { Sk::Udp0 => self.locals[0].local_addr().unwrap(), Sk::Udp1 => self.locals[1].local_addr().unwrap(), Sk::Tcp | Sk::Listener => self.tcp_local, Sk::Turn => self.relayed, Sk::Shared => self.shared_addr }
    }
    fn wrapper(&self, sock: Sk) -> IceSocketWrapper {
        match sock { Sk::Udp0 => IceSocketWrapper::Udp(self.locals[0].clone()), Sk::Udp1 => IceSocketWrapper::Udp(self.locals[1].clone()),
            Sk::Tcp => self.tcp_server.clone(), Sk::Turn => IceSocketWrapper::Turn(self.turn_client.clone(), self.relayed),
            Sk::Shared => self.shared.clone(), Sk::Listener => IceSocketWrapper::TcpListener(self.listener.clone()) }
    }
    /// drain and return the last datagram that came back to the source of the packet
    fn reply(&mut self, sock: Sk, src: u8) -> Option<Vec<u8>> {
        let mut buf = vec![0u8; 4096];
        match sock {
            Sk::Listener => None,
            Sk::Udp0 | Sk::Udp1 | Sk::Shared => { let mut last = None; while let Ok((n, _)) = self.peers[(src % 4) as usize].recv_from(&mut buf) { last = Some(buf[..n].to_vec()); } last }
            Sk::Tcp => {
                use std::io::Read;
                // loopback TCP: the framed reply is queued by the time the write returned; allow a few retries
                let mut acc: Vec<u8> = vec![];
                for _ in 0..200 {
                    match self.tcp_client.read(&mut buf) { Ok(n) if n > 0 => { acc.extend_from_slice(&buf[..n]); if acc.len() >= 2 && acc.len() >= 2 + u16::from_be_bytes([acc[0], acc[1]]) as usize { break; } }
                        _ => { if acc.is_empty() { break; } std::thread::sleep(Duration::from_micros(50)); } }
                }
                if acc.len() >= 2 { Some(acc[2..].to_vec()) } else { None }
            }
            Sk::Turn => { let mut last = None; while let Ok((n, _)) = self.turn_server.recv_from(&mut buf) { last = Some(buf[..n].to_vec()); }
                // unwrap the ChannelData message / the Send indication
                last.and_then(|b| if b.len() >= 4 && b[0] >> 6 == 1 { let l = u16::from_be_bytes([b[2], b[3]]) as usize; b.get(4..4 + l).map(|x| x.to_vec()) }
                    else { StunMessage::decode(&b).ok().and_then(|d| if d.class == StunClass::Indication && d.method == StunMethod::Send { d.data } else { None }) }) }
        }
    }
}

#[derive(Clone, Debug, PartialEq)]
pub struct Obs { state: IceTransportState, nom: Option<bool>, sel: Option<(SocketAddr, SocketAddr, IceCandidateType, bool, u32)>,
                 rems: Vec<(SocketAddr, IceCandidateType, bool, u32)>, pending: Vec<[u8; 12]>, selsock: Option<String>, out: String }

fn state_name(s: IceTransportState) -> &'static str {
    match s { IceTransportState::New => "new", IceTransportState::Checking => "checking", IceTransportState::Connected => "connected",
        IceTransportState::Completed => "completed", IceTransportState::Failed => "failed", IceTransportState::Disconnected => "disconnected", IceTransportState::Closed => "closed" }
}
impl Obs {
    fn text(&self) -> String {
        let c = |a: &SocketAddr, t: IceCandidateType, tcp: bool, p: u32| format!("{}:{}:{}:{}", addr_dot(a), typ_name(t), tcp as u8, p);
        format!("{}/{}/{}/{}/{}/{}/{}", state_name(self.state), match self.nom { None => "-", Some(true) => "t", Some(false) => "f" },
            self.sel.as_ref().map(|(l, r, t, tcp, p)| format!("{}>{}", addr_dot(l), c(r, *t, *tcp, *p))).unwrap_or_else(|| "-".into()),
            if self.rems.is_empty() { "-".to_string() } else { self.rems.iter().map(|(a, t, tcp, p)| c(a, *t, *tcp, *p)).collect::<Vec<_>>().join(";") },
            if self.pending.is_empty() { "-".to_string() } else { self.pending.iter().map(|t| hex(t)).collect::<Vec<_>>().join(";") },
            match self.selsock.as_deref() { None => "-".to_string(), Some("udp") => "udp".into(), Some(k) if k.starts_with("tcp-stream") => "tcp".into(), Some(k) => k.to_string() }, self.out)
    }
}

struct Built { transport: IceTransport, ufrag: String, pwd: String, init_tokens: String, pend: Vec<([u8; 12], tokio::sync::oneshot::Receiver<rustrtc::transports::ice::stun::StunDecoded>)>, cap: Arc<Capture>, tx_rng: Rng }

pub const REMOTE_UFRAG: &str = "remoteufrag0123";
pub const REMOTE_PWD: &str = "remote-password-0123456789";
/// nominal clock (ms): transports are created at 0 and used only after `AGE_MS` of real time
pub const AGE_MS: u64 = 2100;
const DISC_MS: u64 = 1000;

fn build(env: &Env, c: &Case) -> Built {
    let mut tx_rng = Rng::new(0xC06 ^ crate_hash(&c.text()));
    let rng_tx = &mut tx_rng;
    let mut cfg = rustrtc::RtcConfigurationBuilder::new().enable_latching(c.latching)
        .transport_mode(if c.webrtc { rustrtc::TransportMode::WebRtc } else { rustrtc::TransportMode::Rtp }).build();
    let tmo_ms: u64 = if c.tmo == 1 { 1500 } else { 3_600_000 };
    cfg.ice_disconnect_threshold = Duration::from_millis(DISC_MS);
    cfg.ice_connection_timeout = Duration::from_millis(tmo_ms);
    let (transport, _runner) = IceTransport::new(cfg);
    transport.set_role(if c.controlling { IceRole::Controlling } else { IceRole::Controlled });
    let st = STATES[(c.state % 7) as usize];
    transport.verif_set_state(st);
    if c.rp { transport.set_remote_parameters(rustrtc::transports::ice::IceParameters::new(REMOTE_UFRAG, REMOTE_PWD)); }
    if c.nominated { transport.verif_set_nomination_complete(Some(true)); }
    let lp = transport.local_parameters();
    let mut toks = format!("cfg,{},{},{},{},{},{},{},{AGE_MS},{DISC_MS},{tmo_ms},{}", if c.controlling { "controlling" } else { "controlled" }, state_name(st), c.latching as u8,
        if c.nominated { "t" } else { "-" }, hex(lp.username_fragment.as_bytes()), hex(lp.password.as_bytes()), if c.webrtc { "webrtc" } else { "rtp" }, c.rp as u8);
    let mut locals: Vec<IceCandidate> = vec![];
    for i in 0..2 { if c.locals & (1 << i) != 0 { let cand = IceCandidate::host(env.locals[i].local_addr().unwrap(), 1); transport.verif_add_local_udp(cand.clone(), env.locals[i].clone()); locals.push(cand); } }
    if c.locals & 4 != 0 { let cand = IceCandidate::host_tcp(env.tcp_local, 1, TcpType::Passive); transport.verif_add_local_candidate(cand.clone()); locals.push(cand); }
    if c.locals & 8 != 0 { let cand = chook::relay(env.relayed, 1, "udp"); transport.verif_add_local_candidate(cand.clone()); locals.push(cand); }
    if c.locals & 16 != 0 { let cand = IceCandidate::host(env.shared_addr, 1); transport.verif_add_local_candidate(cand.clone()); locals.push(cand); }
    for l in &locals {
        // `resolve_socket` finds a socket exactly for the two UDP host candidates whose sockets are registered
        let has_socket = (0..2).any(|i| l.address == env.locals[i].local_addr().unwrap());
        toks.push_str(&format!(" loc,{},{},{},{},{},{},{}", addr3(&l.address), addr3(&l.base_address()), typ_name(l.typ), (l.transport == "tcp") as u8,
            (l.tcp_type == Some(TcpType::Passive)) as u8, l.priority, has_socket as u8));
    }
    let mut remotes: Vec<IceCandidate> = vec![];
    for i in 0..3u8 { if c.remotes & (1 << i) != 0 {
        let a = env.peers[i as usize].local_addr().unwrap();
        let cand = if i == 0 && c.remotes & 16 != 0 { let mut x = chook::server_reflexive(a, a, 1); x.related_address = None; x } else { IceCandidate::host(a, 1) };
        transport.verif_add_remote_candidate_quiet(cand.clone()); remotes.push(cand); } }
    if c.remotes & 8 != 0 { let cand = IceCandidate::host_tcp(env.tcp_peer, 1, TcpType::Active); transport.verif_add_remote_candidate_quiet(cand.clone()); remotes.push(cand); }
    for r in &remotes { toks.push_str(&format!(" rem,{},{},{},{}", addr3(&r.address), typ_name(r.typ), (r.transport == "tcp") as u8, r.priority)); }
    if let Some((i, j)) = c.selected {
        if (i as usize) < locals.len() && (j as usize) < remotes.len() {
            transport.verif_set_selected_pair(Some(IceCandidatePair::new(locals[i as usize].clone(), remotes[j as usize].clone())));
            toks.push_str(&format!(" sel,{i},{j}"));
        }
    }
    let mut pend = vec![];
    for _ in 0..c.pending { let tx: [u8; 12] = rng_tx.bytes(12).try_into().unwrap(); let rx = transport.verif_add_pending(tx); toks.push_str(&format!(" pend,{}", hex(&tx))); pend.push((tx, rx)); }
    let cap = Arc::new(Capture(PlMutex::new(0)));
    env.rt.block_on(transport.set_data_receiver(cap.clone()));
    Built { transport, ufrag: lp.username_fragment, pwd: lp.password, init_tokens: toks, pend, cap, tx_rng }
}

fn observe(t: &IceTransport, out: String) -> Obs {
    Obs { state: t.state(), nom: t.verif_nomination_complete(),
        sel: t.get_selected_pair().map(|p| (p.local.address, p.remote.address, p.remote.typ, p.remote.transport == "tcp", p.remote.priority)),
        rems: t.remote_candidates().iter().map(|c| (c.address, c.typ, c.transport == "tcp", c.priority)).collect(),
        pending: t.verif_pending_ids(), selsock: t.verif_selected_socket_kind(), out }
}

const STATES: [IceTransportState; 7] = [IceTransportState::New, IceTransportState::Checking, IceTransportState::Connected, IceTransportState::Completed,
    IceTransportState::Failed, IceTransportState::Disconnected, IceTransportState::Closed];
const STATE_NAMES: [&str; 7] = ["new", "checking", "connected", "completed", "failed", "disconnected", "closed"];
const METHODS: [StunMethod; 3] = [StunMethod::Binding, StunMethod::Allocate, StunMethod::ChannelBind];

/// Malformed / unusual credential layouts. `carries`: the datagram has, at attribute boundaries reachable from
/// the header, a USERNAME `<ufrag>:x` and a full 20-byte MESSAGE-INTEGRITY = HMAC-SHA1(local password, message
/// up to the attribute with the length field pointing to its end). `must`: Some(true) the credential check
/// has to accept (RFC-conformant, attributes after MESSAGE-INTEGRITY are ignored, padding bytes are free),
/// Some(false) it has to reject, None no claim (layouts an implementation may treat either way).
pub const LAYOUTS: [(&str, bool, Option<bool>); 28] = [
    ("mi-len-0", false, Some(false)), ("mi-len-1-hmac-prefix", false, Some(false)), ("mi-len-4-hmac-prefix", false, Some(false)),
    ("mi-len-19-hmac-prefix", false, Some(false)), ("mi-len-21", false, Some(false)), ("mi-len-24", false, Some(false)),
    ("mi-len-20-value-truncated", false, Some(false)), ("mi-twice-garbage-then-hmac-of-first-slot", false, Some(false)),
    ("mi-twice-valid-then-garbage", true, Some(true)), ("mi-before-username", true, None),
    ("username-empty", false, Some(false)), ("username-no-colon", false, Some(false)), ("username-prefix-of-ufrag", false, Some(false)),
    ("username-ufrag-extended", false, Some(false)), ("username-colon-first", false, Some(false)), ("username-empty-peer-part", true, Some(true)),
    ("username-non-utf8-peer-part", true, None), ("attributes-after-mi", true, Some(true)), ("truncated-final-attribute-after-mi", true, None),
    ("oversized-attribute-before-mi", false, Some(false)), ("mi-inside-another-attribute", false, Some(false)),
    ("nonzero-padding-bytes", true, Some(true)), ("missing-padding-misaligned-mi", false, Some(false)), ("full-mi-wrong-key", false, Some(false)),
    ("header-length-mismatch", true, None), ("two-usernames-foreign-first", false, Some(false)), ("mi-len-0-no-username", false, Some(false)),
    ("genuine", true, Some(true)),
];

fn raw_tlv(t: u16, v: &[u8], pad: u8) -> Vec<u8> {
    let mut o = t.to_be_bytes().to_vec(); o.extend_from_slice(&(v.len() as u16).to_be_bytes()); o.extend_from_slice(v);
    o.extend(std::iter::repeat_n(pad, (4 - v.len() % 4) % 4)); o
}
fn raw_header(len: usize, tx: &[u8; 12]) -> Vec<u8> {
    let mut h = vec![0x00, 0x01]; h.extend_from_slice(&(len as u16).to_be_bytes()); h.extend_from_slice(&[0x21, 0x12, 0xa4, 0x42]); h.extend_from_slice(tx); h
}
/// RFC 5389 §15.4 written out with the hmac/sha1 crates (independent of rustrtc)
fn raw_mac(key: &[u8], tx: &[u8; 12], area_before: &[u8]) -> [u8; 20] {
    use hmac::{Hmac, KeyInit, Mac};
    let mut m = <Hmac<sha1::Sha1> as KeyInit>::new_from_slice(key).unwrap();
    m.update(&raw_header(area_before.len() + 24, tx)); m.update(area_before);
    m.finalize().into_bytes().into()
}

pub fn build_layout(layout: u8, uc: bool, ufrag: &str, pwd: &str, tx: &[u8; 12]) -> Vec<u8> {
    let name = LAYOUTS[layout as usize].0;
    let key = pwd.as_bytes();
    let rest = |mut a: Vec<u8>| { a.extend(raw_tlv(0x0024, &1845501695u32.to_be_bytes(), 0)); a.extend(raw_tlv(0x802A, &7u64.to_be_bytes(), 0)); if uc { a.extend(raw_tlv(0x0025, &[], 0)); } a };
    let pre_user = |user: &[u8]| rest(raw_tlv(0x0006, user, 0));
    let good_user = format!("{ufrag}:peerufrag").into_bytes();
    let pre = pre_user(&good_user);
    let mac = raw_mac(key, tx, &pre);
    let with_full_mi = |area: Vec<u8>| { let m = raw_mac(key, tx, &area); let mut a = area; a.extend(raw_tlv(0x0008, &m, 0)); a };
    let area: Vec<u8> = match name {
        "mi-len-0" => { let mut a = pre.clone(); a.extend(raw_tlv(0x0008, &[], 0)); a }
        "mi-len-1-hmac-prefix" => { let mut a = pre.clone(); a.extend(raw_tlv(0x0008, &mac[..1], 0)); a }
        "mi-len-4-hmac-prefix" => { let mut a = pre.clone(); a.extend(raw_tlv(0x0008, &mac[..4], 0)); a }
        "mi-len-19-hmac-prefix" => { let mut a = pre.clone(); a.extend(raw_tlv(0x0008, &mac[..19], 0)); a }
        "mi-len-21" => { let mut v = mac.to_vec(); v.push(0xAA); let mut a = pre.clone(); a.extend(raw_tlv(0x0008, &v, 0)); a }
        "mi-len-24" => { let mut v = mac.to_vec(); v.extend_from_slice(&[1, 2, 3, 4]); let mut a = pre.clone(); a.extend(raw_tlv(0x0008, &v, 0)); a }
        "mi-len-20-value-truncated" => { let mut a = pre.clone(); a.extend_from_slice(&[0, 8, 0, 20]); a.extend_from_slice(&mac[..12]); a }
        "mi-twice-garbage-then-hmac-of-first-slot" => { let mut a = pre.clone(); a.extend(raw_tlv(0x0008, &[0x5a; 20], 0)); a.extend(raw_tlv(0x0008, &mac, 0)); a }
        "mi-twice-valid-then-garbage" => { let mut a = with_full_mi(pre.clone()); a.extend(raw_tlv(0x0008, &[0x5a; 20], 0)); a }
        "mi-before-username" => { let mut a = with_full_mi(rest(vec![])); a.extend(raw_tlv(0x0006, &good_user, 0)); a }
        "username-empty" => with_full_mi(pre_user(b"")),
        "username-no-colon" => with_full_mi(pre_user(ufrag.as_bytes())),
        "username-prefix-of-ufrag" => with_full_mi(pre_user(format!("{}:peerufrag", &ufrag[..ufrag.len() - 1]).as_bytes())),
        "username-ufrag-extended" => with_full_mi(pre_user(format!("{ufrag}Z:peerufrag").as_bytes())),
        "username-colon-first" => with_full_mi(pre_user(format!(":{ufrag}").as_bytes())),
        "username-empty-peer-part" => with_full_mi(pre_user(format!("{ufrag}:").as_bytes())),
        "username-non-utf8-peer-part" => { let mut u = format!("{ufrag}:").into_bytes(); u.extend_from_slice(&[0xff, 0xfe]); with_full_mi(pre_user(&u)) }
        "attributes-after-mi" => { let mut a = with_full_mi(pre.clone()); a.extend(raw_tlv(0x0024, &[0, 0, 0, 9], 0)); a.extend(raw_tlv(0x8022, b"late", 0)); a }
        "truncated-final-attribute-after-mi" => { let mut a = with_full_mi(pre.clone()); a.extend_from_slice(&[0x80, 0x22, 0x00, 0x10, b'x', b'y']); a }
        "oversized-attribute-before-mi" => { let mut a = raw_tlv(0x0006, &good_user, 0); a.extend_from_slice(&[0x80, 0x22, 0x00, 0xff, 1, 2, 3, 4]); with_full_mi(a) }
        "mi-inside-another-attribute" => { let mut a = pre.clone(); a.extend(raw_tlv(0x8022, &raw_tlv(0x0008, &mac, 0), 0)); a }
        "nonzero-padding-bytes" => { let u = format!("{ufrag}:pe").into_bytes(); debug_assert!(u.len() % 4 != 0); with_full_mi(rest(raw_tlv(0x0006, &u, 0xff))) }
        "missing-padding-misaligned-mi" => { let u = format!("{ufrag}:p").into_bytes(); let mut a = vec![0, 6]; a.extend_from_slice(&(u.len() as u16).to_be_bytes()); a.extend_from_slice(&u); with_full_mi(rest(a)) }
        "full-mi-wrong-key" => { let m = raw_mac(b"not-the-local-password", tx, &pre); let mut a = pre.clone(); a.extend(raw_tlv(0x0008, &m, 0)); a }
        "header-length-mismatch" => with_full_mi(pre.clone()),
        "two-usernames-foreign-first" => with_full_mi(rest({ let mut a = raw_tlv(0x0006, b"deadbeefdeadbeef:peer", 0); a.extend(raw_tlv(0x0006, &good_user, 0)); a })),
        "mi-len-0-no-username" => { let mut a = rest(vec![]); a.extend(raw_tlv(0x0008, &[], 0)); a }
        _ => { let mut a = with_full_mi(pre.clone()); let mut whole = raw_header(a.len() + 8, tx); whole.extend_from_slice(&a);
               let crc = crc32fast::hash(&whole) ^ 0x5354_554e; a.extend(raw_tlv(0x8028, &crc.to_be_bytes(), 0)); a }
    };
    let mut pkt = raw_header(area.len() + if name == "header-length-mismatch" { 4 } else { 0 }, tx);
    pkt.extend_from_slice(&area);
    pkt
}

fn packet_bytes(b: &Built, p: &Pkt, tx_rng: &mut Rng) -> (Vec<u8>, Option<bool>) {
    match &p.what {
        What::Req { user, mi, uc, method } => {
            let tx: [u8; 12] = tx_rng.bytes(12).try_into().unwrap();
            let mut attrs = vec![];
            match user { User::None => {}, User::Wrong => attrs.push(StunAttribute::Username("deadbeefdeadbeef:remote".into())), User::Ok => attrs.push(StunAttribute::Username(format!("{}:remoteufrag", b.ufrag))), User::Near(k) => attrs.push(StunAttribute::Username(near_user(*k, &b.ufrag))) }
            attrs.push(StunAttribute::Priority(1845501695));
            attrs.push(StunAttribute::IceControlling(7));
            if *uc { attrs.push(StunAttribute::UseCandidate); }
            let m = StunMessage { class: StunClass::Request, method: METHODS[(*method % 3) as usize], transaction_id: tx, attributes: attrs };
            let mut bytes = match mi { Mi::None => m.encode(None, true), Mi::WrongKey => m.encode(Some(b"not-the-local-password"), true), Mi::RemoteKey => m.encode(Some(REMOTE_PWD.as_bytes()), true), Mi::NearKey(k) => m.encode(Some(&near_key(*k, &b.ufrag, &b.pwd)), true), _ => m.encode(Some(b.pwd.as_bytes()), true) }.unwrap();
            if *mi == Mi::Corrupt { let n = bytes.len(); bytes[n - 8 - 5] ^= 0x01; }
            if let Mi::WrongByte(k) = mi { let n = bytes.len(); bytes[n - 28 + (*k % 20) as usize] ^= 1 << (*k % 8); }   // inside the HMAC value (FINGERPRINT left stale on purpose)
            (bytes, Some(*user == User::Ok && *mi == Mi::Ok))
        }
        What::Resp { tx, error, method } => {
            let id: [u8; 12] = if (*tx as usize) < b.pend.len() { b.pend[*tx as usize].0 } else { tx_rng.bytes(12).try_into().unwrap() };
            let m = StunMessage { class: if *error { StunClass::ErrorResponse } else { StunClass::SuccessResponse }, method: METHODS[(*method % 3) as usize], transaction_id: id,
                attributes: vec![StunAttribute::XorMappedAddress("192.0.2.1:9".parse().unwrap())] };
            (m.encode(None, true).unwrap(), None)
        }
        What::Ind => (StunMessage { class: StunClass::Indication, method: StunMethod::Binding, transaction_id: [9; 12], attributes: vec![] }.encode(None, true).unwrap(), None),
        What::Garbage(g) => (g.clone(), None), What::Empty => (vec![], None), What::Data(d) => (d.clone(), None),
        What::Tick => (vec![], None),
        What::Raw { layout, uc } => { let tx: [u8; 12] = tx_rng.bytes(12).try_into().unwrap();
            (build_layout(*layout, *uc, &b.ufrag, &b.pwd, &tx), Some(LAYOUTS[*layout as usize].1)) }
    }
}

fn variant(user: User, mi: Mi) -> &'static str {
    match (user, mi) { (User::None, Mi::None) => "no-credentials", (User::Ok, Mi::NearKey(_)) => "integrity-under-near-miss-key", (User::Ok, Mi::WrongByte(_)) => "full-length-integrity-with-one-wrong-byte", (User::Ok, _) => "bad-integrity",
        (User::Near(_), Mi::Ok) => "near-miss-username", (_, Mi::Ok) => "wrong-username", _ => "wrong-username-bad-integrity" }
}

/// run one case; returns (op-line input, impl output)
/// drain every socket a datagram of the transport can arrive on; returns the last datagram seen
fn drain_all(env: &mut Env) -> Option<Vec<u8>> {
    let mut last = None;
    for i in 0..4 { if let Some(d) = env.reply(Sk::Udp0, i) { last = Some(d); } }
    if let Some(d) = env.reply(Sk::Turn, 0) { last = Some(d); }
    if let Some(d) = env.reply(Sk::Tcp, 0) { last = Some(d); }
    let mut buf = [0u8; 2048];
    if let Some(u) = &env.tcp_peer_udp { while let Ok((n, _)) = u.recv_from(&mut buf) { last = Some(buf[..n].to_vec()); } }
    last
}

/// the keepalive a tick sent (RFC 8445 §11 / the agent's own composition): checked with the reference crate
fn keepalive_oracle(run: &mut Run, c: &Case, b: &Built, msg: &[u8], local_prio: Option<u32>) {
    use stun::message::*;
    let mut m = Message::new();
    m.raw = msg.to_vec();
    if m.decode().is_err() { run.fail("keepalive:undecodable", &c.text(), &hex(msg)); return; }
    if m.typ != BINDING_REQUEST { run.fail("keepalive:not-binding-request", &c.text(), &format!("{}", m.typ)); }
    if m.get(stun::attributes::ATTR_SOFTWARE).ok().as_deref() != Some(b"rustrtc") { run.fail("keepalive:software", &c.text(), ""); }
    if c.rp {
        let want = format!("{REMOTE_UFRAG}:{}", b.ufrag);
        if m.get(stun::attributes::ATTR_USERNAME).ok().as_deref() != Some(want.as_bytes()) { run.fail("keepalive:username-is-not-remote-colon-local", &c.text(), &hex(msg)); }
        if stun::integrity::MessageIntegrity(REMOTE_PWD.as_bytes().to_vec()).check(&mut m).is_err() { run.fail("keepalive:message-integrity-not-under-remote-password", &c.text(), &hex(msg)); }
        if stun::fingerprint::FINGERPRINT.check(&m).is_err() { run.fail("keepalive:fingerprint", &c.text(), ""); }
        if let Some(p) = local_prio { if m.get(stun::attributes::ATTR_PRIORITY).ok() != Some(p.to_be_bytes().to_vec()) { run.fail("keepalive:priority-is-not-local-candidate-priority", &c.text(), &hex(msg)); } }
    }
}

pub fn exec(env: &mut Env, run: &mut Run, c: &Case, verbose: bool) {
    run_batch(env, run, vec![c.clone()], verbose);
}

/// Build all transports of the batch, let them age past the liveness thresholds (real time), then run the
/// cases. For WebRTC-mode cases containing unauthenticated requests the case is run a second time with those
/// requests ERASED: every observation at the remaining events must be identical (metamorphic form of the
/// property: an unauthenticated request has no influence, also not through later ticks).
pub fn run_batch(env: &mut Env, run: &mut Run, cases: Vec<Case>, verbose: bool) {
    let planned: Vec<(Case, Built, Option<(Case, Built)>)> = cases.into_iter().map(|c| {
        let b = build(env, &c);
        let mut erased = c.clone();
        erased.pkts.retain(|p| !is_noise(&c, p));
        let twin = if c.webrtc && erased.pkts.len() != c.pkts.len() { let eb = build(env, &erased); Some((erased, eb)) } else { None };
        (c, b, twin)
    }).collect();
    std::thread::sleep(Duration::from_millis(AGE_MS));
    for (c, b, twin) in planned {
        let obs = exec_built(env, run, &c, b, true, verbose);
        if let Some((ec, eb)) = twin {
            let eobs = exec_built(env, run, &ec, eb, false, false);
            // align: observation after every kept event (and the initial one)
            let kept: Vec<usize> = std::iter::once(0).chain(c.pkts.iter().enumerate().filter(|(_, p)| !is_noise(&c, p)).map(|(i, _)| i + 1)).collect();
            let role = if c.controlling { "controlling" } else { "controlled" };
            for (k, &i) in kept.iter().enumerate() {
                let (a, e) = (&obs[i], &eobs[k]);
                let field = if a.state != e.state { "state" } else if a.nom != e.nom { "nomination" } else if a.sel != e.sel { "selected-pair" } else if a.rems != e.rems { "remote-candidates" }
                    else if a.selsock != e.selsock { "selected-socket" } else if a.pending.len() != e.pending.len() { "pending-transactions" } else { "" };
                if !field.is_empty() {
                    let what = match c.pkts.get(i.saturating_sub(1)).map(|p| &p.what) { Some(What::Tick) => "at-keepalive-tick", _ => "at-later-datagram" };
                    run.fail(&format!("unauth:history:{role}:{field}-differs-{what}"), &c.text(), &format!("with: {} | erased: {}", a.text(), e.text()));
                    break;
                }
            }
            run.count("metamorphic_erasure_pairs");
        }
    }
}

/// the events the property calls without influence (`Noise` of the Lean side): requests built without this
/// session's credentials, responses with an id that was never outstanding, indications, undecodable STUN-range
/// bytes, empty datagrams
fn is_noise(c: &Case, p: &Pkt) -> bool {
    match &p.what {
        What::Req { user, mi, .. } => !(*user == User::Ok && *mi == Mi::Ok), What::Raw { layout, .. } => !LAYOUTS[*layout as usize].1,
        What::Resp { tx, .. } => *tx >= c.pending, What::Garbage(_) | What::Empty => true,
        // indications / media: only from a source that can at no point of the case be the selected pair's remote address
        What::Ind | What::Data(_) => stranger_source(c, p),
        What::Tick => false,
    }
}
/// the source of `p` is no remote candidate of the case, is never the source of a request that carries
/// credentials (which would make it a peer-reflexive remote) and is not the latching alias of a remote
fn stranger_source(c: &Case, p: &Pkt) -> bool {
    let authentic = |q: &Pkt| match &q.what { What::Req { user, mi, .. } => (*user == User::Ok && *mi == Mi::Ok) || !c.webrtc, What::Raw { layout, .. } => LAYOUTS[*layout as usize].1 || !c.webrtc, _ => false };
    if p.sock == Sk::Tcp {
        // the peer of the accepted TCP stream can be the selected remote only if it is the remote candidate of bit 8 or
        // becomes one through an authenticated request on that stream
        return c.remotes & 8 == 0 && !c.pkts.iter().any(|q| q.sock == Sk::Tcp && authentic(q));
    }
    let k = p.src % 4;
    if k < 3 && c.remotes & (1 << k) != 0 { return false; }
    if k == 3 && c.latching { return false; }                    // same port as peer 0 on another IP: the latching branch may move the pair there
    !c.pkts.iter().any(|q| q.src % 4 == k && q.sock != Sk::Tcp && match &q.what {
        What::Req { user, mi, .. } => (*user == User::Ok && *mi == Mi::Ok) || !c.webrtc, What::Raw { layout, .. } => LAYOUTS[*layout as usize].1 || !c.webrtc, _ => false })
}

fn exec_built(env: &mut Env, run: &mut Run, c: &Case, mut b: Built, emit: bool, verbose: bool) -> Vec<Obs> {
    let mut tx_rng = b.tx_rng.clone();
    // drain anything left over from earlier cases
    drain_all(env);
    let mut input = b.init_tokens.clone();
    let mut outs = vec![observe(&b.transport, "-".into())];
    let mut scratch = Run::new("c06", &crate::scratch("c06-scratch"));
    let run: &mut Run = if emit { run } else { &mut scratch };
    let mut peer_traffic: Option<&'static str> = None;   // the previous event was an indication / media datagram from the selected pair's remote address
    for p in &c.pkts {
        if let What::Tick = p.what {
            let state_before_tick = b.transport.state();
            let before_ids = b.transport.verif_pending_ids();
            let t = b.transport.clone(); let rt = &env.rt;
            let r = crate::catch(std::panic::AssertUnwindSafe(move || rt.block_on(t.verif_run_keepalive_tick())));
            let new_ids: Vec<[u8; 12]> = b.transport.verif_pending_ids().into_iter().filter(|i| !before_ids.contains(i)).collect();
            let sent = drain_all(env);
            let ka = if r.is_err() { "panic" } else if !new_ids.is_empty() { "ka=cred" } else if sent.is_some() { "ka=bare" } else { "ka=none" };
            input.push_str(&format!(" tick,{}", new_ids.first().map(|i| hex(i)).unwrap_or_else(|| "-".into())));
            if let Some(msg) = &sent { let lp = b.transport.get_selected_pair().map(|p| p.local.priority); keepalive_oracle(run, c, &b, msg, lp); run.count("keepalive_messages_checked"); }
            let after = observe(&b.transport, ka.to_string());
            // RFC 8445 §11: Binding indications (and media) from the selected peer are its keepalives — they count as liveness
            if let (Some(kind), true, true) = (peer_traffic.take(), c.webrtc, matches!(state_before_tick, IceTransportState::Connected | IceTransportState::Disconnected)) {
                if after.state != IceTransportState::Connected { run.fail(&format!("liveness:{kind}-from-selected-peer-address-not-counted"), &c.text(), &after.text()); }
                run.count(&format!("liveness_peer_{kind}_then_tick"));
            }
            if verbose { println!("tick -> {}", after.text()); }
            outs.push(after);
            continue;
        }
        let src = env.peer_addr(p.src, p.sock);
        peer_traffic = match &p.what { What::Ind | What::Data(_) if b.transport.get_selected_pair().map(|sp| sp.remote.address) == Some(src) => Some(if matches!(p.what, What::Ind) { "indication" } else { "media" }), _ => None };
        let (bytes, authentic) = packet_bytes(&b, p, &mut tx_rng);
        let sk = match p.sock { Sk::Udp0 | Sk::Udp1 => "udp", Sk::Tcp => "tcp", Sk::Turn => "turn", Sk::Shared => "shared", Sk::Listener => "listener" };
        input.push_str(&format!(" pkt,{sk},{},{},{}", addr3(&env.local_addr_of(p.sock)), addr3(&src), hex(&bytes)));
        let before = outs.last().unwrap().clone();
        let fwd0 = *b.cap.0.lock();
        let t = b.transport.clone(); let w = env.wrapper(p.sock); let rt = &env.rt; let pk = bytes.clone();
        let r = if p.sock == Sk::Turn {
            // the TURN socket kind enters where the TURN read loop enters: `handle_turn_packet`, with the datagram as the
            // server relays it — ChannelData on the channel bound for that peer, or a Data indication
            let wrapped: Vec<u8> = if p.src % 4 < 2 { let ch = 0x4000u16 + (p.src % 4) as u16; let mut m = vec![(ch >> 8) as u8, ch as u8, (pk.len() >> 8) as u8, pk.len() as u8]; m.extend_from_slice(&pk); m }
                else { StunMessage { class: StunClass::Indication, method: StunMethod::Data, transaction_id: [5; 12], attributes: vec![StunAttribute::XorPeerAddress(src), StunAttribute::Data(pk.clone())] }.encode(None, true).unwrap() };
            let client = env.turn_client.clone(); let relayed = env.relayed;
            crate::catch(std::panic::AssertUnwindSafe(move || rt.block_on(t.verif_handle_turn_packet(&wrapped, &client, relayed))))
        } else { crate::catch(std::panic::AssertUnwindSafe(move || rt.block_on(t.verif_handle_packet(&pk, src, w)))) };
        let reply = env.reply(p.sock, p.src);
        let mut delivered = None;
        for (tx, rx) in b.pend.iter_mut() { if rx.try_recv().is_ok() { delivered = Some(*tx); } }
        let out = if r.is_err() { "panic".to_string() } else if *b.cap.0.lock() > fwd0 { "fwd".into() }
            else if let Some(rep) = &reply { format!("reply={}", hex(rep)) } else if let Some(tx) = delivered { format!("deliv={}", hex(&tx)) } else { "-".into() };
        let after = observe(&b.transport, out);
        if verbose { println!("pkt {:?} -> {}", p, after.text()); }
        // ---- the property's oracle, on the implementation only
        let role = if c.controlling { "controlling" } else { "controlled" };
        let is_req = matches!(p.what, What::Req { .. } | What::Raw { .. });
        if let (true, Some(false), false) = (is_req, authentic, c.webrtc) {
            // outside WebRTC mode unauthenticated probes are answered and learnt from by design, but since the fix "a STUN nomination
            // (USE-CANDIDATE) is honoured only when … in every transport mode" they never nominate (accepted TCP stream excepted)
            if p.sock != Sk::Tcp && (after.nom != before.nom || after.state != before.state) {
                run.fail(&format!("unauth:any-mode:{role}:{}", if after.nom != before.nom { "nomination-completed" } else { "state-changed" }), &c.text(), &format!("{} -> {}", before.text(), after.text())); }
            run.count("unauthenticated_request_in_rtp_mode_judged_for_nomination_only"); }
        if let (true, Some(false), true) = (is_req, authentic, c.webrtc) {
            if after.selsock != before.selsock { let vv: String = match &p.what { What::Req { user, mi, .. } => variant(*user, *mi).to_string(), What::Raw { layout, .. } => format!("malformed-{}", LAYOUTS[*layout as usize].0), _ => unreachable!() };
                run.fail(&format!("unauth:{vv}:{role}:selected-socket-changed"), &c.text(), &format!("{} -> {}", before.text(), after.text())); }
            let v: String = match &p.what { What::Req { user, mi, .. } => variant(*user, *mi).to_string(), What::Raw { layout, .. } => format!("malformed-{}", LAYOUTS[*layout as usize].0), _ => unreachable!() };
            let mut eff = vec![];
            if after.rems != before.rems { eff.push("candidate-added"); }
            if after.sel != before.sel { eff.push(if before.sel.is_some() { "selected-pair-changed" } else { "pair-selected" }); }
            if after.nom != before.nom { eff.push("nomination-completed"); }
            if after.state != before.state { eff.push("state-changed"); }
            for e in eff { run.fail(&format!("unauth:{v}:{role}:{e}"), &c.text(), &format!("{} -> {}", before.text(), after.text())); }
        }
        if let What::Resp { tx, .. } = &p.what {
            let was_pending = (*tx as usize) < b.pend.len() && before.pending.contains(&b.pend[*tx as usize].0);
            if delivered.is_some() && !was_pending { run.fail(&format!("response:honoured-without-pending-transaction:{role}"), &c.text(), &after.text()); }
            if was_pending && delivered.is_none() { run.fail(&format!("response:pending-transaction-not-completed:{role}"), &c.text(), &after.text()); }
            if was_pending && after.pending.contains(&b.pend[*tx as usize].0) { run.fail(&format!("response:transaction-not-consumed:{role}"), &c.text(), &after.text()); }
            if (after.rems.clone(), after.sel.clone(), after.nom, after.state) != (before.rems.clone(), before.sel.clone(), before.nom, before.state) {
                run.fail(&format!("response:changed-ice-state:{role}"), &c.text(), &after.text()); }
        }
        if matches!(p.what, What::Ind | What::Garbage(_) | What::Data(_)) && (after.rems.clone(), after.sel.clone(), after.nom, after.state, after.pending.clone()) != (before.rems.clone(), before.sel.clone(), before.nom, before.state, before.pending.clone()) {
            run.fail(&format!("non-request:changed-ice-state:{role}"), &c.text(), &after.text());
        }
        // reply well-formedness (reference crate): Binding success, same transaction id, XOR-MAPPED = source, MI under the local password, FINGERPRINT
        if let (Some(rep), What::Req { .. }) = (&reply, &p.what) { reply_oracle(run, c, rep, &bytes, src, &b.pwd); }
        if matches!(p.what, What::Req { .. }) && reply.is_none() && r.is_ok() && p.sock != Sk::Listener { run.count("request_without_observed_reply"); }
        if let What::Raw { layout, .. } = &p.what {
            // the credential check itself on the hand-laid-out datagram: implementation vs the layout's claim vs the model
            let (name, carries, must) = LAYOUTS[*layout as usize];
            let real = b.transport.verif_request_authenticated(&bytes);
            if real && !carries { run.fail(&format!("auth-check:accepts-forged-request:{name}"), &c.text(), &hex(&bytes)); }
            if let Some(m) = must { if real != m { run.fail(&format!("auth-check:{}:{name}", if real { "accepts-forged-request" } else { "rejects-genuine-request" }), &c.text(), &hex(&bytes)); } }
            run.case("codeauth", &format!("{} {} {}", hex(b.ufrag.as_bytes()), hex(b.pwd.as_bytes()), hex(&bytes)), &(real as u8).to_string(), real);
            run.count(&format!("layout_{name}_{}", if real { "accepted" } else { "rejected" }));
        } else if let Some(a) = authentic {
            // three-way: the real `stun_request_authenticated`, the generator's intent (= strict RFC reading), the model
            let real = b.transport.verif_request_authenticated(&bytes);
            if real != a { run.fail(&format!("auth-check:{}", if real { "accepts-forged-request" } else { "rejects-genuine-request" }), &c.text(), &hex(&bytes)); }
            run.case("auth", &format!("{} {} {}", hex(b.ufrag.as_bytes()), hex(b.pwd.as_bytes()), hex(&bytes)),
                &format!("request auth={} rfc={} uc={}", real as u8, a as u8, matches!(p.what, What::Req { uc: true, .. }) as u8), true); }
        outs.push(after);
    }
    let out = outs.iter().map(|o| o.text()).collect::<Vec<_>>().join(" ");
    let changed = outs.windows(2).any(|w| (w[0].state, &w[0].sel, w[0].nom, &w[0].rems, &w[0].pending) != (w[1].state, &w[1].sel, w[1].nom, &w[1].rems, &w[1].pending));
    run.case("run", &input, &out, changed);
    run.count(&format!("cases_{}_{}", if c.controlling { "controlling" } else { "controlled" }, STATE_NAMES[(c.state % 7) as usize]));
    for p in &c.pkts { run.count(&format!("pkt_{}", match &p.what { What::Req { user, mi, .. } => format!("req_{}", variant(*user, *mi).replace("bad-integrity", if *mi == Mi::Ok && *user == User::Ok { "authentic" } else { "bad-integrity" })),
        What::Resp { .. } => "resp".into(), What::Ind => "ind".into(), What::Garbage(_) => "garbage".into(), What::Empty => "empty".into(), What::Data(_) => "data".into(), What::Raw { .. } => "req_raw_layout".into(), What::Tick => "tick".into() })); }
    b.transport.stop();
    outs
}

fn crate_hash(s: &str) -> u64 { let mut h = 0xcbf29ce484222325u64; for b in s.bytes() { h ^= b as u64; h = h.wrapping_mul(0x100000001b3); } h }

fn reply_oracle(run: &mut Run, c: &Case, rep: &[u8], req: &[u8], src: SocketAddr, pwd: &str) {
    use stun::message::*;
    let mut m = Message::new();
    m.raw = rep.to_vec();
    if m.decode().is_err() { run.fail("reply:undecodable", &c.text(), &hex(rep)); return; }
    if m.typ != BINDING_SUCCESS { run.fail("reply:not-binding-success", &c.text(), &format!("{}", m.typ)); }
    if req.len() >= 20 && m.transaction_id.0 != req[8..20] { run.fail("reply:transaction-id", &c.text(), ""); }
    let mut x = stun::xoraddr::XorMappedAddress::default();
    if x.get_from_as(&m, stun::attributes::ATTR_XORMAPPED_ADDRESS).is_err() || x.ip != src.ip() || x.port != src.port() { run.fail("reply:xor-mapped-address", &c.text(), &format!("{}:{} vs {src}", x.ip, x.port)); }
    if stun::integrity::MessageIntegrity(pwd.as_bytes().to_vec()).check(&mut m).is_err() { run.fail("reply:message-integrity", &c.text(), ""); }
    if stun::fingerprint::FINGERPRINT.check(&m).is_err() { run.fail("reply:fingerprint", &c.text(), ""); }
}

// ---------------------------------------------------------------------------------------------

fn gen_what(rng: &mut Rng, pending: u8) -> What {
    match rng.below(20) {
        0..=10 => What::Req { user: { let k = rng.below(NEAR_USERS as u64) as u8; *rng.pick(&[User::None, User::Wrong, User::Ok, User::Ok, User::Ok, User::Near(k)]) },
            mi: { let k = rng.below(NEAR_KEYS as u64) as u8; let j = rng.below(20) as u8; *rng.pick(&[Mi::None, Mi::Corrupt, Mi::WrongKey, Mi::Ok, Mi::Ok, Mi::Ok, Mi::RemoteKey, Mi::NearKey(k), Mi::WrongByte(j)]) }, uc: rng.chance(1, 2), method: if rng.chance(1, 8) { rng.below(3) as u8 } else { 0 } },
        11..=14 => What::Resp { tx: if rng.chance(2, 3) && pending > 0 { rng.below(pending as u64) as u8 } else { 200 }, error: rng.chance(1, 3), method: if rng.chance(1, 6) { 1 } else { 0 } },
        15 => if rng.chance(1, 2) { What::Ind } else { What::Raw { layout: rng.below(LAYOUTS.len() as u64) as u8, uc: rng.chance(1, 2) } },
        16 => { let n = rng.range(1, 40) as usize; let mut g = rng.bytes(n); g[0] = rng.below(2) as u8; What::Garbage(g) }
        17 => if rng.chance(1, 2) { What::Empty } else { What::Tick },
        _ => { let n = rng.range(1, 30) as usize; let mut d = rng.bytes(n); if d[0] < 2 { d[0] = 128; } What::Data(d) }
    }
}

/// `IceGatherer::probe_stun` (server-reflexive gathering) against a scripted STUN server: only a Binding
/// success response carrying the probe's own transaction id may be honoured.
fn probe_cases(env: &mut Env, run: &mut Run, rng: &mut Rng, thorough: bool) {
    let server = env.rt.block_on(async { UdpSocket::bind("127.0.0.1:0").await.unwrap() });
    let server_addr = server.local_addr().unwrap();
    let variants = ["genuine", "other-transaction-id", "error-class", "other-method", "indication", "request-echo", "no-mapped-address", "flipped-id-bit", "right-id-from-other-ip"];
    let other_ip = env.rt.block_on(async { UdpSocket::bind("127.0.0.2:0").await.unwrap() });
    let n = if thorough { 40 } else { 6 };
    for round in 0..n { for (vi, v) in variants.iter().enumerate() {
        let (transport, _r) = IceTransport::new(rustrtc::RtcConfiguration::default());
        let before = transport.verif_registered_socket_count();
        let mapped: SocketAddr = format!("203.0.113.{}:{}", 1 + rng.below(250), 1024 + rng.below(60000)).parse().unwrap();
        let t = transport.clone();
        let (res, (req, reply)) = env.rt.block_on(async {
            let srv = async {
                let mut buf = [0u8; 2048];
                let Ok(Ok((n, from))) = tokio::time::timeout(Duration::from_secs(2), server.recv_from(&mut buf)).await else { return (vec![], vec![]) };
                let req = buf[..n].to_vec();
                let mut tx: [u8; 12] = req[8..20].try_into().unwrap();
                let (cls, meth) = match *v { "error-class" => (StunClass::ErrorResponse, StunMethod::Binding), "other-method" => (StunClass::SuccessResponse, StunMethod::Allocate),
                    "indication" => (StunClass::Indication, StunMethod::Binding), "request-echo" => (StunClass::Request, StunMethod::Binding), _ => (StunClass::SuccessResponse, StunMethod::Binding) };
                if *v == "other-transaction-id" { tx = [0x42; 12]; }
                if *v == "flipped-id-bit" { tx[11] ^= 1; }
                let attrs = if *v == "no-mapped-address" { vec![] } else { vec![StunAttribute::XorMappedAddress(mapped)] };
                let reply = StunMessage { class: cls, method: meth, transaction_id: tx, attributes: attrs }.encode(None, true).unwrap();
                if *v == "right-id-from-other-ip" { let _ = other_ip.send_to(&reply, from).await; } else { let _ = server.send_to(&reply, from).await; }
                (req, reply)
            };
            tokio::join!(t.verif_probe_stun(server_addr), srv)
        });
        if req.is_empty() { run.count("probe_request_not_seen"); continue; }
        let got = match &res { Ok(Some(c)) => format!("some {}", addr3(&c.address)), Ok(None) => "none".to_string(), Err(_) => "none".to_string() };
        let registered = transport.verif_registered_socket_count() > before;
        run.case("probe", &format!("{} {} {}", hex(&req[8..20]), hex(&reply), (*v != "right-id-from-other-ip") as u8), &got, got != "none");
        run.count(&format!("probe_{v}_{}", got.split(' ').next().unwrap()));
        let honoured = got != "none" || registered;
        if honoured && vi != 0 { run.fail(&format!("response:honoured-without-matching-transaction:probe-stun:{v}"), &format!("probe {v}"), &format!("{got} registered={registered}")); }
        if vi == 0 && (got != format!("some {}", addr3(&mapped)) || !registered) { run.fail("response:genuine-probe-response-not-honoured", &format!("probe {v}"), &got); }
        // the probe request itself (a message the agent composes): Binding request, SOFTWARE, FINGERPRINT, no credentials
        let mut m = stun::message::Message::new(); m.raw = req.clone();
        if m.decode().is_err() || m.typ != stun::message::BINDING_REQUEST || stun::fingerprint::FINGERPRINT.check(&m).is_err()
            || m.get(stun::attributes::ATTR_SOFTWARE).ok().as_deref() != Some(b"rustrtc") || m.contains(stun::attributes::ATTR_MESSAGE_INTEGRITY) {
            run.fail("probe-request:malformed", &format!("probe {v}"), &hex(&req)); }
        transport.stop();
        let _ = round;
    }}
}

/// `attach_demuxed_tcp_stream` (shared passive TCP listener): a new inbound connection whose first frame is an
/// UNAUTHENTICATED Binding request (the routing ufrag is public) must not touch candidates / pair / nomination /
/// state / published socket; an authenticated one may. What it does to the gatherer's stream table before
/// authentication is recorded as an observation (outside the effects the property names).
fn demux_tcp_cases(env: &mut Env, run: &mut Run) {
    for controlling in [false, true] { for state in [0u8, 1, 2, 5] { for first in ["unauth-no-mi", "unauth-wrong-key", "garbage", "genuine", "genuine-use-candidate"] { for with_genuine_before in [false, true] {
        let (transport, _r) = IceTransport::new(rustrtc::RtcConfiguration::default());
        transport.set_role(if controlling { IceRole::Controlling } else { IceRole::Controlled });
        transport.verif_set_state(STATES[state as usize]);
        let lp = transport.local_parameters();
        let mk = |user_ok: bool, key: Option<&[u8]>, uc: bool| { let mut attrs = vec![StunAttribute::Username(if user_ok { format!("{}:peer", lp.username_fragment) } else { "zzzz:peer".into() }), StunAttribute::Priority(1)];
            if uc { attrs.push(StunAttribute::UseCandidate); }
            StunMessage { class: StunClass::Request, method: StunMethod::Binding, transaction_id: [7; 12], attributes: attrs }.encode(key, true).unwrap() };
        let (listen_addr, conns) = env.rt.block_on(async {
            let l = TcpListener::bind("127.0.0.1:0").await.unwrap();
            let la = l.local_addr().unwrap();
            let mut v = vec![];
            for _ in 0..2 { let c = TcpStream::connect(la).await.unwrap(); let (s, p) = l.accept().await.unwrap(); v.push((c, s, p)); }
            (la, v)
        });
        transport.verif_add_local_candidate(IceCandidate::host_tcp(listen_addr, 1, TcpType::Passive));
        let mut conns = conns.into_iter();
        let mut keep = vec![];
        if with_genuine_before {
            let (c, srv, peer) = conns.next().unwrap();
            env.rt.block_on(transport.verif_attach_demuxed_tcp_stream(srv, peer, listen_addr, mk(true, Some(lp.password.as_bytes()), true)));
            keep.push(c);
        }
        let before = observe(&transport, "-".into());
        let streams_before = transport.verif_tcp_streams();
        let (c, srv, peer) = conns.next().unwrap();
        let pkt = match first { "unauth-no-mi" => mk(true, None, true), "unauth-wrong-key" => mk(true, Some(b"nope"), true), "garbage" => vec![0, 1, 2, 3],
            "genuine" => mk(true, Some(lp.password.as_bytes()), false), _ => mk(true, Some(lp.password.as_bytes()), true) };
        let t = transport.clone(); let rt = &env.rt;
        let r = crate::catch(std::panic::AssertUnwindSafe(move || rt.block_on(t.verif_attach_demuxed_tcp_stream(srv, peer, listen_addr, pkt))));
        keep.push(c);
        let after = observe(&transport, "-".into());
        let streams_after = transport.verif_tcp_streams();
        let role = if controlling { "controlling" } else { "controlled" };
        let case = format!("demux-tcp role={role} state={} first={first} genuine-before={with_genuine_before}", STATE_NAMES[state as usize]);
        if r.is_err() { run.fail("unauth:demux-tcp:panic", &case, ""); }
        if !first.starts_with("genuine") {
            let field = if after.state != before.state { "state-changed" } else if after.nom != before.nom { "nomination-completed" } else if after.sel != before.sel { "selected-pair-changed" }
                else if after.rems != before.rems { "candidate-added" } else if after.selsock != before.selsock { "selected-socket-changed" } else { "" };
            if !field.is_empty() { run.fail(&format!("unauth:demux-tcp-first-frame:{role}:{field}"), &case, &format!("{} -> {}", before.text(), after.text())); }
            if streams_after != streams_before { run.count("observation_unauthenticated_tcp_connection_registered_before_authentication");
                // known finding (not one of the four named effects): the table is keyed by the listen address, the newest connection wins
                if with_genuine_before { run.fail("preauth:tcp-stream-table:attach-demuxed:genuine-stream-replaced-by-unauthenticated-connection", &case, &format!("{streams_before:?} -> {streams_after:?}")); } }
        } else if !controlling && after.nom != Some(true) { run.fail("demux-tcp:genuine-first-frame-not-honoured", &case, &after.text()); }
        run.count(&format!("demux_tcp_{first}"));
        transport.stop();
        drop(keep);
    }}}}
}

/// `run_tcp_listen_loop` (the accept loop of a passive ICE-TCP candidate, hook `verif_run_tcp_listen_loop`): a
/// connection is stored under the listener key and handed to the runner before a single byte is read. Oracle:
/// a mere TCP connect (optionally followed by an unauthenticated request nobody has read yet) changes none of
/// state / nomination / selected pair / remote candidates / selected socket. Known finding: it REPLACES the
/// stream of a genuine, nominated peer in the table, after which `resolve_socket` (used by the keepalive tick and by
/// the selection after the checks) hands out the stranger's connection.
fn listen_loop_cases(env: &mut Env, run: &mut Run) {
    use tokio::io::{AsyncReadExt, AsyncWriteExt};
    for controlling in [false, true] { for state in [1u8, 2, 5] { for with_genuine_before in [false, true] { for sends in ["nothing", "unauth-request"] {
        let (transport, _r) = IceTransport::new(rustrtc::RtcConfiguration::default());
        transport.set_role(if controlling { IceRole::Controlling } else { IceRole::Controlled });
        transport.set_remote_parameters(rustrtc::transports::ice::IceParameters::new(REMOTE_UFRAG, REMOTE_PWD));
        transport.verif_set_state(STATES[state as usize]);
        let role = if controlling { "controlling" } else { "controlled" };
        let case = format!("tcp-accept role={role} state={} sends={sends} genuine-before={with_genuine_before}", STATE_NAMES[state as usize]);
        let t = transport.clone();
        let (before, after, streams_before, streams_after, keepalive_to, nudged) = env.rt.block_on(async {
            let l = Arc::new(TcpListener::bind("127.0.0.1:0").await.unwrap());
            let la = l.local_addr().unwrap();
            let lc = IceCandidate::host_tcp(la, 1, TcpType::Passive);
            t.verif_add_local_candidate(lc.clone());
            let t2 = t.clone();
            let work = async {
                let mut genuine = None;
                if with_genuine_before {
                    let g = TcpStream::connect(la).await.unwrap();
                    tokio::time::sleep(Duration::from_millis(20)).await;
                    // the genuine peer has been nominated on this connection: remote candidate, selected pair, nomination complete
                    let rc = IceCandidate::host_tcp(g.local_addr().unwrap(), 1, TcpType::Active);
                    t.verif_add_remote_candidate_quiet(rc.clone());
                    t.verif_set_selected_pair(Some(IceCandidatePair::new(lc.clone(), rc)));
                    t.verif_set_nomination_complete(Some(true));
                    genuine = Some(g);
                }
                let before = observe(&t, "-".into());
                let streams_before = t.verif_tcp_streams();
                let mut x = TcpStream::connect(la).await.unwrap();
                if sends == "unauth-request" {
                    let m = StunMessage { class: StunClass::Request, method: StunMethod::Binding, transaction_id: [3; 12],
                        attributes: vec![StunAttribute::Username("zzzz:peer".into()), StunAttribute::Priority(1), StunAttribute::UseCandidate] }.encode(Some(b"nope"), true).unwrap();
                    let mut framed = (m.len() as u16).to_be_bytes().to_vec(); framed.extend_from_slice(&m);
                    let _ = x.write_all(&framed).await;
                }
                tokio::time::sleep(Duration::from_millis(20)).await;
                let after = observe(&t, "-".into());
                let streams_after = t.verif_tcp_streams();
                // `nudge_passive_tcp_nomination` (called by PeerConnection whenever ICE is Connected / Completed): with only the
                // stranger's connection in the table it must not complete nomination or publish that connection
                let mut nudged = None;
                if !with_genuine_before {
                    let b4 = observe(&t, "-".into());
                    t.nudge_passive_tcp_nomination();
                    tokio::time::sleep(Duration::from_millis(25)).await;
                    nudged = Some((b4, observe(&t, "-".into())));
                }
                // where does the keepalive for the selected (genuine) peer go now?
                let mut keepalive_to = "-";
                if with_genuine_before && matches!(STATES[state as usize], IceTransportState::Connected | IceTransportState::Disconnected) {
                    t.verif_run_keepalive_tick().await;
                    let mut buf = [0u8; 512];
                    let gx = tokio::time::timeout(Duration::from_millis(30), genuine.as_mut().unwrap().read(&mut buf)).await.map(|r| r.unwrap_or(0)).unwrap_or(0);
                    let xx = tokio::time::timeout(Duration::from_millis(30), x.read(&mut buf)).await.map(|r| r.unwrap_or(0)).unwrap_or(0);
                    keepalive_to = if xx > 0 { "unauthenticated-connection" } else if gx > 0 { "genuine-connection" } else { "nowhere" };
                }
                drop(genuine);
                (before, after, streams_before, streams_after, keepalive_to, nudged)
            };
            tokio::select! { biased; r = work => r, _ = t2.verif_run_tcp_listen_loop(l.clone()) => unreachable!("listen loop ended") }
        });
        let field = if after.state != before.state { "state-changed" } else if after.nom != before.nom { "nomination-completed" } else if after.sel != before.sel { "selected-pair-changed" }
            else if after.rems != before.rems { "candidate-added" } else if after.selsock != before.selsock { "selected-socket-changed" } else { "" };
        if !field.is_empty() { run.fail(&format!("unauth:tcp-accept:{role}:{field}"), &case, &format!("{} -> {}", before.text(), after.text())); }
        if let Some((b4, aft)) = nudged {
            let f = if aft.state != b4.state { "state-changed" } else if aft.nom != b4.nom { "nomination-completed" } else if aft.sel != b4.sel { "selected-pair-changed" }
                else if aft.rems != b4.rems { "candidate-added" } else if aft.selsock != b4.selsock { "selected-socket-changed" } else { "" };
            if !f.is_empty() { run.fail(&format!("unauth:tcp-accept-then-nudge:{role}:{f}"), &case, &format!("{} -> {}", b4.text(), aft.text())); }
            run.count("tcp_accept_nudge_cases");
        }
        if streams_after == streams_before { run.count("tcp_accept_not_registered"); } else { run.count("observation_unauthenticated_tcp_connection_registered_before_authentication"); }
        if with_genuine_before && streams_after != streams_before { run.fail("preauth:tcp-stream-table:listen-loop:genuine-stream-replaced-by-unauthenticated-connection", &case, &format!("{streams_before:?} -> {streams_after:?}")); }
        if keepalive_to == "unauthenticated-connection" { run.fail("preauth:tcp-stream-table:listen-loop:keepalive-for-the-selected-peer-sent-to-unauthenticated-connection", &case, ""); }
        run.count(&format!("tcp_accept_keepalive_to_{keepalive_to}"));
        transport.stop();
    }}}}
}

fn gen_tick_case(rng: &mut Rng) -> Case {
    // Connected / Disconnected transports with a selected pair, datagrams of all kinds interleaved with ticks
    let mut c = gen_case(rng);
    c.state = *rng.pick(&[2u8, 5, 5, 2, 3, 4]);
    c.locals |= 1; c.remotes |= 1;
    if rng.chance(4, 5) { c.selected = Some((0, 0)); }
    let n = rng.range(2, 6) as usize;
    c.pkts = (0..n).map(|i| if i % 2 == 1 || rng.chance(1, 3) { Pkt { sock: Sk::Udp0, src: 0, what: What::Tick } }
        else { let sock = *rng.pick(&[Sk::Udp0, Sk::Udp0, Sk::Udp1, Sk::Tcp, Sk::Turn]); Pkt { sock, src: rng.below(4) as u8, what: gen_what(rng, c.pending) } }).collect();
    c
}

fn gen_case(rng: &mut Rng) -> Case {
    let pending = rng.below(3) as u8;
    let locals = (rng.below(32) as u8) | if rng.chance(3, 4) { 1 } else { 0 };
    let remotes = rng.below(32) as u8;
    let nloc = locals.count_ones() as u8; let nrem = (remotes & 15).count_ones() as u8;
    let selected = if nloc > 0 && nrem > 0 && rng.chance(1, 2) { Some((rng.below(nloc as u64) as u8, rng.below(nrem as u64) as u8)) } else { None };
    let n = rng.range(1, 4) as usize;
    let pkts = (0..n).map(|_| { let sock = *rng.pick(&[Sk::Udp0, Sk::Udp0, Sk::Udp0, Sk::Udp1, Sk::Tcp, Sk::Turn, Sk::Shared, Sk::Listener]); Pkt { sock, src: rng.below(4) as u8, what: gen_what(rng, pending) } }).collect();
    Case { controlling: rng.chance(1, 2), state: rng.below(7) as u8, latching: rng.chance(1, 4), nominated: rng.chance(1, 4), webrtc: rng.chance(4, 5), tmo: rng.chance(1, 4) as u8, rp: rng.chance(1, 3), locals, remotes, selected, pending, pkts }
}

/// `verify_message_integrity`, `username_from_stun_bytes`, `peer_ufrag_from_binding_request` and
/// `stun_request_authenticated` on structurally valid, mutated and malformed datagrams vs the model.
fn raw_auth_stream(env: &mut Env, run: &mut Run, rng: &mut Rng, thorough: bool) {
    use super::c16::msg::{A, Spec, gen_ref_spec, rng_tx, utf8_of_len};
    use rustrtc::verif_hooks::ice::inbound;
    let (transport, _r) = IceTransport::new(rustrtc::RtcConfiguration::default());
    let lp = transport.local_parameters();
    let (uf, pw) = (lp.username_fragment.clone(), lp.password.clone());
    let n = if thorough { 60_000 } else { 5_000 };
    for i in 0..n {
        let mut s: Spec = gen_ref_spec(rng);
        s.attrs.retain(|a| !matches!(a, A::Unk(..)));
        if rng.chance(3, 4) { s.cls = 0; }
        if rng.chance(3, 4) { s.method = 0; }
        let uname = match rng.below(8) { 0 => None, 1 => Some(format!("{uf}x:peer")), 2 => Some(uf.clone()), 3 => Some(format!(":{uf}")), 4 => Some(format!("peer:{uf}")),
            5 => { let k = rng.below(20) as usize; Some(utf8_of_len(rng, k)) } _ => Some(format!("{uf}:{}", { let k = rng.below(12) as usize; utf8_of_len(rng, k) })) };
        s.attrs.retain(|a| !matches!(a, A::Un(_)) || rng.chance(1, 6));
        if let Some(u) = uname { let pos = rng.below(s.attrs.len() as u64 + 1) as usize; s.attrs.insert(pos, A::Un(u)); }
        s.key = match rng.below(5) { 0 => None, 1 => Some(b"wrong".to_vec()), _ => Some(pw.as_bytes().to_vec()) };
        s.tx = rng_tx(rng);
        let mut bytes = s.encode_reference();
        match rng.below(12) {
            0 => { let i = rng.below(bytes.len() as u64) as usize; bytes[i] ^= 1 << rng.below(8); }
            1 => { let k = rng.below(8) as usize + 1; let l = bytes.len(); bytes.truncate(l.saturating_sub(k)); }
            2 => { let extra = rng.below(9) as usize; let e = rng.bytes(extra); bytes.extend_from_slice(&e); let nl = (bytes.len() - 20) as u16; bytes[2..4].copy_from_slice(&nl.to_be_bytes()); }
            3 => { if bytes.len() > 24 { bytes[22..24].copy_from_slice(&(*rng.pick(&[0u16, 1, 19, 20, 21, 0xffff])).to_be_bytes()); } }
            4 => { let k = rng.below(24) as usize; bytes = rng.bytes(k); }
            _ => {}
        }
        let _ = i;
        let key = if rng.chance(4, 5) { pw.as_bytes().to_vec() } else { b"wrong".to_vec() };
        let t = transport.clone(); let by = bytes.clone(); let k2 = key.clone();
        match crate::catch(std::panic::AssertUnwindSafe(move || (rustrtc::transports::ice::stun::verify_message_integrity(&by, &k2), inbound::username_from_stun_bytes(&by),
            inbound::peer_ufrag_from_binding_request(&by), t.verif_request_authenticated(&by)))) {
            Ok((vmi, un, pu, auth)) => {
                run.case("vmi", &format!("{} {}", hex(&key), hex(&bytes)), &(vmi as u8).to_string(), vmi);
                let o = |x: &Option<String>| x.as_ref().map(|s| format!("s{}", hex(s.as_bytes()))).unwrap_or_else(|| "n".into());
                run.case("uname", &hex(&bytes), &format!("{} {}", o(&un), o(&pu)), un.is_some());
                run.case("codeauth", &format!("{} {} {}", hex(uf.as_bytes()), hex(pw.as_bytes()), hex(&bytes)), &(auth as u8).to_string(), auth);
                run.count(&format!("raw_auth_{}", auth as u8));
            }
            Err(p) => { run.fail("auth-check:panic", &format!("raw {}", hex(&bytes)), &p); }
        }
    }
    let _ = env;
    transport.stop();
}

pub fn run(args: &Args) {
    let mut env = Env::new();
    if let Some(case) = &args.replay {
        let c = Case::parse(case).expect("bad case text");
        let mut run = Run::new("c06", &crate::scratch("c06-replay"));
        exec(&mut env, &mut run, &c, true);
        for f in &run.fails { println!("ORACLE-FAIL {} {}", f.signature, f.detail); }
        if run.fails.is_empty() { println!("no oracle failure"); }
        return;
    }
    let mut run = Run::new("c06", &args.out);
    let mut rng = Rng::new(args.seed);
    let mut cases: Vec<Case> = vec![];
    let base = |controlling: bool, state: u8| Case { controlling, state, latching: false, nominated: false, webrtc: true, tmo: 0, rp: false, locals: 0b11101, remotes: 0, selected: None, pending: 1, pkts: vec![] };
    // (1) exhaustive request matrix: user x mi x uc x known/unknown source x ALL SEVEN states x role x socket kind, one packet each
    for controlling in [false, true] { for state in 0..7u8 { for sock in [Sk::Udp0, Sk::Tcp, Sk::Turn, Sk::Shared, Sk::Listener] { for known in [false, true] {
        for user in [User::None, User::Wrong, User::Ok] { for mi in [Mi::None, Mi::Corrupt, Mi::WrongKey, Mi::Ok, Mi::RemoteKey] { for uc in [false, true] {
            if state >= 3 && !(sock == Sk::Udp0 || sock == Sk::Tcp) { continue; }
            let remotes = if !known { 0 } else if sock == Sk::Tcp { 8 } else { 1 };
            cases.push(Case { remotes, rp: mi == Mi::RemoteKey || uc, pkts: vec![Pkt { sock, src: 0, what: What::Req { user, mi, uc, method: 0 } }], ..base(controlling, state) });
        }}}
    }}}}
    // the CLASSES "key other than the local password" / "username other than <ufrag>:…": every near-miss key with the right
    // USERNAME, every near-miss USERNAME with the right key, x ±USE-CANDIDATE x role x {New, Checking, Disconnected} x {UDP, TCP}
    for controlling in [false, true] { for state in [0u8, 1, 5] { for sock in [Sk::Udp0, Sk::Tcp] { for uc in [false, true] {
        let remotes = if sock == Sk::Tcp { 8 } else { 1 };
        for k in 0..NEAR_KEYS { cases.push(Case { remotes, rp: uc, pkts: vec![Pkt { sock, src: 0, what: What::Req { user: User::Ok, mi: Mi::NearKey(k), uc, method: 0 } }], ..base(controlling, state) }); }
        for k in 0..NEAR_USERS { cases.push(Case { remotes, rp: uc, pkts: vec![Pkt { sock, src: 0, what: What::Req { user: User::Near(k), mi: Mi::Ok, uc, method: 0 } }], ..base(controlling, state) }); }
        if state != 1 { for k in 0..20u8 { cases.push(Case { remotes, rp: uc, pkts: vec![Pkt { sock, src: 0, what: What::Req { user: User::Ok, mi: Mi::WrongByte(k), uc, method: 0 } }], ..base(controlling, state) }); } }
    }}}}
    run.count_n("exhaustive_request_matrix", cases.len() as u64);
    // malformed / unusual credential layouts x ±USE-CANDIDATE x roles x states x known/unknown source x {UDP, accepted TCP stream}
    let n0 = cases.len();
    for layout in 0..LAYOUTS.len() as u8 { for uc in [false, true] { for controlling in [false, true] { for state in [0u8, 1, 2, 5] { for known in [false, true] { for sock in [Sk::Udp0, Sk::Tcp] {
        let remotes = if !known { 0 } else if sock == Sk::Tcp { 8 } else { 1 };
        cases.push(Case { remotes, pkts: vec![Pkt { sock, src: 0, what: What::Raw { layout, uc } }], ..base(controlling, state) });
    }}}}}}
    run.count_n("exhaustive_malformed_credential_layouts", (cases.len() - n0) as u64);
    // liveness: {Connected, Disconnected} x fresh/aged x timeout kind x every kind of datagram followed by a keepalive tick
    let n0 = cases.len();
    for controlling in [false, true] { for state in [2u8, 5] { for tmo in [0u8, 1] { for rp in [false, true] { for webrtc in [true, false] { for sel in [None, Some((0u8, 0u8))] {
        let whats = [None, Some(What::Req { user: User::None, mi: Mi::None, uc: false, method: 0 }), Some(What::Req { user: User::Ok, mi: Mi::WrongKey, uc: true, method: 0 }),
            Some(What::Req { user: User::Ok, mi: Mi::RemoteKey, uc: false, method: 0 }), Some(What::Req { user: User::Ok, mi: Mi::Ok, uc: false, method: 0 }),
            Some(What::Raw { layout: 0, uc: true }), Some(What::Resp { tx: 0, error: false, method: 0 }), Some(What::Resp { tx: 200, error: false, method: 0 }),
            Some(What::Ind), Some(What::Garbage(vec![0, 1, 2, 3])), Some(What::Empty), Some(What::Data(vec![0x80, 1, 2, 3]))];
        for w in whats { for src in [0u8, 1] { for sock in [Sk::Udp0, Sk::Turn, Sk::Tcp] {
            if sock != Sk::Udp0 && (tmo == 1 || !webrtc) { continue; }
            if sock == Sk::Tcp && src == 1 { continue; }
            let mut pkts = vec![];
            if let Some(w) = w.clone() { pkts.push(Pkt { sock, src, what: w }); }
            pkts.push(Pkt { sock: Sk::Udp0, src: 0, what: What::Tick });
            pkts.push(Pkt { sock: Sk::Udp0, src: 0, what: What::Tick });
            cases.push(Case { webrtc, tmo, rp, locals: match sock { Sk::Turn => 0b01001, Sk::Tcp => 0b00101, _ => 0b00001 }, remotes: 1, selected: sel, pkts, ..base(controlling, state) });
        }}}
    }}}}}}
    run.count_n("exhaustive_liveness_tick_matrix", (cases.len() - n0) as u64);
    // responses: solicited / unsolicited / replayed, success / error, all roles and states
    for controlling in [false, true] { for state in 0..7u8 { for error in [false, true] { for tx in [0u8, 1, 200] { for sock in [Sk::Udp0, Sk::Turn] {
        let r = Pkt { sock, src: 1, what: What::Resp { tx, error, method: 0 } };
        cases.push(Case { locals: 0b1001, remotes: 2, pending: 2, pkts: vec![r.clone(), r.clone(), r], ..base(controlling, state) });
    }}}}}
    // latching and re-nomination corners
    for webrtc in [true, false] { for controlling in [false, true] { for nominated in [false, true] { for uc in [false, true] { for user in [User::None, User::Ok] {
        cases.push(Case { latching: true, nominated, webrtc, locals: 0b0011, remotes: 0b10011, selected: Some((0, 0)), pending: 0,
            pkts: vec![Pkt { sock: Sk::Udp0, src: 1, what: What::Req { user, mi: if user == User::Ok { Mi::Ok } else { Mi::None }, uc, method: 0 } },
                       Pkt { sock: Sk::Udp1, src: 3, what: What::Req { user, mi: Mi::None, uc, method: 0 } }], ..base(controlling, 2) });
    }}}}}
    // the pre-fix witness in RTP mode (where unauthenticated probes are by design still honoured)
    cases.push(Case { webrtc: false, locals: 0b0001, pending: 0, pkts: vec![Pkt { sock: Sk::Udp0, src: 0, what: What::Req { user: User::None, mi: Mi::None, uc: true, method: 0 } }], ..base(false, 0) });
    // (2) random multi-packet cases, with and without ticks
    let n = if args.tier_thorough { 40_000 } else { 2_500 };
    for i in 0..n { cases.push(if i % 3 == 0 { gen_tick_case(&mut rng) } else { gen_case(&mut rng) }); }
    // transports are built per batch and aged AGE_MS of real time before use
    while !cases.is_empty() {
        let rest = cases.split_off(cases.len().min(6000));
        let batch = std::mem::replace(&mut cases, rest);
        run_batch(&mut env, &mut run, batch, false);
    }
    raw_auth_stream(&mut env, &mut run, &mut rng, args.tier_thorough);
    probe_cases(&mut env, &mut run, &mut rng, args.tier_thorough);
    demux_tcp_cases(&mut env, &mut run);
    listen_loop_cases(&mut env, &mut run);
    run.exhaustive = true;
    run.notes.insert("exhaustive_scope".into(), serde_json::json!("request matrix USERNAME{none,wrong,correct} x MESSAGE-INTEGRITY{none,corrupted,wrong-key,correct,remote-password} x ±USE-CANDIDATE x known/unknown source x all 7 transport states x {controlled,controlling} x {UDP, shared UDP mux, TCP listener, accepted TCP stream, TURN relay}; 28 malformed credential layouts; liveness matrix {Connected,Disconnected} x timeouts x remote-params x mode x selected pair x 12 datagram kinds x 2 sources followed by two keepalive ticks; responses {pending, second pending, unknown id} x {success,error} x 3 repetitions x roles x states"));
    run.finish();
}
