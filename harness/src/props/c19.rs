//! C19 — inbound RTP reaches only the right receiver; bridged streams stay continuous.
//! `demux` stream: registration sets × packet sequences on a real `RtpTransport` (listener channels
//! observed after every packet, registry compared through the H6 snapshot hook after every op).
//! `bridge` stream: rule tables × interleaved source streams through a real rewrite bridge whose
//! targets' `IceConn`s point at loopback capture sockets.
use super::c14::net::Net;
use crate::{Args, Rng, Run, hex};
use bytes::Bytes;
use rustrtc::rtp::{RtpHeader, RtpHeaderExtension, RtpPacket};
use rustrtc::transports::PacketReceiver;
use rustrtc::transports::ice::IceSocketWrapper;
use rustrtc::transports::ice::conn::IceConn;
use rustrtc::transports::rtp::{RtpRewriteBridgeOptions, RtpRewriteRule, RtpTransport, VerifRegistrySnapshot};
use std::collections::{BTreeMap, HashSet};
use std::net::SocketAddr;
use std::sync::Arc;
use tokio::sync::{mpsc, watch};

type Chan = (RtpPacket, SocketAddr);

// ---------------------------------------------------------------------------------------------
// demux

#[derive(Clone, Debug, PartialEq)]
pub enum DOp {
    Ssrc(u32, usize),
    Rid(String, usize),
    Mid(String, usize),
    Pts(Vec<u8>, usize),
    Pt(u8, usize),
    Prov(usize),
    Close(usize),
    RidExt(u8),
    MidExt(u8),
    Clear,
    /// harness-side: fill listener `l`'s channel to capacity and stop draining it (`try_send` → `Full`)
    Fill(usize),
    /// harness-side: drain listener `l`'s channel again
    Drain(usize),
    Pkt { ssrc: u32, pt: u8, ext: Option<(u16, Vec<u8>)> },
}

fn dop_text(op: &DOp) -> String {
    match op {
        DOp::Ssrc(s, l) => format!("s,{s},{l}"),
        DOp::Rid(r, l) => format!("r,{},{l}", hex(r.as_bytes())),
        DOp::Mid(m, l) => format!("m,{},{l}", hex(m.as_bytes())),
        DOp::Pts(p, l) => format!("P,{},{l}", if p.is_empty() { "-".into() } else { p.iter().map(|x| x.to_string()).collect::<Vec<_>>().join(".") }),
        DOp::Pt(p, l) => format!("p,{p},{l}"),
        DOp::Prov(l) => format!("v,{l}"),
        DOp::Close(l) => format!("x,{l}"),
        DOp::RidExt(i) => format!("er,{i}"),
        DOp::MidExt(i) => format!("em,{i}"),
        DOp::Clear => "c".into(),
        DOp::Fill(l) => format!("f,{l}"),
        DOp::Drain(l) => format!("u,{l}"),
        DOp::Pkt { ssrc, pt, ext } => match ext {
            None => format!("k,{ssrc},{pt},-,-"),
            Some((p, d)) => format!("k,{ssrc},{pt},{p},{}", hex(d)),
        },
    }
}

pub const NL: usize = 4;

/// op line of a case: a packet that arrives while some listener channels are full carries their list (an INPUT of the model)
fn case_text(ops: &[DOp]) -> String {
    let mut filled = [false; NL];
    let mut out = vec![];
    for op in ops {
        match op {
            DOp::Fill(l) => filled[*l] = true,
            DOp::Drain(l) => filled[*l] = false,
            _ => {}
        }
        let mut t = dop_text(op);
        if let DOp::Pkt { .. } = op { if filled.iter().any(|f| *f) {
            t.push_str(&format!(",{}", (0..NL).filter(|l| filled[*l]).map(|l| l.to_string()).collect::<Vec<_>>().join(".")));
        } }
        out.push(t);
    }
    out.join(" ")
}

fn snap_text(s: &VerifRegistrySnapshot) -> String {
    let a: Vec<String> = s.by_ssrc.iter().map(|(k, v)| format!("{k}:{v}")).collect();
    let hx = |m: &Vec<(String, usize)>| {
        let mut v: Vec<(String, usize)> = m.iter().map(|(k, l)| (hex(k.as_bytes()), *l)).collect();
        v.sort();
        v.iter().map(|(k, l)| format!("{k}:{l}")).collect::<Vec<_>>().join(";")
    };
    let t: Vec<String> = s.routes.iter().map(|(m, p, l, pr)| format!("{}/{}/{l}/{}",
        match m { None => "~".to_string(), Some(m) => hex(m.as_bytes()) },
        if p.is_empty() { "-".into() } else { p.iter().map(|x| x.to_string()).collect::<Vec<_>>().join(".") },
        *pr as u8)).collect();
    format!("S{}|R{}|M{}|T{}|W{}", a.join(";"), hx(&s.by_rid), hx(&s.by_mid), t.join(";"), s.ssrc_sweep_at)
}

/// one-byte-header (0xBEDE) element scan written from RFC 8285 §4.2 for the oracle (not from the code)
fn rfc8285_one_byte(data: &[u8], id: u8) -> Option<Vec<u8>> {
    let mut i = 0;
    while i < data.len() {
        let b = data[i];
        if b == 0 { i += 1; continue; }
        let (eid, len) = (b >> 4, (b & 15) as usize + 1);
        if eid == 15 { return None; }
        if i + 1 + len > data.len() { return None; }
        if eid == id { return Some(data[i + 1..i + 1 + len].to_vec()); }
        i += 1 + len;
    }
    None
}

/// every element of a one-byte-header block lies inside the block (RFC 8285 §4.2)
fn bede_well_formed(data: &[u8]) -> bool {
    let mut i = 0;
    while i < data.len() {
        let b = data[i];
        if b == 0 { i += 1; continue; }
        if b >> 4 == 15 { return true; }
        let len = (b & 15) as usize + 1;
        if i + 1 + len > data.len() { return false; }
        i += 1 + len;
    }
    true
}

/// two-byte-header (0x1000) element scan written from RFC 8285 §4.3
fn rfc8285_two_byte(data: &[u8], id: u8) -> Option<Vec<u8>> {
    let mut i = 0;
    while i < data.len() {
        if data[i] == 0 { i += 1; continue; }
        if i + 1 >= data.len() { return None; }
        let (eid, len) = (data[i], data[i + 1] as usize);
        if i + 2 + len > data.len() { return None; }
        if eid == id { return Some(data[i + 2..i + 2 + len].to_vec()); }
        i += 2 + len;
    }
    None
}
fn ext_value(ext: &Option<(u16, Vec<u8>)>, id: u8) -> Option<String> {
    if id == 0 { return None; }
    let (p, d) = ext.as_ref()?;
    // two-byte headers: 0x100 in the upper 12 bits, the low 4 'appbits' are to be ignored (RFC 8285 §4.3)
    let raw = match *p { 0xBEDE => rfc8285_one_byte(d, id), x if x & 0xFFF0 == 0x1000 => rfc8285_two_byte(d, id), _ => None };
    raw.and_then(|b| String::from_utf8(b).ok())
}

pub struct DOut { pub lines: Vec<String>, pub fails: Vec<(String, String)>, pub delivered: u32, pub routed_by_ext: u32 }

/// Execute a demux case on a real transport.
pub async fn dexec(ops: &[DOp]) -> DOut {
    let (_tx, rx) = watch::channel(None::<IceSocketWrapper>);
    let conn = IceConn::new(rx, "127.0.0.1:9".parse().unwrap(), None);
    let tr = RtpTransport::new(conn, false);
    let mut txs = vec![];
    let mut rxs: Vec<Option<mpsc::Receiver<Chan>>> = vec![];
    for _ in 0..NL { let (t, r) = mpsc::channel::<Chan>(2); txs.push(t); rxs.push(Some(r)); }
    let addr: SocketAddr = "127.0.0.1:4000".parse().unwrap();
    let mut mb = Vec::new();
    let mut lines = vec![];
    let mut fails = vec![];
    let (mut delivered, mut routed_by_ext) = (0, 0);
    // the harness' own record of what the application registered (for the property oracle)
    let mut registered: [bool; NL] = [false; NL];
    let mut section: [Option<String>; NL] = Default::default();      // last MID a listener registered under
    let mut mid_owner: BTreeMap<String, usize> = BTreeMap::new();     // MID → listener (last registration wins)
    let mut rid_owner: BTreeMap<String, usize> = BTreeMap::new();
    let (mut rid_ext, mut mid_ext) = (0u8, 0u8);
    let mut cleared_since: [bool; NL] = [true; NL];
    let mut pts_of: [Vec<u8>; NL] = Default::default();             // payload types a listener registered
    let mut prov_of: [bool; NL] = [false; NL];
    // SSRCs the application registered explicitly (register_listener_sync) and that no extension-routed packet has touched since
    let mut ssrc_owner: BTreeMap<u32, usize> = BTreeMap::new();
    // SSRC → (receiver, by which extension) its most recent extension-carrying packet was identified AND delivered to; forgotten on
    // any re-registration of that SSRC, clear_listeners, the receiver closing, or an extension-carrying packet that was not so delivered
    let mut identified: BTreeMap<u32, (usize, &'static str)> = BTreeMap::new();
    let mut filled = [false; NL];   // channels the harness has filled to capacity and does not drain
    let mut has_rid = [false; NL];  // listeners that registered a RID (layer listeners when they have no MID of their own)
    let mut seq = 0u16;
    for (i, op) in ops.iter().enumerate() {
        let mut res = "-".to_string();
        match op {
            DOp::Ssrc(s, l) => { tr.register_listener_sync(*s, txs[*l].clone()); registered[*l] = true; cleared_since[*l] = false; ssrc_owner.insert(*s, *l); identified.remove(s); }
            DOp::Rid(r, l) => { tr.register_rid_listener(r.clone(), txs[*l].clone()); registered[*l] = true; cleared_since[*l] = false; rid_owner.insert(r.clone(), *l); has_rid[*l] = true; }
            DOp::Mid(m, l) => { tr.register_mid_listener(m.clone(), txs[*l].clone()); registered[*l] = true; cleared_since[*l] = false; section[*l] = Some(m.clone()); mid_owner.insert(m.clone(), *l); }
            DOp::Pts(p, l) => { tr.register_payload_list_listener(p.clone(), txs[*l].clone()); registered[*l] = true; cleared_since[*l] = false; pts_of[*l] = p.clone(); }
            DOp::Pt(p, l) => { tr.register_pt_listener(*p, txs[*l].clone()); registered[*l] = true; cleared_since[*l] = false; pts_of[*l].push(*p); }
            DOp::Prov(l) => { tr.register_provisional_listener(txs[*l].clone()); registered[*l] = true; cleared_since[*l] = false; prov_of[*l] = true; }
            DOp::Close(l) => { rxs[*l] = None; identified.retain(|_, v| v.0 != *l); }
            DOp::RidExt(x) => { tr.set_rid_extension_id(if *x == 0 { None } else { Some(*x) }); rid_ext = *x; }
            DOp::MidExt(x) => { tr.set_sdes_mid_extension_id(if *x == 0 { None } else { Some(*x) }); mid_ext = *x; }
            DOp::Clear => { res = format!("n{}", tr.clear_listeners()); cleared_since = [true; NL]; rid_owner.clear(); mid_owner.clear(); section = Default::default(); pts_of = Default::default(); prov_of = [false; NL]; ssrc_owner.clear(); identified.clear(); has_rid = [false; NL]; }
            DOp::Fill(l) => {
                if !filled[*l] {
                    let dummy = || (RtpPacket::new(RtpHeader::new(0, 0, 0, 0), vec![0xfe, 0xfe, 0xfe]), addr);
                    while txs[*l].try_send(dummy()).is_ok() {}
                    filled[*l] = true;
                }
            }
            DOp::Drain(l) => {
                if filled[*l] {
                    if let Some(rx) = rxs[*l].as_mut() { while let Ok((p, _)) = rx.try_recv() {
                        if p.payload.as_ref() != [0xfe, 0xfe, 0xfe] { fails.push(("demux:packet-queued-on-full-channel".into(), format!("step {i}: listener {l}"))); }
                    } }
                    filled[*l] = false;
                }
            }
            DOp::Pkt { ssrc, pt, ext } => {
                seq = seq.wrapping_add(1);
                let pre = tr.verif_registry_snapshot(&txs);
                let mut h = RtpHeader::new(*pt, seq, 160 * seq as u32, *ssrc);
                if let Some((p, d)) = ext { h.extension = Some(RtpHeaderExtension::new(*p, d.clone())); }
                let bytes = RtpPacket::new(h, vec![i as u8, 0xab]).marshal().unwrap();
                tr.receive(Bytes::from(bytes), addr, &mut mb).await;
                let mut got = vec![];
                for l in 0..NL { if filled[l] { continue; } if let Some(rx) = rxs[l].as_mut() { while let Ok((p, _)) = rx.try_recv() { got.push((l, p)); } } }
                res = match got.len() { 0 => "0".into(), 1 => format!("d{}", got[0].0), n => format!("multi{n}") };
                // ---- property oracle (written from the property text and RFC 8843/8285, not from the code)
                if got.len() > 1 { fails.push(("demux:delivered-to-more-than-one".into(), format!("step {i}: {:?}", got.iter().map(|g| g.0).collect::<Vec<_>>()))); }
                let mid_val = ext_value(ext, mid_ext);
                let rid_val = ext_value(ext, rid_ext);
                let live_mid_owner = mid_val.as_ref().and_then(|m| mid_owner.get(m).copied()).filter(|o| rxs[*o].is_some());
                let rid_named = rid_val.as_ref().and_then(|r| rid_owner.get(r).copied());
                // SSRC bindings learnt from this packet: only its own SSRC, only to its receiver, and only when the
                // packet was routed by RID, MID or a payload type the receiver registered (never the provisional fallback)
                let post = tr.verif_registry_snapshot(&txs);
                for (s, l) in post.by_ssrc.iter().filter(|e| !pre.by_ssrc.contains(e)) {
                    let routed = *l < NL && (rid_named == Some(*l) || live_mid_owner == Some(*l) || pts_of[*l].contains(pt));
                    let to_receiver = (got.len() == 1 && got[0].0 == *l) || (got.is_empty() && *l < NL && filled[*l] && rxs[*l].is_some()); // selected, lost only to a full channel
                    if *s != *ssrc || !to_receiver { fails.push(("bind:ssrc-bound-to-other-than-receiver".into(), format!("step {i}: {s}->{l}"))); }
                    else if !routed { fails.push(("bind:ssrc-learnt-from-unrouted-packet".into(), format!("step {i}: {s}->{l} learnt from a packet routed by SSRC/provisional fallback"))); }
                }
                // a full channel costs the packet, never a registration: "… the one identified by SSRC" must keep holding for the
                // packets that follow, so an OPEN listener whose channel is merely full keeps every map entry and route
                for l in 0..NL { if filled[l] && rxs[l].is_some() {
                    let lost = pre.by_ssrc.iter().any(|e| e.1 == l && e.0 != *ssrc && !post.by_ssrc.contains(e))
                        || pre.by_rid.iter().any(|e| e.1 == l && !post.by_rid.contains(e))
                        || pre.by_mid.iter().any(|e| e.1 == l && !post.by_mid.contains(e))
                        || pre.routes.iter().any(|rt| rt.2 == l && !post.routes.iter().any(|q| q.2 == l && q.0 == rt.0));
                    if lost { fails.push(("demux:full-channel-unregisters-open-listener".into(), format!("step {i}: listener {l}'s channel is full (open); registry before {} after {}", snap_text(&pre), snap_text(&post)))); }
                } }
                // ghost: listeners 2 and 3 stand for simulcast-layer listeners of receivers 0 and 1 (separate channels
                // that never register a MID themselves, as in peer_connection.rs); their media section is their parent's
                let section_of = |l: usize| -> Option<String> { section[l].clone().or_else(|| if l >= 2 && has_rid[l] { section[l - 2].clone() } else { None }) };
                // "the one identified by its RID or MID header extension, else by SSRC … dropped rather than handed to a receiver of
                // another media section": once a packet of an SSRC has been identified by extension as receiver B's, a later
                // extension-less packet of that SSRC is B's stream too — it must not be handed to a receiver of another section
                if rid_val.is_none() && mid_val.is_none() {
                    if let Some((b, how)) = identified.get(ssrc).copied() {
                        for (l, _) in &got {
                            if *l != b { if let (Some(sb), Some(sl)) = (section_of(b), section_of(*l)) { if sb != sl {
                                fails.push((format!("cross:ssrc-binding-stale-after-{how}-hit"), format!("step {i}: SSRC {ssrc} was identified by {how} as listener {b}'s (section {sb:?}); the extension-less packet is handed to listener {l} of section {sl:?}")));
                            } } }
                        }
                    }
                } else {
                    let hit = if got.len() == 1 && rid_named == Some(got[0].0) { Some((got[0].0, "rid")) }
                        else if got.len() == 1 && live_mid_owner == Some(got[0].0) { Some((got[0].0, "mid")) } else { None };
                    match hit { Some(h) => { identified.insert(*ssrc, h); } None => { identified.remove(ssrc); } }
                }
                // "… else by SSRC": a packet without RID / MID value whose SSRC the application registered for an OPEN listener
                // reaches exactly that listener — whatever sweeping of closed bindings happened in between
                if rid_val.is_none() && mid_val.is_none() {
                    if let Some(a) = ssrc_owner.get(ssrc).copied() {
                        if rxs[a].is_none() { ssrc_owner.remove(ssrc); }
                        else if !(got.len() == 1 && got[0].0 == a) && !(filled[a] && got.is_empty()) {
                            fails.push(("demux:registered-ssrc-not-delivered-to-its-listener".into(), format!("step {i}: SSRC {ssrc} was registered for open listener {a}, packet went to {:?}", got.iter().map(|g| g.0).collect::<Vec<_>>())));
                        }
                    }
                } else { ssrc_owner.remove(ssrc); } // an extension-routed packet may legitimately re-bind (or, on a closed listener, unbind) this SSRC
                // "… else by SSRC": an unregistered MID does not stop the chain — a packet whose SSRC is bound to an open
                // receiver that registered for NO section must still reach it (no over-dropping)
                if got.is_empty() && rid_named.is_none() && live_mid_owner.is_none() {
                    if let (Some(m), Some((_, a))) = (&mid_val, pre.by_ssrc.iter().find(|e| e.0 == *ssrc)) {
                        if !mid_owner.contains_key(m) && *a < NL && rxs[*a].is_some() && !filled[*a] && section[*a].is_none() && rid_val.as_ref().map(|r| !rid_owner.contains_key(r)).unwrap_or(true) {
                            fails.push(("demux:unregistered-mid-blocks-ssrc-bound-receiver".into(), format!("step {i}: MID {m:?} is registered by nobody, SSRC {ssrc} is bound to open listener {a} (no section), packet dropped")));
                        }
                    }
                }
                for (l, p) in &got {
                    let by_ext = rid_named == Some(*l) || live_mid_owner == Some(*l);
                    let known_ssrc = pre.by_ssrc.iter().any(|e| e.0 == *ssrc);
                    // "else by SSRC, else by an unambiguous payload type": an SSRC bound to an open listener A and no
                    // RID / MID registration naming anybody ⇒ the receiver is A (stage order)
                    if rid_named.is_none() && live_mid_owner.is_none() {
                        if let Some((_, a)) = pre.by_ssrc.iter().find(|e| e.0 == *ssrc) {
                            if *a < NL && rxs[*a].is_some() && a != l && mid_val.as_ref().map(|m| !mid_owner.contains_key(m)).unwrap_or(true) && rid_val.as_ref().map(|r| !rid_owner.contains_key(r)).unwrap_or(true) {
                                fails.push(("demux:ssrc-bound-but-delivered-elsewhere".into(), format!("step {i}: SSRC {ssrc} is bound to open listener {a}, packet handed to {l}")));
                            }
                        }
                    }
                    // "else by an unambiguous payload type … dropped": two open listeners registered this payload type, the
                    // SSRC is unknown and no extension names the receiver → the property drops the packet; the code's
                    // provisional fallback hands it to the single provisional listener (known finding), anything else is new
                    let claimants = (0..NL).filter(|o| rxs[*o].is_some() && pts_of[*o].contains(pt)).count();
                    // the packet was identified by nothing the property's chain knows (no RID/MID owner, unknown SSRC, and
                    // the payload type does not single out the receiver): it can only have come through the code's fifth
                    // stage, the provisional fallback
                    let via_provisional = !by_ext && !known_ssrc && !(claimants == 1 && pts_of[*l].contains(pt));
                    if via_provisional {
                        let open_provisional = (0..NL).filter(|o| rxs[*o].is_some() && prov_of[*o]).count();
                        if claimants == 1 {
                            // exactly ONE open listener registered this payload type and it is not the receiver: the packet WAS
                            // identified by an unambiguous payload type and went elsewhere
                            fails.push(("demux:unique-pt-owner-bypassed".into(), format!("step {i}: pt {pt} is registered by exactly one open listener, packet handed to {l}")));
                        } else if !prov_of[*l] {
                            let sig = if claimants >= 2 { "demux:ambiguous-payload-type-delivered" } else { "demux:unidentified-packet-delivered" };
                            fails.push((sig.into(), format!("step {i}: pt {pt} registered by {claimants} open listeners, handed to {l}, which is not a provisional listener")));
                        } else if open_provisional > 1 {
                            // the fallback is for THE single provisional listener
                            fails.push(("demux:ambiguous-provisional-delivered".into(), format!("step {i}: {open_provisional} open provisional listeners, packet handed to {l}")));
                        } else if claimants >= 2 {
                            // known deviation: ambiguous payload type → the single provisional listener (the property drops it)
                            fails.push(("demux:ambiguous-pt-falls-to-provisional:single-provisional".into(), format!("step {i}: pt {pt} registered by {claimants} open listeners, handed to {l}")));
                        } else {
                            // known deviation: a packet nothing identifies → the single provisional listener (the property drops it)
                            fails.push(("demux:unidentified-packet-to-provisional:single-provisional".into(), format!("step {i}: pt {pt}, ssrc {ssrc} handed to {l}")));
                        }
                    }
                    delivered += 1;
                    if p.header.ssrc != *ssrc || p.header.payload_type != *pt { fails.push(("demux:delivered-packet-altered".into(), format!("step {i}"))); }
                    if !registered[*l] { fails.push(("demux:delivered-to-unregistered-listener".into(), format!("step {i}: listener {l} never registered"))); }
                    else if cleared_since[*l] { fails.push(("demux:delivered-after-clear-listeners".into(), format!("step {i}: listener {l} was cleared and has not registered again"))); }
                    if let Some(m) = &mid_val {
                        routed_by_ext += 1;
                        // the packet names its media section; the receiver's section (if it has one) must be that one
                        // (a MID whose registering listener has gone away counts as unregistered)
                        let live_owner = mid_owner.get(m).copied().filter(|o| rxs[*o].is_some());
                        let rid_hit = rid_val.as_ref().and_then(|r| rid_owner.get(r)) == Some(l);
                        // RID routing: the receiver's section is its own or, for a layer listener, its parent's (ghost).
                        // Later stages after an UNREGISTERED MID: the receiver must not have registered for another
                        // section itself (what the transport can know: the MID on its own route).
                        let sec = if rid_hit { section_of(*l) } else { section[*l].clone() };
                        if let Some(sec) = sec { if &sec != m && live_owner != Some(*l) {
                            let sig = if rid_hit { "cross:rid-overrides-mid".to_string() }
                                else if live_owner.is_none() {
                                    // which later stage caught the packet, and whether it taught the registry the SSRC
                                    let via = if pre.by_ssrc.iter().any(|e| e.0 == *ssrc && e.1 == *l) { "via-ssrc" }
                                        else if pts_of[*l].contains(pt) { "via-pt" } else if prov_of[*l] { "via-provisional" } else { "via-unknown" };
                                    let rebinds = post.by_ssrc.iter().any(|e| e.0 == *ssrc && e.1 == *l) && !pre.by_ssrc.iter().any(|e| e.0 == *ssrc && e.1 == *l);
                                    format!("cross:mid-unregistered-falls-through:{via}{}", if rebinds { ":binds-ssrc" } else { "" })
                                }
                                else { "cross:mid-registered-misdelivered".to_string() };
                            fails.push((sig, format!("step {i}: packet MID {m:?} handed to listener {l} of section {sec:?}")));
                        } }
                    }
                }
            }
        }
        let snap = tr.verif_registry_snapshot(&txs);
        lines.push(format!("{res}|{}", snap_text(&snap)));
    }
    DOut { lines, fails, delivered, routed_by_ext }
}

async fn demit(run: &mut Run, ops: &[DOp]) {
    let out = dexec(ops).await;
    let input = case_text(ops);
    run.case("demux", &input, &out.lines.join(" "), out.delivered > 0);
    if out.delivered > 0 { run.count("demux_cases_with_delivery"); }
    if out.routed_by_ext > 0 { run.count("demux_cases_routed_packet_with_mid"); }
    for (s, d) in out.fails { run.fail(&s, &format!("demux {input}"), &d); }
}

const S: [u32; 3] = [0x1111, 0x2222, 0x3333];

fn bede(elems: &[(u8, &[u8])]) -> (u16, Vec<u8>) {
    let mut d = vec![];
    for (id, v) in elems { d.push((id << 4) | (v.len() as u8 - 1)); d.extend_from_slice(v); }
    while d.len() % 4 != 0 { d.push(0); }
    (0xBEDE, d)
}

/// the 9-item registration pool of the exhaustive scope (MID ext id 3, RID ext id 4).  It contains the shape
/// peer_connection.rs produces — a receiver registering provisional + MID + payload types on ONE channel
/// (listener 0), a second receiver (listener 1), and their simulcast-layer listeners (2 → receiver 0,
/// 3 → receiver 1) registering the SAME RID on separate channels without a MID.
pub const NPOOL: usize = 9;
fn pool_item(k: usize) -> DOp {
    match k {
        0 => DOp::Ssrc(S[0], 0),
        1 => DOp::Rid("a".into(), 2),
        2 => DOp::Mid("0".into(), 0),
        3 => DOp::Mid("1".into(), 1),
        4 => DOp::Pts(vec![96, 97], 0),
        5 => DOp::Pts(vec![97, 98], 1),
        6 => DOp::Prov(2),
        7 => DOp::Prov(0),
        _ => DOp::Rid("a".into(), 3),
    }
}
/// the 13-packet alphabet (NPKT)
fn alpha_pkt(k: usize) -> DOp {
    let p = |ssrc: u32, pt: u8, ext: Option<(u16, Vec<u8>)>| DOp::Pkt { ssrc, pt, ext };
    match k {
        0 => p(S[0], 96, None),
        1 => p(S[1], 96, None),
        2 => p(S[1], 97, None),
        3 => p(S[2], 98, None),
        4 => p(S[2], 99, None),
        5 => p(S[1], 98, Some(bede(&[(3, b"0")]))),            // MID of listener 0, PT of listener 1
        6 => p(S[2], 96, Some(bede(&[(3, b"1")]))),            // MID of listener 1, PT of listener 0
        7 => p(S[1], 96, Some(bede(&[(3, b"9")]))),            // unknown MID
        8 => p(S[2], 99, Some(bede(&[(4, b"a")]))),            // known RID
        9 => p(S[0], 98, Some(bede(&[(3, b"1"), (4, b"a")]))), // MID 1 and RID a, SSRC of listener 0
        10 => p(S[1], 97, Some(bede(&[(3, &[0xff, 0xfe])]))),  // non-UTF-8 MID
        11 => p(S[2], 97, Some(bede(&[(4, b"zz")]))),          // unknown RID
        _ => p(S[1], 98, Some((0x1003, vec![3, 1, b'0', 0]))),  // MID "0" in a two-byte header with appbits 3
    }
}
pub const NPKT: usize = 13;

fn rand_dop(rng: &mut Rng) -> DOp {
    let l = rng.below(NL as u64) as usize;
    let name = |rng: &mut Rng| rng.pick(&["0", "1", "2", "a", "b", "hi", "é"]).to_string();
    match rng.below(100) {
        0..=5 => DOp::Ssrc(*rng.pick(&S), l),
        6..=10 => DOp::Rid(name(rng), l),
        11..=18 => DOp::Mid(name(rng), l),
        19..=24 => { let n = rng.below(4) as usize; DOp::Pts((0..n).map(|_| *rng.pick(&[96u8, 97, 98, 99, 96])).collect(), l) }
        25..=28 => DOp::Pt(*rng.pick(&[96u8, 97, 98, 99]), l),
        29..=34 => DOp::Prov(l),
        35..=39 => DOp::Close(l),
        40..=42 => DOp::RidExt(*rng.pick(&[0u8, 4, 4, 5, 20])),
        43..=46 => DOp::MidExt(*rng.pick(&[0u8, 3, 3, 5, 20])),
        47..=48 => DOp::Clear,
        49..=50 => DOp::Fill(l),
        51..=52 => DOp::Drain(l),
        _ => {
            let ssrc = if rng.chance(9, 10) { *rng.pick(&S) } else { rng.next() as u32 };
            let pt = *rng.pick(&[96u8, 97, 98, 99, 0, 127]);
            let ext = match rng.below(10) {
                0..=2 => None,
                3..=6 => { // well-formed one-byte elements
                    let n = rng.range(1, 3);
                    let mut el: Vec<(u8, Vec<u8>)> = vec![];
                    for _ in 0..n {
                        let id = *rng.pick(&[3u8, 4, 5, 1, 14]);
                        let v: Vec<u8> = if rng.chance(4, 5) { name(rng).into_bytes() } else { let n = rng.range(1, 16) as usize; rng.bytes(n) };
                        el.push((id, v));
                    }
                    let el2: Vec<(u8, &[u8])> = el.iter().map(|(i, v)| (*i, v.as_slice())).collect();
                    Some(bede(&el2))
                }
                7 => { // two-byte header profile
                    let mut d = vec![];
                    for _ in 0..rng.range(1, 3) { let v = name(rng).into_bytes(); d.push(*rng.pick(&[3u8, 4, 20])); d.push(v.len() as u8); d.extend(v); }
                    if rng.chance(1, 4) { d.push(3); d.push(200); } // length running past the end
                    while d.len() % 4 != 0 { d.push(0); }
                    Some((*rng.pick(&[0x1000u16, 0x1000, 0x1005, 0x100F]), d))
                }
                8 => { let n = 4 * rng.range(0, 5) as usize; Some((*rng.pick(&[0xBEDEu16, 0x1000, 0x1007, 0x1234, 0x1010]), rng.bytes(n))) } // arbitrary bytes
                _ => { // truncated / reserved-id element
                    let mut d = vec![(3 << 4) | 7, b'0']; if rng.chance(1, 2) { d = vec![0xf0, 0x30, 0x30, 0x30]; }
                    while d.len() % 4 != 0 { d.push(0); }
                    Some((0xBEDE, d))
                }
            };
            DOp::Pkt { ssrc, pt, ext }
        }
    }
}

// ---------------------------------------------------------------------------------------------
// bridge

#[derive(Clone, Debug)]
pub struct BRule { mp: Option<u8>, fixed: Option<u32>, off: u32, op: Option<u8>, mid_ext: Option<u8>, mid: Option<String> }
#[derive(Clone, Debug)]
pub struct BCfg { strip: bool, init_seq: Option<u16>, init_off: Option<u32>, init_out: Option<u32>, has_video: bool, vpts: Vec<u8>, rules: Vec<BRule>,
    /// > 0: the audio target is a MANDATORY-SRTP transport that gets its keys only before packet `hold` — the
    /// pushes of earlier audio packets are refused after the rewrite (sequence numbers consumed, nothing sent)
    hold: usize,
    /// Some: the bridge is installed through the legacy `bridge_rewrite_to(dst, params)` API
    legacy: Option<Legacy>,
    /// > 0: the same bridge is installed AGAIN before packet `reinstall` (a new `RewriteBridge`: every stream starts over)
    reinstall: usize }
#[derive(Clone, Debug)]
pub struct Legacy { off: u32, fixed: Option<u32>, pt: Option<u8>, dtmf: Option<(u8, u8)> }
#[derive(Clone, Debug)]
pub struct BPkt { ssrc: u32, pt: u8, seq: u16, ts: u32, marker: bool, ext: Option<(u16, Vec<u8>)> }

fn o<T: ToString>(x: &Option<T>) -> String { x.as_ref().map(|v| v.to_string()).unwrap_or("-".into()) }

fn bcfg_text(c: &BCfg) -> String {
    if let Some(l) = &c.legacy {
        return format!("params,{},{},{},{},{},{},{}", l.off, o(&l.fixed), o(&l.pt), l.dtmf.map(|(a, b)| format!("{a}.{b}")).unwrap_or("-".into()),
            o(&c.init_seq), o(&c.init_off), c.strip as u8);
    }
    let mut s = format!("cfg,{},{},{},{},{},{}", c.strip as u8, o(&c.init_seq), o(&c.init_off), o(&c.init_out), c.has_video as u8,
        if c.vpts.is_empty() { "-".into() } else { c.vpts.iter().map(|x| x.to_string()).collect::<Vec<_>>().join(".") });
    for r in &c.rules {
        s.push_str(&format!(" rule,{},{},{},{},{},{}", o(&r.mp), o(&r.fixed), r.off, o(&r.op), o(&r.mid_ext),
            r.mid.as_ref().map(|m| hex(m.as_bytes())).unwrap_or("~".into())));
    }
    s
}
fn pkt_fields(p: &RtpPacket) -> String {
    let e = match &p.header.extension { None => "-,-".to_string(), Some(e) => format!("{},{}", e.profile, hex(&e.data)) };
    format!("{},{},{},{},{},{}", p.header.ssrc, p.header.payload_type, p.header.sequence_number, p.header.timestamp, p.header.marker as u8, e)
}

pub struct BOut { pub tokens: Vec<String>, pub outs: Vec<String>, pub fails: Vec<(String, String)>, pub unstable: bool, pub rebased: bool, pub wrapped: bool }

pub async fn bexec(net: &Net, c: &BCfg, pkts: &[BPkt]) -> BOut {
    let src = RtpTransport::new(net.conn(0), false);
    let dst_a = Arc::new(RtpTransport::new(net.conn(1), c.hold > 0));
    let dst_v = Arc::new(RtpTransport::new(net.conn(2), false));
    let install = || {
        let rules: Vec<RtpRewriteRule> = c.rules.iter().map(|r| RtpRewriteRule { match_payload_type: r.mp, fixed_out_ssrc: r.fixed, ssrc_offset: r.off,
            out_payload_type: r.op, sdes_mid_extension_id: r.mid_ext, sdes_mid: r.mid.clone() }).collect();
        let opts = RtpRewriteBridgeOptions { strip_extensions: c.strip, initial_sequence_number: c.init_seq, initial_timestamp_offset: c.init_off, initial_output_timestamp: c.init_out };
        if let Some(l) = &c.legacy {
            src.bridge_rewrite_to(dst_a.clone(), rustrtc::RtpRewriteBridgeParams { ssrc_offset: l.off, fixed_out_ssrc: l.fixed, payload_type: l.pt, dtmf_payload_type: l.dtmf,
                initial_sequence_number: c.init_seq, initial_timestamp_offset: c.init_off, strip_extensions: c.strip });
        } else {
            src.bridge_rewrite_rules_to_with_video(dst_a.clone(), if c.has_video { Some(dst_v.clone()) } else { None }, c.vpts.iter().copied().collect::<HashSet<u8>>(), opts, rules);
        }
    };
    install();
    let to_video = |pt: u8| c.legacy.is_none() && c.has_video && c.vpts.contains(&pt);
    let addr: SocketAddr = "127.0.0.1:4000".parse().unwrap();
    let mut mb = Vec::new();
    let mut unstable = false;
    for i in 1..3 { if !net.poll(i).is_empty() { unstable = true; } }
    let mut tokens = vec![];
    let mut known: HashSet<u32> = HashSet::new();
    // long cases: empty the capture sockets every 64 packets (the kernel's receive buffer holds only a few hundred datagrams)
    let mut raw: [Vec<Vec<u8>>; 3] = Default::default();
    for (i, p) in pkts.iter().enumerate() {
        if i > 0 && i % 64 == 0 { for ci in 1..3 { raw[ci].extend(net.drain(ci)); } }
        if c.hold > 0 && i == c.hold { dst_a.start_srtp(super::c14::session(10)); }
        if c.reinstall > 0 && i == c.reinstall { install(); known.clear(); tokens.push("reset".into()); }
        let mut h = RtpHeader::new(p.pt, p.seq, p.ts, p.ssrc);
        h.marker = p.marker;
        if let Some((pr, d)) = &p.ext { h.extension = Some(RtpHeaderExtension::new(*pr, d.clone())); }
        let bytes = RtpPacket::new(h, (i as u32).to_be_bytes().to_vec()).marshal().unwrap();
        src.receive(Bytes::from(bytes), addr, &mut mb).await;
        // the two random draws of a newly created stream, read back from the state (external call → parameter)
        let (mut ra, mut rb) = (0u16, 0u32);
        if known.insert(p.ssrc) && (c.init_seq.is_none() || c.init_off.is_none()) {
            let snap = src.verif_registry_snapshot(&[]);
            if let Some(s) = snap.bridge_streams.iter().find(|s| s.0 == p.ssrc) { ra = s.2.wrapping_sub(1); rb = s.4; }
        }
        let e = match &p.ext { None => "-,-".to_string(), Some((pr, d)) => format!("{pr},{}", hex(d)) };
        let refused = c.hold > 0 && i < c.hold && !to_video(p.pt);
        tokens.push(format!("k,{},{},{},{},{},{e},{ra},{rb}{}", p.ssrc, p.pt, p.seq, p.ts, p.marker as u8, if refused { ",0" } else { "" }));
    }
    // collect the forwarded packets from both targets, ordered by the input index carried in the payload
    let mut got: BTreeMap<u32, Vec<(char, RtpPacket)>> = BTreeMap::new();
    for (ci, tag) in [(1usize, 'a'), (2usize, 'v')] {
        // a mandatory audio target emits SRTP: recover the plaintext with a receiving rustrtc session keyed with the
        // target's tx keys (stateful: follows the ROC across the 65535 → 0 wrap; the reference crate's header parser
        // panics on the malformed extension blocks that legitimately pass through the bridge)
        let mut dec = if ci == 1 && c.hold > 0 {
            let (k, sa) = super::c14::keyset(10, 0);
            Some(rustrtc::srtp::SrtpSession::new(rustrtc::srtp::SrtpProfile::Aes128Sha1_80, rustrtc::srtp::SrtpKeyingMaterial::new(k.clone(), sa.clone()), rustrtc::srtp::SrtpKeyingMaterial::new(k, sa)).unwrap())
        } else { None };
        let mut all = std::mem::take(&mut raw[ci]);
        all.extend(net.drain(ci));
        for b in all {
            let b = match dec.as_mut() {
                Some(d) => match rustrtc::srtp::SrtpPacket::parse(bytes::BytesMut::from(&b[..])).ok().and_then(|sp| d.unprotect_rtp(sp).ok()).and_then(|p| p.marshal().ok()) {
                    Some(pt) => pt,
                    None => { got.entry(u32::MAX - 1).or_default().push((tag, RtpPacket::new(RtpHeader::new(0, 0, 0, 0), vec![]))); continue; } },
                None => b };
            match RtpPacket::parse(&b) {
                Ok(p) if p.payload.len() == 4 => { let i = u32::from_be_bytes([p.payload[0], p.payload[1], p.payload[2], p.payload[3]]); got.entry(i).or_default().push((tag, p)); }
                _ => { got.entry(u32::MAX).or_default().push((tag, RtpPacket::new(RtpHeader::new(0, 0, 0, 0), vec![]))); }
            }
        }
    }
    if !net.poll(0).is_empty() { unstable = true; }
    let mut outs = vec![];
    let mut fails = vec![];
    // ---- property oracle on the implementation's output (independent bookkeeping per source stream)
    struct Track { out_ssrc: u32, base_seq: u16, base_count: u32, last_in_ts: u32, last_out_ts: u32, pts: BTreeMap<u8, u8>, stale: bool }
    let mut stale_new: HashSet<u32> = HashSet::new();
    // per source: timestamp of the last IN-ORDER packet (first packet, or not older than the previous in-order one) — kept for
    // refused packets too — and its output timestamp when that packet was seen on the wire
    let mut anchors: BTreeMap<u32, (u32, Option<u32>)> = BTreeMap::new();
    let mut consumed: BTreeMap<u32, u32> = BTreeMap::new(); // packets of each source rewritten so far (sent or refused)
    let mut tracks: BTreeMap<u32, Track> = BTreeMap::new();
    let (mut rebased, mut wrapped) = (false, false);
    for (i, p) in pkts.iter().enumerate() {
        if c.reinstall > 0 && i == c.reinstall { tracks.clear(); consumed.clear(); anchors.clear(); stale_new.clear(); } // a new bridge: every stream's life starts over
        let nth = { let e = consumed.entry(p.ssrc).or_insert(0); *e += 1; *e - 1 };
        let refused = c.hold > 0 && i < c.hold && !to_video(p.pt);
        match got.get(&(i as u32)) {
            None if refused => {
                outs.push("drop".into());
                // the refused packet still advanced the stream's state; its output timestamp is unobservable
                if tracks.get(&p.ssrc).is_none() { stale_new.insert(p.ssrc); }
                let inorder = anchors.get(&p.ssrc).map(|a| p.ts.wrapping_sub(a.0) < 0x8000_0000).unwrap_or(true);
                if inorder { anchors.insert(p.ssrc, (p.ts, None)); }
            }
            Some(_) if refused => { outs.push("emitted".into()); fails.push(("bridge:refused-push-emitted".into(), format!("packet {i} reached a mandatory target that had no keys"))); }
            Some(v) if v.len() == 1 => {
                let (tag, q) = &v[0];
                outs.push(format!("{tag}:{}", pkt_fields(q)));
                let want_video = to_video(p.pt);
                if (*tag == 'v') != want_video { fails.push(("bridge:wrong-target".into(), format!("packet {i} pt {} went to {tag}", p.pt))); }
                match tracks.get_mut(&p.ssrc) {
                    None => {
                        // the stream's numbering starts at the configured initial value with the source's FIRST packet, sent or not
                        if let Some(s0) = c.init_seq { if q.header.sequence_number != s0.wrapping_add(nth as u16) { fails.push(("bridge:first-seq-not-initial".into(), format!("packet {i}: {} != {s0} + {nth}", q.header.sequence_number))); } }
                        // a new stream carries the SSRC its first packet's rule prescribes
                        if nth == 0 {
                            let r0 = c.rules.iter().find(|r| r.mp == Some(p.pt)).or_else(|| c.rules.iter().find(|r| r.mp.is_none()));
                            let want = match (&c.legacy, r0) { (Some(l), _) => l.fixed.unwrap_or(p.ssrc.wrapping_add(l.off)), (None, Some(r)) => r.fixed.unwrap_or(p.ssrc.wrapping_add(r.off)), (None, None) => p.ssrc };
                            if q.header.ssrc != want { fails.push(("bridge:output-ssrc-not-per-rule".into(), format!("packet {i}: source {} → {}, the matched rule prescribes {want}", p.ssrc, q.header.ssrc))); }
                        }
                        if nth == 0 && !stale_new.contains(&p.ssrc) {
                            if let Some(t0) = c.init_out { if q.header.timestamp != t0 { fails.push(("bridge:first-ts-not-pinned".into(), format!("packet {i}"))); } }
                            else if let Some(off) = c.init_off { if q.header.timestamp != p.ts.wrapping_add(off) { fails.push(("bridge:first-ts-not-initial-offset".into(), format!("packet {i}"))); } }
                        }
                        let mut pts = BTreeMap::new(); pts.insert(p.pt, q.header.payload_type);
                        tracks.insert(p.ssrc, Track { out_ssrc: q.header.ssrc, base_seq: q.header.sequence_number, base_count: nth, last_in_ts: p.ts, last_out_ts: q.header.timestamp, pts, stale: false });
                    }
                    Some(t) => {
                        if q.header.ssrc != t.out_ssrc { fails.push(("bridge:output-ssrc-not-stable".into(), format!("packet {i}: source {} mapped to {} then {}", p.ssrc, t.out_ssrc, q.header.ssrc))); }
                        // consecutive in arrival order: gaps exactly where a push was refused after the rewrite
                        let want_seq = t.base_seq.wrapping_add((nth - t.base_count) as u16);
                        if q.header.sequence_number != want_seq { fails.push(("bridge:seq-not-consecutive".into(), format!("packet {i}: {} instead of {want_seq}", q.header.sequence_number))); }
                        if q.header.sequence_number == 0 { wrapped = true; }
                        let e = t.pts.entry(p.pt).or_insert(q.header.payload_type);
                        if *e != q.header.payload_type { fails.push(("bridge:output-pt-not-stable".into(), format!("packet {i}"))); }
                        let _ = (t.last_in_ts, t.last_out_ts, t.stale);
                    }
                }
                // timestamps: relative to the source's last in-order packet, the output difference equals the source difference —
                // for in-order steps up to the discontinuity threshold and for late packets alike
                let anchor = anchors.get(&p.ssrc).copied();
                let inorder = anchor.map(|a| p.ts.wrapping_sub(a.0) < 0x8000_0000).unwrap_or(true);
                if let Some((ai, Some(ao))) = anchor {
                    let delta = p.ts.wrapping_sub(ai);
                    if !inorder || delta <= 900_000 {
                        if q.header.timestamp.wrapping_sub(ao) != delta { fails.push(("bridge:ts-delta-not-preserved".into(), format!("packet {i}{}: source delta {delta}, output delta {}", if inorder { "" } else { " (late packet)" }, q.header.timestamp.wrapping_sub(ao)))); }
                    } else { rebased = true; }
                }
                if inorder { anchors.insert(p.ssrc, (p.ts, Some(q.header.timestamp))); }
                // per-rule payload type
                let rule = c.rules.iter().find(|r| r.mp == Some(p.pt)).or_else(|| c.rules.iter().find(|r| r.mp.is_none()));
                let want_pt = match &c.legacy {
                    Some(l) => match l.dtmf { Some((a, b)) if a == p.pt => b, _ => l.pt.unwrap_or(p.pt) },
                    None => rule.and_then(|r| r.op).unwrap_or(p.pt) };
                if q.header.payload_type != want_pt { fails.push(("bridge:output-pt-not-per-rule".into(), format!("packet {i}: {} want {want_pt}", q.header.payload_type))); }
                // MID stamping: when the MATCHED rule carries a stampable SDES-MID and the packet arrives without extension
                // block (or with a well-formed one-byte block), the output names that rule's MID and no other rule's
                if c.legacy.is_none() && !c.strip {
                    if let Some(r) = rule {
                        if let (Some(id), Some(mid)) = (r.mid_ext, r.mid.as_ref()) {
                            let stampable = (1..=14).contains(&id) && (1..=16).contains(&mid.len());
                            let input_ok = match &p.ext { None => true, Some((0xBEDE, d)) => bede_well_formed(d), _ => false };
                            if stampable && input_ok {
                                let got_mid = q.header.extension.as_ref().filter(|e| e.profile == 0xBEDE).and_then(|e| rfc8285_one_byte(&e.data, id));
                                if got_mid.as_deref() != Some(mid.as_bytes()) { fails.push(("bridge:mid-not-stamped-per-rule".into(), format!("packet {i}: matched rule's MID {mid:?} (ext id {id}), output block carries {:?}", got_mid.map(|b| String::from_utf8_lossy(&b).to_string())))); }
                            }
                        }
                    }
                }
            }
            Some(v) => { outs.push(format!("dup{}", v.len())); fails.push(("bridge:packet-forwarded-more-than-once".into(), format!("packet {i}"))); }
            None => { outs.push("lost".into()); unstable = true; }
        }
    }
    if got.contains_key(&u32::MAX) { fails.push(("bridge:unparseable-output".into(), "a forwarded datagram does not parse / lost its payload".into())); }
    if got.contains_key(&(u32::MAX - 1)) { fails.push(("bridge:mandatory-target-output-not-protected".into(), "a datagram on the mandatory target's connection does not authenticate under its keys".into())); }
    let snap = src.verif_registry_snapshot(&[]);
    outs.push(format!("S{}", snap.bridge_streams.iter().map(|s| format!("{}:{},{},{},{}", s.0, s.1, s.2, o(&s.3), s.4)).collect::<Vec<_>>().join(";")));
    src.clear_bridge_rewrite();
    BOut { tokens, outs, fails, unstable, rebased, wrapped }
}

async fn bemit(run: &mut Run, net: &Net, c: &BCfg, pkts: &[BPkt]) {
    let mut tries = 0;
    let out = loop {
        let out = bexec(net, c, pkts).await;
        tries += 1;
        if !out.unstable || tries >= 3 { break out; }
        run.count("unstable_case_rerun");
    };
    let input = format!("{} {}", bcfg_text(c), out.tokens.join(" "));
    run.case("bridge", &input, &out.outs.join(" "), pkts.len() >= 2);
    if out.rebased { run.count("bridge_cases_with_discontinuity"); }
    if out.wrapped { run.count("bridge_cases_with_seq_wrap"); }
    for (s, d) in out.fails { run.fail(&s, &format!("bridge {input}"), &d); }
}

fn rule_pool(k: usize) -> BRule {
    match k {
        0 => BRule { mp: None, fixed: None, off: 1000, op: Some(8), mid_ext: None, mid: None },
        1 => BRule { mp: None, fixed: Some(0xAABB_CCDD), off: 0, op: None, mid_ext: Some(3), mid: Some("0".into()) },
        2 => BRule { mp: Some(101), fixed: Some(5000), off: 0, op: Some(102), mid_ext: None, mid: None },
        3 => BRule { mp: Some(97), fixed: None, off: 7, op: Some(98), mid_ext: Some(3), mid: Some("1".into()) },
        _ => BRule { mp: Some(0), fixed: None, off: 0xFFFF_FFFF, op: None, mid_ext: None, mid: None },
    }
}
const STEPS: [u32; 6] = [0, 160, 900_000, 900_001, 0x8000_0000, 0xFFFF_FF60];
pub const NBSYM: usize = 16;
/// symbol k: source (k / 8), then either a timestamp step with the audio PT or a 160 step with the DTMF / video PT
fn bsym(k: usize, cur: &mut [u32; 2], seqs: &mut [u16; 2]) -> BPkt {
    let s = k / 8;
    let v = k % 8;
    let (step, pt) = match v { 0..=5 => (STEPS[v], 0u8), 6 => (160, 101), _ => (160, 97) };
    cur[s] = cur[s].wrapping_add(step);
    seqs[s] = seqs[s].wrapping_add(1);
    BPkt { ssrc: [0x100, 0x200][s], pt, seq: seqs[s], ts: cur[s], marker: false, ext: None }
}

pub fn run(args: &Args) {
    let rt = tokio::runtime::Builder::new_multi_thread().worker_threads(2).enable_all().build().unwrap();
    let mut run = Run::new("c19", &args.out);
    rt.block_on(async {
        if let Some(case) = &args.replay {
            let net = Net::new(3).await;
            replay(&net, case).await;
            return;
        }
        // ---- demux (1): exhaustive small scope — all subsets of the 9-item registration pool (NPOOL) × which listener
        //      is closed × all packet sequences up to length L over the 13-packet alphabet
        let maxlen = if args.tier_thorough { 3 } else { 2 };
        let mut n_ex = 0u64;
        for subset in 0..(1usize << NPOOL) {
            for closed in 0..4usize {
                let mut pre = vec![DOp::MidExt(3), DOp::RidExt(4)];
                for k in 0..NPOOL { if subset & (1 << k) != 0 { pre.push(pool_item(k)); } }
                if closed > 0 { pre.push(DOp::Close(closed - 1)); }
                for len in 1..=maxlen {
                    for idx in 0..NPKT.pow(len as u32) {
                        let mut ops = pre.clone();
                        let mut k = idx;
                        for _ in 0..len { ops.push(alpha_pkt(k % NPKT)); k /= NPKT; }
                        demit(&mut run, &ops).await;
                        n_ex += 1;
                    }
                }
            }
        }
        run.count_n(&format!("demux_exhaustive_len_le{maxlen}"), n_ex);
        // ---- demux (1b): full channels — every pool subset × which receiver's channel is full × every pair of packets, the
        //      first arriving while the channel is full, the second after it was drained
        let mut n_full = 0u64;
        for subset in 0..(1usize << NPOOL) {
            for fl in 0..2usize {
                let mut pre = vec![DOp::MidExt(3), DOp::RidExt(4)];
                for k in 0..NPOOL { if subset & (1 << k) != 0 { pre.push(pool_item(k)); } }
                pre.push(DOp::Fill(fl));
                for a in 0..NPKT { for b in 0..NPKT {
                    let mut ops = pre.clone();
                    ops.push(alpha_pkt(a)); ops.push(DOp::Drain(fl)); ops.push(alpha_pkt(b));
                    demit(&mut run, &ops).await;
                    n_full += 1;
                } }
            }
        }
        run.count_n("demux_full_channel_pairs", n_full);
        // ---- demux (2): random op sequences (re-registration, pruning, clear, closed listeners, ext ids,
        //      two-byte headers, malformed blocks, non-UTF-8)
        let mut rng = Rng::new(args.seed);
        let nrand = if args.tier_thorough { 300_000 } else { 30_000 };
        for _ in 0..nrand {
            let n = rng.range(2, 30) as usize;
            let mut ops = vec![];
            if rng.chance(3, 4) { ops.push(DOp::MidExt(3)); }
            if rng.chance(1, 2) { ops.push(DOp::RidExt(4)); }
            for _ in 0..n { ops.push(rand_dop(&mut rng)); }
            demit(&mut run, &ops).await;
        }
        run.count_n("demux_random_sequences", nrand);
        // ---- demux (3): SSRC churn — many fresh SSRCs learnt from MID-routed packets, listeners closing in between,
        //      explicit registrations and MID-less packets of earlier SSRCs: the table crosses the sweep thresholds
        //      (16, then double) with stale bindings of closed listeners in it between two sweeps
        let nchurn = if args.tier_thorough { 3_000 } else { 300 };
        for _ in 0..nchurn {
            let mut ops = vec![DOp::MidExt(3), DOp::Mid("0".into(), 0), DOp::Mid("1".into(), 1), DOp::Mid("2".into(), 2), DOp::Prov(3)];
            let n = rng.range(20, 75) as usize;
            let mut next_ssrc = 1000u32;
            for _ in 0..n {
                match rng.below(20) {
                    0 => ops.push(if rng.chance(1, 2) { DOp::Close(rng.below(3) as usize) } else if rng.chance(1, 2) { DOp::Fill(rng.below(3) as usize) } else { DOp::Drain(rng.below(3) as usize) }),
                    1 => { ops.push(DOp::Ssrc(next_ssrc, rng.below(4) as usize)); next_ssrc += 1; }
                    2 | 3 => { // a MID-less packet of an SSRC seen earlier: finds its binding, stale or not
                        let s = 1000 + rng.below((next_ssrc - 1000).max(1) as u64) as u32;
                        ops.push(DOp::Pkt { ssrc: s, pt: 96, ext: None });
                    }
                    _ => { // a fresh SSRC routed by MID → binding learnt from the packet
                        let m = [b"0", b"1", b"2"][rng.below(3) as usize];
                        ops.push(DOp::Pkt { ssrc: next_ssrc, pt: 96, ext: Some(bede(&[(3, &m[..])])) });
                        next_ssrc += 1;
                    }
                }
            }
            demit(&mut run, &ops).await;
        }
        run.count_n("demux_ssrc_churn_sequences", nchurn);

        // ---- bridge (1): exhaustive — rule tables (≤ 3 rules of a pool of 5) × all sequences of length L over
        //      the 16-symbol alphabet (2 sources × {6 timestamp steps, DTMF PT, video PT}); initial seq 65534
        let net = Net::new(3).await;
        let blen = if args.tier_thorough { 4 } else { 3 };
        let mut n_b = 0u64;
        for mask in 0..(1usize << 5) {
            if (mask as u32).count_ones() > 3 { continue; }
            let rules: Vec<BRule> = (0..5).filter(|k| mask & (1 << k) != 0).map(rule_pool).collect();
            let cfg = BCfg { strip: false, init_seq: Some(65534), init_off: Some(0xFFFF_FF00), init_out: None, has_video: true, vpts: vec![97], rules, hold: 0, legacy: None, reinstall: 0 };
            for len in 1..=blen {
                for idx in 0..NBSYM.pow(len as u32) {
                    let (mut cur, mut seqs) = ([1000u32, 0xFFFF_FE00], [10u16, 65530]);
                    let mut k = idx;
                    let mut pkts = vec![];
                    for _ in 0..len { pkts.push(bsym(k % NBSYM, &mut cur, &mut seqs)); k /= NBSYM; }
                    bemit(&mut run, &net, &cfg, &pkts).await;
                    n_b += 1;
                }
            }
        }
        run.count_n(&format!("bridge_exhaustive_len_le{blen}"), n_b);
        // ---- bridge (2): random — options incl. random initial values, strip, pinned first timestamp,
        //      existing extension blocks, 3 sources, long runs across the sequence wrap
        let nb = if args.tier_thorough { 40_000 } else { 4_000 };
        for _ in 0..nb {
            let nr = rng.below(4) as usize;
            let mut rules: Vec<BRule> = (0..nr).map(|_| rule_pool(rng.below(5) as usize)).collect();
            if rng.chance(1, 3) { rules.push(BRule { mp: if rng.chance(1, 2) { None } else { Some(*rng.pick(&[0u8, 97, 101])) }, fixed: if rng.chance(1, 2) { Some(rng.next() as u32) } else { None },
                off: rng.next() as u32, op: if rng.chance(1, 2) { Some(rng.below(128) as u8) } else { None },
                mid_ext: *rng.pick(&[None, Some(3u8), Some(0), Some(15), Some(14)]), mid: rng.pick(&[None, Some("0"), Some("audio"), Some(""), Some("01234567890123456")]).map(|s| s.to_string()) }); }
            let cfg = BCfg { strip: rng.chance(1, 4), init_seq: if rng.chance(3, 4) { Some(*rng.pick(&[65534u16, 0, 65535, 1000])) } else { None },
                init_off: if rng.chance(3, 4) { Some(*rng.pick(&[0u32, 0xFFFF_FF00, 12345])) } else { None },
                init_out: if rng.chance(1, 4) { Some(rng.next() as u32) } else { None },
                has_video: rng.chance(1, 2), vpts: if rng.chance(1, 2) { vec![97] } else { vec![] }, rules,
                hold: if rng.chance(1, 5) { rng.range(1, 6) as usize } else { 0 },
                legacy: if rng.chance(1, 5) { Some(Legacy { off: *rng.pick(&[0u32, 1000, 0xFFFF_FFFF]), fixed: if rng.chance(1, 2) { Some(rng.next() as u32) } else { None }, pt: if rng.chance(1, 2) { Some(8) } else { None }, dtmf: if rng.chance(2, 3) { Some((101, 96)) } else { None } }) } else { None },
                reinstall: if rng.chance(1, 6) { rng.range(1, 8) as usize } else { 0 } };
            let mut cfg = cfg;
            if cfg.legacy.is_some() { cfg.init_out = None; cfg.has_video = false; } // `bridge_rewrite_to` has neither a pinned first timestamp nor a video target
            let n = if rng.chance(1, 20) { rng.range(100, 200) } else { rng.range(1, 20) } as usize;
            let mut cur = [rng.next() as u32, 0xFFFF_FE00, 5];
            let mut pkts = vec![];
            for j in 0..n {
                let s = rng.below(3) as usize;
                let step = if rng.chance(7, 10) { 160 } else if rng.chance(1, 2) { *rng.pick(&STEPS) } else { rng.next() as u32 };
                cur[s] = cur[s].wrapping_add(step);
                // existing blocks the MID stamp has to cope with: well-formed, two-byte profile, and MALFORMED one-byte
                // blocks (an element running past the end: set_extension must return Err and leave the header alone)
                let ext = match rng.below(8) { 0 => Some(bede(&[(5, b"xy")])), 1 => Some(bede(&[(3, b"9"), (1, b"abc")])), 2 => Some((0x1000u16, vec![3, 1, b'7', 0])),
                    3 => Some((0xBEDEu16, vec![0x57, b'0', 0, 0])), 4 => Some((0xBEDEu16, vec![0x1F, 0, 0, 0])), 5 => Some((0xBEDEu16, vec![0x30, b'7', 0x2F, 1])), _ => None };
                pkts.push(BPkt { ssrc: [0x100, 0x200, 0xFFFF_FFFF][s], pt: *rng.pick(&[0u8, 0, 0, 101, 97, 8]), seq: j as u16, ts: cur[s], marker: rng.chance(1, 10), ext });
            }
            // many concurrent sources: in 1 of 25 cases a burst of 260..320 packets, each of a FRESH SSRC, arrives in the
            // middle — the watched sources' numbering, SSRC and timestamp mapping must not notice ("independently for every
            // concurrent source stream")
            if rng.chance(1, 25) && pkts.len() >= 2 {
                let at = rng.range(1, pkts.len() as u64 - 1) as usize;
                let nburst = rng.range(260, 320) as usize;
                let tail = pkts.split_off(at);
                for k in 0..nburst { pkts.push(BPkt { ssrc: 0x0100_0000 + k as u32, pt: 0, seq: k as u16, ts: 1000 * k as u32, marker: false, ext: None }); }
                pkts.extend(tail);
                run.count("bridge_cases_with_source_burst");
            }
            bemit(&mut run, &net, &cfg, &pkts).await;
        }
        run.count_n("bridge_random_sequences", nb);
        run.exhaustive = true;
        run.notes.insert("exhaustive_scope".into(), serde_json::json!(format!(
            "demux: 2^9 registration subsets x 4 closed-listener choices x all packet sequences of length <= {maxlen} over {NPKT} packets; bridge: 26 rule tables x all sequences of length <= {blen} over 16 symbols")));
    });
    run.finish();
}

async fn replay(net: &Net, case: &str) {
    let mut it = case.split_whitespace();
    match it.next() {
        Some("demux") => {
            let ops: Vec<DOp> = it.map(parse_dop).collect();
            let out = dexec(&ops).await;
            println!("impl: {}", out.lines.join(" "));
            for (s, d) in out.fails { println!("ORACLE-FAIL {s} {d}"); }
        }
        Some("bridge") => {
            let toks: Vec<&str> = it.collect();
            let (c, pkts) = parse_bridge(&toks);
            let out = bexec(net, &c, &pkts).await;
            println!("impl: {}", out.outs.join(" "));
            for (s, d) in out.fails { println!("ORACLE-FAIL {s} {d}"); }
        }
        Some(first) => {
            // a case taken from an op line (stream name stripped): bridge cases start with `cfg,`
            let toks: Vec<&str> = std::iter::once(first).chain(it).collect();
            if first.starts_with("cfg,") {
                let (c, pkts) = parse_bridge(&toks);
                let out = bexec(net, &c, &pkts).await;
                println!("impl: {}", out.outs.join(" "));
                for (s, d) in out.fails { println!("ORACLE-FAIL {s} {d}"); }
            } else {
                let ops: Vec<DOp> = toks.iter().map(|t| parse_dop(t)).collect();
                let out = dexec(&ops).await;
                println!("impl: {}", out.lines.join(" "));
                for (s, d) in out.fails { println!("ORACLE-FAIL {s} {d}"); }
            }
        }
        None => println!("empty replay case"),
    }
}

fn parse_dop(t: &str) -> DOp {
    let f: Vec<&str> = t.split(',').collect();
    let n = |i: usize| f[i].parse::<u64>().unwrap();
    let st = |i: usize| String::from_utf8(crate::unhex(f[i])).unwrap();
    match f[0] {
        "s" => DOp::Ssrc(n(1) as u32, n(2) as usize), "r" => DOp::Rid(st(1), n(2) as usize), "m" => DOp::Mid(st(1), n(2) as usize),
        "P" => DOp::Pts(if f[1] == "-" { vec![] } else { f[1].split('.').map(|x| x.parse().unwrap()).collect() }, n(2) as usize),
        "p" => DOp::Pt(n(1) as u8, n(2) as usize), "v" => DOp::Prov(n(1) as usize), "x" => DOp::Close(n(1) as usize),
        "er" => DOp::RidExt(n(1) as u8), "em" => DOp::MidExt(n(1) as u8), "c" => DOp::Clear,
        "f" => DOp::Fill(n(1) as usize), "u" => DOp::Drain(n(1) as usize),
        "k" => DOp::Pkt { ssrc: n(1) as u32, pt: n(2) as u8, ext: if f[3] == "-" { None } else { Some((n(3) as u16, crate::unhex(f[4]))) } },
        x => panic!("bad op {x}"),
    }
}
fn parse_bridge(toks: &[&str]) -> (BCfg, Vec<BPkt>) {
    let on = |s: &str| if s == "-" { None } else { Some(s.parse::<u64>().unwrap()) };
    let mut c = BCfg { strip: false, init_seq: None, init_off: None, init_out: None, has_video: false, vpts: vec![], rules: vec![], hold: 0, legacy: None, reinstall: 0 };
    let mut pkts = vec![];
    for t in toks {
        let f: Vec<&str> = t.split(',').collect();
        match f[0] {
            "cfg" => { c.strip = f[1] == "1"; c.init_seq = on(f[2]).map(|x| x as u16); c.init_off = on(f[3]).map(|x| x as u32); c.init_out = on(f[4]).map(|x| x as u32);
                       c.has_video = f[5] == "1"; c.vpts = if f[6] == "-" { vec![] } else { f[6].split('.').map(|x| x.parse().unwrap()).collect() }; }
            "rule" => c.rules.push(BRule { mp: on(f[1]).map(|x| x as u8), fixed: on(f[2]).map(|x| x as u32), off: f[3].parse().unwrap(), op: on(f[4]).map(|x| x as u8),
                       mid_ext: on(f[5]).map(|x| x as u8), mid: if f[6] == "~" { None } else { Some(String::from_utf8(crate::unhex(f[6])).unwrap()) } }),
            "params" => { c.legacy = Some(Legacy { off: f[1].parse().unwrap(), fixed: on(f[2]).map(|x| x as u32), pt: on(f[3]).map(|x| x as u8),
                       dtmf: if f[4] == "-" { None } else { let d: Vec<u8> = f[4].split('.').map(|x| x.parse().unwrap()).collect(); Some((d[0], d[1])) } });
                       c.init_seq = on(f[5]).map(|x| x as u16); c.init_off = on(f[6]).map(|x| x as u32); c.strip = f[7] == "1"; }
            "reset" => { c.reinstall = pkts.len(); }
            "k" => { if f.len() > 10 && f[10] == "0" { c.hold = pkts.len() + 1; } // a refused push: the audio target had no keys yet
                     pkts.push(BPkt { ssrc: f[1].parse().unwrap(), pt: f[2].parse().unwrap(), seq: f[3].parse().unwrap(), ts: f[4].parse().unwrap(), marker: f[5] == "1",
                       ext: if f[6] == "-" { None } else { Some((f[6].parse().unwrap(), crate::unhex(f[7]))) } }); }
            _ => {}
        }
    }
    (c, pkts)
}
