//! A second, independent SRTP/SRTCP *sender* written from the RFC texts (RFC 3711 §3.3, §3.4, §4.1.1,
//! §4.2.1, §4.3; RFC 7714 §8, §9) on top of the RustCrypto primitives — NOT from rustrtc's code.
//! It exists for what `webrtc-srtp` cannot do: the NULL-cipher profile, SRTCP with the E flag clear,
//! chosen rollover counters and chosen (large) SRTCP indices.
use aes::cipher::{KeyIvInit, StreamCipher};
use aes_gcm::aead::{Aead, Payload};
use hmac::{Hmac, Mac};
use sha1::Sha1;

type Ctr = ctr::Ctr128BE<aes::Aes128>;

fn aes_cm(key: &[u8], iv: &[u8; 16], data: &mut [u8]) {
    let mut c = <Ctr as KeyIvInit>::new_from_slices(&key[..16], iv).unwrap();
    c.apply_keystream(data);
}

/// RFC 3711 §4.3.1 with key_derivation_rate 0: `x = label·2^48 XOR master_salt`, keystream of AES-CM
/// under the master key with IV `x·2^16`.
pub fn kdf(mk: &[u8], ms: &[u8], label: u8, len: usize) -> Vec<u8> {
    let mut x = [0u8; 16];               // 112-bit salt left-aligned in the 128-bit IV == salt·2^16
    x[..ms.len().min(14)].copy_from_slice(&ms[..ms.len().min(14)]);
    x[7] ^= label;                       // bit 48..55 of the 112-bit value = byte 7 of 14
    let mut out = vec![0u8; len];
    aes_cm(mk, &x, &mut out);
    out
}

pub struct Keys { pub ck: Vec<u8>, pub ak: Vec<u8>, pub salt: Vec<u8> }
pub fn keys(prof: &str, mk: &[u8], ms: &[u8], rtcp: bool) -> Keys {
    let base = if rtcp { 3 } else { 0 };
    let (salt_len, auth_len) = if prof == "gcm" { (12, 0) } else { (14, 20) };
    Keys { ck: kdf(mk, ms, base, 16), ak: if auth_len > 0 { kdf(mk, ms, base + 1, auth_len) } else { vec![] }, salt: kdf(mk, ms, base + 2, salt_len) }
}

fn hmac_sha1(key: &[u8], parts: &[&[u8]]) -> Vec<u8> {
    let mut m = <Hmac<Sha1> as hmac::KeyInit>::new_from_slice(key).unwrap();
    for p in parts { m.update(p); }
    m.finalize().into_bytes().to_vec()
}

/// RFC 3711 §4.1.1: IV = (k_s·2^16) XOR (SSRC·2^64) XOR (i·2^16)
fn cm_iv(salt: &[u8], ssrc: u32, index48: u64) -> [u8; 16] {
    let mut iv = [0u8; 16];
    iv[..14].copy_from_slice(&salt[..14]);
    let v: u128 = ((ssrc as u128) << 64) ^ ((index48 as u128) << 16);
    for (a, b) in iv.iter_mut().zip(v.to_be_bytes()) { *a ^= b; }
    iv
}
/// RFC 7714 §8.1 / §9.1: 12-byte IV = salt XOR (00 00 ‖ SSRC ‖ ROC ‖ SEQ) resp. (00 00 ‖ SSRC ‖ 00 00 ‖ 0‖index)
fn gcm_iv(salt: &[u8], ssrc: u32, mid: [u8; 6]) -> [u8; 12] {
    let mut b = [0u8; 12];
    b[2..6].copy_from_slice(&ssrc.to_be_bytes());
    b[6..12].copy_from_slice(&mid);
    for i in 0..12 { b[i] ^= salt[i]; }
    b
}

pub fn tag_len(prof: &str) -> usize { match prof { "cm32" => 4, "gcm" => 16, _ => 10 } }

fn header_len(p: &[u8]) -> usize {
    let mut n = 12 + 4 * (p[0] & 0x0f) as usize;
    if p[0] & 0x10 != 0 { n += 4 + 4 * u16::from_be_bytes([p[n + 2], p[n + 3]]) as usize; }
    n
}

/// SRTP-protect a complete plaintext RTP packet under rollover counter `roc`.
pub fn protect_rtp(prof: &str, mk: &[u8], ms: &[u8], plain: &[u8], roc: u32) -> Vec<u8> {
    let k = keys(prof, mk, ms, false);
    let hl = header_len(plain);
    let seq = u16::from_be_bytes([plain[2], plain[3]]);
    let ssrc = u32::from_be_bytes([plain[8], plain[9], plain[10], plain[11]]);
    let mut out = plain.to_vec();
    if prof == "gcm" {
        let mut mid = [0u8; 6];
        mid[..4].copy_from_slice(&roc.to_be_bytes());
        mid[4..].copy_from_slice(&seq.to_be_bytes());
        let g = <aes_gcm::Aes128Gcm as aes_gcm::KeyInit>::new_from_slice(&k.ck).unwrap();
        let ct = g.encrypt(aes_gcm::Nonce::from_slice(&gcm_iv(&k.salt, ssrc, mid)), Payload { msg: &plain[hl..], aad: &plain[..hl] }).unwrap();
        out.truncate(hl);
        out.extend(ct);
        return out;
    }
    if prof != "null" {
        let iv = cm_iv(&k.salt, ssrc, ((roc as u64) << 16) | seq as u64);
        aes_cm(&k.ck, &iv, &mut out[hl..]);
    }
    // authenticated portion ‖ ROC (RFC 3711 §4.2)
    let t = hmac_sha1(&k.ak, &[&out, &roc.to_be_bytes()]);
    out.extend(&t[..tag_len(prof)]);
    out
}

/// SRTCP-protect a compound RTCP packet with SRTCP index `index` and E flag `e` (RFC 3711 §3.4:
/// E = 0 means the payload is sent unencrypted but authenticated). The NULL cipher is the identity.
pub fn protect_rtcp(prof: &str, mk: &[u8], ms: &[u8], plain: &[u8], index: u32, e: bool) -> Vec<u8> {
    let k = keys(prof, mk, ms, true);
    let ssrc = u32::from_be_bytes([plain[4], plain[5], plain[6], plain[7]]);
    let word = (index & 0x7fff_ffff) | if e { 0x8000_0000 } else { 0 };
    let mut out = plain.to_vec();
    if prof == "gcm" {
        // RFC 7714 §9.2/§17: AAD = first 8 octets ‖ E‖index; (E = 0 variant not produced here)
        let mut mid = [0u8; 6];
        mid[2..].copy_from_slice(&(index & 0x7fff_ffff).to_be_bytes());
        let mut aad = plain[..8].to_vec();
        aad.extend(word.to_be_bytes());
        let g = <aes_gcm::Aes128Gcm as aes_gcm::KeyInit>::new_from_slice(&k.ck).unwrap();
        let ct = g.encrypt(aes_gcm::Nonce::from_slice(&gcm_iv(&k.salt, ssrc, mid)), Payload { msg: &plain[8..], aad: &aad }).unwrap();
        out.truncate(8);
        out.extend(ct);
        out.extend(word.to_be_bytes());
        return out;
    }
    if e && prof != "null" && out.len() > 8 {
        let iv = cm_iv(&k.salt, ssrc, (index & 0x7fff_ffff) as u64);
        aes_cm(&k.ck, &iv, &mut out[8..]);
    }
    out.extend(word.to_be_bytes());
    let t = hmac_sha1(&k.ak, &[&out]);
    out.extend(&t[..10]);            // SRTCP: always the 80-bit tag (RFC 4568 §6.2.2, RFC 5764 §4.1.2)
    out
}
