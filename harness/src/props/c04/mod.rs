//! C04 — SRTP/SRTCP protection round-trips and matches an independent implementation.
//! Drives the REAL `SrtpSession` / `SrtpContext` / `RtpHeader`, three-way against the Lean model
//! (byte-exact, incl. AES-CM, HMAC-SHA1 and AES-GCM computed in Lean) and `webrtc-srtp`.
pub mod script;
pub mod ref3711;
use crate::{Args, Rng, Run, hex, unhex};
use script::*;
use bytes::BytesMut;
use rustrtc::rtp::RtpHeader;
use rustrtc::srtp::{SrtpContext, SrtpDirection, SrtpKeyingMaterial, SrtpPacket};
use rustrtc::verif_hooks::srtp as hook;

// ------------------------------------------------------------------------------------------
// primitives (tests of the Lean implementations against RustCrypto; labelled as tests)

fn prim_cases(run: &mut Run, rng: &mut Rng, n: usize) {
    use aes::cipher::{BlockCipherEncrypt, KeyInit, KeyIvInit, StreamCipher};
    use aes_gcm::aead::{Aead, Payload};
    use hmac::{Hmac, Mac};
    use sha1::{Digest, Sha1};
    for i in 0..n {
        let key = if i == 0 { vec![0u8; 16] } else if i == 1 { vec![0xff; 16] } else { rng.bytes(16) };
        let block = rng.bytes(16);
        let mut b = aes::Block::try_from(&block[..]).unwrap();
        aes::Aes128::new_from_slice(&key).unwrap().encrypt_block(&mut b);
        run.case("prim", &format!("aes {} {}", hex(&key), hex(&block)), &hex(&b), true);
        // CTR incl. counter carry across bytes
        let mut iv = rng.bytes(16);
        if i % 3 == 0 { for x in iv[9..].iter_mut() { *x = 0xff; } }
        let len = *rng.pick(&[0usize, 1, 15, 16, 17, 33, 64, 100]);
        let mut ks = vec![0u8; len];
        let mut c = <ctr::Ctr128BE<aes::Aes128> as KeyIvInit>::new_from_slices(&key, &iv).unwrap();
        c.apply_keystream(&mut ks);
        run.case("prim", &format!("ctr {} {} {}", hex(&key), hex(&iv), len), &hex(&ks), true);
        let mlen = *rng.pick(&[0usize, 1, 3, 55, 56, 57, 63, 64, 65, 119, 120, 200]);
        let msg = rng.bytes(mlen);
        run.case("prim", &format!("sha1 {}", hex(&msg)), &hex(&Sha1::digest(&msg)), true);
        let klen = *rng.pick(&[0usize, 1, 20, 20, 20, 64, 65, 100]);
        let hk = rng.bytes(klen);
        let mut m = <Hmac<Sha1> as hmac::KeyInit>::new_from_slice(&hk).unwrap();
        m.update(&msg);
        run.case("prim", &format!("hmac {} {}", hex(&hk), hex(&msg)), &hex(&m.finalize().into_bytes()), true);
        let nonce = rng.bytes(12);
        let alen = *rng.pick(&[0usize, 1, 12, 16, 17, 28, 40]);
        let aad = rng.bytes(alen);
        let plen = *rng.pick(&[0usize, 1, 15, 16, 17, 32, 47, 100]);
        let pt = rng.bytes(plen);
        let g = <aes_gcm::Aes128Gcm as aes_gcm::KeyInit>::new_from_slice(&key).unwrap();
        let ct = g.encrypt(aes_gcm::Nonce::from_slice(&nonce), Payload { msg: &pt, aad: &aad }).unwrap();
        run.case("prim", &format!("gcm {} {} {} {}", hex(&key), hex(&nonce), hex(&aad), hex(&pt)), &hex(&ct), true);
        let mut bad = ct.clone();
        let good = i % 2 == 0;
        if !good { let k = rng.below(bad.len() as u64) as usize; bad[k] ^= 1 << rng.below(8); }
        let r = g.decrypt(aes_gcm::Nonce::from_slice(&nonce), Payload { msg: &bad, aad: &aad });
        run.case("prim", &format!("gcmopen {} {} {} {}", hex(&key), hex(&nonce), hex(&aad), hex(&bad)),
            &match r { Ok(p) => format!("ok:{}", hex(&p)), Err(_) => "none".into() }, true);
        run.count("prim_vectors");
    }
}

// ------------------------------------------------------------------------------------------
// key derivation, IV / nonce construction

fn key_pool(rng: &mut Rng, i: usize, prof: &str) -> (Vec<u8>, Vec<u8>) {
    let sl = salt_len(prof);
    match i % 4 { 0 => (vec![0; 16], vec![0; sl]), 1 => (vec![0xff; 16], vec![0xff; sl]), _ => (rng.bytes(16), rng.bytes(sl)) }
}

fn kdf_cases(run: &mut Run, rng: &mut Rng, n: usize) {
    for i in 0..n {
        for prof in PROFILES {
            let (mut mk, mut ms) = key_pool(rng, i, prof);
            // length variations: longer inputs are truncated by the code, shorter ones rejected
            match i % 7 { 3 => mk.extend(rng.bytes(5)), 4 => ms.extend(rng.bytes(3)), 5 => { mk.truncate(15); } 6 => { ms.truncate(salt_len(prof) - 1); } _ => {} }
            let ssrc = rng.next() as u32;
            let r = SrtpContext::new(ssrc, profile_of(prof), SrtpKeyingMaterial::new(mk.clone(), ms.clone()), SrtpDirection::Sender);
            let out = match &r { Err(e) => srtp_err(e).to_string(), Ok(c) => { let k = c.verif_session_keys(); format!("ok {}", k.iter().map(|x| hex(x)).collect::<Vec<_>>().join(" ")) } };
            run.case("kdf", &format!("{prof} {} {}", hex(&mk), hex(&ms)), &out, r.is_ok());
            run.count(if r.is_ok() { "kdf_ok" } else { "kdf_rejected" });
            if let Ok(c) = r {
                let r0_ = rng.next();
                let seq = *rng.pick(&[0u16, 1, 0x7fff, 0x8000, 0xffff, r0_ as u16]);
                let r0_ = rng.next();
                let roc = *rng.pick(&[0u32, 1, 0xffff, 0x10000, u32::MAX, r0_ as u32]);
                let r0_ = rng.next();
                let idx = *rng.pick(&[0u32, 1, 0xffff, 0x10000, 0x0123_4567, 0x7fff_ffff, r0_ as u32 & 0x7fff_ffff]);
                let iv = if prof == "gcm" { "-".to_string() } else { hex(&c.verif_build_iv(seq, roc)) };
                // the AES-CM SRTCP IV is built inline in `cipher_rtcp`: compare its first keystream block
                let rks = if prof == "gcm" { "-".to_string() } else { let mut z = [0u8; 24]; c.verif_cipher_rtcp(&mut z, idx); hex(&z[8..]) };
                let out = format!("{iv} {} {} {rks}", hex(&c.verif_build_gcm_nonce(seq, roc)), hex(&c.verif_build_gcm_rtcp_nonce(idx)));
                run.case("iv", &format!("{prof} {} {} {ssrc} {seq} {roc} {idx}", hex(&mk), hex(&ms)), &out, true);
            }
        }
    }
}

// ------------------------------------------------------------------------------------------
// rollover estimate / update

fn ctx_for_roc() -> SrtpContext {
    SrtpContext::new(1, rustrtc::srtp::SrtpProfile::NullCipherHmac, SrtpKeyingMaterial::new(vec![0; 16], vec![0; 14]), SrtpDirection::Receiver).unwrap()
}

fn roc_row(c: &mut SrtpContext, roc: u32, last: Option<u16>) -> String {
    let mut out: Vec<String> = vec![];
    let mut prev: Option<(u32, bool)> = None;
    for seq in 0..=65535u16 {
        c.verif_set_state(roc, last, 0);
        let e = c.verif_estimate_roc(seq);
        c.verif_update(seq, e);
        let st = c.verif_state();
        let adv = st.0 == e && st.1 == Some(seq);
        if prev != Some((e, adv)) { out.push(format!("{seq}:{e}:{}", adv as u8)); prev = Some((e, adv)); }
    }
    out.join(",")
}

/// The property itself on the implementation: whenever the true index `I` lies within ±(2^15−1)
/// of the receiver's highest index `R = roc·2^16 + last`, the estimate is `I >> 16` and the state
/// after `update` is `max(R, I)`. Exhaustive over all 65 536 sequence numbers for each `(roc,last)`.
fn roc_oracle(run: &mut Run, c: &mut SrtpContext, roc: u32, last: u16) -> u64 {
    let r = ((roc as i128) << 16) | last as i128;
    let mut checked = 0;
    for d in -32767i128..=32767 {
        let i = r + d;
        if i < 0 || i >= (1i128 << 48) { continue; }
        let seq = (i & 0xffff) as u16;
        c.verif_set_state(roc, Some(last), 0);
        let e = c.verif_estimate_roc(seq);
        c.verif_update(seq, e);
        let st = c.verif_state();
        let m = r.max(i);
        checked += 1;
        if e as i128 != i >> 16 {
            run.fail("roc:estimate-wrong-inside-window", &format!("roc1 {roc} {last} {seq} 0"), &format!("roc {roc} last {last} seq {seq} true index {i} estimate {e}"));
        } else if (st.0 as i128, st.1.unwrap() as i128) != (m >> 16, m & 0xffff) {
            run.fail("roc:update-not-max", &format!("roc1 {roc} {last} {seq} {e}"), &format!("roc {roc} last {last} seq {seq} state {:?} expected {}", st, m));
        }
    }
    checked
}

/// RFC 3711 section 3.3.1 / appendix A pseudo-code for the index guess, written from the RFC text
/// (independent of the implementation): v = ROC-1 / ROC / ROC+1 (mod 2^32).
fn rfc3711_guess(roc: u32, s_l: u16, seq: u16) -> u32 {
    if s_l < 32768 {
        if seq as i32 - s_l as i32 > 32768 { roc.wrapping_sub(1) } else { roc }
    } else if s_l as i32 - 32768 > seq as i32 { roc.wrapping_add(1) } else { roc }
}

/// every sequence number for one (roc, last): the estimate is the RFC's guess
fn rfc_oracle(run: &mut Run, c: &mut SrtpContext, roc: u32, last: u16) -> u64 {
    c.verif_set_state(roc, Some(last), 0);
    for seq in 0..=65535u16 {
        let e = c.verif_estimate_roc(seq);
        let v = rfc3711_guess(roc, last, seq);
        if e != v {
            run.fail("roc:estimate-differs-from-rfc3711", &format!("roc1 {roc} {last} {seq} {e}"), &format!("roc {roc} s_l {last} seq {seq}: estimate {e}, RFC 3711 guess {v}"));
            break;
        }
    }
    65536
}

/// A REAL round trip at one point of the rollover space: a sender context placed at the true 48-bit
/// index `I = v·2^16 + seq` (v = the in-window interpretation of `seq` for a receiver at `(roc,last)`:
/// RFC 3711's guess, i.e. |I − R| < 2^15, or = 2^15 on the side the RFC resolves to) protects a packet;
/// the receiver context positioned at `(roc,last)` must return exactly the original packet.
/// Signature `roc:<ahead|behind|same>:<distance>`.
struct RocPair { tx: SrtpContext, rx: SrtpContext, prof: &'static str }
fn roc_pairs() -> Vec<RocPair> {
    ["cm80", "gcm", "cm32", "null"].iter().map(|p| {
        let km = SrtpKeyingMaterial::new((1..=16).collect(), (1..=salt_len(p) as u8).collect());
        RocPair { tx: SrtpContext::new(0xabcd, profile_of(p), km.clone(), SrtpDirection::Sender).unwrap(),
                  rx: SrtpContext::new(0xabcd, profile_of(p), km, SrtpDirection::Receiver).unwrap(), prof: p }
    }).collect()
}
fn roc_roundtrip(run: &mut Run, pair: &mut RocPair, roc: u32, last: u16, seq: u16) -> u64 {
    let v = rfc3711_guess(roc, last, seq);
    // no wrap of the 32-bit ROC itself (2^48 packets per key is the RFC's hard limit)
    if (roc == 0 && v == u32::MAX) || (roc == u32::MAX && v == 0) { return 0; }
    let r = ((roc as i64) << 16) | last as i64;
    let i = ((v as i64) << 16) | seq as i64;
    let d = i - r;
    let spec = PktSpec::simple(seq, 0xabcd, vec![seq as u8, (seq >> 8) as u8, 7]);
    let pkt = spec.packet();
    pair.tx.verif_set_state(v, Some(seq), 0);
    let mut out = vec![0u8; pair.tx.protected_rtp_len(&pkt)];
    if let Err(e) = pair.tx.protect(&pkt, &mut out) {
        run.fail(&format!("roc:protect-failed:{}", pair.prof), &format!("rocrt {} {roc} {last} {seq}", pair.prof), &format!("sender context at ROC {v}: protect → {e}"));
        return 0;
    }
    pair.rx.verif_set_state(roc, Some(last), 0);
    let res = SrtpPacket::parse(BytesMut::from(&out[..])).map_err(|e| e.to_string())
        .and_then(|p| pair.rx.unprotect(p).map_err(|e| e.to_string()));
    let dir = if d > 0 { "ahead" } else if d < 0 { "behind" } else { "same" };
    let ok = matches!(&res, Ok(p) if *p == pkt);
    if !ok {
        let case = format!("sess n,{p},0102030405060708090a0b0c0d0e0f10,{s},0102030405060708090a0b0c0d0e0f10,{s} roc-roundtrip receiver(roc={roc},last={last}) sender(index={i}) seq={seq}",
            p = pair.prof, s = hex(&(1..=salt_len(pair.prof) as u8).collect::<Vec<u8>>()));
        run.fail(&format!("roc:{dir}:{}", d.abs()), &format!("rocrt {} {roc} {last} {seq}", pair.prof),
            &format!("{case}: receiver answered {:?}, estimate {} (true ROC {v})", res.as_ref().map(|_| "different packet").map_err(|e| e.clone()), pair.rx.verif_estimate_roc(seq)));
    }
    1
}

/// round trips at every change point (±2) of the implementation's estimate row AND of the RFC row for
/// this `(roc,last)` — two piecewise-constant rows that differ anywhere differ at a change point of one
/// of them — plus the fixed distances 0, ±1, ±(2^15−2 … 2^15).
fn roc_roundtrips(run: &mut Run, pairs: &mut [RocPair], c: &mut SrtpContext, roc: u32, last: u16, k: usize) -> u64 {
    let mut seqs: Vec<u16> = vec![0, 1, 65535, last];
    c.verif_set_state(roc, Some(last), 0);
    let mut pe = c.verif_estimate_roc(0);
    let mut pr = rfc3711_guess(roc, last, 0);
    for seq in 1..=65535u16 {
        let e = c.verif_estimate_roc(seq);
        let r = rfc3711_guess(roc, last, seq);
        if e != pe || r != pr { for d in -2i32..=2 { seqs.push((seq as i32 + d).rem_euclid(65536) as u16); } }
        pe = e; pr = r;
    }
    for d in [1i32, 2, 32766, 32767, 32768, 32769] { seqs.push(last.wrapping_add(d as u16)); seqs.push(last.wrapping_sub(d as u16)); }
    seqs.sort(); seqs.dedup();
    let n = pairs.len();
    let mut done = 0;
    for (j, seq) in seqs.iter().enumerate() { done += roc_roundtrip(run, &mut pairs[(k + j) % n], roc, last, *seq); }
    done
}

fn roc_cases(run: &mut Run, rng: &mut Rng, thorough: bool) {
    let mut c = ctx_for_roc();
    let rocs: Vec<u32> = if thorough { vec![0, 1, 2, 0xffff, 0x7fff_ffff, u32::MAX - 1, u32::MAX] } else { vec![0, 1, u32::MAX] };
    // boundary `last` values (around 0, 2^15, 2^16) + random fill
    let mut lasts: Vec<u16> = vec![];
    for b in [0u32, 0x4000, 0x7ff0, 0x8000, 0x8010, 0xc000, 0xffff] {
        for d in -8i64..=8 { let v = b as i64 + d; if (0..=65535).contains(&v) { lasts.push(v as u16); } }
    }
    let want = if thorough { 512 } else { 96 };
    while lasts.len() < want { lasts.push(rng.next() as u16); }
    lasts.sort(); lasts.dedup();
    let mut evals = 0u64;
    for &roc in &rocs {
        let row = roc_row(&mut c, roc, None);
        run.case("rocrow", &format!("{roc} -"), &row, true);
        for &last in &lasts {
            let row = roc_row(&mut c, roc, Some(last));
            run.case("rocrow", &format!("{roc} {last}"), &row, true);
            evals += 65536;
        }
    }
    run.count_n("roc_estimate_update_evaluations_compared_with_model", evals);
    // the oracle runs on ALL `last` values for each roc (implementation only)
    let mut checked = 0u64;
    let mut rfc = 0u64;
    let mut rts = 0u64;
    let mut pairs = roc_pairs();
    let step = if thorough { 2 } else { 16 };
    for &roc in &rocs {
        let mut last = 0u32;
        while last <= 65535 { checked += roc_oracle(run, &mut c, roc, last as u16); rfc += rfc_oracle(run, &mut c, roc, last as u16); last += step; }
        for (k, &l) in lasts.iter().enumerate() {
            checked += roc_oracle(run, &mut c, roc, l); rfc += rfc_oracle(run, &mut c, roc, l);
            rts += roc_roundtrips(run, &mut pairs, &mut c, roc, l, k);
        }
    }
    run.count_n("roc_real_roundtrips_at_change_points_and_boundaries", rts);
    run.count_n("roc_triples_compared_with_rfc3711_guess_on_impl", rfc);
    run.count_n("roc_oracle_pairs_checked_on_impl", checked);
    // single points with an arbitrary `roc` argument to update (not only the estimate)
    for _ in 0..(if thorough { 20000 } else { 3000 }) {
        let r0_ = rng.next();
        let roc = *rng.pick(&[0u32, 1, 5, u32::MAX, r0_ as u32]);
        let last = if rng.chance(1, 10) { None } else { Some(rng.next() as u16) };
        let seq = rng.next() as u16;
        let r0_ = rng.next();
        let r = *rng.pick(&[roc, roc.wrapping_add(1), roc.wrapping_sub(1), r0_ as u32]);
        c.verif_set_state(roc, last, 0);
        let e = c.verif_estimate_roc(seq);
        c.verif_update(seq, r);
        let st = c.verif_state();
        run.case("roc1", &format!("{roc} {} {seq} {r}", last.map(|x| x.to_string()).unwrap_or("-".into())),
            &format!("{e} {} {}", st.0, st.1.map(|x| x.to_string()).unwrap_or("-".into())), true);
    }
}

// ------------------------------------------------------------------------------------------
// header parse / re-serialise

fn hdr_case(run: &mut Run, raw: &[u8]) {
    let mut buf = BytesMut::from(raw);
    let before = buf.len();
    let r = RtpHeader::parse(&mut buf);
    let input = hex(raw);
    match r {
        Err(e) => { run.case("hdr", &input, rtp_err(&e), false); run.count("hdr_rejected"); }
        Ok((h, pad)) => {
            let rest = buf.len();
            let hb = hook::header_bytes(&h, pad);
            let cs: Vec<u8> = h.csrcs.iter().flat_map(|c| c.to_be_bytes()).collect();
            let out = format!("ok {} {} {} {} {} {} {} {} {} {} {}", h.marker as u8, h.payload_type, h.sequence_number, h.timestamp, h.ssrc,
                hex(&cs), match &h.extension { None => "-".into(), Some(e) => format!("{}:{}", e.profile, hex(&e.data)) }, pad as u8, rest, hex(&hb), hook::header_encoded_len(&h));
            run.case("hdr", &input, &out, true);
            run.count("hdr_accepted");
            // property oracle: authentication covers the re-marshalled header, so it must be the received bytes
            if hb[..] != raw[..before - rest] {
                run.fail("header:reserialised-differs-from-received", &format!("hdr {input}"), &format!("written {}", hex(&hb)));
            }
        }
    }
}

fn rand_header(rng: &mut Rng) -> Vec<u8> {
    let r0_ = rng.below(16);
    let cc = *rng.pick(&[0u8, 0, 0, 1, 2, 15, r0_ as u8]);
    let x = rng.chance(1, 2);
    let mut b = vec![0x80 | cc | if x { 0x10 } else { 0 } | if rng.chance(1, 3) { 0x20 } else { 0 }, rng.next() as u8];
    b.extend(rng.bytes(10));
    b.extend(rng.bytes(4 * cc as usize));
    if x {
        let words = *rng.pick(&[0u16, 1, 1, 2, 3, 8]);
        b.extend(if rng.chance(1, 2) { [0xbe, 0xde] } else { [rng.next() as u8, rng.next() as u8] });
        b.extend(words.to_be_bytes());
        b.extend(rng.bytes(4 * words as usize));
    }
    let n = *rng.pick(&[0usize, 1, 4, 10, 20, 40]);
    b.extend(rng.bytes(n));
    b
}

fn hdr_cases(run: &mut Run, rng: &mut Rng, n: usize) {
    for _ in 0..n {
        let b = rand_header(rng);
        hdr_case(run, &b);
        match rng.below(10) {
            0 => { let k = rng.below(b.len() as u64 + 1) as usize; hdr_case(run, &b[..k]); }                      // truncation
            1 => { let mut m = b.clone(); m[0] = (m[0] & 0x3f) | ((rng.below(4) as u8) << 6); hdr_case(run, &m); }   // version
            2 => { let mut m = b.clone(); let k = rng.below(m.len() as u64 * 8) as usize; m[k / 8] ^= 0x80 >> (k % 8); hdr_case(run, &m); }
            3 => { let k = rng.range(0, 30) as usize; hdr_case(run, &rng.bytes(k)); }
            _ => {}
        }
    }
    // every truncation of one rich header
    let mut b = vec![0xb2, 0xe0, 0x12, 0x34, 1, 2, 3, 4, 5, 6, 7, 8, 0, 0, 0, 1, 0, 0, 0, 2, 0xbe, 0xde, 0, 2, 0x10, 0xaa, 0x21, 0xbb, 0xcc, 0, 0, 0, 9, 9, 9, 3];
    for k in 0..=b.len() { hdr_case(run, &b[..k]); }
    b[23] = 0xff; hdr_case(run, &b);
}

// ------------------------------------------------------------------------------------------
// sessions: shapes, histories

fn keys(rng: &mut Rng, i: usize, prof: &str) -> (Vec<u8>, Vec<u8>) { key_pool(rng, i, prof) }

fn shape(rng: &mut Rng, seq: u16, ssrc: u32, plen: usize) -> PktSpec {
    let cc = *rng.pick(&[0usize, 0, 0, 1, 2, 3, 15]);
    let ext = match rng.below(6) {
        0 => Some((0xbede, vec![0x10, rng.next() as u8, 0x21, rng.next() as u8, rng.next() as u8, 0, 0, 0])),
        1 => Some((0xbede, vec![])),
        2 => Some((0x1000, vec![1, 2, rng.next() as u8, rng.next() as u8])),
        3 => { let w = rng.range(1, 4) as usize; Some((rng.next() as u16 | 1, rng.bytes(4 * w))) }
        _ => None };
    PktSpec { marker: rng.chance(1, 3), pt: rng.below(128) as u8, seq, ts: rng.next() as u32, ssrc,
        csrcs: (0..cc).map(|_| rng.next() as u32).collect(), ext,
        payload: if plen <= 24 { PayloadSpec::Lit(rng.bytes(plen)) } else { PayloadSpec::Gen(plen, rng.next() as u8) },
        pad: *rng.pick(&[0u8, 0, 0, 1, 2, 4, 7, 255]) }
}

fn rtcp_packet(rng: &mut Rng, ssrc: u32, len: usize) -> Vec<u8> {
    let mut b = vec![0x80 | rng.below(4) as u8, *rng.pick(&[200u8, 201, 202, 205, 206]), 0, ((len / 4).max(1) - 1) as u8];
    b.extend(ssrc.to_be_bytes());
    b.extend(rng.bytes(len.saturating_sub(8)));
    b.truncate(len.max(8));
    b
}

/// what the generator promises about a case
#[derive(Clone, Copy, PartialEq)]
enum Expect { Sync, Nothing }

/// `three`: mirror on the `webrtc-srtp` shadow (only where it can follow: no preset state, no eviction)
struct Case { ops: Vec<Op>, expect: Expect, kind: &'static str, three: bool }

/// the case kinds behind known findings mark where the KNOWN failure is expected (`resume_from` = first op
/// after the idle time); anything failing before that point gets the unlisted `:warmup` signature
thread_local! { static RESUME_FROM: std::cell::Cell<usize> = std::cell::Cell::new(usize::MAX); }
fn kind_at(kind: &'static str, i: usize) -> String {
    if kind == "tx-evicted" || kind == "rx-evicted" {
        if i >= RESUME_FROM.with(|r| r.get()) { format!("{kind}:resume") } else { format!("{kind}:warmup") }
    } else { kind.to_string() }
}

/// `truth[slot]` = the sender's true 48-bit index of the RTP packet in that slot, reconstructed from
/// the script alone (never from the implementation): per (session, SSRC) the first packet has index
/// `seq`, every later one is the index with that sequence number nearest to the highest index sent so far
/// (the generators of `Sync` cases send forward in steps below 2^15 and retransmit older packets).
fn truth_from_ops(ops: &[Op]) -> Vec<Option<u64>> {
    let mut last: std::collections::BTreeMap<(usize, u32), u64> = Default::default();
    let mut truth = vec![];
    for op in ops {
        match op {
            Op::ProtectRtp(s, p) => {
                let k = (*s, p.ssrc);
                // RFC 3711 sender: the index with this sequence number NEAREST to the highest index sent so far
                // (forward steps and retransmissions of older packets alike; |distance| < 2^15)
                let idx = match last.get(&k) {
                    None => p.seq as u64,
                    Some(hi) => {
                        let fwd = (p.seq.wrapping_sub(*hi as u16)) as u64;          // 0..65535 ahead
                        if fwd < 32768 { hi + fwd } else { (hi + fwd).saturating_sub(65536) }
                    }
                };
                let hi = last.get(&k).map_or(idx, |h| (*h).max(idx));
                last.insert(k, hi);
                truth.push(Some(idx));
            }
            Op::ProtectRtcp(..) | Op::ExtRtcp(..) => truth.push(None),
            Op::ExtRtp(_, roc, p) => truth.push(Some(((*roc as u64) << 16) | p.seq as u64)),
            Op::SetState(s, true, ssrc, roc, Some(l), _) => { last.insert((*s, *ssrc), ((*roc as u64) << 16) | *l as u64); }
            _ => {}
        }
    }
    truth
}

const WINDOW: i64 = 32767;

fn emit(run: &mut Run, stream: &str, c: &Case) {
    let three = c.three;
    let sync = c.expect == Expect::Sync;
    let mut w = World::new(three);
    let truth = truth_from_ops(&c.ops);
    let input = script_text(&c.ops);
    let case = format!("{stream} {input}");
    let mut res: Vec<Res> = vec![];
    // receiver-side bookkeeping per (session, ssrc): highest true index delivered so far (RFC 3711 s_l),
    // and the index of the last packet the reference accepted (webrtc-srtp tracks the *last* packet, not the highest)
    let mut high: std::collections::BTreeMap<(usize, u32), u64> = Default::default();
    let mut ref_last: std::collections::BTreeMap<(usize, u32), u64> = Default::default();
    let mut sent_rtcp: std::collections::BTreeMap<(usize, u32), u32> = Default::default();
    let mut tx_high: std::collections::BTreeMap<(usize, u32), u64> = Default::default();
    for (i, op) in c.ops.iter().enumerate() {
        // decide expectation / mirroring before executing
        let mut expect_ok = false;
        let mut mirror = three;
        let mut key = None;
        if let Op::UnprotectRtp(s, Src::Slot(k)) = op {
            if let (Some(Some(idx)), Some(Some(p))) = (truth.get(*k), w.slot_pkt.get(*k)) {
                let kk = (*s, p.header.ssrc);
                expect_ok = sync && match high.get(&kk) { None => *idx < 65536, Some(h) => (*h as i64 - *idx as i64).abs() <= WINDOW };
                // the reference is consulted only where BOTH algorithms are inside their window
                mirror = three && expect_ok && match ref_last.get(&kk) { None => *idx < 65536, Some(h) => (*h as i64 - *idx as i64).abs() <= WINDOW };
                key = Some((kk, *idx));
            } else { mirror = false; }
        } else if let Op::UnprotectRtp(..) = op { mirror = false; }
        if let Op::ProtectRtp(s, spec) = op {
            // webrtc-srtp's sender tracks the LAST packet it protected and mis-estimates a retransmission across a
            // wrap, so retransmissions are compared with the RFC-text sender (ref3711) only
            if let Some(Some(idx)) = truth.get(w.slots.len()) {
                let h = tx_high.entry((*s, spec.ssrc)).or_insert(*idx);
                if *idx < *h { mirror = false; run.count("retransmissions_protected"); } else { *h = *idx; }
            }
        }
        let r = w.exec(op, mirror);
        if let (Some((kk, idx)), true) = (key, r.is_ok()) {
            let h = high.entry(kk).or_insert(idx); *h = (*h).max(idx);
            if mirror { ref_last.insert(kk, idx); }
        }
        if key.is_some() && !mirror && three { run.count("ref_skipped_outside_its_window"); }
        if let Op::SetState(s, false, ssrc, roc, Some(l), _) = op { high.insert((*s, *ssrc), ((*roc as u64) << 16) | *l as u64); }
        if let Op::SetState(s, true, ssrc, _, _, idx) = op { sent_rtcp.insert((*s, *ssrc), *idx); }
        match (op, &r) {
            (Op::ProtectRtp(s, spec), Res::Bytes(b)) => {
                run.count(&format!("protect_rtp:{}", w.prof[*s]));
                run.count(&format!("payload_len:{}", size_class(spec.payload.bytes().len())));
                // protected_len formula
                let p = spec.packet();
                let want = hook::header_encoded_len(&p.header) + p.payload.len() + p.padding_len as usize + tag_len(&w.prof[*s]);
                if b.len() != want { run.fail(&format!("len:protected-rtp-length:{}", w.prof[*s]), &case, &format!("op {i}: {} != {want}", b.len())); }
                // second independent sender (RFC 3711 / 7714 from the text), under the sender's true ROC
                if let (true, Some(Some(idx))) = (sync, truth.get(w.slots.len() - 1)) {
                    let k = &w.keys[*s];
                    let r = ref3711::protect_rtp(&w.prof[*s], &k.0, &k.1, w.slot_plain.last().unwrap(), (*idx >> 16) as u32);
                    run.count("ref3711_rtp_compared");
                    if r[..] != b[..] { run.fail(&format!("interop:ref3711-rtp-protect-bytes-differ:{}:{}", w.prof[*s], kind_at(c.kind, i)), &case, &format!("op {i}: ours {} rfc {}", hex(b), hex(&r))); }
                }
            }
            (Op::ProtectRtp(s, _), Res::Err(e)) => {
                run.count(&format!("protect_rtp_err:{e}"));
                if sync { run.fail(&format!("roundtrip:protect-rtp-failed:{}:{}", w.prof[*s], c.kind), &case, &format!("op {i}: {e}")); }
            }
            (Op::UnprotectRtp(s, src), r) => {
                run.count(&format!("unprotect_rtp:{}:{}", w.prof[*s], match r { Res::Rtp(_) => "ok", Res::Err(e) => e, _ => "?" }));
                if let (Src::Slot(k), true) = (src, expect_ok) {
                    // property oracle: round trip returns exactly the original packet
                    match (r, &w.slot_pkt[*k]) {
                        (Res::Rtp(p), Some(orig)) => if p != orig {
                            run.fail(&format!("roundtrip:rtp-decoded-packet-differs:{}", w.prof[*s]), &case, &format!("op {i}: got {:?} want {:?}", p, orig)); },
                        (Res::Err(e), Some(_)) => run.fail(&format!("roundtrip:rtp-genuine-rejected:{}:{}", w.prof[*s], kind_at(c.kind, i)), &case, &format!("op {i}: {e}")),
                        _ => {}
                    }
                    run.count("roundtrip_rtp_checked");
                }
            }
            (Op::ProtectRtcp(s, _), Res::Bytes(b)) => {
                run.count(&format!("protect_rtcp:{}", w.prof[*s]));
                let want = w.slot_plain.last().unwrap().len() + 4 + rtcp_tag_len(&w.prof[*s]);
                if b.len() != want { run.fail(&format!("len:protected-rtcp-length:{}", w.prof[*s]), &case, &format!("op {i}: {} != {want}", b.len())); }
                if sync {
                    let plain = w.slot_plain.last().unwrap();
                    let ssrc = u32::from_be_bytes([plain[4], plain[5], plain[6], plain[7]]);
                    // the SRTCP index the sender MUST use: one more than for its previous SRTCP packet of this SSRC
                    // (counted from the script, not read from the implementation; presets count as the start)
                    let e = sent_rtcp.entry((*s, ssrc)).or_insert(0u32);
                    *e = e.wrapping_add(1);
                    let want_index = *e;
                    {
                        let k = &w.keys[*s];
                        // E = 1 for the encrypting profiles, E = 0 (clear) for the NULL cipher
                        let r = ref3711::protect_rtcp(&w.prof[*s], &k.0, &k.1, plain, want_index, w.prof[*s] != "null");
                        run.count("ref3711_rtcp_compared");
                        if r[..] != b[..] { run.fail(&format!("interop:ref3711-rtcp-protect-bytes-differ:{}:{}", w.prof[*s], c.kind), &case, &format!("op {i}: ours {} rfc {}", hex(b), hex(&r))); }
                    }
                }
            }
            (Op::UnprotectRtcp(s, src), r) => {
                run.count(&format!("unprotect_rtcp:{}:{}", w.prof[*s], match r { Res::Rtcp(_) => "ok", Res::Err(e) => e, _ => "?" }));
                if let (Src::Slot(k), Expect::Sync) = (src, c.expect) {
                    match r {
                        Res::Rtcp(b) => if b[..] != w.slot_plain[*k][..] {
                            run.fail(&format!("roundtrip:rtcp-decoded-packet-differs:{}", w.prof[*s]), &case, &format!("op {i}: got {} want {}", hex(b), hex(&w.slot_plain[*k]))); },
                        Res::Err(e) => run.fail(&format!("roundtrip:rtcp-genuine-rejected:{}", w.prof[*s]), &case, &format!("op {i}: {e}")),
                        _ => {}
                    }
                    run.count("roundtrip_rtcp_checked");
                }
            }
            _ => {}
        }
        res.push(r);
    }
    let nontrivial = res.iter().any(|r| matches!(r, Res::Rtp(_) | Res::Rtcp(_)));
    run.case(stream, &input, &results_text(&res), nontrivial);
    run.count(&format!("case_kind:{}", c.kind));
    let mut seen = std::collections::BTreeSet::new();
    for (sig, detail) in &w.interop { if seen.insert(sig.clone()) { run.fail(sig, &case, detail); } }
    if three { run.count("three_way_cases"); }
    run.count(if sync { "cases_with_roundtrip_expectation" } else { "cases_model_only" });
}

fn size_class(n: usize) -> &'static str {
    match n { 0 => "0", 1..=15 => "1-15", 16 => "16", 17..=99 => "17-99", 100..=999 => "100-999", _ => "1000+" }
}

fn new_pair(rng: &mut Rng, i: usize, prof: &str) -> Vec<Op> {
    let (mk, ms) = keys(rng, i, prof);
    // session 0 = sender, session 1 = receiver. The two directions use DIFFERENT keying material
    // (sender.tx = receiver.rx ≠ sender.rx = receiver.tx), so a tx/rx mix-up inside SrtpSession shows.
    let (bk, bs) = (mk.iter().map(|x| x ^ 0x5a).collect::<Vec<u8>>(), ms.iter().map(|x| x ^ 0xa5).collect::<Vec<u8>>());
    vec![Op::New(prof.into(), mk.clone(), ms.clone(), bk.clone(), bs.clone()), Op::New(prof.into(), bk, bs, mk, ms)]
}

/// header shapes × payload sizes × profiles × keys: one RTP packet, one RTCP packet
fn shape_cases(run: &mut Run, rng: &mut Rng, thorough: bool) {
    let sizes: Vec<usize> = if thorough { vec![0, 1, 2, 15, 16, 17, 31, 32, 33, 47, 48, 49, 63, 64, 65, 100, 255, 256, 257, 500, 1000, 1199, 1200, 1400, 1460] }
        else { vec![0, 1, 15, 16, 17, 32, 33, 100, 257, 1200, 1400] };
    let reps = if thorough { 6 } else { 2 };
    for (pi, prof) in PROFILES.iter().enumerate() {
        for (si, &size) in sizes.iter().enumerate() {
            for rep in 0..reps {
                let mut ops = new_pair(rng, pi + si + rep, prof);
                let r0_ = rng.next();
                let seq = *rng.pick(&[0u16, 1, 0x7fff, 0x8000, 0xffff, r0_ as u16]);
                let r0_ = rng.next();
                let ssrc = *rng.pick(&[0u32, 1, 0xdead_beef, u32::MAX, r0_ as u32]);
                ops.push(Op::ProtectRtp(0, shape(rng, seq, ssrc, size)));
                ops.push(Op::UnprotectRtp(1, Src::Slot(0)));
                let rl = *rng.pick(&[8usize, 9, 12, 24, 25, 28, 100]).max(&(size.min(1400) / 4 * 4).max(8));
                ops.push(Op::ProtectRtcp(0, Src::Lit(rtcp_packet(rng, ssrc, rl))));
                ops.push(Op::UnprotectRtcp(1, Src::Slot(1)));
                ops.push(Op::Snap(0)); ops.push(Op::Snap(1));
                emit(run, "sess", &Case { ops, expect: Expect::Sync, kind: "shape", three: true });
            }
        }
    }
}

/// send histories with several rollovers, loss (gaps), reordering, several SSRCs. The sender always
/// moves forward in steps below 2^15; the generator aims to keep every delivery within ±(2^15−1) of the
/// receiver's highest index (the oracle in `emit` re-derives which deliveries really are).
fn history_case(rng: &mut Rng, i: usize, prof: &str) -> Case {
    let mut ops = new_pair(rng, i, prof);
    let nssrc = *rng.pick(&[1usize, 1, 2, 3]);
    let hi = rng.next() as u32 & 0xff00_0000;
    let ssrcs: Vec<u32> = (0..nssrc).map(|k| 0x1000 + k as u32 * 7 + hi).collect();
    let mut idx: Vec<u64> = vec![];
    for _ in 0..nssrc { let r = rng.below(65536); idx.push(*rng.pick(&[0u64, 1, 0x7fff, 0x8000, 0xfff0, 0xffff, r])); }
    let n = rng.range(8, 40) as usize;
    let mut slot = 0usize;
    let mut pending: Vec<(usize, usize, u64)> = vec![];   // (slot, ssrc index, true index) held back for reordering
    let mut high: Vec<Option<u64>> = vec![None; nssrc];
    let mut sent_specs: Vec<(usize, u64, PktSpec)> = vec![];
    for _ in 0..n {
        let k = rng.below(nssrc as u64) as usize;
        let plen = *rng.pick(&[0usize, 1, 3, 16, 20, 40, 160, 700, 1200]);
        let spec = shape(rng, (idx[k] & 0xffff) as u16, ssrcs[k], plen);
        sent_specs.push((k, idx[k], spec.clone()));
        ops.push(Op::ProtectRtp(0, spec));
        let me = (slot, k, idx[k]);
        slot += 1;
        // retransmission (NACK "clone-resend"): the sender protects an OLDER packet of this stream again — it must
        // come out under the rollover counter it had the first time, also across a wrap — and it is delivered
        if rng.chance(1, 5) {
            let cands: Vec<(usize, u64, PktSpec)> = sent_specs.iter().filter(|(kk, i0, _)| *kk == k && *i0 < idx[k] && idx[k] - *i0 < 30000).cloned().collect();
            if !cands.is_empty() {
                let (_, i0, sp) = rng.pick(&cands).clone();
                ops.push(Op::ProtectRtp(0, sp));
                if high[k].map_or(false, |h| (h as i64 - i0 as i64).abs() < 30000) { ops.push(Op::UnprotectRtp(1, Src::Slot(slot))); }
                slot += 1;
            }
        }
        let mut deliver = vec![];
        match rng.below(10) {
            0 => {}                                                    // lost
            1 | 2 if high[k].is_some() => pending.push(me),            // delayed
            _ => deliver.push(me),
        }
        let mut keep = vec![];
        for p in pending.drain(..) {
            let late = high[p.1].map_or(false, |h| h as i64 - p.2 as i64 > 32767 - 26000);
            if late || rng.chance(1, 3) { deliver.push(p); } else { keep.push(p); }
        }
        pending = keep;
        for p in deliver {
            if rng.chance(1, 12) { ops.push(Op::UnprotectRtp(1, Src::Slot(p.0))); }   // duplicate delivery
            ops.push(Op::UnprotectRtp(1, Src::Slot(p.0)));
            high[p.1] = Some(high[p.1].map_or(p.2, |h| h.max(p.2)));
        }
        // sender advance (always forward, < 2^15); stay where the receiver can follow
        let step = *rng.pick(&[1u64, 1, 1, 2, 3, 100, 5000, 20000, 25000, 32767]);
        let mut next = idx[k] + step;
        match high[k] {
            Some(h) => if next > h + 32767 { next = (idx[k] + 1).max((h + 1 + rng.below(32767)).min(idx[k] + 32767)); },
            None => if next >= 65536 { next = idx[k] + 1; },
        }
        idx[k] = next;
        if rng.chance(1, 6) {
            let l = *rng.pick(&[8usize, 12, 28, 60]);
            ops.push(Op::ProtectRtcp(0, Src::Lit(rtcp_packet(rng, ssrcs[k], l))));
            slot += 1;
            if rng.chance(4, 5) { ops.push(Op::UnprotectRtcp(1, Src::Slot(slot - 1))); }
        }
        if rng.chance(1, 8) { ops.push(Op::Tick(rng.range(1, 30))); }
    }
    ops.push(Op::Snap(0)); ops.push(Op::Snap(1));
    Case { ops, expect: Expect::Sync, kind: "history", three: true }
}

/// directed boundary histories: first packet at 0xFFFF then wrap; distance exactly 32767 both ways;
/// reordering across the wrap
fn boundary_cases(run: &mut Run, rng: &mut Rng) {
    for (pi, prof) in PROFILES.iter().enumerate() {
        let hist: Vec<Vec<u64>> = vec![
            vec![0xffff, 0x10000, 0x10001],
            vec![0xffff, 0x10001, 0x10000, 0xfffe],
            vec![0, 32767, 65534, 65534 + 32767, 65534 + 2 * 32767, 65534 + 3 * 32767],
            vec![40000, 40000 + 32767, 40000, 40000 + 32767 + 32767, 40000 + 32767],
            vec![65535, 65536 + 32766, 65535 + 1, 65536 + 65533, 2 * 65536 + 5, 65536 + 65535 - 32000],
            vec![100, 99, 101, 50, 32866, 100 + 65535 - 32769],
        ];
        // retransmission across a wrap: 65534 delivered, 65535 lost, 0 and 1 delivered (ROC 1), then the sender
        // protects 65535 AGAIN (must be the ROC-0 packet, byte-identical) and it is delivered
        {
            let mut ops = new_pair(rng, pi, prof);
            let mk = |seq: u16| PktSpec::simple(seq, 78, vec![seq as u8, 4, 4]);
            for (seq, deliver) in [(65534u16, true), (65535, false), (0, true), (1, true), (65535, true), (2, true)] {
                ops.push(Op::ProtectRtp(0, mk(seq)));
                let slot = ops.iter().filter(|o| matches!(o, Op::ProtectRtp(..))).count() - 1;
                if deliver { ops.push(Op::UnprotectRtp(1, Src::Slot(slot))); }
            }
            ops.push(Op::Snap(0)); ops.push(Op::Snap(1));
            emit(run, "sess", &Case { ops, expect: Expect::Sync, kind: "retransmission", three: true });
        }
        for (hi, h) in hist.iter().enumerate() {
            let mut ops = new_pair(rng, pi + hi, prof);
            // the sender walks the sorted distinct indices (its own estimate needs increasing steps < 2^15)
            let mut order: Vec<u64> = h.clone(); order.sort(); order.dedup();
            for i in &order { ops.push(Op::ProtectRtp(0, PktSpec::simple((*i & 0xffff) as u16, 77, vec![*i as u8, 2, 3]))); }
            for i in h { let k = order.iter().position(|x| x == i).unwrap(); ops.push(Op::UnprotectRtp(1, Src::Slot(k))); }
            ops.push(Op::Snap(0)); ops.push(Op::Snap(1));
            emit(run, "sess", &Case { ops, expect: Expect::Sync, kind: "boundary", three: true });
        }
    }
}


/// Packets only ANOTHER implementation would emit (the independent `ref3711` sender holding the
/// receiver's rx keys): SRTCP with the E flag clear, large SRTCP indices, explicit rollover counters,
/// the NULL-cipher profile. rustrtc must accept and decode every one of them to the original.
fn ext_cases(run: &mut Run, rng: &mut Rng, thorough: bool) {
    let reps = if thorough { 12 } else { 3 };
    for (pi, prof) in PROFILES.iter().enumerate() {
        for rep in 0..reps {
            let mut ops = new_pair(rng, pi + rep, prof);
            let ssrc = rng.next() as u32;
            let mut slot = 0;
            // RTP: a stream walking over rollovers, the sender tells its ROC explicitly
            let mut idx: u64 = *rng.pick(&[0u64, 65530, 40000]);
            for _ in 0..rng.range(3, 8) {
                let pl = rng.below(40) as usize;
                ops.push(Op::ExtRtp(0, (idx >> 16) as u32, shape(rng, (idx & 0xffff) as u16, ssrc, pl)));
                ops.push(Op::UnprotectRtp(1, Src::Slot(slot))); slot += 1;
                idx += *rng.pick(&[1u64, 7, 3000, 30000, 32767]);
            }
            // RTCP: E = 1 and E = 0 (GCM: E = 1 only — RFC 7714's unencrypted form is a different construction), any index
            for index in [1u32, 2, 0xffff, 0x10000, 0x10001, 0x00ab_cdef, 0x7fff_fffe, 0x7fff_ffff, rng.next() as u32 & 0x7fff_ffff] {
                let l = *rng.pick(&[8usize, 12, 28, 60]);
                let e = *prof == "gcm" || rng.chance(1, 2);
                ops.push(Op::ExtRtcp(0, e, index, rtcp_packet(rng, ssrc, l)));
                ops.push(Op::UnprotectRtcp(1, Src::Slot(slot))); slot += 1;
            }
            ops.push(Op::Snap(1));
            emit(run, "sess", &Case { ops, expect: Expect::Sync, kind: "foreign-sender", three: *prof != "gcm" });
        }
    }
}

/// rustrtc as sender with preset large SRTCP indices / rollover counters (reached through the hook,
/// not by sending 2^31 packets): bytes must equal the independent sender's, the receiver must follow.
fn bigstate_cases(run: &mut Run, rng: &mut Rng, thorough: bool) {
    let reps = if thorough { 8 } else { 2 };
    for (pi, prof) in PROFILES.iter().enumerate() {
        for rep in 0..reps {
            for (roc, idx) in [(0u32, 0xfffeu32), (1, 0xffff), (0xffff, 0x00ff_ffff), (0x7fff_ffff, 0x3fff_ffff), (0xffff_fff0, 0x7fff_fff0)] {
                let mut ops = new_pair(rng, pi + rep, prof);
                let ssrc = 0x4000 + rep as u32;
                let seq0 = *rng.pick(&[5u16, 40000, 65530]);
                // create both contexts with one packet each way, then preset their state
                ops.push(Op::ProtectRtp(0, PktSpec::simple(seq0, ssrc, vec![1]))); ops.push(Op::UnprotectRtp(1, Src::Slot(0)));
                ops.push(Op::ProtectRtcp(0, Src::Lit(rtcp_packet(rng, ssrc, 12)))); ops.push(Op::UnprotectRtcp(1, Src::Slot(1)));
                ops.push(Op::SetState(0, true, ssrc, roc, Some(seq0), idx));
                ops.push(Op::SetState(1, false, ssrc, roc, Some(seq0), idx.saturating_sub(3)));
                let mut slot = 2;
                let mut seq = seq0;
                for _ in 0..4 {
                    seq = seq.wrapping_add(*rng.pick(&[1u16, 20000, 32767]));
                    ops.push(Op::ProtectRtp(0, shape(rng, seq, ssrc, 9))); ops.push(Op::UnprotectRtp(1, Src::Slot(slot))); slot += 1;
                    ops.push(Op::ProtectRtcp(0, Src::Lit(rtcp_packet(rng, ssrc, 16)))); ops.push(Op::UnprotectRtcp(1, Src::Slot(slot))); slot += 1;
                }
                ops.push(Op::Snap(0)); ops.push(Op::Snap(1));
                emit(run, "sess", &Case { ops, expect: Expect::Sync, kind: "preset-state", three: false });
            }
        }
    }
}

/// MORE THAN 32 SSRCs with idle time (KNOWN FINDING, see known_findings.d/C04.json): stream G reaches
/// ROC 1, 33 other streams exist, 61 s pass.
/// `tx-evicted`: the sender first protects a packet of another stream (its idle tx context of G is evicted and
///   with it the rollover counter), then resumes G — the receiver, which still holds ROC 1, rejects it.
/// `rx-evicted`: the receiver first accepts a packet of another stream (evicts its context of G), then G resumes.
/// `keep-tx`: G resumes FIRST after the idle time — `keep_ssrc` must save its context on both sides.
fn many_ssrc_cases(run: &mut Run, rng: &mut Rng) {
    for (pi, prof) in PROFILES.iter().enumerate() {
        for kind in ["tx-evicted", "rx-evicted", "keep-ssrc"] {
            let mut ops = new_pair(rng, pi, prof);
            let g = 0x0a0b_0c0du32;
            let mut slot = 0;
            for k in 0..33u32 { ops.push(Op::ProtectRtp(0, PktSpec::simple(5, 0x2000 + k, vec![1, 2, 3]))); ops.push(Op::UnprotectRtp(1, Src::Slot(slot))); slot += 1; }
            for seq in [65000u16, 65500, 100, 200] { ops.push(Op::ProtectRtp(0, PktSpec::simple(seq, g, vec![seq as u8, 2]))); ops.push(Op::UnprotectRtp(1, Src::Slot(slot))); slot += 1; }
            ops.push(Op::Snap(0)); ops.push(Op::Snap(1));
            ops.push(Op::Tick(61));
            let resume_from = ops.len() - 1;
            match kind {
                "tx-evicted" => { ops.push(Op::ProtectRtp(0, PktSpec::simple(6, 0x2000, vec![9]))); slot += 1; }             // lost on the way
                "rx-evicted" => {
                    // only the receiver's context of G is that old: the sender used G 30 s ago (packet lost)
                    ops.pop(); ops.push(Op::Tick(31)); ops.push(Op::ProtectRtp(0, PktSpec::simple(250, g, vec![8]))); slot += 1; ops.push(Op::Tick(30));
                    ops.push(Op::ProtectRtp(0, PktSpec::simple(6, 0x2000, vec![9]))); ops.push(Op::UnprotectRtp(1, Src::Slot(slot))); slot += 1;
                }
                _ => {}
            }
            for seq in [300u16, 301] { ops.push(Op::ProtectRtp(0, PktSpec::simple(seq, g, vec![seq as u8, 7]))); ops.push(Op::UnprotectRtp(1, Src::Slot(slot))); slot += 1; }
            ops.push(Op::Snap(0)); ops.push(Op::Snap(1));
            let kind: &'static str = match kind { "tx-evicted" => "tx-evicted", "rx-evicted" => "rx-evicted", _ => "keep-ssrc" };
            RESUME_FROM.with(|r| r.set(resume_from));
            emit(run, "sess", &Case { ops, expect: Expect::Sync, kind, three: false });
            RESUME_FROM.with(|r| r.set(usize::MAX));
        }
    }
}



/// MORE THAN 32 SSRCs where the stream under test stays ACTIVE (positive expectation, nothing known):
/// `active-stream`      G (ROC 1) and 33 other streams all send every 25 s for 100 s — every
///                      G packet must be accepted (a context that is in use is never "idle", whatever its age);
/// `active-stream-rtcp` G's media is muted but its SRTCP keeps flowing every 25 s; media resumes after 100 s;
/// `keep-ssrc-rtcp`     G idles 61 s and resumes with an RTCP packet BEFORE its media (the exemption of the
///                      SSRC being processed must hold on the RTCP paths too, on both sides).
fn active_stream_cases(run: &mut Run, rng: &mut Rng) {
    for (pi, prof) in PROFILES.iter().enumerate() {
        for kind in ["active-stream", "active-stream-rtcp", "keep-ssrc-rtcp"] {
            let mut ops = new_pair(rng, pi, prof);
            let g = 0x0a0b_0c0du32;
            let mut slot = 0;
            for k in 0..33u32 { ops.push(Op::ProtectRtp(0, PktSpec::simple(5, 0x2000 + k, vec![1, 2, 3]))); ops.push(Op::UnprotectRtp(1, Src::Slot(slot))); slot += 1; }
            for seq in [65000u16, 65500, 100, 200] { ops.push(Op::ProtectRtp(0, PktSpec::simple(seq, g, vec![seq as u8, 2]))); ops.push(Op::UnprotectRtp(1, Src::Slot(slot))); slot += 1; }
            ops.push(Op::ProtectRtcp(0, Src::Lit(rtcp_packet(rng, g, 12)))); ops.push(Op::UnprotectRtcp(1, Src::Slot(slot))); slot += 1;
            let mut seq = 200u16;
            if kind == "keep-ssrc-rtcp" {
                ops.push(Op::Tick(61));
                ops.push(Op::ProtectRtcp(0, Src::Lit(rtcp_packet(rng, g, 16)))); ops.push(Op::UnprotectRtcp(1, Src::Slot(slot))); slot += 1;
            } else {
                // three rounds, 25 s apart: ALL other streams send first (they stay alive, the tables stay above the
                // high-water mark, and their packets run the idle eviction on both sides), then G
                for round in 0..3u16 {
                    ops.push(Op::Tick(25));
                    for k in 0..33u32 { ops.push(Op::ProtectRtp(0, PktSpec::simple(6 + round, 0x2000 + k, vec![9]))); ops.push(Op::UnprotectRtp(1, Src::Slot(slot))); slot += 1; }
                    if kind == "active-stream" {
                        seq += 10;
                        ops.push(Op::ProtectRtp(0, PktSpec::simple(seq, g, vec![seq as u8, 3]))); ops.push(Op::UnprotectRtp(1, Src::Slot(slot))); slot += 1;
                    } else {
                        ops.push(Op::ProtectRtcp(0, Src::Lit(rtcp_packet(rng, g, 12)))); ops.push(Op::UnprotectRtcp(1, Src::Slot(slot))); slot += 1;
                    }
                }
                ops.push(Op::Tick(25));
                for k in 0..33u32 { ops.push(Op::ProtectRtp(0, PktSpec::simple(20, 0x2000 + k, vec![9]))); ops.push(Op::UnprotectRtp(1, Src::Slot(slot))); slot += 1; }
            }
            for d in [100u16, 101] { ops.push(Op::ProtectRtp(0, PktSpec::simple(seq + d, g, vec![d as u8, 7]))); ops.push(Op::UnprotectRtp(1, Src::Slot(slot))); slot += 1; }
            ops.push(Op::ProtectRtcp(0, Src::Lit(rtcp_packet(rng, g, 12)))); ops.push(Op::UnprotectRtcp(1, Src::Slot(slot)));
            ops.push(Op::Snap(0)); ops.push(Op::Snap(1));
            let kind: &'static str = match kind { "active-stream" => "active-stream", "active-stream-rtcp" => "active-stream-rtcp", _ => "keep-ssrc-rtcp" };
            emit(run, "sess", &Case { ops, expect: Expect::Sync, kind, three: false });
        }
    }
}


/// EXACTLY AT the high-water mark (32 contexts: 31 streams + G at ROC 1, everything 61 s idle) nothing may be
/// evicted: `at-watermark-tx` the sender uses another stream first, `at-watermark-rx` a NEW (33rd) stream
/// arrives first (the receiver runs the eviction before it inserts the new context) — G then resumes.
/// And just above it (33 contexts) with G resuming first (`keep-ssrc-33`).
fn watermark_cases(run: &mut Run, rng: &mut Rng) {
    for (pi, prof) in PROFILES.iter().enumerate() {
        for kind in ["at-watermark-tx", "at-watermark-rx", "keep-ssrc-33"] {
            let others = if kind == "keep-ssrc-33" { 32u32 } else { 31 };
            let mut ops = new_pair(rng, pi, prof);
            let g = 0x0a0b_0c0du32;
            let mut slot = 0;
            for k in 0..others { ops.push(Op::ProtectRtp(0, PktSpec::simple(5, 0x2000 + k, vec![1, 2, 3]))); ops.push(Op::UnprotectRtp(1, Src::Slot(slot))); slot += 1; }
            for seq in [65000u16, 65500, 100, 200] { ops.push(Op::ProtectRtp(0, PktSpec::simple(seq, g, vec![seq as u8, 2]))); ops.push(Op::UnprotectRtp(1, Src::Slot(slot))); slot += 1; }
            ops.push(Op::Tick(61));
            match kind {
                "at-watermark-tx" => { ops.push(Op::ProtectRtp(0, PktSpec::simple(6, 0x2000, vec![9]))); ops.push(Op::UnprotectRtp(1, Src::Slot(slot))); slot += 1; }
                "at-watermark-rx" => { ops.push(Op::ExtRtp(0, 0, PktSpec::simple(1, 0x7777, vec![9]))); ops.push(Op::UnprotectRtp(1, Src::Slot(slot))); slot += 1; }
                _ => {}
            }
            for seq in [300u16, 301] { ops.push(Op::ProtectRtp(0, PktSpec::simple(seq, g, vec![seq as u8, 7]))); ops.push(Op::UnprotectRtp(1, Src::Slot(slot))); slot += 1; }
            ops.push(Op::Snap(0)); ops.push(Op::Snap(1));
            let kind: &'static str = match kind { "at-watermark-tx" => "at-watermark-tx", "at-watermark-rx" => "at-watermark-rx", _ => "keep-ssrc-33" };
            emit(run, "sess", &Case { ops, expect: Expect::Sync, kind, three: false });
        }
    }
}

/// The cap's `live` count on MIXED tables: 1024 contexts of which `k` are 61 s idle and the rest 31 s —
/// fewer than the cap are live, so the first packet (RTP, or RTCP) of a new stream must be accepted.
fn cap_mixed_cases(run: &mut Run, rng: &mut Rng) {
    for (pi, prof) in PROFILES.iter().enumerate() {
        let k = [1u32, 1, 512, 1][pi];
        let mut ops = new_pair(rng, pi, prof);
        ops.push(Op::Fill(0, 1, 0x5000, k));
        ops.push(Op::Tick(30));
        ops.push(Op::Fill(0, 1, 0x5000 + k, 1024 - k));
        ops.push(Op::Tick(31));
        let rtcp_first = pi % 2 == 1;
        if rtcp_first { ops.push(Op::ProtectRtcp(0, Src::Lit(rtcp_packet(rng, 0x9000, 12)))); ops.push(Op::UnprotectRtcp(1, Src::Slot(0))); }
        else { ops.push(Op::ProtectRtp(0, PktSpec::simple(1, 0x9000, vec![1, 2]))); ops.push(Op::UnprotectRtp(1, Src::Slot(0))); }
        ops.push(Op::ProtectRtp(0, PktSpec::simple(2, 0x9000, vec![3]))); ops.push(Op::UnprotectRtp(1, Src::Slot(1)));
        emit(run, "sess", &Case { ops, expect: Expect::Sync, kind: "cap-mixed-table", three: false });
    }
}

/// Around the `MAX_RX_CONTEXTS` cap (a deliberate memory bound, C07): 1023 streams fill the receiver; the
/// 1024th SSRC must be accepted, known SSRCs keep working, and once the others have idled out a new SSRC
/// gets in again (a known or the new stream arriving first). The 1025th live stream — RTP or RTCP — is
/// REFUSED by the current code: C04 ("any number of SSRCs") expects it to be accepted, so that refusal is
/// reported as `roundtrip:{rtp,rtcp}-genuine-rejected:<profile>:rx-cap` = KNOWN FINDING (`rx_cap_witness`).
/// Likewise the SENDER refuses to protect a 1025th live outgoing stream (`MAX_TX_CONTEXTS`):
/// `roundtrip:protect-{rtp,rtcp}-failed:<profile>:tx-cap` = KNOWN FINDING (`tx_cap_witness`).
fn cap_cases(run: &mut Run, rng: &mut Rng) {
    const CAP: u32 = 1024;
    for (pi, prof) in PROFILES.iter().enumerate() {
        for new_first in [false, true] {
            let mut ops = new_pair(rng, pi, prof);
            // session 2: a second sender holding the same keys as session 0 (whose own transmit table is full
            // after 1024 streams — `MAX_TX_CONTEXTS`); it carries the streams that probe the RECEIVER's cap
            let second = ops[0].clone();
            ops.push(second);
            let (a, b, c) = (0x9000u32, 0x9001u32, 0x9002u32);
            ops.push(Op::Fill(0, 1, 0x5000, CAP - 1));
            let mut want: Vec<(usize, bool, &'static str)> = vec![];     // (op index, accepted?, what)
            let mut slot = 0;
            let rtp = |ops: &mut Vec<Op>, want: &mut Vec<(usize, bool, &'static str)>, slot: &mut usize, ssrc: u32, seq: u16, ok: bool, what: &'static str| {
                ops.push(Op::ProtectRtp(if ssrc == 0x9000 { 0 } else { 2 }, PktSpec::simple(seq, ssrc, vec![seq as u8, 1])));
                ops.push(Op::UnprotectRtp(1, Src::Slot(*slot))); *slot += 1;
                want.push((ops.len() - 1, ok, what));
            };
            rtp(&mut ops, &mut want, &mut slot, a, 1, true, "ssrc-number-cap-refused");
            rtp(&mut ops, &mut want, &mut slot, b, 1, true, "RXCAP-RTP");
            rtp(&mut ops, &mut want, &mut slot, a, 2, true, "known-ssrc-refused-at-cap");
            ops.push(Op::ProtectRtcp(2, Src::Lit(rtcp_packet(rng, c, 12)))); ops.push(Op::UnprotectRtcp(1, Src::Slot(slot))); slot += 1;
            want.push((ops.len() - 1, true, "RXCAP-RTCP"));
            // the SENDER's cap: session 0 now holds 1024 live transmit contexts; a 1025th outgoing stream (RTP, RTCP)
            ops.push(Op::ProtectRtp(0, PktSpec::simple(1, 0x9003, vec![1]))); slot += 1; want.push((ops.len() - 1, true, "TXCAP-RTP"));
            ops.push(Op::ProtectRtcp(0, Src::Lit(rtcp_packet(rng, 0x9004, 12)))); slot += 1; want.push((ops.len() - 1, true, "TXCAP-RTCP"));
            ops.push(Op::Tick(61));
            if new_first {
                rtp(&mut ops, &mut want, &mut slot, b, 2, true, "new-ssrc-refused-although-all-idle");
            } else {
                rtp(&mut ops, &mut want, &mut slot, a, 3, true, "known-ssrc-refused-after-idle");
                rtp(&mut ops, &mut want, &mut slot, b, 2, true, "new-ssrc-refused-after-eviction");
            }
            ops.push(Op::Snap(1));
            let (res, _) = run_script(&ops, false);
            let input = script_text(&ops);
            run.case("sessw", &input, &results_text(&res), true);
            run.count("case_kind:rx-cap");
            if res[3].text() != format!("ok{}", CAP - 1) { run.fail(&format!("cap:fill-not-accepted:{prof}"), &format!("sessw {input}"), &res[3].text()); }
            for (i, ok, what) in want {
                if res[i].is_ok() != ok {
                    let sig = match what { "RXCAP-RTP" => format!("roundtrip:rtp-genuine-rejected:{prof}:rx-cap"), "RXCAP-RTCP" => format!("roundtrip:rtcp-genuine-rejected:{prof}:rx-cap"),
                        "TXCAP-RTP" => format!("roundtrip:protect-rtp-failed:{prof}:tx-cap"), "TXCAP-RTCP" => format!("roundtrip:protect-rtcp-failed:{prof}:tx-cap"), w => format!("cap:{w}:{prof}") };
                    run.fail(&sig, &format!("sessw {input}"), &format!("op {i} {} → {}", ops[i].text(), res[i].text()));
                }
            }
            // after the idle time only the streams used since then are left
            if let Res::Snap(rx, _) = res.last().unwrap() { if rx.len() > 2 { run.fail(&format!("cap:idle-contexts-not-evicted:{prof}"), &format!("sessw {input}"), &format!("{} contexts", rx.len())); } }
        }
    }
}

/// out-of-domain / malformed stream: arbitrary jumps, replays, joining after a wrap, garbage —
/// compared with the model only
fn wild_case(rng: &mut Rng, i: usize, prof: &str) -> Case {
    let mut ops = new_pair(rng, i, prof);
    let n = rng.range(4, 25) as usize;
    let mut slots = 0usize;
    let mut rtcp_slots: Vec<usize> = vec![];
    let mut rtp_slots: Vec<usize> = vec![];
    let ssrcs = [5u32, 6, 0xffff_fff0];
    let mut seq: u16 = rng.next() as u16;
    for _ in 0..n {
        match rng.below(12) {
            0..=3 => {
                seq = match rng.below(5) { 0 => seq.wrapping_add(1), 1 => seq.wrapping_add(32768), 2 => seq.wrapping_sub(rng.range(1, 40000) as u16), 3 => seq.wrapping_add(rng.range(30000, 36000) as u16), _ => rng.next() as u16 };
                let (ss, pl) = (*rng.pick(&ssrcs), rng.below(30) as usize);
                let mut sp = shape(rng, seq, ss, pl);
                if rng.chance(1, 12) { sp.pt = 128 + rng.below(128) as u8; }
                if rng.chance(1, 15) { sp.csrcs = (0..16).map(|k| k).collect(); }
                if rng.chance(1, 15) { sp.ext = Some((1, vec![1, 2, 3])); }
                ops.push(Op::ProtectRtp(0, sp)); rtp_slots.push(slots); slots += 1;
            }
            4..=6 if !rtp_slots.is_empty() => {
                let k = *rng.pick(&rtp_slots);
                let src = match rng.below(8) {
                    0 => Src::Mutated(k, Mut::Flip(rng.below(400) as usize)),
                    1 => Src::Mutated(k, Mut::Trunc(rng.below(40) as usize)),
                    2 => Src::Mutated(k, Mut::Seq(rng.next() as u16)),
                    _ => Src::Slot(k) };
                ops.push(Op::UnprotectRtp(1, src));
            }
            7 => { let l = rng.range(0, 40) as usize; let mut b = rng.bytes(l); if l > 0 && rng.chance(2, 3) { b[0] = 0x80 | (b[0] & 0x3f); } ops.push(Op::UnprotectRtp(1, Src::Lit(b))); }
            8 => { let l = *rng.pick(&[0usize, 4, 7, 8, 9, 12, 40]); let ss = *rng.pick(&ssrcs); let b = if l < 8 { rng.bytes(l) } else { rtcp_packet(rng, ss, l) };
                   ops.push(Op::ProtectRtcp(0, Src::Lit(b))); rtcp_slots.push(slots); slots += 1; }
            9 if !rtcp_slots.is_empty() => {
                let k = *rng.pick(&rtcp_slots);
                let src = match rng.below(6) { 0 => Src::Mutated(k, Mut::Flip(rng.below(300) as usize)), 1 => Src::Mutated(k, Mut::Trunc(rng.below(30) as usize)), _ => Src::Slot(k) };
                ops.push(Op::UnprotectRtcp(1, src));
            }
            10 => { let l = rng.range(0, 40) as usize; ops.push(Op::UnprotectRtcp(1, Src::Lit(rng.bytes(l)))); }
            _ => ops.push(Op::Tick(rng.range(0, 70))),
        }
    }
    ops.push(Op::Snap(0)); ops.push(Op::Snap(1));
    Case { ops, expect: Expect::Nothing, kind: "wild", three: false }
}

/// sessions with unusable keying material (too short) and over-long keys
fn badkey_cases(run: &mut Run, rng: &mut Rng) {
    for prof in PROFILES {
        for (kl, sl) in [(15usize, 14usize), (16, salt_len(prof) - 1), (0, 0), (20, 20), (16, salt_len(prof))] {
            let (mk, ms) = (rng.bytes(kl), rng.bytes(sl));
            let ops = vec![Op::New(prof.into(), mk.clone(), ms.clone(), mk.clone(), ms.clone()),
                Op::ProtectRtp(0, PktSpec::simple(1, 9, vec![1, 2, 3])), Op::UnprotectRtp(0, Src::Slot(0)),
                Op::ProtectRtcp(0, Src::Lit(vec![0x80, 201, 0, 1, 0, 0, 0, 9])), Op::UnprotectRtcp(0, Src::Slot(1)), Op::Snap(0)];
            emit(run, "sessw", &Case { ops, expect: Expect::Nothing, kind: "badkey", three: false });
        }
    }
}

pub fn replay(case: &str) {
    let (stream, rest) = case.split_once(' ').unwrap_or((case, ""));
    match stream {
        "sess" => replay_script(rest, Expect::Sync),
        "sessw" | "forge" | "evict" => replay_script(rest, Expect::Nothing),
        "hdr" => { let mut run = Run::new("c04", &crate::scratch("c04-replay")); hdr_case(&mut run, &unhex(rest.trim())); print_fails(&run); }
        "rocrt" => {
            let f: Vec<&str> = rest.split_whitespace().collect();
            let mut run = Run::new("c04", &crate::scratch("c04-replay"));
            let mut pairs = roc_pairs();
            let pair = pairs.iter_mut().find(|p| p.prof == f[0]).unwrap();
            roc_roundtrip(&mut run, pair, f[1].parse().unwrap(), f[2].parse().unwrap(), f[3].parse().unwrap());
            println!("impl: round trip at roc {} last {} seq {} → {}", f[1], f[2], f[3], if run.fails.is_empty() { "ok" } else { "FAILED" });
            print_fails(&run);
        }
        "roc1" => {
            let f: Vec<&str> = rest.split_whitespace().collect();
            let mut c = ctx_for_roc();
            let last = if f[1] == "-" { None } else { Some(f[1].parse().unwrap()) };
            c.verif_set_state(f[0].parse().unwrap(), last, 0);
            let seq: u16 = f[2].parse().unwrap();
            let e = c.verif_estimate_roc(seq);
            c.verif_update(seq, f.get(3).map(|x| x.parse().unwrap()).unwrap_or(e));
            println!("impl: estimate {e} state {:?}", c.verif_state());
        }
        _ => if case.starts_with("n,") { replay_script(case, Expect::Sync) } else { println!("cannot replay: {case}") },
    }
}
fn print_fails(run: &Run) { for f in &run.fails { println!("ORACLE-FAIL {} {}", f.signature, f.detail); } }
fn replay_script(s: &str, expect: Expect) {
    let ops = parse_script(s);
    let mut run = Run::new("c04", &crate::scratch("c04-replay"));
    let (res, _) = run_script(&ops, false);
    println!("impl: {}", results_text(&res));
    emit(&mut run, "sess", &Case { ops, expect, kind: "replay", three: expect == Expect::Sync });
    print_fails(&run);
}

pub fn run(args: &Args) {
    if let Some(case) = &args.replay { replay(case); return; }
    let mut run = Run::new("c04", &args.out);
    let mut rng = Rng::new(args.seed);
    let t = args.tier_thorough;
    prim_cases(&mut run, &mut rng, if t { 400 } else { 60 });
    kdf_cases(&mut run, &mut rng, if t { 200 } else { 40 });
    roc_cases(&mut run, &mut rng, t);
    hdr_cases(&mut run, &mut rng, if t { 20000 } else { 3000 });
    shape_cases(&mut run, &mut rng, t);
    boundary_cases(&mut run, &mut rng);
    ext_cases(&mut run, &mut rng, t);
    bigstate_cases(&mut run, &mut rng, t);
    many_ssrc_cases(&mut run, &mut rng);
    active_stream_cases(&mut run, &mut rng);
    watermark_cases(&mut run, &mut rng);
    cap_mixed_cases(&mut run, &mut rng);
    cap_cases(&mut run, &mut rng);
    badkey_cases(&mut run, &mut rng);
    let nh = if t { 6000 } else { 700 };
    for i in 0..nh { let prof = PROFILES[i % 4]; let c = history_case(&mut rng, i, prof); emit(&mut run, "sess", &c); }
    let nw = if t { 3000 } else { 350 };
    for i in 0..nw { let prof = PROFILES[i % 4]; let c = wild_case(&mut rng, i, prof); emit(&mut run, "sessw", &c); }
    run.notes.insert("three_way".into(), serde_json::json!("shape/boundary/history cases are mirrored op by op on webrtc-srtp 0.17 contexts for cm80, cm32 and gcm (it has no NULL-cipher profile): protect bytes, unprotect results and acceptance must be equal"));
    run.notes.insert("roc".into(), serde_json::json!("rocrow: estimate and update for all 65536 sequence numbers per (roc,last) line, run-length encoded, compared with the model; the window oracle and the RFC 3711 guess oracle run on the implementation for every 2nd `last` (thorough) / every 16th (quick) + the boundary pool; real sender→receiver round trips at every change point of the estimate row and of the RFC row and at distances 0,±1,±2,±32766..±32769"));
    run.finish();
}
